(** C11 — the repaired reader over arbitrary bytes: no divergence, bounded allocation requests; witnesses for the
    reader before the repair. *)
From Coq Require Import ZifyBool ZifyNat ZifyN String.
From ZV Require Import Lib.Base Lib.Varint Generated.FormatConsts Model.Format Model.FormatRobust.
Open Scope N_scope.

(** "does not hang": not the divergence marker *)
Definition nd {A} (x : outcome A) : Prop := x <> Panic P_DIVERGE.
(** "neither panics nor hangs" *)
Definition total {A} (x : outcome A) : Prop := forall w, x <> Panic w.

Lemma nd_bind : forall {A B} (x : outcome A) (f : A -> outcome B), nd x -> (forall a, x = Ok a -> nd (f a)) -> nd (obind x f).
Proof. intros A B x f Hx Hf. destruct x as [a|e|w]; simpl; [apply Hf; reflexivity|discriminate|]. intro H. apply Hx. inversion H. reflexivity. Qed.
Lemma total_bind : forall {A B} (x : outcome A) (f : A -> outcome B), total x -> (forall a, x = Ok a -> total (f a)) -> total (obind x f).
Proof. intros A B x f Hx Hf. destruct x as [a|e|w]; simpl; [apply Hf; reflexivity|intros w; discriminate|]. exfalso. apply (Hx w). reflexivity. Qed.
Lemma total_nd : forall {A} (x : outcome A), total x -> nd x.
Proof. intros A x H. apply H. Qed.
Lemma total_ok : forall {A} (a : A), total (Ok a). Proof. intros A a w; discriminate. Qed.
Lemma total_err : forall {A} e, total (@Err A e). Proof. intros A e w; discriminate. Qed.

(* ------------------------------------------------------------------ uvarint consumes what it reports *)
Lemma uvarint_from_len : forall buf i x s v m, uvarint_from buf i x s = (v, m) -> (0 < m)%Z ->
  (Z.of_nat i < m <= Z.of_nat (i + length buf))%Z.
Proof.
  induction buf as [|b rest IH]; intros i x s v m H Hm; simpl in H.
  - inversion H; subst. lia.
  - destruct (Nat.eqb i 10); [inversion H; subst; lia|].
    destruct (b <? 128).
    + destruct (Nat.eqb i 9 && (1 <? b)); inversion H; subst; simpl; lia.
    + specialize (IH _ _ _ _ _ H Hm). simpl. lia.
Qed.
Lemma uvarint_len : forall buf v m, uvarint buf = (v, m) -> (0 < m)%Z -> (0 < m <= Z.of_nat (length buf))%Z.
Proof. intros buf v m H Hm. pose proof (uvarint_from_len buf 0 0 0 v m H Hm). simpl in *. lia. Qed.

(* ------------------------------------------------------------------ the repaired decoders are total *)
Lemma deltas_dec_total : forall fuel W data last, (length data <= fuel)%nat ->
  exists l, deltas_dec fuel W data last = Ok l /\ (length l <= length data)%nat.
Proof.
  induction fuel as [|f IH]; intros W data last Hf.
  - destruct data; [|simpl in Hf; lia]. exists []. split; [reflexivity|simpl; lia].
  - destruct data as [|b r] eqn:Ed; [exists []; split; [reflexivity|simpl; lia]|]. rewrite <- Ed in *.
    assert (Hne : data <> []) by (subst; discriminate).
    unfold deltas_dec; fold deltas_dec. destruct data as [|b' r']; [contradiction|].
    destruct (uvarint (b' :: r')) as [delta m] eqn:Eu.
    destruct (m <=? 0)%Z eqn:Em; [exists []; split; [reflexivity|simpl; lia]|].
    pose proof (uvarint_len _ _ _ Eu ltac:(lia)) as Hm.
    destruct (IH W (skipn (Z.to_nat m) (b' :: r')) ((last + delta mod W) mod W)) as (l & El & Hl).
    { rewrite skipn_length. lia. }
    rewrite El. simpl. eexists. split; [reflexivity|]. rewrite skipn_length in Hl. simpl length in *. lia.
Qed.

Lemma from_sized_deltas_total : forall W elem data, nlen data * elem <= MAXALLOC ->
  exists l, fst (from_sized_deltas_w W elem data) = Ok l /\ (length l <= length data)%nat
            /\ snd (from_sized_deltas_w W elem data) <= nlen data * elem.
Proof.
  intros W elem data Hsz. unfold from_sized_deltas_w.
  destruct (uvarint data) as [sz m] eqn:Eu.
  destruct (m <=? 0)%Z eqn:Em; [exists []; simpl; repeat split; lia|].
  pose proof (uvarint_len _ _ _ Eu ltac:(lia)) as Hm.
  set (rest := skipn (Z.to_nat m) data).
  assert (Hr : (length rest <= length data)%nat) by (unfold rest; rewrite skipn_length; lia).
  assert (Hreq : N.min sz (nlen rest) * elem <= nlen data * elem) by (unfold nlen; nia).
  replace (MAXALLOC <? N.min sz (nlen rest) * elem) with false by lia.
  destruct (deltas_dec_total (length rest) W rest 0 ltac:(lia)) as (l & El & Hl).
  exists l. simpl. repeat split; auto; lia.
Qed.

Lemma docsecs_dec_total : forall fuel data last, (length data <= fuel)%nat ->
  exists l, docsecs_dec fuel data last = Ok l /\ (length l <= length data)%nat.
Proof.
  induction fuel as [|f IH]; intros data last Hf.
  - destruct data; [|simpl in Hf; lia]. exists []. split; [reflexivity|simpl; lia].
  - destruct data as [|b' r']; [exists []; split; [reflexivity|simpl; lia]|].
    unfold docsecs_dec; fold docsecs_dec.
    destruct (uvarint (b' :: r')) as [d1 m1] eqn:Eu1.
    destruct (m1 <=? 0)%Z eqn:Em1; [exists []; split; [reflexivity|simpl; lia]|].
    pose proof (uvarint_len _ _ _ Eu1 ltac:(lia)) as Hm1.
    destruct (uvarint (skipn (Z.to_nat m1) (b' :: r'))) as [d2 m2] eqn:Eu2.
    destruct (m2 <=? 0)%Z eqn:Em2; [exists []; split; [reflexivity|simpl; lia]|].
    pose proof (uvarint_len _ _ _ Eu2 ltac:(lia)) as Hm2. rewrite skipn_length in Hm2.
    match goal with |- context [docsecs_dec f ?d ?l] => destruct (IH d l) as (l' & El & Hl) end.
    { rewrite !skipn_length. simpl length in *. lia. }
    rewrite El. simpl. eexists. split; [reflexivity|]. rewrite !skipn_length in Hl. simpl length in *. lia.
Qed.

Lemma unmarshal_doc_sections_total : forall data, nlen data * 8 <= MAXALLOC ->
  exists l, fst (unmarshal_doc_sections_a data) = Ok l /\ snd (unmarshal_doc_sections_a data) <= nlen data * 8.
Proof.
  intros data Hsz. unfold unmarshal_doc_sections_a.
  destruct (uvarint data) as [sz m] eqn:Eu.
  destruct (m <=? 0)%Z eqn:Em; [exists []; simpl; split; [reflexivity|lia]|].
  pose proof (uvarint_len _ _ _ Eu ltac:(lia)) as Hm.
  set (rest := skipn (Z.to_nat m) data).
  assert (Hr : (length rest <= length data)%nat) by (unfold rest; rewrite skipn_length; lia).
  assert (Hdiv : N.min sz (nlen rest) / 2 <= nlen data).
  { pose proof (N.div_le_upper_bound (N.min sz (nlen rest)) 2 (nlen data) ltac:(discriminate)). unfold nlen in *. apply H. lia. }
  replace (MAXALLOC <? N.min sz (nlen rest) / 2 * 8) with false by lia.
  destruct (docsecs_dec_total (length rest) rest 0 ltac:(lia)) as (l & El & Hl).
  exists l. simpl. split; auto. lia.
Qed.

(* ------------------------------------------------------------------ file reads *)
Lemma file_read_total : forall f off sz, total (file_read f off sz).
Proof. intros f off sz w. unfold file_read. destruct (_ || _); discriminate. Qed.

Lemma file_read_len : forall f off sz b, file_read f off sz = Ok b -> (length b <= length (f_data f))%nat /\ nlen b <= sz.
Proof.
  intros f off sz b H. unfold file_read in H. destruct (_ || _); [discriminate|]. inversion H; subst.
  split.
  - rewrite firstn_length, skipn_length. lia.
  - unfold nlen. rewrite firstn_length. lia.
Qed.

Lemma file_read_nowrap : forall f off sz b, off < W32 -> sz < W32 -> file_read f off sz = Ok b ->
  (off + sz) mod W32 = off + sz /\ off + sz < W32.
Proof.
  intros f off sz b Ho Hs H. unfold file_read in H.
  destruct (((off + sz) mod W32 <? off) || (f_len f mod W32 <? (off + sz) mod W32)) eqn:E; [discriminate|].
  apply Bool.orb_false_elim in E. destruct E as [E1 _].
  destruct (N.lt_ge_cases (off + sz) W32) as [Hl|Hg]; [rewrite N.mod_small by exact Hl; auto|].
  exfalso. assert (Hm : (off + sz) mod W32 = off + sz - W32).
  { replace (off + sz) with ((off + sz - W32) + 1 * W32) at 1 by lia. rewrite N.mod_add by discriminate.
    apply N.mod_small. unfold W32 in *. lia. }
  unfold W32 in *. lia.
Qed.

Lemma read_u32_total : forall f off, total (read_u32 f off).
Proof. intros. unfold read_u32. apply total_bind; [apply file_read_total|intros; apply total_ok]. Qed.

Lemma read_simple_total : forall f off, total (read_simple f off).
Proof.
  intros. unfold read_simple. apply total_bind; [apply read_u32_total|]. intros [o off1] _.
  apply total_bind; [apply read_u32_total|]. intros [s off2] _. apply total_ok.
Qed.

Lemma read_uvarint_from_total : forall f fuel off x s, total (read_uvarint_from f fuel off x s).
Proof.
  intros f fuel. induction fuel as [|k IH]; intros off x s; simpl; [apply total_err|].
  apply total_bind; [apply file_read_total|]. intros b _.
  destruct b as [|b0 [|? ?]]; try apply total_err.
  destruct (b0 <? 128); [destruct (_ && _); [apply total_err|apply total_ok]|apply IH].
Qed.

(** a successful varint read advances the offset, without wrapping *)
Lemma read_uvarint_from_adv : forall f fuel off x s v off', off < W32 ->
  read_uvarint_from f fuel off x s = Ok (v, off') -> off < off' /\ off' < W32.
Proof.
  intros f fuel. induction fuel as [|k IH]; intros off x s v off' Hoff H; cbn [read_uvarint_from] in H; [discriminate|].
  destruct (file_read f off 1) as [b|e|w] eqn:Efr; cbn [obind] in H; try discriminate.
  assert (Hnw : (off + 1) mod W32 = off + 1) by (apply (file_read_nowrap f off 1 b); auto; reflexivity).
  destruct b as [|b0 [|? ?]]; try discriminate.
  rewrite Hnw in H.
  assert (Hlt : off + 1 < W32) by (rewrite <- Hnw; apply N.mod_upper_bound; discriminate).
  destruct (b0 <? 128).
  - destruct (_ && _); [discriminate|]. inversion H; subst. lia.
  - apply IH in H; [lia|exact Hlt].
Qed.

Lemma read_str_total : forall f off, total (read_str f off).
Proof.
  intros. unfold read_str. apply total_bind; [apply read_uvarint_from_total|]. intros [slen off1] _.
  apply total_bind; [apply file_read_total|intros; apply total_ok].
Qed.

Lemma read_section_words_total : forall k f off sz, total (read_section_words k f off sz).
Proof.
  intros. unfold read_section_words. destruct (_ =? 0); [|apply total_err].
  apply total_bind; [apply file_read_total|intros; apply total_ok].
Qed.

Lemma read_section_total : forall f kind skip off, total (read_section f kind skip off).
Proof.
  intros. unfold read_section. destruct (kind =? 0).
  - apply total_bind; [apply read_simple_total|]. intros [[o s] off1] _. apply total_ok.
  - apply total_bind; [apply read_simple_total|]. intros [[o s] off1] _.
    apply total_bind; [apply read_simple_total|]. intros [[io is_] off2] _.
    destruct skip.
    + apply total_bind; [apply file_read_total|intros; apply total_ok].
    + destruct (kind =? 1); [|apply total_ok].
      apply total_bind; [apply read_section_words_total|intros; apply total_ok].
Qed.

(** the TOC loop: every successful round advances the offset by at least one byte, so the fuel (the end offset of
    the TOC section) is never exhausted *)
Lemma read_uvarint_in : forall f off v off1, off < W32 -> read_uvarint f off = Ok (v, off1) -> off + 1 <= f_len f mod W32.
Proof.
  intros f off v off1 Hoff H. unfold read_uvarint in H. cbn [read_uvarint_from] in H.
  destruct (file_read f off 1) as [b|e|w] eqn:F; try discriminate.
  unfold file_read in F. destruct (((off + 1) mod W32 <? off) || (f_len f mod W32 <? (off + 1) mod W32)) eqn:E; [discriminate|].
  assert (Hm : (off + 1) mod W32 = off + 1 \/ (off + 1) mod W32 = 0).
  { destruct (N.eq_dec (off + 1) W32) as [->|Hne]; [right; reflexivity|left; apply N.mod_small; lia]. }
  destruct Hm as [Hm|Hm]; rewrite Hm in E; [lia|].
  assert (off + 1 = W32) by (destruct (N.eq_dec (off + 1) W32); [assumption|rewrite N.mod_small in Hm by lia; lia]). 
  unfold W32 in *. lia.
Qed.

Lemma read_tagged_total : forall f fuel off tocend wanted acc, off < W32 -> tocend < W32 ->
  (N.to_nat (N.min tocend (f_len f mod W32)) - N.to_nat off + 1 <= fuel)%nat ->
  total (read_tagged f fuel off tocend wanted acc).
Proof.
  intros f fuel. induction fuel as [|k IH]; intros off tocend wanted acc Hoff Hend Hf.
  - lia.
  - cbn [read_tagged]. destruct (tocend <=? off) eqn:E; [apply total_ok|].
    unfold read_str.
    destruct (read_uvarint f off) as [[slen off1]|e|w] eqn:Eu; cbn [obind];
      [|apply total_err|exfalso; exact (read_uvarint_from_total f 10 off 0 0 w Eu)].
    pose proof (read_uvarint_in f off slen off1 Hoff Eu) as Hin.
    destruct (read_uvarint_from_adv f 10 off 0 0 slen off1 Hoff Eu) as [Hadv Hlt1].
    destruct (file_read f off1 (slen mod W32)) as [b|e|w] eqn:Efr; cbn [obind];
      [|apply total_err|exfalso; exact (file_read_total f off1 _ w Efr)].
    (* the string read succeeded: no wrap *)
    assert (Hoff2 : (off1 + slen mod W32) mod W32 = off1 + slen mod W32 /\ off1 + slen mod W32 < W32).
    { apply (file_read_nowrap f off1 (slen mod W32) b); auto. apply N.mod_upper_bound. discriminate. }
    destruct Hoff2 as [Hnw2 Hlt2]. rewrite Hnw2.
    destruct (read_uvarint f (off1 + slen mod W32)) as [[kind off2]|e|w] eqn:Eu2; cbn [obind];
      [|apply total_err|exfalso; exact (read_uvarint_from_total f 10 _ 0 0 w Eu2)].
    destruct (read_uvarint_from_adv f 10 _ 0 0 kind off2 Hlt2 Eu2) as [Hadv2 Hlt3].
    destruct (negb _ && negb (kind <=? 2)); [apply total_err|].
    match goal with |- total (obind (read_section f kind ?sk off2) _) => set (skp := sk) end.
    destruct (read_section f kind skp off2) as [[sec off3]|e|w] eqn:Ers; cbn [obind];
      [|apply total_err|exfalso; exact (read_section_total f kind skp off2 w Ers)].
    (* the section record read advances further; all we need is off3 < W32 and off3 > off *)
    assert (Hoff3 : off2 <= off3 /\ off3 < W32).
    { unfold read_section in Ers.
      assert (Hsimple : forall o a b c, o < W32 -> read_simple f o = Ok (a, b, c) -> o <= c /\ c < W32).
      { intros o a b0 c Ho Hrs. unfold read_simple, read_u32 in Hrs.
        destruct (file_read f o 4) as [b1|?|?] eqn:F1; try discriminate. cbn [obind] in Hrs.
        destruct (file_read f ((o + 4) mod W32) 4) as [b2|?|?] eqn:F2; try discriminate. cbn [obind] in Hrs.
        inversion Hrs; subst.
        assert (G : forall p q, p < W32 -> file_read f p 4 = Ok q -> (p + 4) mod W32 = p + 4 /\ p + 4 < W32).
        { intros p q Hp Hq. apply (file_read_nowrap f p 4 q); auto. reflexivity. }
        destruct (G o b1 Ho F1) as [G1 G2]. rewrite G1 in *. destruct (G (o + 4) b2 G2 F2) as [G3 G4]. rewrite G3. lia. }
      destruct (kind =? 0).
      - destruct (read_simple f off2) as [[[o s] c]|?|?] eqn:R1; try discriminate. cbn [obind] in Ers. inversion Ers; subst.
        eapply Hsimple; eauto.
      - destruct (read_simple f off2) as [[[o s] c]|?|?] eqn:R1; try discriminate. cbn [obind] in Ers.
        destruct (Hsimple _ _ _ _ Hlt3 R1) as [H1 H2].
        destruct (read_simple f c) as [[[io is_] c2]|?|?] eqn:R2; try discriminate. cbn [obind] in Ers.
        destruct (Hsimple _ _ _ _ H2 R2) as [H3 H4].
        destruct skp.
        + destruct (file_read f io is_); try discriminate. cbn [obind] in Ers. inversion Ers; subst. lia.
        + destruct (kind =? 1).
          * destruct (read_section_words 4 f io is_); try discriminate. cbn [obind] in Ers. inversion Ers; subst. lia.
          * inversion Ers; subst. lia. }
    destruct Hoff3 as [Hge3 Hlt4].
    apply IH; auto. lia.
Qed.

Lemma read_toc_total : forall f wanted, total (read_toc f wanted).
Proof.
  intros f wanted. unfold read_toc.
  apply total_bind; [apply read_simple_total|]. intros [[toff tsz] x] _.
  unfold read_u32. destruct (file_read f toff 4) as [b|e|w] eqn:F; cbn [obind];
    [|apply total_err|exfalso; exact (file_read_total f toff 4 w F)].
  destruct (_ =? 0); [|apply total_err].
  apply read_tagged_total.
  - apply N.mod_upper_bound. discriminate.
  - apply N.mod_upper_bound. discriminate.
  - lia.
Qed.

(* ------------------------------------------------------------------ readIndexData does not hang *)
Lemma nd_lift_a : forall {A} (r : outcome A * N) k, nd (fst r) -> (forall a n, nd (k a n)) -> nd (lift_a r k).
Proof.
  intros A r k Hr Hk. unfold lift_a. destruct (fst r) as [a|e|w]; [apply Hk|discriminate|].
  intro H. apply Hr. inversion H. reflexivity.
Qed.

Lemma from_sized_deltas_nd : forall W elem data, nd (fst (from_sized_deltas_w W elem data)).
Proof.
  intros W elem data. unfold from_sized_deltas_w. destruct (uvarint data) as [sz m].
  destruct (m <=? 0)%Z; [discriminate|]. destruct (MAXALLOC <? _); [discriminate|]. cbn [fst].
  destruct (deltas_dec_total (length (skipn (Z.to_nat m) data)) W (skipn (Z.to_nat m) data) 0 ltac:(lia)) as (l & El & _).
  rewrite El. discriminate.
Qed.

Lemma unmarshal_doc_sections_nd : forall data, nd (fst (unmarshal_doc_sections_a data)).
Proof.
  intros data. unfold unmarshal_doc_sections_a. destruct (uvarint data) as [sz m].
  destruct (m <=? 0)%Z; [discriminate|]. destruct (MAXALLOC <? _); [discriminate|]. cbn [fst].
  destruct (docsecs_dec_total (length (skipn (Z.to_nat m) data)) (skipn (Z.to_nat m) data) 0 ltac:(lia)) as (l & El & _).
  rewrite El. discriminate.
Qed.

Lemma blob_of_total : forall f s, total (blob_of f s).
Proof. intros. unfold blob_of. apply file_read_total. Qed.

Ltac nd_step :=
  cbv zeta;
  match goal with
  | |- nd (obind (blob_of _ _) _) => apply nd_bind; [apply total_nd; apply blob_of_total|intros ? _]
  | |- nd (obind (read_section_words _ _ _ _) _) => apply nd_bind; [apply total_nd; apply read_section_words_total|intros ? _]
  | |- nd (lift_a _ _) => apply nd_lift_a; [solve [auto]|intros ? ?]
  | |- nd (if ?c then _ else _) => destruct c
  | |- nd (Ok _) => discriminate
  | |- nd (Err _) => discriminate
  | |- nd (Panic P_SLICE) => discriminate
  end.

Lemma read_index_with_nd : forall dsz dsec,
  (forall W e data, nd (fst (dsz W e data))) -> (forall data, nd (fst (dsec data))) ->
  forall f t next, nd (read_index_with dsz dsec f t next).
Proof.
  intros dsz dsec Hdsz Hdsec f t next. unfold read_index_with.
  repeat match goal with |- context [toc_compound t ?n] => destruct (toc_compound t n) as [[? ?] ?] end.
  repeat nd_step.
Qed.

Theorem load_shard_nd : forall f next, nd (load_shard f next).
Proof.
  intros f next. unfold load_shard. apply nd_bind; [apply total_nd; apply read_toc_total|]. intros t _.
  apply read_index_with_nd; [apply from_sized_deltas_nd|apply unmarshal_doc_sections_nd].
Qed.

(** with the recover in loadShard: loading any file returns a searcher or an error *)
Theorem load_shard_served_safe : forall f next, exists r, load_shard_served f next = r /\
  match r with Ok _ => True | Err _ => True | Panic _ => False end.
Proof.
  intros f next. eexists. split; [reflexivity|]. unfold load_shard_served, recovered.
  pose proof (load_shard_nd f next) as H. destruct (load_shard f next) as [d|e|w]; auto.
  destruct (w =? P_DIVERGE) eqn:E; [|exact I]. apply N.eqb_eq in E. subst. apply H. reflexivity.
Qed.

(* ------------------------------------------------------------------ reading a document at search time *)
Lemma nth_chk_nd : forall {A} (l : list A) i, nd (nth_chk l i).
Proof. intros. unfold nth_chk. destruct (nth_error _ _); discriminate. Qed.
Lemma slice_chk_nd : forall {A} (l : list A) a b, nd (slice_chk l a b).
Proof. intros. unfold slice_chk. destruct (_ || _); discriminate. Qed.
Lemma read_item_nd : forall f start ri i, nd (read_item f start ri i).
Proof.
  intros. unfold read_item. apply nd_bind; [apply nth_chk_nd|intros ? _].
  apply nd_bind; [apply nth_chk_nd|intros ? _]. apply total_nd. apply file_read_total.
Qed.

Theorem doc_read_nd : forall d i, nd (doc_read d i).
Proof.
  intros d i. unfold doc_read, file_name, read_contents, read_doc_sections, read_newlines.
  apply nd_bind; [|intros ? _].
  { apply nd_bind; [apply nth_chk_nd|intros ? _]. apply nd_bind; [apply nth_chk_nd|intros ? _]. apply slice_chk_nd. }
  apply nd_bind; [apply read_item_nd|intros ? _].
  apply nd_bind; [|intros ? _].
  { apply nd_bind; [apply read_item_nd|intros ? _]. apply unmarshal_doc_sections_nd. }
  apply nd_bind; [|intros ? _].
  { apply nd_bind; [apply read_item_nd|intros ? _]. apply from_sized_deltas_nd. }
  discriminate.
Qed.

(* ------------------------------------------------------------------ the reader before the repair *)
Lemma unfixed_hang : load_shard_unfixed (mem_file witness_hang) false = Panic P_DIVERGE.
Proof. vm_compute. reflexivity. Qed.
Lemma unfixed_alloc : exists d, load_shard_unfixed (mem_file witness_alloc) false = Ok d
                                /\ 8796093022208 <= i_alloc d /\ nlen witness_alloc < 2048.
Proof. eexists. split; [vm_compute; reflexivity|]. vm_compute. split; [discriminate|reflexivity]. Qed.
Lemma unfixed_panic : load_shard_unfixed (mem_file witness_panic) false = Panic P_SLICE.
Proof. vm_compute. reflexivity. Qed.
Lemma norecover_panic : load_shard (mmap_file witness_ngram) false = Panic P_SLICE /\ nlen witness_ngram = 4096.
Proof. vm_compute. split; reflexivity. Qed.
Lemma fixed_witnesses : forall w, In w [witness_hang; witness_alloc; witness_panic] ->
  exists d, load_shard (mem_file w) false = Ok d /\ i_alloc d <= 4.
Proof.
  intros w [<-|[<-|[<-|[]]]]; eexists; (split; [vm_compute; reflexivity|vm_compute; discriminate]).
Qed.

(* ------------------------------------------------------------------ allocation bound of a load *)
Lemma from_sized_deltas_alloc : forall W elem data, snd (from_sized_deltas_w W elem data) <= nlen data * elem.
Proof.
  intros W elem data. unfold from_sized_deltas_w. destruct (uvarint data) as [sz m] eqn:Eu.
  destruct (m <=? 0)%Z eqn:Em; [simpl; lia|].
  pose proof (uvarint_len _ _ _ Eu ltac:(lia)) as Hm.
  assert (Hr : (length (skipn (Z.to_nat m) data) <= length data)%nat) by (rewrite skipn_length; lia).
  destruct (MAXALLOC <? _); cbn [snd]; [lia|]. unfold nlen in *. nia.
Qed.

Lemma unmarshal_doc_sections_alloc : forall data, snd (unmarshal_doc_sections_a data) <= nlen data * 4.
Proof.
  intros data. unfold unmarshal_doc_sections_a. destruct (uvarint data) as [sz m] eqn:Eu.
  destruct (m <=? 0)%Z eqn:Em; [simpl; lia|].
  pose proof (uvarint_len _ _ _ Eu ltac:(lia)) as Hm.
  assert (Hr : (length (skipn (Z.to_nat m) data) <= length data)%nat) by (rewrite skipn_length; lia).
  destruct (MAXALLOC <? _); cbn [snd]; [lia|].
  set (q := N.min sz (nlen (skipn (Z.to_nat m) data))).
  assert (q <= nlen data) by (unfold q, nlen in *; lia).
  pose proof (N.mul_div_le q 2 ltac:(discriminate)). lia.
Qed.

Lemma blob_of_len : forall f s b, blob_of f s = Ok b -> nlen b <= nlen (f_data f).
Proof. intros f s b H. unfold blob_of in H. apply file_read_len in H. unfold nlen. lia. Qed.

Ltac inv_bind H :=
  match type of H with
  | obind ?x _ = Ok _ => let E := fresh "E" in destruct x eqn:E; cbn [obind] in H; [|discriminate H|discriminate H]
  | lift_a ?r _ = Ok _ => let E := fresh "E" in unfold lift_a at 1 in H; destruct (fst r) eqn:E; [|discriminate H|discriminate H]
  | (if ?c then _ else _) = Ok _ => destruct c; [try discriminate H|try discriminate H]
  end.

(** everything make() is asked for while loading is bounded by 30 bytes per byte of the file *)
Theorem load_alloc_bound : forall f next d, load_shard f next = Ok d -> i_alloc d <= 30 * nlen (f_data f).
Proof.
  intros f next d H. unfold load_shard in H. inv_bind H. unfold read_index, read_index_with in H.
  repeat match type of H with context [toc_compound ?t ?n] => destruct (toc_compound t n) as [[? ?] ?] end.
  cbv zeta in H.
  repeat inv_bind H.
  all: inversion H; subst; cbn [i_alloc].
  all: repeat match goal with Hb : blob_of _ _ = Ok ?b |- _ => apply blob_of_len in Hb end.
  all: repeat match goal with |- context [snd (from_sized_deltas_w ?W ?e ?b)] =>
         let Hx := fresh "Hx" in pose proof (from_sized_deltas_alloc W e b) as Hx;
         generalize dependent (snd (from_sized_deltas_w W e b)); intros end.
  all: repeat match goal with |- context [snd (unmarshal_doc_sections_a ?b)] =>
         let Hx := fresh "Hx" in pose proof (unmarshal_doc_sections_alloc b) as Hx;
         generalize dependent (snd (unmarshal_doc_sections_a b)); intros end.
  all: lia.
Qed.

(* ------------------------------------------------------------------ isolation of the healthy shards *)

(** before the repair: one shard's error aborted the sharded search *)
Lemma isolation_unfixed_refuted :
  exists h c, load_shard (mmap_file iso_healthy) false = Ok h /\ load_shard (mmap_file witness_oob) false = Ok c
    /\ sharded_search_unfixed [h] iso_ngram = Ok ([[8]], 0)
    /\ shard_ngram_search c iso_ngram = Err E_OOB
    /\ sharded_search_unfixed [h; c] iso_ngram = Err E_OOB.
Proof.
  eexists. eexists. split; [vm_compute; reflexivity|]. split; [vm_compute; reflexivity|].
  split; [vm_compute; reflexivity|]. split; vm_compute; reflexivity.
Qed.

(** the first posting-list read of a search never panics (IndexFile.Read returns errors) *)
Lemma shard_ngram_search_total : forall d g, total (shard_ngram_search d g).
Proof.
  intros d g. unfold shard_ngram_search. apply total_bind; [apply blob_of_total|]. intros text _. apply file_read_total.
Qed.

(** after the repair: for EVERY list of loaded shards (corrupt or not, in any order) the sharded search succeeds,
    returns exactly the answers of the shards that answer, in order, and counts the others *)
Theorem sharded_search_isolated : forall shards g,
  sharded_search shards g = Ok (shard_answers shards g, shard_failures shards g).
Proof.
  induction shards as [|d rest IH]; intros g; [reflexivity|].
  cbn [sharded_search]. rewrite IH. cbn [obind fst snd].
  unfold shard_answers, shard_failures. cbn [flat_map filter].
  pose proof (shard_ngram_search_total d g) as Ht.
  destruct (shard_ngram_search d g) as [r|e|w] eqn:E; cbn [is_ok negb app].
  - reflexivity.
  - f_equal. f_equal. unfold nlen. cbn [length]. lia.
  - exfalso. apply (Ht w). reflexivity.
Qed.

(** a failing shard anywhere in the directory does not change what the others return *)
Corollary sharded_search_others_unaffected : forall l1 c l2 g, is_ok (shard_ngram_search c g) = false ->
  exists n, sharded_search (l1 ++ c :: l2) g = Ok (shard_answers (l1 ++ l2) g, n)
            /\ sharded_search (l1 ++ l2) g = Ok (shard_answers (l1 ++ l2) g, shard_failures (l1 ++ l2) g)
            /\ n = shard_failures (l1 ++ l2) g + 1.
Proof.
  intros l1 c l2 g Hc. rewrite !sharded_search_isolated. eexists. split; [|split; [reflexivity|]].
  - f_equal. f_equal. unfold shard_answers. rewrite !flat_map_app. cbn [flat_map].
    destruct (shard_ngram_search c g); [discriminate| |]; reflexivity.
  - unfold shard_failures. rewrite !filter_app. cbn [filter]. rewrite Hc. cbn [negb].
    unfold nlen. rewrite !app_length. cbn [length]. lia.
Qed.

Lemma isolation_witness :
  exists h c, load_shard (mmap_file iso_healthy) false = Ok h /\ load_shard (mmap_file witness_oob) false = Ok c
    /\ sharded_search [h] iso_ngram = Ok ([[8]], 0)
    /\ shard_ngram_search c iso_ngram = Err E_OOB
    /\ sharded_search [h; c] iso_ngram = Ok ([[8]], 1).
Proof.
  eexists. eexists. split; [vm_compute; reflexivity|]. split; [vm_compute; reflexivity|].
  split; [vm_compute; reflexivity|]. split; vm_compute; reflexivity.
Qed.
