(** C06 at the level of documents: the documented meaning as a predicate on documents ([sat]: a pattern /
    filter holds, "-" is negation, a conjunction holds when all its members hold, a group when one of its
    conjunctions holds, directives are not conditions) and the corollary that the parsed query selects
    exactly the documents that satisfy it, for every atom semantics (Model/Query.v's [eval], C05). *)
From ZV Require Import Lib.Base Model.Query Generated.ParserTables Model.Parser Model.QueryDoc Model.QueryDocRun.
From ZV Require Import Proofs.QueryInd Proofs.QuerySimplify Proofs.QueryDocTree Proofs.QueryDocParse.
Open Scope N_scope.

Section Sat.
  Variable rqd : str -> rqres_d.
  Variable rx_auto : str -> bool.
  Variable lang : str -> option str.
  Variable D : Type.
  Variable env : atoms D.
  Variable d : D.
  Notation ev q := (eval env q d).

  Fixpoint sat (k : cflavor) (e : dexpr) {struct e} : bool :=
    match e with
    | DText w => ev (pattern rqd rx_auto k (wvalue w) false false)
    | DField f _ w => ev (den_field rqd rx_auto lang k f (wvalue w))
    | DBool f v => ev (den_bool f v)
    | DCase _ | DType _ _ => true
    | DNeg e1 => negb (sat k e1)
    | DGroup q =>
        let k' := match find_case (List.concat q) with Some k0 => k0 | None => k end in
        existsb (fun c => forallb (fun e => is_directive e || sat k' e) c) q
    end.

  Definition sat_query (q : dquery) : bool := sat CAuto (DGroup q).

  Lemma den_sat e : forall k, ev (den_expr rqd rx_auto lang k e) = sat k e.
  Proof.
    induction e using dexpr_ind'; intros k0; try reflexivity.
    - cbn [den_expr sat]. simpl eval. rewrite IHe. reflexivity.
    - cbn [den_expr sat].
      set (k' := match find_case (List.concat q) with Some x => x | None => k0 end).
      assert (Hb : ev (QOr (map (fun c => QAnd (flat_map (fun e => if is_directive e then [] else [den_expr rqd rx_auto lang k' e]) c)) q)) =
                   existsb (fun c => forallb (fun e => is_directive e || sat k' e) c) q).
      { simpl eval. rewrite existsb_map_eq. apply existsb_ext_Forall. eapply Forall_impl; [|exact H].
        intros c Hc. simpl eval. clear -Hc. induction Hc as [|e c He _ IHc]; [reflexivity|].
        cbn [flat_map forallb]. destruct (is_directive e); cbn [orb app]; [exact IHc|].
        cbn [forallb]. rewrite He, IHc. reflexivity. }
      destruct (find_type (List.concat q)); [|exact Hb].
      change (ev (QOr [QAnd [QType n (QOr (map (fun c => QAnd (flat_map (fun e => if is_directive e then [] else [den_expr rqd rx_auto lang k' e]) c)) q))]]))
        with (ev (QOr (map (fun c => QAnd (flat_map (fun e => if is_directive e then [] else [den_expr rqd rx_auto lang k' e]) c)) q)) && true || false).
      rewrite Hb, andb_true_r, orb_false_r. reflexivity.
  Qed.
End Sat.
