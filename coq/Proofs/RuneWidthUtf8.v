(** The width table of Lib/RuneCount.v (used by the C02/C03 models for utf8.DecodeRune / utf8.RuneCount) IS the width of
    Go's decoder as modelled in Lib/Utf8.v (which the C37 correspondence ties to unicode/utf8 exhaustively for 1-3 byte
    strings): [rune_width b0 r = Utf8.width (b0 :: r)] and [rune_count l = Utf8.rune_count l]. *)
From ZV Require Import Lib.Base Lib.RuneCount.
From ZV Require Lib.Utf8.
From Coq Require Import ZifyBool ZifyNat ZifyN.

(** ---- the width table of Lib/RuneCount.v is Go's DecodeRune width (Lib/Utf8.v) *)
Lemma rune_width_utf8 : forall b0 r, rune_width b0 r = Utf8.width (b0 :: r).
Proof.
  intros b0 r.
  unfold Utf8.width, Utf8.decode_rune, Utf8.decode_step, rune_width, Utf8.lead_class,
    is_cont, in_rng, Utf8.is_cont, Utf8.in_rng.
  destruct (b0 =? 224)%N eqn:E224, (b0 =? 237)%N eqn:E237, (b0 =? 240)%N eqn:E240, (b0 =? 244)%N eqn:E244;
    try (exfalso; lia); cbv iota;
    destruct r as [|b1 [|b2 [|b3 r']]];
    repeat match goal with
    | |- context [if ?c then _ else _] => destruct c eqn:?; cbv iota
    end; try reflexivity; exfalso; lia.
Qed.

Lemma width_nil : Utf8.width [] = 0.
Proof. reflexivity. Qed.

Lemma width_le4 : forall l, Utf8.width l <= 4.
Proof.
  intros l. destruct l as [|b t]; [cbn; lia|].
  destruct (Utf8.width_cases (b :: t)) as [[r H]|[_ H]]; [discriminate| |lia].
  apply Utf8.decode_step_shape in H. lia.
Qed.

(** the width depends on the first four bytes only *)
Lemma width_firstn : forall l W, 4 <= W -> Utf8.width (firstn W l) = Utf8.width l.
Proof.
  intros l W HW. destruct l as [|b0 r]; [now rewrite firstn_nil|].
  destruct W as [|[|[|[|W']]]]; try lia.
  rewrite firstn_cons, <- !rune_width_utf8.
  destruct r as [|b1 [|b2 [|b3 r']]]; reflexivity.
Qed.

(** utf8.RuneCount: the skip-counter recursion of Lib/RuneCount.v counts the steps of Go's decoding loop *)
Lemma rune_count_skip_spec : forall l skip, skip <= length l ->
  rune_count_skip l skip = rune_count (skipn skip l).
Proof.
  induction l as [|b0 r IH]; intros skip H; simpl in H.
  - assert (skip = 0) by lia. subst. reflexivity.
  - destruct skip as [|k]; [reflexivity|]. simpl. apply IH. lia.
Qed.

Lemma rune_count_step : forall l, l <> [] -> rune_count l = S (rune_count (skipn (Utf8.width l) l)).
Proof.
  intros l Hl. destruct l as [|b0 r]; [congruence|].
  pose proof (Utf8.width_pos (b0 :: r) Hl) as H1. pose proof (Utf8.width_le (b0 :: r)) as H2.
  rewrite <- rune_width_utf8 in *. simpl in H2.
  unfold rune_count at 1. cbn [rune_count_skip]. rewrite rune_count_skip_spec by lia.
  destruct (rune_width b0 r) as [|w] eqn:E; [lia|]. simpl. now rewrite Nat.sub_0_r.
Qed.

Lemma decode_all_fuel_count : forall fuel l, length l <= fuel ->
  length (Utf8.decode_all_fuel fuel l) = rune_count l.
Proof.
  induction fuel as [|f IH]; intros l Hf.
  - destruct l; [reflexivity|simpl in Hf; lia].
  - destruct l as [|b0 t]; [reflexivity|]. set (l := b0 :: t) in *.
    change (Utf8.decode_all_fuel (S f) l) with (Utf8.decode_rune l :: Utf8.decode_all_fuel f (skipn (Utf8.width l) l)).
    rewrite rune_count_step by discriminate. cbn [length]. f_equal. apply IH.
    pose proof (Utf8.width_pos l ltac:(discriminate)). assert (length l = S (length t)) by reflexivity.
    rewrite skipn_length. lia.
Qed.

Theorem rune_count_utf8 : forall l, rune_count l = Utf8.rune_count l.
Proof. intros l. unfold Utf8.rune_count, Utf8.decode_all. now rewrite decode_all_fuel_count. Qed.
