(** Proofs about Model/Ctags.v (C37). *)
From ZV Require Import Lib.Base Lib.Utf8 Model.Ctags.

(** ** bytes.Index *)
Lemma prefixb_spec p l : prefixb p l = true -> firstn (length p) l = p /\ length p <= length l.
Proof.
  revert l; induction p as [|a p IH]; intros l H; cbn in *.
  - split; [reflexivity | lia].
  - destruct l as [|b l]; [discriminate|].
    apply andb_true_iff in H as [Hab Hp]. apply N.eqb_eq in Hab; subst b.
    destruct (IH _ Hp) as [E L]. cbn. rewrite E. split; [reflexivity | lia].
Qed.

Lemma index_sub_spec p l i :
  index_sub p l = Some i -> firstn (length p) (skipn i l) = p /\ i + length p <= length l.
Proof.
  revert i; induction l as [|b l IH]; intros i H.
  - cbn in H. destruct (prefixb p []) eqn:Hp; [|discriminate]. inversion H; subst.
    apply prefixb_spec in Hp. cbn. exact Hp.
  - cbn [index_sub] in H. destruct (prefixb p (b :: l)) eqn:Hp.
    + inversion H; subst. apply prefixb_spec in Hp. exact Hp.
    + destruct (index_sub p l) as [j|] eqn:Hj; [|discriminate]. cbn in H. inversion H; subst.
      destruct (IH _ eq_refl) as [E L]. cbn. split; [exact E | lia].
Qed.

(** ** newLinesIndices *)
Lemma nls_aux_bound l off pend x : In x (nls_aux l off pend) -> off <= x <= off + length l.
Proof.
  revert off pend; induction l as [|c r IH]; intros off pend H; cbn in *.
  - destruct pend; cbn in H; [destruct H as [<- | [ ] ]; lia | contradiction].
  - destruct (N.eqb c 10).
    + destruct H as [<- | H]; [lia|]. apply IH in H. lia.
    + apply IH in H. lia.
Qed.

(** every entry is either the offset of a newline byte or the final length *)
Lemma nls_aux_char l off pend x :
  In x (nls_aux l off pend) -> (off <= x /\ nth_error l (x - off) = Some 10%N) \/ x = off + length l.
Proof.
  revert off pend; induction l as [|c r IH]; intros off pend H; cbn in *.
  - destruct pend; cbn in H; [destruct H as [<- | [ ] ]; right; lia | contradiction].
  - destruct (N.eqb c 10) eqn:Hc.
    + destruct H as [<- | H].
      * left. split; [lia|]. rewrite Nat.sub_diag. cbn. apply N.eqb_eq in Hc. now subst.
      * apply IH in H as [[Hle Hn]| ->]; [left|right; lia]. split; [lia|].
        replace (x - off) with (S (x - S off)) by lia. exact Hn.
    + apply IH in H as [[Hle Hn]| ->]; [left|right; lia]. split; [lia|].
      replace (x - off) with (S (x - S off)) by lia. exact Hn.
Qed.

Lemma nls_aux_sorted l off pend :
  forall i j a b, i < j -> nth_error (nls_aux l off pend) i = Some a ->
                  nth_error (nls_aux l off pend) j = Some b -> a < b.
Proof.
  revert off pend; induction l as [|c r IH]; intros off pend i j a b Hij Ha Hb; cbn in *.
  - destruct pend; destruct i, j; cbn in *; try discriminate; try lia; destruct j; discriminate.
  - destruct (N.eqb c 10).
    + destruct i as [|i]; destruct j as [|j]; try lia; cbn in *.
      * inversion Ha; subst. apply nth_error_In, nls_aux_bound in Hb. lia.
      * eapply IH; [|exact Ha|exact Hb]. lia.
    + eapply IH; eauto.
Qed.

(** every newline byte is listed *)
Lemma nls_aux_complete l off pend p :
  off <= p -> nth_error l (p - off) = Some 10%N -> In p (nls_aux l off pend).
Proof.
  revert off pend; induction l as [|c r IH]; intros off pend Hp Hn; cbn in *.
  - destruct (p - off); discriminate.
  - destruct (Nat.eq_dec p off) as [->|Hne].
    + rewrite Nat.sub_diag in Hn. cbn in Hn. inversion Hn; subst. cbn. now left.
    + replace (p - off) with (S (p - S off)) in Hn by lia. cbn in Hn.
      destruct (N.eqb c 10); [right|]; apply IH; (lia || exact Hn).
Qed.

(** ** line_bounds *)
Lemma line_bounds_spec content line lo e :
  line_bounds (newlines_indices content) line = Some (lo, e) ->
  lo <= e <= length content.
Proof.
  unfold line_bounds, newlines_indices. destruct (line <=? 0)%Z; [discriminate|].
  set (idx := Z.to_nat (line - 1)).
  destruct (nth_error (nls_aux content 0 false) idx) as [x|] eqn:Hx; [|discriminate].
  intros H; inversion H; subst; clear H.
  pose proof (nls_aux_bound _ _ _ _ (nth_error_In _ _ Hx)) as Hb.
  destruct idx as [|k]; [lia|].
  destruct (nth_error (nls_aux content 0 false) k) as [y|] eqn:Hy; [|lia].
  pose proof (nls_aux_sorted content 0 false k (S k) y e (Nat.lt_succ_diag_r k) Hy Hx). lia.
Qed.

(** the bytes of the line [lo, e) contain no newline *)
Lemma line_bounds_no_nl content line lo e p :
  line_bounds (newlines_indices content) line = Some (lo, e) ->
  lo <= p < e -> nth_error content p <> Some 10%N.
Proof.
  unfold line_bounds, newlines_indices. destruct (line <=? 0)%Z; [discriminate|].
  set (idx := Z.to_nat (line - 1)).
  destruct (nth_error (nls_aux content 0 false) idx) as [x|] eqn:Hx; [|discriminate].
  intros H Hp Hnl; inversion H; subst; clear H.
  assert (Hin : In p (nls_aux content 0 false)).
  { apply nls_aux_complete; [lia|]. now rewrite Nat.sub_0_r. }
  apply In_nth_error in Hin as [m Hm].
  pose proof (nls_aux_sorted content 0 false) as Hs.
  destruct (Nat.lt_trichotomy m idx) as [Hlt|[->|Hgt]].
  - destruct idx as [|k]; [lia|].
    destruct (nth_error (nls_aux content 0 false) k) as [y|] eqn:Hy.
    + destruct (Nat.eq_dec m k) as [->|Hmk].
      * rewrite Hy in Hm. inversion Hm; subst. lia.
      * assert (p < y) by (eapply (Hs m k); [lia|exact Hm|exact Hy]). lia.
    + apply nth_error_None in Hy. assert (nth_error (nls_aux content 0 false) (S k) <> None) by (rewrite Hx; discriminate).
      apply nth_error_Some in H. lia.
  - rewrite Hx in Hm. inversion Hm; subst. lia.
  - assert (e < p) by (eapply (Hs idx m); [lia|exact Hx|exact Hm]). lia.
Qed.

(** ** overlaps *)
Definition before (st : nat) (s : section) : Prop := s_end s <= st.
Definition after (en : nat) (s : section) : Prop := en <= s_start s.
Definition wfsec (s : section) : Prop := s_start s <= s_end s.

(** ordered list of sections: every earlier one ends before every later one starts *)
Definition ordered (l : list section) : Prop :=
  ForallOrdPairs (fun a b => s_end a <= s_start b) l.

Lemma ordered_app l1 l2 :
  ordered (l1 ++ l2) <-> ordered l1 /\ ordered l2 /\ (forall a b, In a l1 -> In b l2 -> s_end a <= s_start b).
Proof.
  unfold ordered. induction l1 as [|x l1 IH]; cbn.
  - split; [intros H; repeat split; [constructor | exact H | contradiction] | intros (_ & H & _); exact H].
  - split.
    + intros H. inversion H as [|? ? Hx Hr]; subst. apply IH in Hr as (H1 & H2 & H3).
      rewrite Forall_app in Hx. destruct Hx as [Hx1 Hx2]. repeat split.
      * constructor; assumption.
      * exact H2.
      * intros a b [<- | Ha] Hb; [rewrite Forall_forall in Hx2; auto | auto].
    + intros (H1 & H2 & H3). inversion H1 as [|? ? Hx Hr]; subst. constructor.
      * rewrite Forall_app. split; [exact Hx|]. rewrite Forall_forall. intros b Hb. apply H3; [now left|exact Hb].
      * apply IH. repeat split; [exact Hr | exact H2 | intros a b Ha Hb; apply H3; [now right|exact Hb]].
Qed.

Lemma overlaps_rev_spec rs st en i :
  (forall pre s post, rs = pre ++ s :: post -> Forall (fun t => s_end t <= s_start s) post) ->
  Forall wfsec rs -> st <= en ->
  overlaps_rev rs (length rs) st en = Some i ->
  i <= length rs /\ Forall (before st) (skipn (length rs - i) rs) /\ Forall (after en) (firstn (length rs - i) rs).
Proof.
  induction rs as [|s rs IH]; intros Hord Hwf Hse H.
  - cbn in H. inversion H; subst. cbn. repeat split; constructor.
  - inversion Hwf as [|? ? Hs Hwf']; subst.
    cbn [overlaps_rev length] in H.
    destruct (s_end s <=? st) eqn:H1.
    + inversion H; subst. apply Nat.leb_le in H1. cbn [length]. rewrite Nat.sub_diag. cbn [skipn firstn].
      split; [lia|]. split; [|constructor]. constructor; [exact H1|].
      specialize (Hord [] s rs eq_refl). rewrite Forall_forall in *. intros t Ht.
      unfold before. specialize (Hord t Ht). unfold wfsec in Hs. lia.
    + destruct (en <=? s_start s) eqn:H2; [|discriminate]. apply Nat.leb_le in H2.
      replace (S (length rs) - 1) with (length rs) in H by lia.
      destruct (IH) as (Hi & Hb & Ha); try assumption.
      * intros pre s' post E. apply (Hord (s :: pre) s' post). cbn. now rewrite E.
      * cbn [length]. split; [lia|]. replace (S (length rs) - i) with (S (length rs - i)) by lia. cbn [skipn firstn].
        split; [exact Hb|]. constructor; [exact H2 | exact Ha].
Qed.

Lemma ordered_rev_cond l :
  ordered l -> forall pre s post, rev l = pre ++ s :: post -> Forall (fun t => s_end t <= s_start s) post.
Proof.
  intros Ho pre s post E.
  assert (El : l = rev post ++ s :: rev pre).
  { rewrite <- (rev_involutive l), E, rev_app_distr. cbn. now rewrite <- app_assoc. }
  subst l. apply ordered_app in Ho as (_ & _ & H3).
  rewrite Forall_forall. intros t Ht. apply H3; [now apply in_rev in Ht | now left].
Qed.

Lemma overlaps_spec l st en i :
  ordered l -> Forall wfsec l -> st <= en -> overlaps l st en = Some i ->
  i <= length l /\ Forall (before st) (firstn i l) /\ Forall (after en) (skipn i l).
Proof.
  intros Ho Hwf Hse H. unfold overlaps in H. rewrite <- rev_length in H.
  apply overlaps_rev_spec in H; try assumption.
  - rewrite rev_length in H. destruct H as (Hi & Hb & Ha). split; [exact Hi|].
    split.
    + rewrite <- (rev_involutive l) at 1. rewrite firstn_rev, rev_length.
      rewrite Forall_forall in *. intros x Hx. apply Hb. now apply in_rev.
    + rewrite <- (rev_involutive l) at 1. rewrite skipn_rev, rev_length.
      rewrite Forall_forall in *. intros x Hx. apply Ha. now apply in_rev.
  - now apply ordered_rev_cond.
  - rewrite Forall_forall in *. intros x Hx. apply Hwf. now apply in_rev.
Qed.

Lemma ordered_insert l i x :
  ordered l -> Forall (before (s_start x)) (firstn i l) -> Forall (after (s_end x)) (skipn i l) ->
  ordered (insert_at i x l).
Proof.
  intros Ho Hb Ha. unfold insert_at.
  rewrite <- (firstn_skipn i l) in Ho. apply ordered_app in Ho as (H1 & H2 & H3).
  apply ordered_app. split; [exact H1|]. split.
  - constructor; [|exact H2]. rewrite Forall_forall in *. intros b Hb'. apply Ha. exact Hb'.
  - intros a b Ha' [<- | Hb']; [rewrite Forall_forall in Hb; apply Hb; exact Ha' | auto].
Qed.

(** ** Convert: the invariant *)
Definition row_ok (content : list N) (p : section * entry) : Prop :=
  let s := fst p in let t := snd p in
  s_start s <= s_end s /\ s_end s <= length content /\
  slice content (s_start s) (s_end s) = e_name t /\
  (exists lo e, line_bounds (newlines_indices content) (e_line t) = Some (lo, e) /\ lo <= s_start s /\ s_end s <= e).

Definition conv_inv (content : list N) (acc : list (section * entry)) : Prop :=
  ordered (map fst acc) /\ Forall (row_ok content) acc.

Lemma In_firstn {A} n (l : list A) x : In x (firstn n l) -> In x l.
Proof. intros H. rewrite <- (firstn_skipn n l). apply in_or_app. now left. Qed.
Lemma In_skipn {A} n (l : list A) x : In x (skipn n l) -> In x l.
Proof. intros H. rewrite <- (firstn_skipn n l). apply in_or_app. now right. Qed.

Lemma my_skipn_skipn {A} a b (l : list A) : skipn a (skipn b l) = skipn (b + a) l.
Proof.
  revert l; induction b as [|b IH]; intros l; cbn; [reflexivity|].
  destruct l as [|x l]; [now rewrite skipn_nil|]. apply IH.
Qed.

Lemma slice_slice {A} (l : list A) lo e io n :
  lo <= e -> e <= length l -> io + n <= e - lo ->
  firstn n (skipn io (slice l lo e)) = slice l (lo + io) (lo + io + n).
Proof.
  intros H1 H2 H3. unfold slice.
  replace (lo + io + n - (lo + io)) with n by lia.
  rewrite skipn_firstn_comm, firstn_firstn, my_skipn_skipn.
  replace (Nat.min n (e - lo - io)) with n by lia. reflexivity.
Qed.

Lemma map_fst_insert {A B} i (x : A * B) l : map fst (insert_at i x l) = insert_at i (fst x) (map fst l).
Proof. unfold insert_at. now rewrite map_app, firstn_map, skipn_map. Qed.

Lemma Forall_insert {A} (P : A -> Prop) i x l : P x -> Forall P l -> Forall P (insert_at i x l).
Proof.
  intros Hx Hl. unfold insert_at. rewrite Forall_app. split.
  - rewrite Forall_forall in *. intros y Hy. apply Hl. eapply In_firstn; exact Hy. 
  - constructor; [exact Hx|]. rewrite Forall_forall in *. intros y Hy. apply Hl. eapply In_skipn; exact Hy.
Qed.

Lemma conv_step_inv content acc t :
  conv_inv content acc -> conv_inv content (conv_step content (newlines_indices content) acc t).
Proof.
  intros [Ho Hr]. unfold conv_step.
  destruct (line_bounds (newlines_indices content) (e_line t)) as [[lo e]|] eqn:Hlb; [|split; assumption].
  destruct (index_sub (e_name t) (slice content lo e)) as [io|] eqn:Hix; [|split; assumption].
  destruct (overlaps (map fst acc) (lo + io) (lo + io + length (e_name t))) as [i|] eqn:Hov; [|split; assumption].
  pose proof (line_bounds_spec _ _ _ _ Hlb) as [Hlo He].
  apply index_sub_spec in Hix as [Hname Hlen].
  assert (Hsl : length (slice content lo e) = e - lo).
  { unfold slice. rewrite firstn_length, skipn_length. lia. }
  rewrite Hsl in Hlen.
  assert (Hwf : Forall wfsec (map fst acc)).
  { rewrite Forall_forall in *. intros s Hs. apply in_map_iff in Hs as (p & <- & Hp). apply (Hr p Hp). }
  apply overlaps_spec in Hov as (Hi & Hb & Ha); [|assumption|assumption|lia].
  split.
  - rewrite map_fst_insert. cbn [fst]. apply ordered_insert; assumption.
  - apply Forall_insert; [|exact Hr]. unfold row_ok. cbn [fst snd s_start s_end].
    split; [lia|]. split; [lia|]. split.
    + rewrite <- Hname at 2. symmetry. apply slice_slice; lia.
    + exists lo, e. split; [exact Hlb|]. lia.
Qed.

Lemma convert_inv content tags : conv_inv content (convert content tags).
Proof.
  unfold convert.
  assert (H0 : conv_inv content []) by (split; constructor).
  revert H0. generalize (@nil (section * entry)).
  induction tags as [|t tags IH]; intros acc Hacc; cbn [fold_left]; [exact Hacc|].
  apply IH. now apply conv_step_inv.
Qed.

(** every output row stems from an input entry *)
Lemma convert_sub content tags p : In p (convert content tags) -> In (snd p) tags.
Proof.
  unfold convert.
  assert (H0 : forall q, In q (@nil (section*entry)) -> In (snd q) tags) by (intros q []).
  revert H0. generalize (@nil (section * entry)).
  assert (G : forall tl acc, (forall q, In q acc -> In (snd q) tags) -> (forall t, In t tl -> In t tags) ->
     In p (fold_left (conv_step content (newlines_indices content)) tl acc) -> In (snd p) tags).
  { induction tl as [|t tl IH]; intros acc Hacc Htl Hp; cbn in Hp; [auto|].
    eapply IH; [| intros t' Ht'; apply Htl; now right | exact Hp].
    intros q Hq. unfold conv_step in Hq.
    destruct (line_bounds _ _) as [[lo e]|]; [|auto].
    destruct (index_sub _ _); [|auto]. destruct (overlaps _ _ _); [|auto].
    unfold insert_at in Hq. apply in_app_or in Hq as [Hq|[<- | Hq]].
    - apply Hacc. eapply In_firstn; exact Hq.
    - cbn. apply Htl. now left.
    - apply Hacc. eapply In_skipn; exact Hq. }
  intros acc Hacc Hp. eapply G; eauto.
Qed.

(** ** ShardBuilder.Add accepts *)
Definition starts_sorted (l : list section) : Prop :=
  ForallOrdPairs (fun a b => s_start a <= s_start b) l.

Lemma ins_sorted_app l x :
  Forall (fun y => s_start y <= s_start x) l -> ins_sorted x l = l ++ [x].
Proof.
  induction l as [|y l IH]; intros H; cbn [ins_sorted app]; [reflexivity|].
  inversion H as [|? ? Hy Hl]; subst.
  destruct (s_start x <? s_start y) eqn:E; [apply Nat.ltb_lt in E; lia|].
  rewrite IH by exact Hl. reflexivity.
Qed.

Lemma sort_secs_sorted_id l : starts_sorted l -> sort_secs l = l.
Proof.
  unfold sort_secs. intros H. rewrite <- (rev_involutive l) at 2.
  assert (G : forall r, starts_sorted (rev r) -> fold_right ins_sorted [] r = rev r).
  { induction r as [|x r IH]; intros Hs; cbn; [reflexivity|].
    cbn in Hs. unfold starts_sorted in Hs.
    assert (Hs' : starts_sorted (rev r) /\ Forall (fun y => s_start y <= s_start x) (rev r)).
    { clear IH. revert Hs. generalize (rev r). induction l0 as [|a l0 IHl]; cbn; intros Hs.
      - split; constructor.
      - inversion Hs as [|? ? Ha Hr]; subst. destruct (IHl Hr) as [H1 H2].
        rewrite Forall_app in Ha. destruct Ha as [Ha1 Ha2]. split.
        + constructor; assumption.
        + constructor; [inversion Ha2; assumption | exact H2]. }
    destruct Hs' as [H1 H2]. rewrite IH by exact H1. now apply ins_sorted_app. }
  apply G. now rewrite rev_involutive.
Qed.

Lemma ordered_starts_sorted l : ordered l -> Forall wfsec l -> starts_sorted l.
Proof.
  unfold ordered, starts_sorted. induction 1 as [|a l Ha Hl IH]; intros Hw; constructor.
  - inversion Hw; subst. rewrite Forall_forall in *. intros b Hb. specialize (Ha b Hb). unfold wfsec in *. lia.
  - inversion Hw; subst. auto.
Qed.

Lemma chain_ok_ordered le l :
  ordered l -> Forall (fun s => le <= s_start s) l -> Forall wfsec l -> chain_ok le l = true.
Proof.
  revert le; induction l as [|s l IH]; intros le Ho Hle Hw; cbn; [reflexivity|].
  inversion Ho as [|? ? Hs Ho']; subst. inversion Hle as [|? ? Hle1 Hle']; subst. inversion Hw; subst.
  apply andb_true_iff. split; [now apply Nat.leb_le|]. apply IH; assumption.
Qed.

Lemma last_in {A} (l : list A) d : l <> [] -> In (last l d) l.
Proof.
  induction l as [|a l IH]; [congruence|]. intros _. destruct l as [|b l]; [now left|].
  right. apply IH. discriminate.
Qed.

Lemma add_accepts_ranges_ordered len l :
  ordered l -> Forall wfsec l -> Forall (fun s => s_end s <= len) l -> add_accepts_ranges len l = true.
Proof.
  intros Ho Hw Hb. unfold add_accepts_ranges.
  destruct l as [|x r]; [reflexivity|].
  inversion Ho as [|? ? Hx Ho']; subst. inversion Hw; subst.
  apply andb_true_iff. split.
  - apply chain_ok_ordered; assumption.
  - apply Nat.leb_le. rewrite Forall_forall in Hb. apply Hb. apply last_in. discriminate.
Qed.

(** ** newSearchableString's rune-boundary test *)
Lemma In_sec_boundaries x l :
  In x (sec_boundaries l) <-> exists s, In s l /\ (x = s_start s \/ x = s_end s).
Proof.
  unfold sec_boundaries. rewrite in_flat_map. split.
  - intros (s & Hs & [<- | [<- | []]]); exists s; auto.
  - intros (s & Hs & [-> | ->]); exists s; (split; [exact Hs|]); cbn; auto.
Qed.

Lemma sec_boundaries_sorted l : ordered l -> Forall wfsec l -> ForallOrdPairs le (sec_boundaries l).
Proof.
  unfold ordered. induction 1 as [|a l Ha Hl IH]; intros Hw; [constructor|].
  inversion Hw as [|? ? Hwa Hwl]; subst. unfold wfsec in Hwa.
  change (sec_boundaries (a :: l)) with (s_start a :: s_end a :: sec_boundaries l).
  assert (Hge : Forall (le (s_end a)) (sec_boundaries l)).
  { rewrite Forall_forall. intros x Hx. apply In_sec_boundaries in Hx as (s & Hs & Hx).
    rewrite Forall_forall in Ha, Hwl. specialize (Ha s Hs). specialize (Hwl s Hs). unfold wfsec in Hwl.
    destruct Hx as [-> | ->]; lia. }
  constructor; [|constructor; [exact Hge | exact (IH Hwl)]].
  constructor; [exact Hwa|]. eapply Forall_impl; [|exact Hge]. cbn. intros; lia.
Qed.

(** one pop at rune start [p]: what is left is still sorted and mentions only later rune starts (or values >= total) *)
Lemma pop_eq_inv p S' total bs :
  Forall (fun y => p < y) S' -> p < total ->
  ForallOrdPairs le bs -> Forall (fun x => x = p \/ In x S' \/ total <= x) bs ->
  ForallOrdPairs le (pop_eq p bs) /\ Forall (fun x => In x S' \/ total <= x) (pop_eq p bs).
Proof.
  intros HS Hp. induction bs as [|x r IH]; intros Hs Hb; cbn [pop_eq]; [split; constructor|].
  inversion Hs as [|? ? Hx Hr]; subst. inversion Hb as [|? ? Hbx Hbr]; subst.
  destruct (x =? p) eqn:E; [apply IH; assumption|]. apply Nat.eqb_neq in E.
  split; [exact Hs|].
  assert (Hxp : p < x).
  { destruct Hbx as [-> | [Hin | Hge]]; [congruence | | lia]. rewrite Forall_forall in HS. now apply HS. }
  constructor.
  - destruct Hbx as [-> | H]; [congruence | exact H].
  - rewrite Forall_forall in *. intros y Hy. specialize (Hx y Hy).
    destruct (Hbr y Hy) as [-> | H]; [lia | exact H].
Qed.

Lemma nss_fold_ok S total : forall bs,
  ForallOrdPairs lt S -> Forall (fun p => p < total) S ->
  ForallOrdPairs le bs -> Forall (fun x => In x S \/ total <= x) bs ->
  Forall (fun x => total <= x) (fold_left (fun bs pos => pop_eq pos bs) S bs).
Proof.
  induction S as [|p S' IH]; intros bs HS Hlt Hs Hb; cbn [fold_left].
  - eapply Forall_impl; [|exact Hb]. cbn. intros x [[]|H]; exact H.
  - inversion HS as [|? ? Hp HS']; subst. inversion Hlt as [|? ? Hpt Hlt']; subst.
    destruct (pop_eq_inv p S' total bs Hp Hpt Hs) as [H1 H2].
    { eapply Forall_impl; [|exact Hb]. cbn. intros x [[<- | H] | H]; auto. }
    apply IH; assumption.
Qed.

Lemma pop_eq_Forall (P : nat -> Prop) p bs : Forall P bs -> Forall P (pop_eq p bs).
Proof.
  induction 1 as [|x r Hx Hr IH]; cbn [pop_eq]; [constructor|].
  destruct (x =? p); [exact IH | now constructor].
Qed.
Lemma fold_pop_Forall (P : nat -> Prop) S : forall bs,
  Forall P bs -> Forall P (fold_left (fun bs pos => pop_eq pos bs) S bs).
Proof. induction S as [|p S' IH]; intros bs H; cbn [fold_left]; [exact H|]. now apply IH, pop_eq_Forall. Qed.
Lemma pop_eq_all p l : Forall (fun x => x = p) l -> pop_eq p l = [].
Proof. induction 1 as [|x r -> _ IH]; cbn [pop_eq]; [reflexivity|]. now rewrite Nat.eqb_refl. Qed.
Lemma sec_boundaries_length l : length (sec_boundaries l) = 2 * length l.
Proof. induction l as [|s l IH]; [reflexivity|]. cbn [sec_boundaries flat_map app length] in *. unfold sec_boundaries in IH. lia. Qed.

(** sections that are ordered and whose ends all are rune boundaries of the content pass the test: every boundary
    is popped (in the loop or at the total length), an even number, so no error and no panic *)
Lemma nss_verdict_ok content l :
  ordered l -> Forall wfsec l ->
  Forall (fun s => RB content (s_start s) /\ RB content (s_end s)) l ->
  nss_verdict content l = 0%N.
Proof.
  intros Ho Hw Hrb. unfold nss_verdict, nss_leftover.
  assert (HRB : Forall (RB content) (sec_boundaries l)).
  { rewrite Forall_forall. intros y Hy. apply In_sec_boundaries in Hy as (s & Hs & Hy).
    rewrite Forall_forall in Hrb. destruct (Hrb s Hs) as [R1 R2]. destruct Hy as [-> | ->]; assumption. }
  pose proof (nss_fold_ok (rune_starts content) (length content) (sec_boundaries l)) as Hge.
  pose proof (fold_pop_Forall (fun x => x <= length content) (rune_starts content) (sec_boundaries l)) as Hle.
  set (rest := fold_left _ _ _) in *.
  assert (Hge' : Forall (fun x => length content <= x) rest).
  { apply Hge.
    - apply rune_starts_sorted.
    - rewrite Forall_forall. intros p Hp. now apply rune_starts_spec in Hp.
    - now apply sec_boundaries_sorted.
    - eapply Forall_impl; [|exact HRB]. cbn. intros y Ry.
      pose proof (RB_le _ _ Ry). destruct (Nat.eq_dec y (length content)) as [->|Hne]; [right; lia|].
      left. apply rune_starts_spec. split; [exact Ry | lia]. }
  assert (Hle' : Forall (fun x => x <= length content) rest).
  { apply Hle. eapply Forall_impl; [|exact HRB]. cbn. intros y Ry. now apply RB_le. }
  assert (Heq : Forall (fun x => x = length content) rest).
  { rewrite Forall_forall in *. intros x Hx. specialize (Hge' x Hx). specialize (Hle' x Hx). lia. }
  rewrite (pop_eq_all _ _ Heq). cbn [length]. rewrite Nat.sub_0_r, sec_boundaries_length, Nat.even_mul. cbn [Nat.even orb].
  destruct rest as [|x r]; [reflexivity|]. inversion Hge' as [|? ? Hx _]; subst.
  apply Nat.ltb_ge in Hx. now rewrite Hx.
Qed.

(** line starts are rune boundaries: offset 0, or the byte after a '\n' (an ASCII byte is never inside a
    multi-byte rune) *)
Lemma line_start_RB content line lo e :
  line_bounds (newlines_indices content) line = Some (lo, e) -> RB content lo.
Proof.
  unfold line_bounds, newlines_indices. destruct (line <=? 0)%Z; [discriminate|].
  set (idx := Z.to_nat (line - 1)).
  destruct (nth_error (nls_aux content 0 false) idx) as [x|] eqn:Hx; [|discriminate].
  intros H; inversion H; subst; clear H.
  destruct idx as [|k]; [constructor|].
  destruct (nth_error (nls_aux content 0 false) k) as [y|] eqn:Hy; [|constructor].
  pose proof (nls_aux_sorted content 0 false k (S k) y e (Nat.lt_succ_diag_r k) Hy Hx) as Hlt.
  pose proof (nls_aux_bound _ _ _ _ (nth_error_In _ _ Hx)) as Hbe.
  destruct (nls_aux_char _ _ _ _ (nth_error_In _ _ Hy)) as [[_ Hn] | ->]; [|cbn in *; lia].
  rewrite Nat.sub_0_r in Hn. replace (S y) with (y + 1) by lia.
  eapply RB_after_ascii; [exact Hn | reflexivity].
Qed.

Lemma index_sub_nil l i : index_sub [] l = Some i -> i = 0.
Proof. destruct l; cbn; intros H; now inversion H. Qed.

Definition rb_row (content : list N) (p : section * entry) : Prop :=
  RB content (s_start (fst p)) /\ RB content (s_end (fst p)).

Lemma conv_step_rb content acc t :
  valid_utf8 (e_name t) = true ->
  Forall (rb_row content) acc -> Forall (rb_row content) (conv_step content (newlines_indices content) acc t).
Proof.
  intros Hv Hacc. unfold conv_step.
  destruct (line_bounds (newlines_indices content) (e_line t)) as [[lo e]|] eqn:Hlb; [|assumption].
  destruct (index_sub (e_name t) (slice content lo e)) as [io|] eqn:Hix; [|assumption].
  destruct (overlaps (map fst acc) (lo + io) (lo + io + length (e_name t))) as [i|] eqn:Hov; [|assumption].
  apply Forall_insert; [|exact Hacc]. unfold rb_row. cbn [fst s_start s_end].
  pose proof (line_bounds_spec _ _ _ _ Hlb) as [Hlo He].
  pose proof (line_start_RB _ _ _ _ Hlb) as Hrlo.
  destruct (e_name t) as [|b nm] eqn:En.
  - apply index_sub_nil in Hix. subst io. cbn [length]. rewrite !Nat.add_0_r. split; exact Hrlo.
  - rewrite <- En in *. apply index_sub_spec in Hix as [Hname Hlen].
    assert (Hsl : length (slice content lo e) = e - lo).
    { unfold slice. rewrite firstn_length, skipn_length. lia. }
    rewrite Hsl in Hlen.
    rewrite slice_slice in Hname by lia. unfold slice in Hname.
    replace (lo + io + length (e_name t) - (lo + io)) with (length (e_name t)) in Hname by lia.
    apply utf8_self_sync; [exact Hv | rewrite En; discriminate | exact Hname].
Qed.

Lemma convert_rb content tags :
  Forall (fun t => valid_utf8 (e_name t) = true) tags -> Forall (rb_row content) (convert content tags).
Proof.
  unfold convert. intros Hv.
  assert (H0 : Forall (rb_row content) []) by constructor.
  revert H0. generalize (@nil (section * entry)).
  induction Hv as [|t tags Ht Hts IH]; intros acc Hacc; cbn [fold_left]; [exact Hacc|].
  apply IH. now apply conv_step_rb.
Qed.

(** ** Main results *)
Lemma convert_ordered content tags : ordered (map fst (convert content tags)).
Proof. apply convert_inv. Qed.

Lemma convert_rows content tags : Forall (row_ok content) (convert content tags).
Proof. apply convert_inv. Qed.

Lemma convert_wf content tags : Forall wfsec (map fst (convert content tags)).
Proof.
  pose proof (convert_inv content tags) as [_ Hr]. rewrite Forall_forall in *. intros s Hs.
  apply in_map_iff in Hs as (p & <- & Hp). apply (Hr p Hp).
Qed.

Lemma convert_sorted_id content tags :
  sort_secs (map fst (convert content tags)) = map fst (convert content tags).
Proof. apply sort_secs_sorted_id, ordered_starts_sorted; [apply convert_ordered | apply convert_wf]. Qed.

(** sort + overlap + past-the-end tests: for ALL names (valid UTF-8 or not) *)
Lemma convert_ranges_accepted content tags :
  add_accepts_ranges (length content) (sort_secs (map fst (convert content tags))) = true.
Proof.
  rewrite convert_sorted_id. pose proof (convert_inv content tags) as [Ho Hr].
  apply add_accepts_ranges_ordered; [exact Ho | apply convert_wf |].
  rewrite Forall_forall in *; intros s Hs. apply in_map_iff in Hs as (p & <- & Hp). apply (Hr p Hp).
Qed.

(** the full verdict, for names that are valid UTF-8 *)
Lemma convert_accepted content tags :
  Forall (fun t => valid_utf8 (e_name t) = true) tags ->
  add_accepts content (map fst (convert content tags)) = true.
Proof.
  intros Hv. unfold add_accepts, add_verdict. rewrite convert_ranges_accepted. apply N.eqb_eq.
  rewrite convert_sorted_id. apply nss_verdict_ok; [apply convert_ordered | apply convert_wf |].
  pose proof (convert_rb content tags Hv) as Hrb. rewrite Forall_forall in *. intros s Hs.
  apply in_map_iff in Hs as (p & <- & Hp). apply (Hrb p Hp).
Qed.
