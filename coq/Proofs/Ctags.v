(** Proofs about Model/Ctags.v (C37). *)
From ZV Require Import Lib.Base Model.Ctags.

(** ** bytes.Index *)
Lemma prefixb_spec p l : prefixb p l = true -> firstn (length p) l = p /\ length p <= length l.
Proof.
  revert l; induction p as [|a p IH]; intros l H; cbn in *.
  - split; [reflexivity | lia].
  - destruct l as [|b l]; [discriminate|].
    apply andb_true_iff in H as [Hab Hp]. apply N.eqb_eq in Hab; subst b.
    destruct (IH _ Hp) as [E L]. cbn. rewrite E. split; [reflexivity | lia].
Qed.

Lemma index_sub_spec p l i :
  index_sub p l = Some i -> firstn (length p) (skipn i l) = p /\ i + length p <= length l.
Proof.
  revert i; induction l as [|b l IH]; intros i H.
  - cbn in H. destruct (prefixb p []) eqn:Hp; [|discriminate]. inversion H; subst.
    apply prefixb_spec in Hp. cbn. exact Hp.
  - cbn [index_sub] in H. destruct (prefixb p (b :: l)) eqn:Hp.
    + inversion H; subst. apply prefixb_spec in Hp. exact Hp.
    + destruct (index_sub p l) as [j|] eqn:Hj; [|discriminate]. cbn in H. inversion H; subst.
      destruct (IH _ eq_refl) as [E L]. cbn. split; [exact E | lia].
Qed.

(** ** newLinesIndices *)
Lemma nls_aux_bound l off pend x : In x (nls_aux l off pend) -> off <= x <= off + length l.
Proof.
  revert off pend; induction l as [|c r IH]; intros off pend H; cbn in *.
  - destruct pend; cbn in H; [destruct H as [<- | [ ] ]; lia | contradiction].
  - destruct (N.eqb c 10).
    + destruct H as [<- | H]; [lia|]. apply IH in H. lia.
    + apply IH in H. lia.
Qed.

(** every entry is either the offset of a newline byte or the final length *)
Lemma nls_aux_char l off pend x :
  In x (nls_aux l off pend) -> (off <= x /\ nth_error l (x - off) = Some 10%N) \/ x = off + length l.
Proof.
  revert off pend; induction l as [|c r IH]; intros off pend H; cbn in *.
  - destruct pend; cbn in H; [destruct H as [<- | [ ] ]; right; lia | contradiction].
  - destruct (N.eqb c 10) eqn:Hc.
    + destruct H as [<- | H].
      * left. split; [lia|]. rewrite Nat.sub_diag. cbn. apply N.eqb_eq in Hc. now subst.
      * apply IH in H as [[Hle Hn]| ->]; [left|right; lia]. split; [lia|].
        replace (x - off) with (S (x - S off)) by lia. exact Hn.
    + apply IH in H as [[Hle Hn]| ->]; [left|right; lia]. split; [lia|].
      replace (x - off) with (S (x - S off)) by lia. exact Hn.
Qed.

Lemma nls_aux_sorted l off pend :
  forall i j a b, i < j -> nth_error (nls_aux l off pend) i = Some a ->
                  nth_error (nls_aux l off pend) j = Some b -> a < b.
Proof.
  revert off pend; induction l as [|c r IH]; intros off pend i j a b Hij Ha Hb; cbn in *.
  - destruct pend; destruct i, j; cbn in *; try discriminate; try lia; destruct j; discriminate.
  - destruct (N.eqb c 10).
    + destruct i as [|i]; destruct j as [|j]; try lia; cbn in *.
      * inversion Ha; subst. apply nth_error_In, nls_aux_bound in Hb. lia.
      * eapply IH; [|exact Ha|exact Hb]. lia.
    + eapply IH; eauto.
Qed.

(** every newline byte is listed *)
Lemma nls_aux_complete l off pend p :
  off <= p -> nth_error l (p - off) = Some 10%N -> In p (nls_aux l off pend).
Proof.
  revert off pend; induction l as [|c r IH]; intros off pend Hp Hn; cbn in *.
  - destruct (p - off); discriminate.
  - destruct (Nat.eq_dec p off) as [->|Hne].
    + rewrite Nat.sub_diag in Hn. cbn in Hn. inversion Hn; subst. cbn. now left.
    + replace (p - off) with (S (p - S off)) in Hn by lia. cbn in Hn.
      destruct (N.eqb c 10); [right|]; apply IH; (lia || exact Hn).
Qed.

(** ** line_bounds *)
Lemma line_bounds_spec content line lo e :
  line_bounds (newlines_indices content) line = Some (lo, e) ->
  lo <= e <= length content.
Proof.
  unfold line_bounds, newlines_indices. destruct (line <=? 0)%Z; [discriminate|].
  set (idx := Z.to_nat (line - 1)).
  destruct (nth_error (nls_aux content 0 false) idx) as [x|] eqn:Hx; [|discriminate].
  intros H; inversion H; subst; clear H.
  pose proof (nls_aux_bound _ _ _ _ (nth_error_In _ _ Hx)) as Hb.
  destruct idx as [|k]; [lia|].
  destruct (nth_error (nls_aux content 0 false) k) as [y|] eqn:Hy; [|lia].
  pose proof (nls_aux_sorted content 0 false k (S k) y e (Nat.lt_succ_diag_r k) Hy Hx). lia.
Qed.

(** the bytes of the line [lo, e) contain no newline *)
Lemma line_bounds_no_nl content line lo e p :
  line_bounds (newlines_indices content) line = Some (lo, e) ->
  lo <= p < e -> nth_error content p <> Some 10%N.
Proof.
  unfold line_bounds, newlines_indices. destruct (line <=? 0)%Z; [discriminate|].
  set (idx := Z.to_nat (line - 1)).
  destruct (nth_error (nls_aux content 0 false) idx) as [x|] eqn:Hx; [|discriminate].
  intros H Hp Hnl; inversion H; subst; clear H.
  assert (Hin : In p (nls_aux content 0 false)).
  { apply nls_aux_complete; [lia|]. now rewrite Nat.sub_0_r. }
  apply In_nth_error in Hin as [m Hm].
  pose proof (nls_aux_sorted content 0 false) as Hs.
  destruct (Nat.lt_trichotomy m idx) as [Hlt|[->|Hgt]].
  - destruct idx as [|k]; [lia|].
    destruct (nth_error (nls_aux content 0 false) k) as [y|] eqn:Hy.
    + destruct (Nat.eq_dec m k) as [->|Hmk].
      * rewrite Hy in Hm. inversion Hm; subst. lia.
      * assert (p < y) by (eapply (Hs m k); [lia|exact Hm|exact Hy]). lia.
    + apply nth_error_None in Hy. assert (nth_error (nls_aux content 0 false) (S k) <> None) by (rewrite Hx; discriminate).
      apply nth_error_Some in H. lia.
  - rewrite Hx in Hm. inversion Hm; subst. lia.
  - assert (e < p) by (eapply (Hs idx m); [lia|exact Hx|exact Hm]). lia.
Qed.

(** ** overlaps *)
Definition before (st : nat) (s : section) : Prop := s_end s <= st.
Definition after (en : nat) (s : section) : Prop := en <= s_start s.
Definition wfsec (s : section) : Prop := s_start s <= s_end s.

(** ordered list of sections: every earlier one ends before every later one starts *)
Definition ordered (l : list section) : Prop :=
  ForallOrdPairs (fun a b => s_end a <= s_start b) l.

Lemma ordered_app l1 l2 :
  ordered (l1 ++ l2) <-> ordered l1 /\ ordered l2 /\ (forall a b, In a l1 -> In b l2 -> s_end a <= s_start b).
Proof.
  unfold ordered. induction l1 as [|x l1 IH]; cbn.
  - split; [intros H; repeat split; [constructor | exact H | contradiction] | intros (_ & H & _); exact H].
  - split.
    + intros H. inversion H as [|? ? Hx Hr]; subst. apply IH in Hr as (H1 & H2 & H3).
      rewrite Forall_app in Hx. destruct Hx as [Hx1 Hx2]. repeat split.
      * constructor; assumption.
      * exact H2.
      * intros a b [<- | Ha] Hb; [rewrite Forall_forall in Hx2; auto | auto].
    + intros (H1 & H2 & H3). inversion H1 as [|? ? Hx Hr]; subst. constructor.
      * rewrite Forall_app. split; [exact Hx|]. rewrite Forall_forall. intros b Hb. apply H3; [now left|exact Hb].
      * apply IH. repeat split; [exact Hr | exact H2 | intros a b Ha Hb; apply H3; [now right|exact Hb]].
Qed.

Lemma overlaps_rev_spec rs st en i :
  (forall pre s post, rs = pre ++ s :: post -> Forall (fun t => s_end t <= s_start s) post) ->
  Forall wfsec rs -> st <= en ->
  overlaps_rev rs (length rs) st en = Some i ->
  i <= length rs /\ Forall (before st) (skipn (length rs - i) rs) /\ Forall (after en) (firstn (length rs - i) rs).
Proof.
  induction rs as [|s rs IH]; intros Hord Hwf Hse H.
  - cbn in H. inversion H; subst. cbn. repeat split; constructor.
  - inversion Hwf as [|? ? Hs Hwf']; subst.
    cbn [overlaps_rev length] in H.
    destruct (s_end s <=? st) eqn:H1.
    + inversion H; subst. apply Nat.leb_le in H1. cbn [length]. rewrite Nat.sub_diag. cbn [skipn firstn].
      split; [lia|]. split; [|constructor]. constructor; [exact H1|].
      specialize (Hord [] s rs eq_refl). rewrite Forall_forall in *. intros t Ht.
      unfold before. specialize (Hord t Ht). unfold wfsec in Hs. lia.
    + destruct (en <=? s_start s) eqn:H2; [|discriminate]. apply Nat.leb_le in H2.
      replace (S (length rs) - 1) with (length rs) in H by lia.
      destruct (IH) as (Hi & Hb & Ha); try assumption.
      * intros pre s' post E. apply (Hord (s :: pre) s' post). cbn. now rewrite E.
      * cbn [length]. split; [lia|]. replace (S (length rs) - i) with (S (length rs - i)) by lia. cbn [skipn firstn].
        split; [exact Hb|]. constructor; [exact H2 | exact Ha].
Qed.

Lemma ordered_rev_cond l :
  ordered l -> forall pre s post, rev l = pre ++ s :: post -> Forall (fun t => s_end t <= s_start s) post.
Proof.
  intros Ho pre s post E.
  assert (El : l = rev post ++ s :: rev pre).
  { rewrite <- (rev_involutive l), E, rev_app_distr. cbn. now rewrite <- app_assoc. }
  subst l. apply ordered_app in Ho as (_ & _ & H3).
  rewrite Forall_forall. intros t Ht. apply H3; [now apply in_rev in Ht | now left].
Qed.

Lemma overlaps_spec l st en i :
  ordered l -> Forall wfsec l -> st <= en -> overlaps l st en = Some i ->
  i <= length l /\ Forall (before st) (firstn i l) /\ Forall (after en) (skipn i l).
Proof.
  intros Ho Hwf Hse H. unfold overlaps in H. rewrite <- rev_length in H.
  apply overlaps_rev_spec in H; try assumption.
  - rewrite rev_length in H. destruct H as (Hi & Hb & Ha). split; [exact Hi|].
    split.
    + rewrite <- (rev_involutive l) at 1. rewrite firstn_rev, rev_length.
      rewrite Forall_forall in *. intros x Hx. apply Hb. now apply in_rev.
    + rewrite <- (rev_involutive l) at 1. rewrite skipn_rev, rev_length.
      rewrite Forall_forall in *. intros x Hx. apply Ha. now apply in_rev.
  - now apply ordered_rev_cond.
  - rewrite Forall_forall in *. intros x Hx. apply Hwf. now apply in_rev.
Qed.

Lemma ordered_insert l i x :
  ordered l -> Forall (before (s_start x)) (firstn i l) -> Forall (after (s_end x)) (skipn i l) ->
  ordered (insert_at i x l).
Proof.
  intros Ho Hb Ha. unfold insert_at.
  rewrite <- (firstn_skipn i l) in Ho. apply ordered_app in Ho as (H1 & H2 & H3).
  apply ordered_app. split; [exact H1|]. split.
  - constructor; [|exact H2]. rewrite Forall_forall in *. intros b Hb'. apply Ha. exact Hb'.
  - intros a b Ha' [<- | Hb']; [rewrite Forall_forall in Hb; apply Hb; exact Ha' | auto].
Qed.

(** ** Convert: the invariant *)
Definition row_ok (content : list N) (p : section * entry) : Prop :=
  let s := fst p in let t := snd p in
  s_start s <= s_end s /\ s_end s <= length content /\
  slice content (s_start s) (s_end s) = e_name t /\
  (exists lo e, line_bounds (newlines_indices content) (e_line t) = Some (lo, e) /\ lo <= s_start s /\ s_end s <= e).

Definition conv_inv (content : list N) (acc : list (section * entry)) : Prop :=
  ordered (map fst acc) /\ Forall (row_ok content) acc.

Lemma In_firstn {A} n (l : list A) x : In x (firstn n l) -> In x l.
Proof. intros H. rewrite <- (firstn_skipn n l). apply in_or_app. now left. Qed.
Lemma In_skipn {A} n (l : list A) x : In x (skipn n l) -> In x l.
Proof. intros H. rewrite <- (firstn_skipn n l). apply in_or_app. now right. Qed.

Lemma my_skipn_skipn {A} a b (l : list A) : skipn a (skipn b l) = skipn (b + a) l.
Proof.
  revert l; induction b as [|b IH]; intros l; cbn; [reflexivity|].
  destruct l as [|x l]; [now rewrite skipn_nil|]. apply IH.
Qed.

Lemma slice_slice {A} (l : list A) lo e io n :
  lo <= e -> e <= length l -> io + n <= e - lo ->
  firstn n (skipn io (slice l lo e)) = slice l (lo + io) (lo + io + n).
Proof.
  intros H1 H2 H3. unfold slice.
  replace (lo + io + n - (lo + io)) with n by lia.
  rewrite skipn_firstn_comm, firstn_firstn, my_skipn_skipn.
  replace (Nat.min n (e - lo - io)) with n by lia. reflexivity.
Qed.

Lemma map_fst_insert {A B} i (x : A * B) l : map fst (insert_at i x l) = insert_at i (fst x) (map fst l).
Proof. unfold insert_at. now rewrite map_app, firstn_map, skipn_map. Qed.

Lemma Forall_insert {A} (P : A -> Prop) i x l : P x -> Forall P l -> Forall P (insert_at i x l).
Proof.
  intros Hx Hl. unfold insert_at. rewrite Forall_app. split.
  - rewrite Forall_forall in *. intros y Hy. apply Hl. eapply In_firstn; exact Hy. 
  - constructor; [exact Hx|]. rewrite Forall_forall in *. intros y Hy. apply Hl. eapply In_skipn; exact Hy.
Qed.

Lemma conv_step_inv content acc t :
  conv_inv content acc -> conv_inv content (conv_step content (newlines_indices content) acc t).
Proof.
  intros [Ho Hr]. unfold conv_step.
  destruct (line_bounds (newlines_indices content) (e_line t)) as [[lo e]|] eqn:Hlb; [|split; assumption].
  destruct (index_sub (e_name t) (slice content lo e)) as [io|] eqn:Hix; [|split; assumption].
  destruct (overlaps (map fst acc) (lo + io) (lo + io + length (e_name t))) as [i|] eqn:Hov; [|split; assumption].
  pose proof (line_bounds_spec _ _ _ _ Hlb) as [Hlo He].
  apply index_sub_spec in Hix as [Hname Hlen].
  assert (Hsl : length (slice content lo e) = e - lo).
  { unfold slice. rewrite firstn_length, skipn_length. lia. }
  rewrite Hsl in Hlen.
  assert (Hwf : Forall wfsec (map fst acc)).
  { rewrite Forall_forall in *. intros s Hs. apply in_map_iff in Hs as (p & <- & Hp). apply (Hr p Hp). }
  apply overlaps_spec in Hov as (Hi & Hb & Ha); [|assumption|assumption|lia].
  split.
  - rewrite map_fst_insert. cbn [fst]. apply ordered_insert; assumption.
  - apply Forall_insert; [|exact Hr]. unfold row_ok. cbn [fst snd s_start s_end].
    split; [lia|]. split; [lia|]. split.
    + rewrite <- Hname at 2. symmetry. apply slice_slice; lia.
    + exists lo, e. split; [exact Hlb|]. lia.
Qed.

Lemma convert_inv content tags : conv_inv content (convert content tags).
Proof.
  unfold convert.
  assert (H0 : conv_inv content []) by (split; constructor).
  revert H0. generalize (@nil (section * entry)).
  induction tags as [|t tags IH]; intros acc Hacc; cbn [fold_left]; [exact Hacc|].
  apply IH. now apply conv_step_inv.
Qed.

(** every output row stems from an input entry *)
Lemma convert_sub content tags p : In p (convert content tags) -> In (snd p) tags.
Proof.
  unfold convert.
  assert (H0 : forall q, In q (@nil (section*entry)) -> In (snd q) tags) by (intros q []).
  revert H0. generalize (@nil (section * entry)).
  assert (G : forall tl acc, (forall q, In q acc -> In (snd q) tags) -> (forall t, In t tl -> In t tags) ->
     In p (fold_left (conv_step content (newlines_indices content)) tl acc) -> In (snd p) tags).
  { induction tl as [|t tl IH]; intros acc Hacc Htl Hp; cbn in Hp; [auto|].
    eapply IH; [| intros t' Ht'; apply Htl; now right | exact Hp].
    intros q Hq. unfold conv_step in Hq.
    destruct (line_bounds _ _) as [[lo e]|]; [|auto].
    destruct (index_sub _ _); [|auto]. destruct (overlaps _ _ _); [|auto].
    unfold insert_at in Hq. apply in_app_or in Hq as [Hq|[<- | Hq]].
    - apply Hacc. eapply In_firstn; exact Hq.
    - cbn. apply Htl. now left.
    - apply Hacc. eapply In_skipn; exact Hq. }
  intros acc Hacc Hp. eapply G; eauto.
Qed.

(** ** ShardBuilder.Add accepts *)
Definition starts_sorted (l : list section) : Prop :=
  ForallOrdPairs (fun a b => s_start a <= s_start b) l.

Lemma ins_sorted_app l x :
  Forall (fun y => s_start y <= s_start x) l -> ins_sorted x l = l ++ [x].
Proof.
  induction l as [|y l IH]; intros H; cbn [ins_sorted app]; [reflexivity|].
  inversion H as [|? ? Hy Hl]; subst.
  destruct (s_start x <? s_start y) eqn:E; [apply Nat.ltb_lt in E; lia|].
  rewrite IH by exact Hl. reflexivity.
Qed.

Lemma sort_secs_sorted_id l : starts_sorted l -> sort_secs l = l.
Proof.
  unfold sort_secs. intros H. rewrite <- (rev_involutive l) at 2.
  assert (G : forall r, starts_sorted (rev r) -> fold_right ins_sorted [] r = rev r).
  { induction r as [|x r IH]; intros Hs; cbn; [reflexivity|].
    cbn in Hs. unfold starts_sorted in Hs.
    assert (Hs' : starts_sorted (rev r) /\ Forall (fun y => s_start y <= s_start x) (rev r)).
    { clear IH. revert Hs. generalize (rev r). induction l0 as [|a l0 IHl]; cbn; intros Hs.
      - split; constructor.
      - inversion Hs as [|? ? Ha Hr]; subst. destruct (IHl Hr) as [H1 H2].
        rewrite Forall_app in Ha. destruct Ha as [Ha1 Ha2]. split.
        + constructor; assumption.
        + constructor; [inversion Ha2; assumption | exact H2]. }
    destruct Hs' as [H1 H2]. rewrite IH by exact H1. now apply ins_sorted_app. }
  apply G. now rewrite rev_involutive.
Qed.

Lemma ordered_starts_sorted l : ordered l -> Forall wfsec l -> starts_sorted l.
Proof.
  unfold ordered, starts_sorted. induction 1 as [|a l Ha Hl IH]; intros Hw; constructor.
  - inversion Hw; subst. rewrite Forall_forall in *. intros b Hb. specialize (Ha b Hb). unfold wfsec in *. lia.
  - inversion Hw; subst. auto.
Qed.

Lemma chain_ok_ordered le l :
  ordered l -> Forall (fun s => le <= s_start s) l -> Forall wfsec l -> chain_ok le l = true.
Proof.
  revert le; induction l as [|s l IH]; intros le Ho Hle Hw; cbn; [reflexivity|].
  inversion Ho as [|? ? Hs Ho']; subst. inversion Hle as [|? ? Hle1 Hle']; subst. inversion Hw; subst.
  apply andb_true_iff. split; [now apply Nat.leb_le|]. apply IH; assumption.
Qed.

Lemma last_in {A} (l : list A) d : l <> [] -> In (last l d) l.
Proof.
  induction l as [|a l IH]; [congruence|]. intros _. destruct l as [|b l]; [now left|].
  right. apply IH. discriminate.
Qed.

Lemma add_accepts_ordered len l :
  ordered l -> Forall wfsec l -> Forall (fun s => s_end s <= len) l -> add_accepts len l = true.
Proof.
  intros Ho Hw Hb. unfold add_accepts. rewrite sort_secs_sorted_id by now apply ordered_starts_sorted.
  destruct l as [|x r]; [reflexivity|].
  inversion Ho as [|? ? Hx Ho']; subst. inversion Hw; subst.
  apply andb_true_iff. split.
  - apply chain_ok_ordered; assumption.
  - apply Nat.leb_le. rewrite Forall_forall in Hb. apply Hb. apply last_in. discriminate.
Qed.

(** ** Main results *)
Lemma convert_ordered content tags : ordered (map fst (convert content tags)).
Proof. apply convert_inv. Qed.

Lemma convert_rows content tags : Forall (row_ok content) (convert content tags).
Proof. apply convert_inv. Qed.

Lemma convert_accepted content tags :
  add_accepts (length content) (map fst (convert content tags)) = true.
Proof.
  pose proof (convert_inv content tags) as [Ho Hr].
  apply add_accepts_ordered; [exact Ho| |]; rewrite Forall_forall in *; intros s Hs;
    apply in_map_iff in Hs as (p & <- & Hp); apply (Hr p Hp).
Qed.
