(** C32 with moveAll's failure fallback, continued: the trash rule and the restore theorem for [cleanup_f]. *)
From ZV Require Import Lib.Base Model.Cleanup Proofs.CleanupProofs Proofs.CleanupUnassigned Proofs.CleanupTrash Proofs.CleanupRevive Proofs.CleanupRestore Proofs.CleanupFailure.
Open Scope Z_scope.

(** ---- "trash deleted only if old, conflicting or assigned" under any rename failures *)
Section TrashKeptF.
  Variables (d : dir) (repos : list N) (now : Z) (sm : bool) (mf : bool -> N -> bool).
  Variables (t : file) (e : entry) (id : N).
  Hypothesis Hwf : wf d.
  Hypothesis Hwft : wf_trash d.
  Hypothesis Ht : In t (d_trash d).
  Hypothesis He : In e (alive_entries t).
  Hypothesis Hid : e_id e = id.
  Hypothesis Hfresh : trash_drop d now id = false.
  Hypothesis Hun : ~ In id repos.

  Lemma plan_f_safeT : Forall (safeT (f_base t)) (plan_f d repos now sm mf).
  Proof.
    pose proof (plan_safeT d repos now sm t e id Hwf Hwft Ht He Hid Hfresh Hun) as PS.
    unfold plan in PS. repeat rewrite Forall_app in PS. destruct PS as [P1 [P3 [_ [_ PC]]]].
    unfold plan_f. repeat rewrite Forall_app. split; [exact P1|]. split; [exact P3|]. split; [|split; [|exact PC]].
    - apply Forall_forall. intros a Ha. unfold plan4_f in Ha. apply in_flat_map in Ha. destruct Ha as [i [Hi Ha]].
      destruct (memN i (trash_keys d now)).
      + apply moves_in in Ha; [|intros s []]. destruct Ha as [s [Hs Hm]]. simpl in Hs.
        assert (Hb : s_base s <> f_base t).
        { intros Hb. apply Hun. rewrite <- (trash_ref_is_t d t e id Hwft Ht He Hid s i Hs Hb). exact Hi. }
        unfold move_act in Hm. destruct Hm as [Hm|[Hm|[Hm _]]]; subst a; simpl; auto.
      + destruct (memN i (tomb_keys d now)); [|contradiction].
        destruct (tomb_pick (tomb_candidates (d_index d) i)); [|contradiction].
        destruct Ha as [<-|[]]. exact I.
    - apply Forall_forall. intros a Ha. unfold plan5_f in Ha. apply in_flat_map in Ha. destruct Ha as [i [_ Ha]].
      apply in_app_or in Ha. destruct Ha as [Ha|Ha].
      + apply in_map_iff in Ha. destruct Ha as [s [<- _]]. exact I.
      + apply in_app_or in Ha. destruct Ha as [Ha|Ha].
        * apply in_map_iff in Ha. destruct Ha as [s [<- _]]. exact I.
        * apply moves_in in Ha; [|intros s []]. destruct Ha as [s [Hs Hm]]. simpl in Hs.
          assert (Hdst : s_base s <> f_base t).
          { intros Hb. apply filter_In in Hs. destruct Hs as [Hs _].
            apply in_group in Hs. destruct Hs as [Hs _].
            apply in_get_shards in Hs. destruct Hs as [g [e2 [Hg [He2 ->]]]]. simpl in Hb.
            pose proof (wf_trash_names d Hwf t g e Ht Hg (eq_sym Hb) He) as Hin. rewrite Hid in Hin.
            unfold trash_drop in Hfresh. apply memN_In in Hin. unfold ix in Hfresh. rewrite Hin in Hfresh. discriminate. }
          unfold move_act in Hm. destruct (s_compound s).
          -- destruct Hm as [totr ->]. simpl. intros _. exact Hdst.
          -- destruct Hm as [Hm|[Hm|Hm]]; subst a; simpl; auto.
  Qed.

  Theorem trash_kept_any_failure :
    exists t', In t' (d_trash (cleanup_f d repos now sm mf)) /\ f_base t' = f_base t /\ f_repos t' = f_repos t.
  Proof.
    unfold cleanup_f. apply (fold_holds_trash now (f_base t) (f_repos t)).
    - exact plan_f_safeT.
    - exists t. auto.
  Qed.
End TrashKeptF.

(** ---- restored from the trash, provided no rename of THIS repository's trashed shards fails *)
Lemma moves_nofail_on : forall mf ti id g done,
  (forall s, In s g -> mf ti (s_base s) = false) ->
  moves mf ti id done g =
  flat_map (fun s => if s_compound s
                     then (if ti then [RmIndex (s_base s); RmTrash (s_base s)] else [TombOrRm (s_base s) id true])
                     else [rm_dst ti s; mv ti s]) g.
Proof.
  intros mf ti id g. induction g as [|s r IH]; intros done Hg; [reflexivity|].
  simpl. destruct (s_compound s).
  - rewrite IH; [reflexivity|]. intros s' Hs'. apply Hg. right. exact Hs'.
  - rewrite (Hg s (or_introl eq_refl)). rewrite IH; [reflexivity|]. intros s' Hs'. apply Hg. right. exact Hs'.
Qed.

Section RestoreF.
  Variables (d : dir) (repos : list N) (now : Z) (sm : bool) (mf : bool -> N -> bool).
  Variables (t : file) (e : entry) (id : N).
  Hypothesis Hwf : wf d.
  Hypothesis Hwft : wf_trash d.
  Hypothesis Ht : In t (d_trash d).
  Hypothesis Hone : alive_entries t = [e].
  Hypothesis Hsimple : f_compound t = false.
  Hypothesis Hid : e_id e = id.
  Hypothesis Hassigned : In id repos.
  Hypothesis Hnodup : NoDup repos.
  Hypothesis Hkey : In id (trash_keys d now).
  (* no rename into the index fails for a trashed shard of this repository (any other rename may fail) *)
  Hypothesis Hnofail : forall s, In s (group (tr d) id) -> mf true (s_base s) = false.

  Let b := f_base t.

  Definition F4f (i : N) : list act :=
    if memN i (trash_keys d now) then moves mf true i [] (group (tr d) i)
    else if memN i (tomb_keys d now) then
           match tomb_pick (tomb_candidates (d_index d) i) with
           | Some b' => [Tomb b' i false]
           | None => []
           end
    else [].

  Lemma other_safe_f : forall i, i <> id -> Forall (fun a => safePre b a /\ safePost b a) (F4f i).
  Proof.
    intros i Hne. unfold F4f. destruct (memN i (trash_keys d now)).
    - apply Forall_forall. intros a Ha. apply moves_in in Ha; [|intros s []]. destruct Ha as [s [Hs Hm]]. simpl in Hs.
      assert (Hb : s_base s <> b).
      { intros Hb. apply Hne. exact (ref_is_id d t e id Hwft Ht Hone Hid s i Hs Hb). }
      unfold move_act in Hm. destruct Hm as [Hm|[Hm|[Hm _]]]; subst a; simpl; auto.
    - destruct (memN i (tomb_keys d now)); [|constructor].
      destruct (tomb_pick (tomb_candidates (d_index d) i)) as [b'|] eqn:TP; [|constructor].
      constructor; [|constructor]. simpl. split; [exact I|].
      apply tomb_pick_candidate in TP. destruct TP as [dt Hc].
      apply candidate_file in Hc. destruct Hc as [g [Hg [Hgb _]]]. rewrite <- Hgb.
      exact (no_index_name d now t e id Hwf Ht Hone Hid Hkey g Hg).
  Qed.

  Lemma others_safe_f : forall l, ~ In id l -> Forall (fun a => safePre b a /\ safePost b a) (flat_map F4f l).
  Proof.
    induction l as [|i l IH]; intros Hn; [constructor|].
    simpl. apply Forall_app. split.
    - apply other_safe_f. intros ->. apply Hn. left. reflexivity.
    - apply IH. intros H. apply Hn. right. exact H.
  Qed.

  Lemma post_plan5_f : Forall (safePost b) (plan5_f d repos sm mf).
  Proof.
    apply Forall_forall. intros a Ha. unfold plan5_f in Ha. apply in_flat_map in Ha. destruct Ha as [i [_ Ha]].
    apply in_app_or in Ha. destruct Ha as [Ha|Ha].
    - apply in_map_iff in Ha. destruct Ha as [s [<- _]]. exact I.
    - apply in_app_or in Ha. destruct Ha as [Ha|Ha].
      + apply in_map_iff in Ha. destruct Ha as [s [<- Hs]]. apply filter_In in Hs. destruct Hs as [Hs _].
        simpl. exact (ix_ref_base d now t e id Hwf Ht Hone Hid Hkey s i Hs).
      + apply moves_in in Ha; [|intros s []]. destruct Ha as [s [Hs Hm]]. simpl in Hs.
        apply filter_In in Hs. destruct Hs as [Hs _].
        pose proof (ix_ref_base d now t e id Hwf Ht Hone Hid Hkey s i Hs) as Hb.
        unfold move_act in Hm. destruct (s_compound s).
        * destruct Hm as [totr ->]. exact Hb.
        * destruct Hm as [Hm|[Hm|Hm]]; subst a; simpl; auto.
  Qed.

  Theorem assigned_restored_from_trash_f : restored b (f_repos t) (cleanup_f d repos now sm mf).
  Proof.
    destruct (in_split id repos Hassigned) as [l1 [l2 Hrep]].
    assert (Hn1 : ~ In id l1 /\ ~ In id l2).
    { rewrite Hrep in Hnodup. apply NoDup_remove_2 in Hnodup. split; intros H; apply Hnodup; apply in_or_app; auto. }
    destruct Hn1 as [Hn1 Hn2].
    destruct (get_shards_split (d_trash d) t e (wft_nodup d Hwft) Ht Hone) as [g1 [g2 [Hsp [Hg1 Hg2]]]].
    set (s0 := mkS (e_id e) (e_name e) (f_base t) (f_compound t) (f_mtime t)) in *.
    assert (Hgrp : group (tr d) id = group g1 id ++ s0 :: group g2 id).
    { unfold tr. rewrite Hsp. rewrite group_app. f_equal. unfold group at 1. simpl.
      assert (E : N.eqb (e_id e) id = true) by (apply N.eqb_eq; exact Hid). rewrite E. reflexivity. }
    assert (Hmoves : moves mf true id [] (group (tr d) id) =
                     flat_map (move_to true) (group g1 id) ++ [RmIndex b] ++ [MvToIndex b] ++ flat_map (move_to true) (group g2 id)).
    { rewrite (moves_nofail_on mf true id (group (tr d) id) [] Hnofail).
      rewrite Hgrp. rewrite flat_map_app. simpl. rewrite Hsimple. unfold rm_dst, mv. simpl.
      f_equal; [|f_equal; f_equal]; apply flat_map_ext; intros s; unfold move_to; destruct (s_compound s); reflexivity. }
    assert (Hplan4 : plan4_f d repos now mf = flat_map F4f l1 ++
              (flat_map (move_to true) (group g1 id) ++ [RmIndex b] ++ [MvToIndex b] ++ flat_map (move_to true) (group g2 id))
              ++ flat_map F4f l2).
    { unfold plan4_f. change (flat_map _ repos) with (flat_map F4f repos). rewrite Hrep.
      rewrite flat_map_app. simpl. f_equal. f_equal.
      unfold F4f at 1. rewrite (key_mem d now id Hkey). exact Hmoves. }
    unfold cleanup_f, plan_f. rewrite Hplan4.
    repeat rewrite fold_left_app.
    apply fold_post; [constructor; [exact I|constructor]|].
    apply fold_post; [exact post_plan5_f|].
    apply fold_post; [apply (Forall_snd (safePre b)); apply others_safe_f; exact Hn2|].
    apply fold_post.
    { apply Forall_forall. intros a Ha. apply in_flat_map in Ha. destruct Ha as [s [Hs Ha]].
      apply in_group in Hs. destruct Hs as [Hs _].
      pose proof (move_to_index_safe t s (Hg2 s Hs)) as HF. rewrite Forall_forall in HF. apply HF. exact Ha. }
    change (fold_left (apply now) [MvToIndex b] ?X) with (apply now X (MvToIndex b)).
    apply trigger_restore.
    change (fold_left (apply now) [RmIndex b] ?X) with (apply now X (RmIndex b)).
    apply pre_step; [exact I|].
    apply fold_pre.
    { apply Forall_forall. intros a Ha. apply in_flat_map in Ha. destruct Ha as [s [Hs Ha]].
      apply in_group in Hs. destruct Hs as [Hs _].
      pose proof (move_to_index_safe t s (Hg1 s Hs)) as HF. rewrite Forall_forall in HF. apply HF. exact Ha. }
    apply fold_pre; [apply (Forall_fst _ (safePost b)); apply others_safe_f; exact Hn1|].
    apply fold_pre; [exact (pre_plan3 d sm t)|].
    apply fold_pre; [exact (pre_plan1 d now t e id Hwft Ht Hone Hid Hkey)|].
    split.
    - exists t. auto.
    - intros t' Ht' Hb'. assert (t' = t) by (eapply NoDup_base_inj; eauto using wft_nodup). subst t'. auto.
  Qed.
End RestoreF.
