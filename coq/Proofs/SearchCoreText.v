(** C01, layer 1: texts, trigram windows, posting lists, and the exactness of verified substring candidates. *)
From ZV Require Import Lib.Base Model.SearchCore.
From Coq Require Import Sorting.Sorted ZifyBool.

(* ------------------------------------------------------------------ small list facts *)
Lemma list_eqb_N_eq : forall a b, runes_eqb a b = true <-> a = b.
Proof.
  unfold runes_eqb. induction a as [|x a IH]; destruct b as [|y b]; simpl; split; intro H; try congruence; try reflexivity.
  - apply andb_true_iff in H. destruct H as [H1 H2]. apply N.eqb_eq in H1. apply IH in H2. congruence.
  - inversion H; subst. rewrite N.eqb_refl. simpl. apply IH. reflexivity.
Qed.
Lemma mem_nat_In : forall x l, mem_nat x l = true <-> In x l.
Proof.
  induction l as [|y l IH]; simpl; split; intro H; try discriminate; try contradiction.
  - apply orb_true_iff in H. destruct H as [H|H]; [left; apply Nat.eqb_eq in H; auto | right; apply IH; auto].
  - apply orb_true_iff. destruct H as [H|H]; [left; subst; apply Nat.eqb_refl | right; apply IH; auto].
Qed.
Lemma memN_In : forall x l, memN x l = true <-> In x l.
Proof.
  induction l as [|y l IH]; simpl; split; intro H; try discriminate; try contradiction.
  - apply orb_true_iff in H. destruct H as [H|H]; [left; apply N.eqb_eq in H; auto | right; apply IH; auto].
  - apply orb_true_iff. destruct H as [H|H]; [left; subst; apply N.eqb_refl | right; apply IH; auto].
Qed.

Definition inc (l : list nat) : Prop := StronglySorted lt l.

Lemma inc_filter : forall f l, inc l -> inc (filter f l).
Proof.
  unfold inc. induction l as [|x l IH]; simpl; intro H; [constructor|].
  inversion H as [|? ? Hs Hf]; subst. destruct (f x).
  - constructor; [apply IH; auto|]. rewrite Forall_forall in *. intros y Hy. apply filter_In in Hy. apply Hf. tauto.
  - apply IH; auto.
Qed.
Lemma inc_ext : forall l1 l2, inc l1 -> inc l2 -> (forall x, In x l1 <-> In x l2) -> l1 = l2.
Proof.
  unfold inc. induction l1 as [|x l1 IH]; intros l2 H1 H2 Hext.
  - destruct l2 as [|y l2]; [reflexivity|]. exfalso. apply (Hext y). left; reflexivity.
  - destruct l2 as [|y l2]; [exfalso; apply (Hext x); left; reflexivity|].
    inversion H1 as [|? ? Hs1 Hf1]; inversion H2 as [|? ? Hs2 Hf2]; subst.
    rewrite Forall_forall in Hf1, Hf2.
    assert (x = y) as ->.
    { destruct (proj1 (Hext x) (or_introl eq_refl)) as [E|Hin]; [auto|].
      destruct (proj2 (Hext y) (or_introl eq_refl)) as [E|Hin']; [auto|].
      specialize (Hf2 _ Hin). specialize (Hf1 _ Hin'). lia. }
    f_equal. apply IH; auto. intro z. split; intro Hz.
    + destruct (proj1 (Hext z) (or_intror Hz)) as [E|Hin]; [|auto]. subst. specialize (Hf1 _ Hz). lia.
    + destruct (proj2 (Hext z) (or_intror Hz)) as [E|Hin]; [|auto]. subst. specialize (Hf2 _ Hz). lia.
Qed.
Lemma inc_seq : forall n s, inc (seq s n).
Proof.
  unfold inc. induction n as [|n IH]; intro s; simpl; constructor; [apply IH|].
  rewrite Forall_forall. intros y Hy. apply in_seq in Hy. lia.
Qed.
Lemma inc_map_add : forall b l, inc l -> inc (map (fun x => b + x) l).
Proof.
  unfold inc. induction l as [|x l IH]; simpl; intro H; constructor; inversion H as [|? ? Hs Hf]; subst.
  - apply IH; auto.
  - rewrite Forall_forall in *. intros y Hy. apply in_map_iff in Hy. destruct Hy as [z [<- Hz]]. specialize (Hf _ Hz). lia.
Qed.
Lemma inc_app : forall l1 l2, inc l1 -> inc l2 -> (forall x y, In x l1 -> In y l2 -> x < y) -> inc (l1 ++ l2).
Proof.
  unfold inc. induction l1 as [|x l1 IH]; simpl; intros l2 H1 H2 Hlt; [auto|].
  inversion H1 as [|? ? Hs Hf]; subst. constructor.
  - apply IH; auto.
  - rewrite Forall_forall in *. intros y Hy. apply in_app_iff in Hy. destruct Hy as [Hy|Hy]; [apply Hf; auto | apply Hlt; auto].
Qed.

(* drop_while / take_while on increasing lists are filters *)
Lemma drop_while_lt_filter : forall B l, inc l -> drop_while (fun p => p <? B) l = filter (fun p => B <=? p) l.
Proof.
  unfold inc. induction l as [|x l IH]; simpl; intro H; [reflexivity|].
  inversion H as [|? ? Hs Hf]; subst. destruct (x <? B) eqn:E.
  - assert (B <=? x = false) as -> by lia. apply IH; auto.
  - assert (B <=? x = true) as -> by lia. f_equal.
    symmetry. rewrite Forall_forall in Hf. clear IH H.
    induction l as [|y l IH]; simpl; [reflexivity|].
    inversion Hs as [|? ? Hs' Hf']; subst.
    assert (x < y) by (apply Hf; left; reflexivity).
    assert (B <=? y = true) as -> by lia. f_equal. apply IH; auto. intros z Hz. apply Hf. right; auto.
Qed.
Lemma take_while_lt_filter : forall B l, inc l -> take_while (fun p => p <? B) l = filter (fun p => p <? B) l.
Proof.
  unfold inc. induction l as [|x l IH]; simpl; intro H; [reflexivity|].
  inversion H as [|? ? Hs Hf]; subst. destruct (x <? B) eqn:E.
  - f_equal. apply IH; auto.
  - rewrite Forall_forall in Hf. clear IH H. induction l as [|y l IH]; simpl; [reflexivity|].
    inversion Hs as [|? ? Hs' Hf']; subst.
    assert (x < y) by (apply Hf; left; reflexivity).
    assert (y <? B = false) as -> by lia. apply IH; auto. intros z Hz. apply Hf. right; auto.
Qed.
Lemma drop_while_le_filter : forall B l, inc l -> drop_while (fun p => p <=? B) l = filter (fun p => S B <=? p) l.
Proof.
  intros B l H. rewrite <- (drop_while_lt_filter (S B) l H).
  clear H. induction l as [|x l IH]; simpl; [reflexivity|].
  assert ((x <=? B) = (x <? S B)) as -> by lia. destruct (x <? S B); [apply IH | reflexivity].
Qed.
Lemma filter_filter : forall (A : Type) (f g : A -> bool) l, filter f (filter g l) = filter (fun x => g x && f x) l.
Proof.
  induction l as [|x l IH]; simpl; [reflexivity|]. destruct (g x); simpl; [destruct (f x); simpl; congruence | auto].
Qed.

Lemma forallb_map_eq : forall (A B : Type) (f : B -> bool) (g : A -> B) l, forallb f (map g l) = forallb (fun x => f (g x)) l.
Proof. induction l as [|x l IH]; simpl; congruence. Qed.
Lemma existsb_map_eq : forall (A B : Type) (f : B -> bool) (g : A -> B) l, existsb f (map g l) = existsb (fun x => f (g x)) l.
Proof. induction l as [|x l IH]; simpl; congruence. Qed.
Lemma forallb_ext_in : forall (A : Type) (f g : A -> bool) l, (forall x, In x l -> f x = g x) -> forallb f l = forallb g l.
Proof. induction l as [|x l IH]; simpl; intro H; [reflexivity|]. rewrite H by auto. rewrite IH by auto. reflexivity. Qed.
Lemma existsb_ext_in : forall (A : Type) (f g : A -> bool) l, (forall x, In x l -> f x = g x) -> existsb f l = existsb g l.
Proof. induction l as [|x l IH]; simpl; intro H; [reflexivity|]. rewrite H by auto. rewrite IH by auto. reflexivity. Qed.
Lemma existsb_filter_nonnil : forall (A : Type) (f : A -> bool) l, existsb f l = match filter f l with [] => false | _ => true end.
Proof. induction l as [|x l IH]; simpl; [reflexivity|]. destruct (f x); simpl; auto. Qed.

(* ------------------------------------------------------------------ windows *)
Definition window_at (t : list N) (o : nat) : option tri :=
  match skipn o t with a :: b :: c :: _ => Some (a, b, c) | _ => None end.

Lemma windows_cons3 : forall a b c t o, windows (a :: b :: c :: t) o = (o, (a, b, c)) :: windows (b :: c :: t) (S o).
Proof. reflexivity. Qed.
Lemma windows_short : forall t o, length t < 3 -> windows t o = [].
Proof. intros [|a [|b [|c t]]] o H; try reflexivity. simpl in H. lia. Qed.
Lemma window_at_short : forall t i, length t < 3 -> window_at t i = None.
Proof.
  intros t i H. unfold window_at. destruct (skipn i t) as [|a [|b [|c r]]] eqn:E; try reflexivity.
  assert (length (skipn i t) = length t - i) as HH by apply skipn_length. rewrite E in HH. simpl in HH. lia.
Qed.
Lemma window_at_S : forall a t i, window_at (a :: t) (S i) = window_at t i.
Proof. reflexivity. Qed.
Arguments windows : simpl never.

Lemma windows_In : forall t base o g,
  In (o, g) (windows t base) <-> exists i, o = base + i /\ window_at t i = Some g.
Proof.
  induction t as [|a t IH]; intros base o g.
  - rewrite windows_short by (simpl; lia). split; [intros []|]. intros [i [_ H]]. rewrite window_at_short in H by (simpl; lia). discriminate.
  - destruct t as [|b [|c t']].
    + rewrite windows_short by (simpl; lia). split; [intros []|]. intros [i [_ H]]. rewrite window_at_short in H by (simpl; lia). discriminate.
    + rewrite windows_short by (simpl; lia). split; [intros []|]. intros [i [_ H]]. rewrite window_at_short in H by (simpl; lia). discriminate.
    + rewrite windows_cons3. split.
      * intros [H|H].
        -- inversion H; subst. exists 0. split; [lia|reflexivity].
        -- apply IH in H. destruct H as [i [-> Hi]]. exists (S i). split; [lia|]. rewrite window_at_S. exact Hi.
      * intros [i [-> Hi]]. destruct i as [|i].
        -- left. unfold window_at in Hi. simpl in Hi. inversion Hi. f_equal. lia.
        -- right. apply IH. exists i. split; [lia|]. rewrite window_at_S in Hi. exact Hi.
Qed.
Lemma windows_inc : forall t base, inc (map fst (windows t base)).
Proof.
  unfold inc. induction t as [|a t IH]; intro base; [rewrite windows_short by (simpl; lia); constructor|].
  destruct t as [|b [|c t']]; try (rewrite windows_short by (simpl; lia); constructor).
  rewrite windows_cons3. simpl. constructor; [apply IH|].
  rewrite Forall_forall. intros y Hy. apply in_map_iff in Hy. destruct Hy as [[o g] [<- Hin]].
  apply windows_In in Hin. destruct Hin as [i [-> _]]. simpl. lia.
Qed.
Lemma window_at_bound : forall t o g, window_at t o = Some g -> o + 3 <= length t.
Proof.
  unfold window_at. intros t o g H. destruct (skipn o t) as [|a [|b [|c r]]] eqn:E; try discriminate.
  assert (length (skipn o t) = length t - o) by apply skipn_length. rewrite E in H0. simpl in H0. lia.
Qed.
Lemma window_at_nth : forall t o, o + 3 <= length t ->
  window_at t o = Some (nth o t 0%N, nth (S o) t 0%N, nth (S (S o)) t 0%N).
Proof.
  unfold window_at. intros t o H.
  rewrite <- (firstn_skipn o t) at 2 3 4.
  assert (Hl : length (firstn o t) = o) by (rewrite firstn_length; lia).
  destruct (skipn o t) as [|a [|b [|c r]]] eqn:E;
    try (assert (length (skipn o t) = length t - o) as HH by apply skipn_length; rewrite E in HH; simpl in HH; lia).
  rewrite !app_nth2 by lia. rewrite Hl. replace (o - o) with 0 by lia. replace (S o - o) with 1 by lia.
  replace (S (S o) - o) with 2 by lia. reflexivity.
Qed.
Lemma nth_windows : forall t i, i + 3 <= length t -> forall base d,
  nth i (windows t base) d = (base + i, (nth i t 0%N, nth (S i) t 0%N, nth (S (S i)) t 0%N)).
Proof.
  induction t as [|a t IH]; intros i H base d; [simpl in H; lia|].
  destruct t as [|b [|c t']]; try (simpl in H; lia).
  rewrite windows_cons3.
  destruct i as [|i].
  - simpl. f_equal. lia.
  - change (nth (S i) ((base, (a, b, c)) :: windows (b :: c :: t') (S base)) d) with (nth i (windows (b :: c :: t') (S base)) d).
    rewrite IH by (simpl in *; lia). f_equal. lia.
Qed.
Lemma length_windows : forall t base, length (windows t base) = length t - 2.
Proof.
  induction t as [|a t IH]; intro base; [reflexivity|].
  destruct t as [|b [|c t']]; try reflexivity.
  rewrite windows_cons3. simpl length at 1. rewrite IH. simpl. lia.
Qed.

(* ------------------------------------------------------------------ cumulative ends and global positions *)
Definition soff (ts : list (list N)) (k : nat) : nat := length (concat (firstn k ts)).

Lemma firstn_S_nth : forall (A : Type) (l : list A) k d, k < length l -> firstn (S k) l = firstn k l ++ [nth k l d].
Proof.
  induction l as [|x l IH]; intros k d H; [simpl in H; lia|].
  destruct k as [|k]; [reflexivity|]. simpl in H. simpl. f_equal. apply IH. lia.
Qed.
Lemma soff_S : forall ts k, k < length ts -> soff ts (S k) = soff ts k + length (nth k ts []).
Proof.
  intros ts k H. unfold soff. rewrite (firstn_S_nth _ ts k [] H). rewrite concat_app, app_length. simpl. rewrite app_nil_r. reflexivity.
Qed.
Lemma soff_cons : forall t ts k, soff (t :: ts) (S k) = length t + soff ts k.
Proof. intros. unfold soff. simpl. rewrite app_length. reflexivity. Qed.
Lemma soff_0 : forall ts, soff ts 0 = 0.
Proof. reflexivity. Qed.
Lemma soff_mono : forall ts j k, j <= k -> soff ts j <= soff ts k.
Proof.
  unfold soff. induction ts as [|t ts IH]; intros j k H.
  - rewrite !firstn_nil. lia.
  - destruct j as [|j]; [simpl; lia|]. destruct k as [|k]; [lia|]. simpl. rewrite !app_length.
    specialize (IH j k). lia.
Qed.
Lemma ends_from_nth : forall ts base k, k < length ts -> nth k (ends_from base ts) 0 = base + soff ts (S k).
Proof.
  induction ts as [|t ts IH]; intros base k H; [simpl in H; lia|].
  destruct k as [|k].
  - unfold soff. simpl. rewrite app_nil_r. reflexivity.
  - simpl in H. simpl nth. rewrite IH by lia. unfold soff.
    change (firstn (S (S k)) (t :: ts)) with (t :: firstn (S k) ts). simpl concat. rewrite app_length. lia.
Qed.
Lemma ends_from_length : forall ts base, length (ends_from base ts) = length ts.
Proof. induction ts as [|t ts IH]; intro base; simpl; [reflexivity | rewrite IH; reflexivity]. Qed.
Lemma ends_nth : forall ts k, k < length ts -> nth k (ends_of ts) 0 = soff ts (S k).
Proof. intros. unfold ends_of. rewrite ends_from_nth by auto. reflexivity. Qed.
Lemma start_soff : forall ts k, k <= length ts -> start_of (ends_of ts) k = soff ts k.
Proof.
  intros ts k H. destruct k as [|k]; [reflexivity|]. simpl. apply ends_nth. lia.
Qed.

Lemma all_tris_from_In : forall ts base p g,
  In (p, g) (all_tris_from base ts) <->
  exists k o, k < length ts /\ p = base + soff ts k + o /\ window_at (nth k ts []) o = Some g.
Proof.
  induction ts as [|t ts IH]; intros base p g.
  - simpl. split; [contradiction|]. intros [k [o [H _]]]. simpl in H; lia.
  - simpl. rewrite in_app_iff. split.
    + intros [H|H].
      * apply in_map_iff in H. destruct H as [[o g'] [E Hin]]. simpl in E. inversion E; subst.
        apply windows_In in Hin. destruct Hin as [i [-> Hi]]. exists 0, i. simpl. split; [lia|]. split; [unfold soff; simpl; lia | exact Hi].
      * apply IH in H. destruct H as [k [o [Hk [-> Ho]]]]. exists (S k), o. split; [simpl; lia|]. split; [|exact Ho].
        unfold soff. simpl. rewrite app_length. lia.
    + intros [k [o [Hk [-> Ho]]]]. destruct k as [|k].
      * left. apply in_map_iff. exists (o, g). simpl. split; [unfold soff; simpl; f_equal; lia|].
        apply windows_In. exists o. split; [lia | exact Ho].
      * right. apply IH. exists k, o. split; [simpl in Hk; lia|]. split; [|exact Ho].
        unfold soff. simpl. rewrite app_length. lia.
Qed.
Lemma all_tris_from_inc : forall ts base, inc (map fst (all_tris_from base ts)).
Proof.
  induction ts as [|t ts IH]; intro base; [constructor|].
  simpl. rewrite map_app. apply inc_app.
  - rewrite map_map. simpl. rewrite <- (map_map fst (fun x => base + x)). apply inc_map_add. apply windows_inc.
  - apply IH.
  - intros x y Hx Hy. rewrite map_map in Hx. simpl in Hx. apply in_map_iff in Hx. destruct Hx as [[o g] [<- Hin]].
    apply windows_In in Hin. destruct Hin as [i [-> Hi]]. apply window_at_bound in Hi. simpl.
    apply in_map_iff in Hy. destruct Hy as [[p g'] [<- Hin']]. apply all_tris_from_In in Hin'.
    destruct Hin' as [k [o' [_ [-> _]]]]. simpl. lia.
Qed.
Lemma all_tris_In : forall ts p g,
  In (p, g) (all_tris ts) <-> exists k o, k < length ts /\ p = soff ts k + o /\ window_at (nth k ts []) o = Some g.
Proof. intros. unfold all_tris. rewrite all_tris_from_In. simpl. reflexivity. Qed.

(* ------------------------------------------------------------------ posting lists *)
Section Fold.
Variable tolower : N -> N.
Variable orbit : N -> list N.
(** the hypothesis of case-insensitive completeness: a rune that lower-cases like [c] is in the SimpleFold orbit of [c] *)
Definition agree : Prop := forall c c', tolower c' = tolower c -> In c' (orbit c).

Lemma post_In : forall tris cs g p,
  In p (post orbit tris cs g) <-> exists g', In (p, g') tris /\ tri_match orbit cs g g' = true.
Proof.
  intros. unfold post. rewrite in_map_iff. split.
  - intros [[p' g'] [E H]]. simpl in E. subst. apply filter_In in H. exists g'. tauto.
  - intros [g' [H1 H2]]. exists (p, g'). split; [reflexivity|]. apply filter_In. tauto.
Qed.
Lemma post_inc : forall tris cs g, inc (map fst tris) -> inc (post orbit tris cs g).
Proof.
  intros tris cs g. unfold post, inc. induction tris as [|[p g'] tris IH]; simpl; intro H; [constructor|].
  inversion H as [|? ? Hs Hf]; subst. destruct (tri_match orbit cs g g'); simpl.
  - constructor; [apply IH; auto|]. rewrite Forall_forall in *. intros y Hy. apply Hf. apply in_map_iff in Hy.
    destruct Hy as [x [<- Hx]]. apply filter_In in Hx. apply in_map. tauto.
  - apply IH; auto.
Qed.
Lemma dist_hits_In : forall d l1 l2 p, In p (dist_hits d l1 l2) <-> In p l1 /\ In (p + d) l2.
Proof. intros. unfold dist_hits. rewrite filter_In. rewrite mem_nat_In. reflexivity. Qed.

(** all hits of the hit iterator built by iterateNgrams for pattern [pat], selected trigram indexes a <= b *)
Definition hits_of (tris : list (nat * tri)) (cs : bool) (pat : list N) (a b : nat) : list nat :=
  if a =? b then post orbit tris cs (nth_tri pat b)
  else dist_hits (b - a) (post orbit tris cs (nth_tri pat a)) (post orbit tris cs (nth_tri pat b)).
Lemma hits_of_inc : forall tris cs pat a b, inc (map fst tris) -> inc (hits_of tris cs pat a b).
Proof.
  intros. unfold hits_of. destruct (a =? b); [apply post_inc; auto|]. unfold dist_hits. apply inc_filter. apply post_inc; auto.
Qed.

Lemma nth_tri_window : forall pat i, i + 3 <= length pat -> window_at pat i = Some (nth_tri pat i).
Proof.
  intros. unfold nth_tri, pat_tris. rewrite nth_windows by auto. simpl. apply window_at_nth. auto.
Qed.

(* ------------------------------------------------------------------ occurrences *)
Lemma occurs_at_len : forall cs p t o, 0 < length p -> occurs_at tolower cs p t o = true -> o + length p <= length t.
Proof.
  unfold occurs_at. intros cs p t o Hp H. apply andb_true_iff in H. destruct H as [H _]. apply Nat.eqb_eq in H.
  rewrite firstn_length, skipn_length in H. lia.
Qed.
Lemma nth_firstn_skipn : forall (t : list N) o m i, i < m -> o + m <= length t -> nth i (firstn m (skipn o t)) 0%N = nth (o + i) t 0%N.
Proof.
  intros t o m i Hi Hl. rewrite <- (firstn_skipn o t) at 2.
  rewrite app_nth2 by (rewrite firstn_length; lia). rewrite firstn_length. replace (o + i - Nat.min o (length t)) with i by lia.
  rewrite <- (firstn_skipn m (skipn o t)) at 2. rewrite app_nth1; [reflexivity|]. rewrite firstn_length, skipn_length. lia.
Qed.
(** rune-wise reading of an occurrence *)
Lemma occurs_at_nth : forall cs p t o, 0 < length p -> occurs_at tolower cs p t o = true ->
  forall i, i < length p ->
  if cs then nth (o + i) t 0%N = nth i p 0%N else tolower (nth (o + i) t 0%N) = tolower (nth i p 0%N).
Proof.
  intros cs p t o Hp H i Hi. pose proof (occurs_at_len _ _ _ _ Hp H) as Hl.
  unfold occurs_at in H. apply andb_true_iff in H. destruct H as [_ H].
  rewrite <- (nth_firstn_skipn t o (length p) i Hi Hl).
  destruct cs.
  - apply list_eqb_N_eq in H. rewrite <- H. reflexivity.
  - apply list_eqb_N_eq in H.
    assert (Hlen : length (firstn (length p) (skipn o t)) = length p) by (rewrite firstn_length, skipn_length; lia).
    rewrite <- (map_nth tolower (firstn (length p) (skipn o t)) 0%N i).
    rewrite <- (map_nth tolower p 0%N i). rewrite <- H.
    apply nth_indep. rewrite map_length. lia.
Qed.
(** a window of the text inside an occurrence matches the window of the pattern *)
Lemma occurs_window_match : forall cs p t o i, agree ->
  occurs_at tolower cs p t o = true -> i + 3 <= length p ->
  exists g', window_at t (o + i) = Some g' /\ tri_match orbit cs (nth_tri p i) g' = true.
Proof.
  intros cs p t o i Hag H Hi. assert (Hp : 0 < length p) by lia. pose proof (occurs_at_len _ _ _ _ Hp H) as Hl.
  pose proof (occurs_at_nth _ _ _ _ Hp H) as Hn.
  eexists. split; [apply window_at_nth; lia|].
  pose proof (nth_tri_window p i Hi) as Hw. rewrite window_at_nth in Hw by auto. inversion Hw as [Hw']. clear Hw.
  pose proof (Hn i ltac:(lia)) as H0. pose proof (Hn (S i) ltac:(lia)) as H1. pose proof (Hn (S (S i)) ltac:(lia)) as H2.
  replace (o + S i) with (S (o + i)) in H1 by lia. replace (o + S (S i)) with (S (S (o + i))) in H2 by lia.
  unfold tri_match. destruct cs.
  - simpl. rewrite H0, H1, H2. rewrite !N.eqb_refl. reflexivity.
  - rewrite !andb_true_iff. repeat split; apply memN_In; apply Hag; assumption.
Qed.

(* ------------------------------------------------------------------ THE candidate theorem *)
(** For every list of texts, every pattern of at least three runes, every choice a <= b of the two selected
    trigram indexes, every document k: the candidates that ngramDocIterator produces for document k from the full hit
    list and that survive matchContent are exactly the occurrences of the pattern in document k, in order.
    No hit in another document, or a window crossing a document boundary, contributes. *)
Definition cands_of (ts : list (list N)) (H : list nat) (a rpad k : nat) : list nat :=
  let start := soff ts k in let fend := soff ts (S k) in
  map (fun p => p - start - a) (filter (fun p => (a + start <=? p) && (p + rpad <=? fend)) H).

Lemma inc_map_sub : forall c l, inc l -> (forall p, In p l -> c <= p) -> inc (map (fun p => p - c) l).
Proof.
  unfold inc. induction l as [|x l IH]; simpl; intros H Hge; constructor; inversion H as [|? ? Hs Hf]; subst.
  - apply IH; auto.
  - rewrite Forall_forall in *. intros y Hy. apply in_map_iff in Hy. destruct Hy as [z [<- Hz]].
    specialize (Hf _ Hz). pose proof (Hge x (or_introl eq_refl)). pose proof (Hge z (or_intror Hz)). lia.
Qed.

Lemma hit_of_occurrence : forall ts cs pat a b k o, agree ->
  a <= b -> b + 3 <= length pat -> k < length ts ->
  occurs_at tolower cs pat (nth k ts []) o = true ->
  In (soff ts k + o + a) (hits_of (all_tris ts) cs pat a b).
Proof.
  intros ts cs pat a b k o Hag Hab Hb Hk Hocc.
  assert (Hpa : In (soff ts k + o + a) (post orbit (all_tris ts) cs (nth_tri pat a))).
  { apply post_In. destruct (occurs_window_match cs pat (nth k ts []) o a Hag Hocc ltac:(lia)) as [g' [Hw Hm]].
    exists g'. split; [|exact Hm]. apply all_tris_In. exists k, (o + a). split; [auto|]. split; [lia | exact Hw]. }
  assert (Hpb : In (soff ts k + o + b) (post orbit (all_tris ts) cs (nth_tri pat b))).
  { apply post_In. destruct (occurs_window_match cs pat (nth k ts []) o b Hag Hocc ltac:(lia)) as [g' [Hw Hm]].
    exists g'. split; [|exact Hm]. apply all_tris_In. exists k, (o + b). split; [auto|]. split; [lia | exact Hw]. }
  unfold hits_of. destruct (a =? b) eqn:E.
  - apply Nat.eqb_eq in E. subst. exact Hpb.
  - apply dist_hits_In. split; [exact Hpa|]. replace (soff ts k + o + a + (b - a)) with (soff ts k + o + b) by lia. exact Hpb.
Qed.

Theorem substring_candidates_exact : forall ts cs pat a b k,
  agree -> 3 <= length pat -> a <= b -> b + 3 <= length pat -> k < length ts ->
  filter (occurs_at tolower cs pat (nth k ts [])) (cands_of ts (hits_of (all_tris ts) cs pat a b) a (length pat - a) k)
  = occ_offsets tolower cs pat (nth k ts []).
Proof.
  intros ts cs pat a b k Hag Hm Hab Hb Hk.
  set (t := nth k ts []). set (H := hits_of (all_tris ts) cs pat a b).
  assert (HincH : inc H) by (apply hits_of_inc; apply all_tris_from_inc).
  assert (Hlen : soff ts (S k) = soff ts k + length t) by (apply soff_S; auto).
  apply inc_ext.
  - apply inc_filter. unfold cands_of.
    rewrite (map_ext _ (fun p : nat => p - (soff ts k + a))) by (intro; lia).
    apply inc_map_sub; [apply inc_filter; auto|].
    intros p Hp. apply filter_In in Hp. destruct Hp as [_ Hp]. lia.
  - unfold occ_offsets. apply inc_filter. apply inc_seq.
  - intro o. unfold occ_offsets, cands_of. rewrite !filter_In. rewrite in_map_iff. rewrite in_seq. split.
    + intros [[p [<- Hp]] Hocc]. split; [|exact Hocc].
      pose proof (occurs_at_len cs pat t _ ltac:(lia) Hocc). lia.
    + intros [Ho Hocc]. split; [|exact Hocc].
      pose proof (occurs_at_len cs pat t _ ltac:(lia) Hocc) as Hl.
      exists (soff ts k + o + a). split; [lia|]. apply filter_In. split; [|lia].
      apply hit_of_occurrence; auto.
Qed.
End Fold.
