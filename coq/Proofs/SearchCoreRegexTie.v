(** C01 <-> Model/Regex.v (the regexp layer written for C27): on the fragment of regexp/syntax that C01's [rx]
    represents exactly ([no_other]: literal, capture, +, {n,}, concatenation, alternation, (?-s:.)*, \b) the semantics
    [rm] used by the distillation proofs IS the semantics [Regex.m] (= the executable [Regex.ends], C27_ends_exact) of
    the embedded regexp.  So the engine-level assumption of the top-level theorem can be phrased against ONE regexp
    semantics, the executable one of Model/Regex.v. *)
From ZV Require Import Lib.Base Model.SearchCore Proofs.SearchCoreText Proofs.SearchCoreBuild Proofs.SearchCoreSimp Proofs.SearchCoreDistill Proofs.SearchCoreEngine.
From ZV Require Model.Regex Proofs.RegexBasics Proofs.RegexEnds.
From Coq Require Import ZifyBool.

Module RX := ZV.Model.Regex.

Section Tie.
Variable tolower : N -> N.
Variable orbit2 : N -> list N.    (* Regex.v's parameter: the OTHER members of the unicode.SimpleFold cycle of a rune *)
Variable cs : bool.               (* query.Regexp.CaseSensitive *)

(** the embedding: a literal folds case when it carries FoldCase or the query is case-insensitive ((?i) prefix) *)
Fixpoint emb (r : rx) : RX.re :=
  match r with
  | RLit s f => RX.RLit (f || negb cs) s
  | RCapture r' => RX.RCapture (emb r')
  | RPlus r' => RX.RPlus (emb r')
  | RRepeat mn r' => RX.RRepeat mn None (emb r')
  | RConcat rs => RX.RConcat (map emb rs)
  | RAlt rs => RX.RAlt (map emb rs)
  | RStarAnyNotNL => RX.RStar RX.RAnyNotNL
  | RWordB => RX.RWordB
  | ROther => RX.RNoMatch            (* outside the fragment *)
  end.

Fixpoint lit_runes (r : rx) : list N :=
  match r with
  | RLit s _ => s
  | RCapture r' => lit_runes r'
  | RPlus r' => lit_runes r'
  | RRepeat _ r' => lit_runes r'
  | RConcat rs => flat_map lit_runes rs
  | RAlt rs => flat_map lit_runes rs
  | _ => []
  end.

Variable t : list N.
Variable A : N -> Prop.           (* the runes of the pattern's literals *)
(** bridging hypotheses: on the runes involved, "equal after unicode.ToLower" (C01) is "equal or in the SimpleFold orbit"
    (Regex.v) - false for some pairs of Unicode in general (C08), hence only required of pattern runes vs text runes;
    the text is valid (no rune above U+10FFFF). *)
Hypothesis Hfold : forall a b, A a -> In b t -> N.eqb (tolower a) (tolower b) = RX.fold_eq orbit2 true a b.
Hypothesis Hvalid : forall b, In b t -> (b <= RX.max_rune)%N.

Notation rm := (rm tolower cs t).
Notation rmchain := (rmchain tolower cs t).
Notation M r := (RX.m orbit2 r t).

Lemma skipn_nth_cons : forall (l : list N) i c, nth_error l i = Some c -> skipn i l = c :: skipn (S i) l.
Proof.
  induction l as [|x l IH]; intros i c H; [destruct i; discriminate|].
  destruct i as [|i]; simpl in *; [inversion H; reflexivity|]. apply IH. exact H.
Qed.
Lemma skipn_none : forall (l : list N) i, nth_error l i = None -> skipn i l = [].
Proof. intros l i H. apply nth_error_None in H. apply skipn_all2. exact H. Qed.

Definition eqc (c' : bool) (a c : N) : bool := if c' then N.eqb a c else N.eqb (tolower a) (tolower c).

Lemma occurs_at_cons : forall c' a s i,
  occurs_at tolower c' (a :: s) t i =
  match nth_error t i with Some c => eqc c' a c && occurs_at tolower c' s t (S i) | None => false end.
Proof.
  intros c' a s i. unfold occurs_at. destruct (nth_error t i) as [c|] eqn:E.
  - rewrite (skipn_nth_cons _ _ _ E). set (X := skipn (S i) t). unfold eqc, runes_eqb.
    destruct c'; cbn [length firstn map list_eqb Nat.eqb]; rewrite !andb_assoc; f_equal; apply andb_comm.
  - rewrite (skipn_none _ _ E). simpl. reflexivity.
Qed.

Lemma lit_tie : forall c' s, Forall A s -> forall i j,
  (occurs_at tolower c' s t i = true /\ i + length s <= length t /\ j = i + length s) <->
  (RX.lit_m orbit2 (negb c') s t i j /\ i <= length t).
Proof.
  intros c' s. induction s as [|a s IH]; intros HA i j.
  - simpl. unfold occurs_at. simpl. split; [intros [_ [H1 H2]]; split; lia | intros [H1 H2]; repeat split; try reflexivity; try lia; destruct c'; reflexivity].
  - inversion HA as [|? ? Ha HA']; subst. rewrite occurs_at_cons. cbn [RX.lit_m length]. split.
    + intros [H [H1 H2]]. cbn [length] in H1, H2. destruct (nth_error t i) as [c|] eqn:E; [|discriminate].
      apply andb_true_iff in H. destruct H as [Hc H].
      assert (B1 : S i + length s <= length t) by lia. assert (B2 : j = S i + length s) by lia.
      destruct (proj1 (IH HA' (S i) j) (conj H (conj B1 B2))) as [Hl _].
      split; [|lia]. exists c. split; [reflexivity|]. split; [|exact Hl].
      unfold eqc in Hc. destruct c'; simpl.
      * unfold RX.fold_eq. rewrite Hc. reflexivity.
      * rewrite <- Hfold; [exact Hc | exact Ha | eapply nth_error_In; eauto].
    + intros [[c [E [Hc Hl]]] Hi]. rewrite E.
      assert (Hlt : i < length t) by (apply nth_error_Some; congruence).
      assert (B1 : S i <= length t) by lia.
      destruct (proj2 (IH HA' (S i) j) (conj Hl B1)) as [H [H1 H2]].
      split; [|lia]. apply andb_true_iff. split; [|exact H].
      unfold eqc. destruct c'; simpl in Hc.
      * unfold RX.fold_eq in Hc. simpl in Hc. rewrite orb_false_r in Hc. exact Hc.
      * rewrite Hfold; [exact Hc | exact Ha | eapply nth_error_In; eauto].
Qed.

(** (?-s:.)* *)
Lemma star_tie : forall i j, (i <= j /\ j <= length t /\ nonl t i j) <->
  ((exists n, RX.pow (RX.step_m t RX.any_rune_not_nl) n i j) /\ i <= length t).
Proof.
  intros i j. split.
  - intros [Hij [Hj Hn]]. split; [|lia]. exists (j - i). remember (j - i) as n eqn:En. revert i Hij Hn En.
    induction n as [|n IH]; intros i Hij Hn En; simpl; [lia|].
    assert (Hlt : i < length t) by lia.
    destruct (nth_error t i) as [c|] eqn:E; [|apply nth_error_None in E; lia].
    exists (S i). split.
    + exists c. split; [exact E|]. split; [|reflexivity]. unfold RX.any_rune_not_nl.
      assert (Hc : c <> 10%N). { rewrite <- (nth_error_nth t i 0%N E). apply Hn; lia. }
      pose proof (Hvalid c (nth_error_In _ _ E)). lia.
    + apply IH; [lia | intros p H1 H2; apply Hn; lia | lia].
  - intros [[n Hp] Hi]. revert i Hi Hp. induction n as [|n IH]; intros i Hi Hp; simpl in Hp.
    + subst. split; [lia|]. split; [lia|]. intros p H1 H2. lia.
    + destruct Hp as [k [[c [E [Hc ->]]] Hp]].
      assert (Hlt : i < length t) by (apply nth_error_Some; congruence).
      destruct (IH (S i) ltac:(lia) Hp) as [H1 [H2 H3]]. split; [lia|]. split; [lia|].
      intros p Hp1 Hp2. destruct (Nat.eq_dec p i) as [->|Hne]; [|apply H3; lia].
      rewrite (nth_error_nth t i 0%N E). unfold RX.any_rune_not_nl in Hc. lia.
Qed.

Lemma wordc_tie : forall i, wordc (rune_at t i) = RX.word_at t i.
Proof.
  intro i. unfold wordc, rune_at, RX.word_at. destruct (nth_error t i) as [c|]; [|reflexivity].
  unfold is_word_rune, RX.is_word. lia.
Qed.
Lemma wordb_tie : forall i, boundary_at t i = true <-> RX.word_before t i <> RX.word_at t i.
Proof.
  intro i. unfold boundary_at, RX.word_before. rewrite wordc_tie.
  destruct i as [|k]; [|rewrite wordc_tie];
    match goal with |- negb (Bool.eqb ?a ?b) = true <-> _ => destruct a, b end; simpl; split; congruence.
Qed.

(** [rm] stays inside the text *)
Lemma rm_bounds_both :
  (forall r i j, rm r i j -> i <= j /\ j <= length t) /\
  (forall rs i j, rmchain rs i j -> i <= j /\ j <= length t).
Proof.
  apply (rm_rmchain_ind tolower cs t
           (fun r i j _ => i <= j /\ j <= length t) (fun rs i j _ => i <= j /\ j <= length t)); intros; try lia.
Qed.
Lemma rm_bounds : forall r i j, rm r i j -> i <= j /\ j <= length t.
Proof. exact (proj1 rm_bounds_both). Qed.

(** chains and powers *)
Lemma chain_repeat_pow : forall (P : nat -> nat -> Prop) r,
  (forall i j, i <= length t -> (rm r i j <-> P i j /\ i <= length t)) ->
  (forall i j, P i j -> i <= length t -> j <= length t) ->
  forall n i j, rmchain (repeat r n) i j <-> (RX.pow P n i j /\ i <= length t).
Proof.
  intros P r Hr Hb n. induction n as [|n IH]; intros i j; simpl.
  - split; [intro H; apply rmchain_nil_inv in H; tauto | intros [-> H]; constructor; exact H].
  - split.
    + intro H. apply rmchain_cons_inv in H. destruct H as [k [H1 H2]].
      apply IH in H2. destruct H2 as [H2 Hk].
      assert (Hi : i <= length t) by (pose proof (rm_bounds _ _ _ H1); lia).
      apply Hr in H1; [|exact Hi]. split; [|exact Hi]. exists k. tauto.
    + intros [[k [H1 H2]] Hi]. econstructor; [apply Hr; [exact Hi|]; split; [exact H1|exact Hi]|].
      apply IH. split; [exact H2|]. eapply Hb; eauto.
Qed.

Lemma pow_bounds : forall (P : nat -> nat -> Prop),
  (forall i j, P i j -> i <= length t -> j <= length t) ->
  forall n i j, RX.pow P n i j -> i <= length t -> j <= length t.
Proof.
  intros P HP n. induction n as [|n IH]; intros i j H Hi; simpl in H; [subst; exact Hi|].
  destruct H as [k [H1 H2]]. eapply IH; eauto.
Qed.

Lemma m_in : forall r i j, M r i j -> i <= length t -> j <= length t.
Proof. intros r i j H Hi. pose proof (RegexEnds.m_good orbit2 r t i j H) as Hg. unfold RegexEnds.good in Hg. lia. Qed.

(** THE TIE: on the exactly represented fragment, [rm] is the semantics of Model/Regex.v *)
Theorem rm_iff_m : forall r, no_other r = true -> Forall A (lit_runes r) ->
  forall i j, rm r i j <-> (M (emb r) i j /\ i <= length t).
Proof.
  induction r using rx_ind'; intros Hno HA i j.
  - (* literal *) cbn [emb RX.m].
    replace (f || negb cs) with (negb (negb f && cs)) by (destruct f, cs; reflexivity).
    rewrite <- (lit_tie (negb f && cs) s HA i j). split.
    + intro H. apply rm_lit_inv in H. tauto.
    + intros [H1 [H2 ->]]. constructor; assumption.
  - (* capture *) cbn [emb RX.m]. rewrite <- (IHr Hno HA i j). split; [intro H; inversion H; subst; assumption | intro H; constructor; exact H].
  - (* plus *) cbn [emb RX.m]. simpl in Hno, HA. split.
    + intro H. remember (RPlus r) as q eqn:Eq. induction H; inversion Eq; subst.
      * apply (IHr Hno HA) in H. destruct H as [H Hi]. split; [|exact Hi]. exists 1. split; [lia|]. simpl. exists j. tauto.
      * apply (IHr Hno HA) in H. destruct H as [H Hi]. split; [|exact Hi].
        destruct (IHrm2 eq_refl) as [[n [Hn Hp]] _]. exists (S n). split; [lia|]. simpl. exists m. tauto.
    + intros [[n [Hn Hp]] Hi]. revert i Hi Hp. induction n as [|n IHn]; intros i Hi Hp; [lia|].
      simpl in Hp. destruct Hp as [k [H1 H2]].
      assert (Hk : k <= length t) by (eapply m_in; eauto).
      assert (R1 : rm r i k) by (apply (IHr Hno HA); tauto).
      destruct n as [|n]; [simpl in H2; subst; apply rm_plus1; exact R1|].
      eapply rm_plusS; [exact R1|]. apply IHn; [lia | exact Hk | exact H2].
  - (* repeat *) cbn [emb RX.m]. simpl in Hno, HA. split.
    + intro H. inversion H; subst.
      match goal with Hc : SearchCoreDistill.rmchain _ _ _ (repeat r ?cnt) _ _ |- _ =>
        apply (chain_repeat_pow (fun a b => M (emb r) a b) r) in Hc;
          [destruct Hc as [Hp Hi]; split; [exists cnt; auto|exact Hi]
          | intros a b _; apply (IHr Hno HA) | intros a b; apply m_in] end.
    + intros [[n [Hn [_ Hp]]] Hi]. apply (rm_rep tolower cs t mn r n); [exact Hn|].
      apply (chain_repeat_pow (fun a b => M (emb r) a b) r); [intros a b _; apply (IHr Hno HA) | intros a b; apply m_in | tauto].
  - (* concat *) cbn [emb]. simpl in Hno, HA.
    assert (Hc : forall rs', (forall x, In x rs' -> In x rs) -> forall i j,
              rmchain rs' i j <-> ((fix mc (l : list RX.re) (i : nat) : Prop :=
                                       match l with [] => i = j | r' :: l' => exists k, M r' i k /\ mc l' k end) (map emb rs') i /\ i <= length t)).
    { induction rs' as [|x rs' IH']; intros Hsub i0 j0; simpl.
      - split; [intro Hx; apply rmchain_nil_inv in Hx; tauto | intros [-> Hx]; constructor; exact Hx].
      - assert (Hx : forall a b, rm x a b <-> M (emb x) a b /\ a <= length t).
        { rewrite Forall_forall in H. apply H; [apply Hsub; left; reflexivity | |].
          - rewrite forallb_forall in Hno. apply Hno. apply Hsub. left; reflexivity.
          - apply Forall_forall. intros a Ha. rewrite Forall_forall in HA. apply HA. apply in_flat_map. exists x. split; [apply Hsub; left; reflexivity|exact Ha]. }
        split.
        + intro Hch. apply rmchain_cons_inv in Hch. destruct Hch as [k [H1 H2]].
          apply Hx in H1. apply (IH' (fun y Hy => Hsub y (or_intror Hy))) in H2. split; [exists k; tauto|tauto].
        + intros [[k [H1 H2]] Hi]. econstructor; [apply Hx; split; [exact H1|exact Hi]|].
          apply (IH' (fun y Hy => Hsub y (or_intror Hy))). split; [exact H2|]. eapply m_in; eauto. }
    split.
    + intro Hr. apply rm_cat_inv in Hr. apply (Hc rs (fun x Hx => Hx)) in Hr. exact Hr.
    + intro Hm. constructor. apply (Hc rs (fun x Hx => Hx)). exact Hm.
  - (* alternate *) cbn [emb]. simpl in Hno, HA.
    assert (Ha : forall rs', (forall x, In x rs' -> In x rs) ->
              ((exists x, In x rs' /\ rm x i j) <->
               ((fix ma (l : list RX.re) : Prop := match l with [] => False | r' :: l' => M r' i j \/ ma l' end) (map emb rs') /\ i <= length t))).
    { induction rs' as [|x rs' IH']; intros Hsub; simpl.
      - split; [intros [x [[] _]] | intros [[] _]].
      - assert (Hx : rm x i j <-> M (emb x) i j /\ i <= length t).
        { rewrite Forall_forall in H. apply H; [apply Hsub; left; reflexivity | |].
          - rewrite forallb_forall in Hno. apply Hno. apply Hsub. left; reflexivity.
          - apply Forall_forall. intros a Ha. rewrite Forall_forall in HA. apply HA. apply in_flat_map. exists x. split; [apply Hsub; left; reflexivity|exact Ha]. }
        specialize (IH' (fun y Hy => Hsub y (or_intror Hy))). split.
        + intros [y [[<-|Hy] Hr]]; [apply Hx in Hr; tauto|]. destruct (proj1 IH' (ex_intro _ y (conj Hy Hr))). tauto.
        + intros [[Hm|Hm] Hi]; [exists x; split; [left; reflexivity|apply Hx; tauto]|].
          destruct (proj2 IH' (conj Hm Hi)) as [y [Hy Hr]]. exists y. split; [right; exact Hy|exact Hr]. }
    split.
    + intro Hr. inversion Hr; subst. apply (Ha rs (fun x Hx => Hx)). eauto.
    + intro Hm. apply (Ha rs (fun x Hx => Hx)) in Hm. destruct Hm as [x [Hx Hr]]. econstructor; eauto.
  - (* (?-s:.)* *) cbn [emb RX.m]. rewrite <- star_tie. split; [intro H; inversion H; subst; tauto | intros [H1 [H2 H3]]; constructor; assumption].
  - (* \b *) cbn [emb RX.m]. split.
    + intro H. apply rm_wordb_inv in H. destruct H as [-> [Hi Hb]]. split; [|exact Hi]. split; [apply wordb_tie; exact Hb|reflexivity].
    + intros [[Hb <-] Hi]. constructor; [exact Hi|apply wordb_tie; exact Hb].
  - discriminate.
Qed.
End Tie.

(** ------------------------------------------------------------------ regexps that distill to ONE exact literal
    (the case in which a Symbol{Regexp} becomes a symbolSubstrMatchTree): on ANY text, "the regexp matches somewhere"
    is "the literal occurs" *)
Fixpoint single_lit (r : rx) : option (list N * bool) :=
  match r with
  | RLit s f => Some (s, f)
  | RCapture r' => single_lit r'
  | RPlus r' => single_lit r'
  | RRepeat mn r' => if mn =? 1 then single_lit r' else None
  | RConcat [r'] => single_lit r'
  | _ => None
  end.

Section Single.
Variable tolower : N -> N.
Variable orbit : N -> list N.
Variable c : corpus.
Variable freq : bool -> bool -> tri -> N.
Variable cs : bool.

Lemma distill_single : forall fn r s sl, distill orbit c freq cs fn r = (MTsubstr s, true, sl) ->
  exists p f, single_lit r = Some (p, f) /\ sl_pat s = p /\ sl_cs s = (negb f && cs) /\ 1 <= length p.
Proof.
  intros fn. induction r using rx_ind'; intros s0 sl Hd; cbn [distill single_lit] in *.
  - destruct (3 <=? byte_len s) eqn:E3; [|discriminate].
    inversion Hd as [[H1 H2]]. destruct (new_substr_shape orbit c freq s (negb f && cs) fn) as [[sk [E _]]|[s1 [E [A [B _]]]]].
    + rewrite E in H1. discriminate.
    + rewrite E in H1. inversion H1; subst s1. exists s, f. repeat split; auto.
      destruct s; [simpl in E3; discriminate|simpl; lia].
  - eauto.
  - eauto.
  - destruct (mn =? 1) eqn:E1; [eauto|]. destruct (1 <? mn); [|discriminate].
    destruct (distill orbit c freq cs fn r) as [[m e] l]. discriminate.
  - destruct rs as [|x [|y rs]].
    + simpl in Hd. discriminate.
    + inversion H as [|? ? Hx _]; subst. cbn [map length Nat.ltb Nat.leb forallb filter] in Hd.
      destruct (distill orbit c freq cs fn x) as [[q e] l] eqn:Ex. cbn [fst snd] in Hd.
      destruct (is_brute q) eqn:Eb; cbn [negb] in Hd.
      * inversion Hd.
      * rewrite !andb_true_r in Hd. inversion Hd; subst. apply (Hx s0 sl). reflexivity.
    + exfalso. cbn [map length Nat.ltb Nat.leb] in Hd.
      destruct (filter _ _) as [|q1 [|q2 qr]]; cbn [fst snd] in Hd; try discriminate.
      destruct (forallb _ _); discriminate.
  - destruct (find is_brute _) as [q|] eqn:Ef.
    + apply find_some in Ef. destruct Ef as [_ Eb]. inversion Hd; subst. simpl in Eb. discriminate.
    + destruct (map _ (map _ rs)); discriminate.
  - discriminate.
  - discriminate.
  - discriminate.
Qed.

Variable t : list N.
Notation rm := (rm tolower cs t).
Notation rmchain := (rmchain tolower cs t).

Lemma single_lit_rm : forall r p f, single_lit r = Some (p, f) -> 1 <= length p ->
  ((exists i j, rm r i j) <-> contains tolower (negb f && cs) p t = true).
Proof.
  induction r using rx_ind'; intros p f0 Hs Hp; cbn [single_lit] in Hs.
  - inversion Hs; subst. unfold contains. rewrite existsb_exists. split.
    + intros [i [j Hr]]. apply rm_lit_inv in Hr. destruct Hr as [_ [Ho Hl]]. exists i. split; [apply in_seq; lia|exact Ho].
    + intros [i [_ Ho]]. exists i, (i + length p). assert (Hp0 : 0 < length p) by lia. constructor; [exact Ho|]. apply (occurs_at_len tolower _ _ _ _ Hp0 Ho).
  - rewrite <- (IHr p f0 Hs Hp). split; intros [i [j Hr]]; exists i, j; [inversion Hr; subst; assumption | constructor; exact Hr].
  - rewrite <- (IHr p f0 Hs Hp). split.
    + intros [i [j Hr]]. remember (RPlus r) as q eqn:Eq. induction Hr; inversion Eq; subst; eauto.
    + intros [i [j Hr]]. exists i, j. apply rm_plus1. exact Hr.
  - destruct (mn =? 1) eqn:E1; [|discriminate]. apply Nat.eqb_eq in E1. subst mn.
    rewrite <- (IHr p f0 Hs Hp). split.
    + intros [i [j Hr]]. inversion Hr; subst. destruct cnt as [|cnt]; [lia|].
      match goal with Hc : context [repeat r (S cnt)] |- _ => simpl in Hc; apply rmchain_cons_inv in Hc; destruct Hc as [m [Hm1 _]] end.
      eauto.
    + intros [i [j Hr]]. exists i, j. apply (rm_rep tolower cs t 1 r 1); [lia|]. simpl. econstructor; [exact Hr|].
      constructor. pose proof (rm_bounds tolower cs t r i j Hr). lia.
  - destruct rs as [|x [|y rs]]; try discriminate. inversion H as [|? ? Hx _]; subst.
    rewrite <- (Hx p f0 Hs Hp). split.
    + intros [i [j Hr]]. apply rm_cat_inv in Hr. apply rmchain_cons_inv in Hr. destruct Hr as [m [Hm1 _]]. eauto.
    + intros [i [j Hr]]. exists i, j. constructor. econstructor; [exact Hr|]. constructor.
      pose proof (rm_bounds tolower cs t x i j Hr). lia.
  - discriminate. - discriminate. - discriminate. - discriminate.
Qed.
End Single.

(** ------------------------------------------------------------------ the top-level theorem against Model/Regex.v *)
Section TopTie.
Variable re_match : N -> list N -> bool.
Variable tolower : N -> N.
Variable orbit : N -> list N.      (* C01: the SimpleFold orbit including the rune (trigram variants) *)
Variable orbit2 : N -> list N.     (* Regex.v: the other members of the orbit *)
Variable c : corpus.
Variable freq : bool -> bool -> tri -> N.

(** "the regexp matches somewhere in the text" in the executable semantics of Model/Regex.v *)
Definition matches_somewhere (cs : bool) (r : rx) (t : list N) : bool :=
  existsb (fun i => RX.matches_at orbit2 (emb cs r) t i) (seq 0 (S (length t))).

(** THE ENGINE ASSUMPTION, against ONE semantics: on every regexp atom (which must lie in the exactly represented
    fragment) the engine's verdict on every name / content is [matches_somewhere]; lower-casing and simple folding agree
    on (runes of the atom's literals) x (runes of the texts).  Symbol{Regexp} atoms: the same, with the TEXT OF EVERY SYMBOL
    SECTION in place of name / content (and well-formed sections); Symbol{Substring}: well-formed sections. *)
Fixpoint engine_is_ends (q : Q) : Prop :=
  match q with
  | QRegexp rid r tf cs fn _ =>
      lits_nonempty r = true /\ no_other r = true /\
      forall k, k < ndocs c ->
        re_match rid (text_of c fn k) = matches_somewhere cs r (text_of c fn k) /\
        (forall a b, In a (lit_runes r) -> In b (text_of c fn k) -> N.eqb (tolower a) (tolower b) = RX.fold_eq orbit2 true a b)
  | QSymSubstr p cs => re_ok re_match tolower orbit c freq (QSymSubstr p cs)
  | QSymRegexp rid r tf cs =>
      no_other r = true /\
      forall k, k < ndocs c ->
        secs_ok (length (text_of c false k)) (d_secs (doc_at c k)) /\
        forall sec, In sec (d_secs (doc_at c k)) ->
          re_match rid (slice (text_of c false k) sec) = matches_somewhere cs r (slice (text_of c false k) sec) /\
          (forall a b, In a (lit_runes r) -> In b (slice (text_of c false k) sec) ->
                       N.eqb (tolower a) (tolower b) = RX.fold_eq orbit2 true a b)
  | QAnd l => (fix all (l : list Q) : Prop := match l with [] => True | x :: r => engine_is_ends x /\ all r end) l
  | QOr l => (fix all (l : list Q) : Prop := match l with [] => True | x :: r => engine_is_ends x /\ all r end) l
  | QNot q' => engine_is_ends q'
  | QTypeFileName q' => engine_is_ends q'
  | QTypeOther q' => engine_is_ends q'
  | QBoost q' => engine_is_ends q'
  | _ => True
  end.
Lemma engine_is_ends_list : forall l,
  (fix all (l : list Q) : Prop := match l with [] => True | x :: r => engine_is_ends x /\ all r end) l <-> Forall engine_is_ends l.
Proof.
  induction l as [|x l IH]; split; intro H; try constructor; try exact I.
  - tauto. - apply IH; tauto. - inversion H; auto. - apply IH. inversion H; auto.
Qed.

Hypothesis Hvalid : forall fn k b, In b (text_of c fn k) -> (b <= RX.max_rune)%N.

Lemma somewhere_rm : forall cs r t, no_other r = true ->
  (forall a b, In a (lit_runes r) -> In b t -> N.eqb (tolower a) (tolower b) = RX.fold_eq orbit2 true a b) ->
  (forall b, In b t -> (b <= RX.max_rune)%N) ->
  (matches_somewhere cs r t = true <-> exists i j, rm tolower cs t r i j).
Proof.
  intros cs r t Hno Hf Hv. unfold matches_somewhere. rewrite existsb_exists. split.
  - intros [i [Hi Hm]]. apply in_seq in Hi. unfold RX.matches_at in Hm.
    destruct (RX.ends orbit2 (emb cs r) t i) as [|j l] eqn:E; [discriminate|].
    assert (Hj : In j (RX.ends orbit2 (emb cs r) t i)) by (rewrite E; left; reflexivity).
    apply RegexEnds.ends_spec in Hj. exists i, j.
    apply (rm_iff_m tolower orbit2 cs t (fun a => In a (lit_runes r)) Hf Hv r Hno (proj2 (Forall_forall _ _) (fun x Hx => Hx))).
    split; [exact Hj|lia].
  - intros [i [j Hr]].
    apply (rm_iff_m tolower orbit2 cs t (fun a => In a (lit_runes r)) Hf Hv r Hno (proj2 (Forall_forall _ _) (fun x Hx => Hx))) in Hr.
    destruct Hr as [Hm Hi]. exists i. split; [apply in_seq; lia|].
    apply RegexEnds.ends_spec in Hm. unfold RX.matches_at. destruct (RX.ends orbit2 (emb cs r) t i); [destruct Hm|reflexivity].
Qed.

Lemma In_firstn' : forall (A : Type) n (l : list A) x, In x (firstn n l) -> In x l.
Proof. induction n as [|n IH]; intros [|y l] x H; simpl in *; try contradiction. destruct H as [H|H]; [left; exact H|right; apply IH; exact H]. Qed.
Lemma In_skipn' : forall (A : Type) n (l : list A) x, In x (skipn n l) -> In x l.
Proof. induction n as [|n IH]; intros [|y l] x H; simpl in *; try contradiction; auto. Qed.
Lemma In_slice : forall t sec b, In b (slice t sec) -> In b t.
Proof. intros t sec b H. unfold slice in H. apply In_firstn' in H. apply In_skipn' in H. exact H. Qed.

Theorem engine_is_ends_ok : forall q, engine_is_ends q -> engine_ok re_match tolower orbit c freq q.
Proof.
  induction q using Q_ind'; intro He.
  - simpl in He. apply engine_is_ends_list in He. apply (proj2 (engine_ok_list _ _ _ _ _ _)). rewrite Forall_forall in *. auto.
  - simpl in He. apply engine_is_ends_list in He. apply (proj2 (engine_ok_list _ _ _ _ _ _)). rewrite Forall_forall in *. auto.
  - simpl in *. auto. - simpl in *. auto. - simpl in *. auto. - simpl in *. auto.
  - destruct q; try contradiction; try exact I; try exact He.
    2:{ (* Symbol{Regexp}: the per-section clause of re_ok is DERIVED from the regexp semantics *)
      cbn [engine_is_ends] in He. destruct He as [Hno He]. cbn [engine_ok re_ok]. intros k Hk. cbv zeta.
      destruct (He k Hk) as [Hs Hsec]. split; [exact Hs|].
      destruct (distill orbit c freq cs false r) as [[sub isEq] sl] eqn:Ed.
      destruct isEq; [|exact I]. destruct sub; try exact I.
      intros sec Hin. destruct (Hsec sec Hin) as [Hre Hf].
      destruct (distill_single orbit c freq cs false r s sl Ed) as [p [f [Hsl [Hp [Hc Hlen]]]]].
      rewrite Hp, Hc, Hre. apply Bool.eq_iff_eq_true.
      rewrite <- (single_lit_rm tolower cs (slice (text_of c false k) sec) r p f Hsl Hlen).
      symmetry. apply (somewhere_rm cs r (slice (text_of c false k) sec) Hno Hf).
      intros b Hb. apply (Hvalid false k). eapply In_slice; eauto. }
    cbn [engine_is_ends] in He. destruct He as [Hne [Hno He]]. cbn [engine_ok]. split; [exact Hne|].
    intros k Hk. destruct (He k Hk) as [Hre Hf].
    pose proof (somewhere_rm cs r (text_of c fn k) Hno Hf (Hvalid fn k)) as Hs. rewrite Hre. split.
    + intro Hm. apply Hs. exact Hm.
    + intros _ Hm. apply Hs. exact Hm.
Qed.

Theorem search_exact_regex_semantics : forall q,
  agree tolower orbit ->
  (forall fn cs g, freq fn cs g = 0%N -> post orbit (ix_tris c fn) cs g = []) ->
  (forall x, tolower x = tolower 10%N -> x = 10%N) ->
  engine_is_ends (expand (simp c q)) ->
  search re_match tolower orbit c freq q = spec_search re_match tolower c q.
Proof.
  intros q Hag Hf Hnl He.
  apply (SearchCoreEngine.search_exact_engine re_match tolower orbit c freq q Hag Hf Hnl).
  apply engine_is_ends_ok. exact He.
Qed.
End TopTie.
