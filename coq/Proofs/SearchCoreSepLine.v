(** C01: soundness of the singleLine decision of regexpToMatchTreeRecursive (Model/SearchCoreSepLine.v) w.r.t. the regexp
    semantics of Model/Regex.v, for EVERY table of star operands that cannot consume a newline; its failure for a dot-all
    star; and the tie between the decision over the full AST and the model's [distill] on the projected [rx]. *)
From Coq Require Import List NArith Arith Bool String Lia.
From ZV Require Import Lib.Base Model.SearchCore Model.SearchCoreSepLine.
From ZV Require Model.Regex Proofs.RegexBasics Proofs.RegexEnds.
Import ListNotations.

Module RB := ZV.Proofs.RegexBasics.
Module RE := ZV.Proofs.RegexEnds.

(** ------------------------------------------------------------------ newline-free spans and line numbers *)
Lemma no_nl_refl t i : no_nl t i i.
Proof. intros k H1 H2. lia. Qed.
Lemma no_nl_trans t i k j : no_nl t i k -> no_nl t k j -> no_nl t i j.
Proof. intros A B p H1 H2. destruct (Nat.lt_ge_cases p k) as [L|L]; [apply A | apply B]; lia. Qed.
Lemma no_nl_sub t i j i' j' : no_nl t i j -> i <= i' -> j' <= j -> no_nl t i' j'.
Proof. intros A H1 H2 p P1 P2. apply A; lia. Qed.

Lemma line_of_S t : forall o, line_of t (S o) = line_of t o + match nth_error t o with Some c => if (10 =? c)%N then 1 else 0 | None => 0 end.
Proof.
  unfold line_of, count_nl. induction t as [|c t IH]; intros o.
  - destruct o; reflexivity.
  - destruct o as [|o].
    + cbn [firstn filter nth_error]. destruct (N.eqb 10 c); reflexivity.
    + change (firstn (S (S o)) (c :: t)) with (c :: firstn (S o) t). change (firstn (S o) (c :: t)) with (c :: firstn o t).
      change (nth_error (c :: t) (S o)) with (nth_error t o). cbn [filter]. destruct (N.eqb 10 c); cbn [length]; rewrite IH; reflexivity.
Qed.

Lemma line_of_no_nl t i : forall o, no_nl t i o -> i <= o -> line_of t o = line_of t i.
Proof.
  intros o Hn Hio. replace o with (i + (o - i)) by lia.
  assert (G : forall d, i + d <= o -> line_of t (i + d) = line_of t i).
  { induction d as [|d IHd]; intro Hd; [rewrite Nat.add_0_r; reflexivity|].
    replace (i + S d) with (S (i + d)) by lia. rewrite line_of_S, IHd by lia.
    destruct (nth_error t (i + d)) as [c|] eqn:E; [|lia].
    destruct (10 =? c)%N eqn:Ec; [|lia]. apply N.eqb_eq in Ec. subst c. exfalso. apply (Hn (i + d)); [lia|lia|exact E]. }
  apply G. lia.
Qed.

Section Sem.
Variable orbit : N -> list N.
(** the newline is in no rune's simple-fold orbit (unicode.SimpleFold('\n') = '\n') *)
Hypothesis orbit_nl : forall r, ~ In 10%N (orbit r).
Notation M := (RX.m orbit).

(** "every match of r is a newline-free span of the text"  ( r ⊆ [^\n]* ) *)
Definition nonl_span (r : RX.re) : Prop := forall t i j, M r t i j -> no_nl t i j.

Lemma lit_m_len f s : forall t i j, RX.lit_m orbit f s t i j -> j = i + length s.
Proof.
  induction s as [|r s IH]; intros t i j; simpl.
  - intros ->. lia.
  - intros (c & _ & _ & H). apply IH in H. lia.
Qed.

Lemma lit_nonl f s : memN 10 s = false -> forall t i j, RX.lit_m orbit f s t i j -> no_nl t i j.
Proof.
  induction s as [|r s IH]; intros Hm t i j; simpl.
  - intros ->. apply no_nl_refl.
  - cbn [memN] in Hm. apply orb_false_iff in Hm. destruct Hm as [Hr Hs].
    intros (c & Hc & Hf & H). apply (no_nl_trans t i (S i) j); [|apply IH; assumption].
    intros k K1 K2. assert (k = i) by lia. subst k. rewrite Hc. intros E. injection E as E. subst c.
    unfold RX.fold_eq in Hf. apply orb_true_iff in Hf. destruct Hf as [Hf|Hf].
    + apply N.eqb_eq in Hf. subst r. rewrite N.eqb_refl in Hr. discriminate.
    + apply andb_true_iff in Hf. destruct Hf as [_ Hf]. apply existsb_exists in Hf. destruct Hf as (x & Hx & Hx2).
      apply N.eqb_eq in Hx2. subst x. exact (orbit_nl r Hx).
Qed.

Lemma pow_nonl (P : RB.rel) t n : (forall i j, P i j -> no_nl t i j) -> forall i j, RX.pow P n i j -> no_nl t i j.
Proof.
  intros H. induction n as [|n IH]; intros i j; simpl.
  - intros ->. apply no_nl_refl.
  - intros (k & A & B). eapply no_nl_trans; [apply H; exact A | apply IH; exact B].
Qed.

Lemma step_nonl t p : p 10%N = false -> forall i j, RX.step_m t p i j -> no_nl t i j.
Proof.
  intros Hp i j (c & Hc & Hpc & ->) k K1 K2. assert (k = i) by lia. subst k. rewrite Hc. intros E. injection E as ->.
  rewrite Hp in Hpc. discriminate.
Qed.

(** the one-rune operators: their semantics is the step over their rune predicate *)
Lemma op_step_sem x p : op_step (op_name x) = Some p -> forall t i j, M x t i j -> RX.step_m t p i j.
Proof.
  destruct x; cbn; intros E; try discriminate; injection E as <-; intros t i j H; exact H.
Qed.

Lemma mem_str_In x l : mem_str x l = true -> In x l.
Proof.
  induction l as [|y l IH]; simpl; [discriminate|]. intros H. apply orb_true_iff in H. destruct H as [H|H].
  - left. apply String.eqb_eq in H. auto.
  - right. auto.
Qed.

(** a star whose operand operator is in a safe table matches newline-free spans only *)
Lemma star_safe_nonl tbl x : table_safe tbl = true -> mem_str (op_name x) tbl = true -> nonl_span (RX.RStar x).
Proof.
  intros Hs Hm t i j (n & Hp). apply mem_str_In in Hm. unfold table_safe in Hs. rewrite forallb_forall in Hs.
  specialize (Hs _ Hm). unfold sep_op_excludes_nl in Hs. destruct (op_step (op_name x)) as [p|] eqn:E; [|discriminate].
  apply negb_true_iff in Hs. eapply pow_nonl; [|exact Hp]. intros a b Hab. eapply step_nonl; [exact Hs|]. eapply op_step_sem; eauto.
Qed.

(** MAIN: whatever regexpToMatchTreeRecursive flags singleLine matches only inside one line - for every table of star
    operands that cannot consume a newline *)
Theorem single_line_nonl tbl : table_safe tbl = true -> forall r, single_line tbl r = true -> nonl_span r.
Proof.
  intros Hs. induction r using RB.re_ind2; intros Hsl.
  - destruct r; try contradiction; simpl in Hsl; try discriminate.
    apply andb_true_iff in Hsl. destruct Hsl as [_ Hn]. apply negb_true_iff in Hn. intros t i j Hm. eapply lit_nonl; eauto.
  - intros t i j Hm. simpl in Hm, Hsl. eapply IHr; eauto.
  - simpl in Hsl. eapply star_safe_nonl; eauto.
  - simpl in Hsl. intros t i j (n & _ & Hp). eapply pow_nonl; [|exact Hp]. intros a b. apply IHr; exact Hsl.
  - simpl in Hsl. discriminate.
  - simpl in Hsl. apply andb_true_iff in Hsl. destruct Hsl as [_ Hsl].
    intros t i j (n & _ & _ & Hp). eapply pow_nonl; [|exact Hp]. intros a b. apply IHr; exact Hsl.
  - simpl in Hsl. intros t i j Hm. apply RB.m_concat in Hm. revert i Hm Hsl.
    induction H as [|x xs Hx _ IH]; intros i Hm Hsl; simpl in Hm.
    + subst. apply no_nl_refl.
    + simpl in Hsl. apply andb_true_iff in Hsl. destruct Hsl as [S1 S2]. destruct Hm as (k & A & B).
      eapply no_nl_trans; [eapply Hx; eauto | eapply IH; eauto].
  - simpl in Hsl. discriminate.
Qed.

(** ... hence every position inside a match of a singleLine regexp is on the line where the match starts *)
Corollary single_line_one_line tbl r t i j :
  table_safe tbl = true -> single_line tbl r = true -> M r t i j -> forall o, i <= o -> o <= j -> line_of t o = line_of t i.
Proof.
  intros Hs Hsl Hm o H1 H2. apply line_of_no_nl; [|exact H1].
  eapply no_nl_sub; [eapply single_line_nonl; eauto | lia | lia].
Qed.

Lemma star_notnl_nonl : nonl_span (RX.RStar RX.RAnyNotNL).
Proof. apply (star_safe_nonl ["OpAnyCharNotNL"%string] RX.RAnyNotNL); reflexivity. Qed.

(** the same-line shortcut for  lit1 SEP lit2 : sound whenever the separator matches nothing but newline-free spans
    (separator ⊆ [^\n]*, stated against the semantics of (?-s:.)* itself) *)
Theorem andline_sound sep f1 l1 f2 l2 t i j :
  (forall t i j, M sep t i j -> M (RX.RStar RX.RAnyNotNL) t i j) ->
  memN 10 l1 = false -> memN 10 l2 = false ->
  M (RX.RConcat [RX.RLit f1 l1; sep; RX.RLit f2 l2]) t i j ->
  exists o1 o2, i <= o1 /\ o1 + length l1 <= o2 /\ o2 + length l2 = j /\
    RX.lit_m orbit f1 l1 t o1 (o1 + length l1) /\ RX.lit_m orbit f2 l2 t o2 (o2 + length l2) /\ line_of t o1 = line_of t o2.
Proof.
  intros Hsep N1 N2 Hm. simpl in Hm. destruct Hm as (k1 & A & k2 & B & k3 & C & ->).
  pose proof (lit_m_len _ _ _ _ _ A) as L1. pose proof (lit_m_len _ _ _ _ _ C) as L2. subst k1. rewrite L2 in C.
  pose proof (RE.m_good orbit sep t _ _ B) as [G _].
  exists i, k2. split; [lia|]. split; [lia|]. split; [lia|]. split; [exact A|]. split; [exact C|].
  symmetry. apply line_of_no_nl; [|lia].
  eapply no_nl_trans; [eapply lit_nonl; [exact N1 | exact A]|]. apply star_notnl_nonl. apply Hsep. exact B.
Qed.

End Sem.

(** ------------------------------------------------------------------ the tie to the model's distill *)
Section Tie.
Variable g : N -> list N.     (* the outer section variable of Model/SearchCore.v that [distill] is closed over *)
Variable c : corpus.
Variable freq : bool -> bool -> tri -> N.

Lemma distill_single_line tbl cs fn : forall r, snd (distill g c freq cs fn (proj tbl r)) = single_line tbl r.
Proof.
  induction r using RB.re_ind2.
  - destruct r; try contradiction; try reflexivity.
    cbn [proj distill single_line]. destruct (3 <=? byte_len rs); reflexivity.
  - cbn [proj distill single_line]. exact IHr.
  - cbn [proj single_line]. destruct (mem_str (op_name r) tbl); reflexivity.
  - cbn [proj distill single_line]. exact IHr.
  - reflexivity.
  - cbn [proj distill single_line]. destruct (mn =? 1) eqn:E1.
    + apply Nat.eqb_eq in E1. subst mn. exact IHr.
    + destruct (1 <? mn) eqn:E2.
      * destruct (distill g c freq cs fn (proj tbl r)) as [[m0 e0] s0] eqn:Ed. simpl in IHr. simpl.
        apply Nat.ltb_lt in E2. destruct mn as [|mn']; [lia|]. exact IHr.
      * apply Nat.eqb_neq in E1. apply Nat.ltb_ge in E2. destruct mn as [|[|mn']]; [reflexivity|congruence|lia].
  - cbn [proj distill single_line].
    assert (E : forallb (fun x => snd x) (map (distill g c freq cs fn) (map (proj tbl) rs)) = forallb (single_line tbl) rs).
    { induction H as [|x xs Hx _ IH]; [reflexivity|]. simpl. rewrite Hx, IH. reflexivity. }
    set (subs := map (distill g c freq cs fn) (map (proj tbl) rs)) in *.
    destruct (filter (fun q => negb (is_brute q)) (map (fun x => fst (fst x)) subs)) as [|q [|q2 qs]]; simpl; try exact E.
    destruct (forallb (fun x => snd x) subs) eqn:Es; simpl; rewrite <- E; reflexivity.
  - cbn [proj distill single_line].
    destruct (find is_brute (map (fun x => fst (fst x)) (map (distill g c freq cs fn) (map (proj tbl) rs)))); [reflexivity|].
    destruct (map (fun x => fst (fst x)) (map (distill g c freq cs fn) (map (proj tbl) rs))); reflexivity.
Qed.

End Tie.

(** ------------------------------------------------------------------ the dot-all star: NOT a same-line separator *)
Definition no_orbit (_ : N) : list N := [].
Definition foo_nl_bar : list N := [102; 111; 111; 10; 98; 97; 114]%N.      (* "foo\nbar" *)
Definition foo_dotall_bar : RX.re := RX.RConcat [RX.RLit false [102; 111; 111]%N; RX.RStar RX.RAny; RX.RLit false [98; 97; 114]%N].

(** the occurrences of [p] in [t], and "some occurrence of p1 shares its line with some occurrence of p2" (what
    andLineMatchTree decides for two case-sensitive literals) *)
Definition occs (p t : list N) : list nat := filter (occurs_at (fun x => x) true p t) (seq 0 (S (length t))).
Definition share_line (p1 p2 t : list N) : bool :=
  existsb (fun o1 => existsb (fun o2 => line_of t o1 =? line_of t o2) (occs p2 t)) (occs p1 t).

Lemma dotall_refuted :
  single_line tbl_dotall foo_dotall_bar = true /\
  RX.ends no_orbit foo_dotall_bar foo_nl_bar 0 = [7] /\
  share_line [102; 111; 111]%N [98; 97; 114]%N foo_nl_bar = false /\
  table_safe tbl_dotall = false.
Proof. vm_compute. repeat split. Qed.
