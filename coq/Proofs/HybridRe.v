(** C28 — proofs about the dispatch of internal/hybridre2 (Model/HybridRe.v). *)
From Coq Require Import String List ZArith Bool Lia ZifyBool ZifyNat.
From ZV Require Import Lib.Base Model.HybridReSyntax Generated.HybridRe2 Model.HybridRe.
Import ListNotations.
Open Scope Z_scope.

(** ---- the conditions read from the source are the hand model's *)
Lemma disabled_src_eq : disabled_src = -1.
Proof. reflexivity. Qed.

Lemma parse_threshold_src_eq : forall env, parse_threshold_src env = parse_threshold env.
Proof. intros [n|]; reflexivity. Qed.

Lemma re2_compiled_src_eq : forall thr, re2_compiled_src thr = re2_compiled thr.
Proof. intros thr. unfold re2_compiled_src, re2_compiled. lia. Qed.

Lemma use_re2_src_eq : forall thr n, use_re2_src thr (Z.of_nat n) = use_re2 thr n.
Proof. intros thr n. unfold use_re2_src, use_re2. cbv zeta. lia. Qed.

Lemma used_implies_compiled : forall thr n, use_re2 thr n = true -> re2_compiled thr = true.
Proof. intros thr n H. unfold use_re2 in H. apply andb_true_iff in H. apply H. Qed.

(** ---- threshold(): the reader in the source is the specified one *)
Lemma tcond3_sound : forall opq e c v,
  tcond3 (env_set e) (env_parsed e) c = Some v -> eval_tcond opq e c = v.
Proof.
  intros opq e c. induction c as [| | | |c1 IH1|c1 IH1 c2 IH2|c1 IH1 c2 IH2|k]; intros v H; simpl in H |- *.
  - congruence.
  - congruence.
  - congruence.
  - congruence.
  - destruct (tcond3 (env_set e) (env_parsed e) c1) as [v1|] eqn:E1; simpl in H; [|discriminate].
    injection H as H. rewrite (IH1 v1 eq_refl). exact H.
  - destruct (tcond3 (env_set e) (env_parsed e) c1) as [[|]|] eqn:E1;
      destruct (tcond3 (env_set e) (env_parsed e) c2) as [[|]|] eqn:E2;
      try discriminate; injection H as H; subst v;
      rewrite ?(IH1 _ eq_refl), ?(IH2 _ eq_refl); auto using andb_false_r.
  - destruct (tcond3 (env_set e) (env_parsed e) c1) as [[|]|] eqn:E1;
      destruct (tcond3 (env_set e) (env_parsed e) c2) as [[|]|] eqn:E2;
      try discriminate; injection H as H; subst v;
      rewrite ?(IH1 _ eq_refl), ?(IH2 _ eq_refl); auto using orb_true_r.
  - discriminate.
Qed.

Definition tval_interp (v : tval) (e : env3) : option Z :=
  match v with VParsed => env3_opt e | VConst z => Some z end.

Lemma tleaves_ok_sound : forall opq want e t,
  tleaves_ok want (env_set e) (env_parsed e) t = true -> eval_ttree opq t e = tval_interp want e.
Proof.
  intros opq want e t. induction t as [v|c t1 IH1 t2 IH2|]; intros H; simpl in H |- *.
  - destruct v as [|z], want as [|z']; simpl in H; try discriminate; try reflexivity.
    apply Z.eqb_eq in H. subst z'. reflexivity.
  - destruct (tcond3 (env_set e) (env_parsed e) c) as [[|]|] eqn:E.
    + rewrite (tcond3_sound opq e c true E). auto.
    + rewrite (tcond3_sound opq e c false E). auto.
    + apply andb_true_iff in H. destruct H as [H1 H2]. destruct (eval_tcond opq e c); auto.
  - discriminate.
Qed.

Lemma ttree_ok_sound : forall opq t e, ttree_ok t = true -> eval_ttree opq t e = Some (parse_threshold (env3_opt e)).
Proof.
  intros opq t e H. unfold ttree_ok in H.
  apply andb_true_iff in H. destruct H as [H Hint]. apply andb_true_iff in H. destruct H as [Hunset Hbad].
  destruct e as [| |n].
  - rewrite (tleaves_ok_sound opq (VConst (-1)) EnvUnset t Hunset). reflexivity.
  - rewrite (tleaves_ok_sound opq (VConst (-1)) EnvBad t Hbad). reflexivity.
  - rewrite (tleaves_ok_sound opq VParsed (EnvInt n) t Hint). reflexivity.
Qed.

Lemma generated_threshold_tree_ok : ttree_ok threshold_tree = true.
Proof. vm_compute. reflexivity. Qed.

Lemma threshold_src_eq : forall opq e, threshold_src opq e = Some (parse_threshold (env3_opt e)).
Proof. intros opq e. apply ttree_ok_sound. exact generated_threshold_tree_ok. Qed.

Lemma threshold_env_name_eq : threshold_env_name = "ZOEKT_RE2_THRESHOLD_BYTES"%string.
Proof. reflexivity. Qed.

(** ---- soundness of the checker *)
Section Sound.
  Variables R T L O : Type.
  Variable len : T -> nat.
  Variables grafana re2 : R -> T -> L -> O.
  Variable xf : T -> T.
  Variable xl : L -> L.
  Variable opq : nat -> T -> bool.

  Lemma cond3_sound : forall compiled used b c v,
    cond3 compiled used c = Some v -> eval_cond T opq compiled used b c = v.
  Proof.
    intros compiled used b c. induction c as [| | | |c1 IH1|c1 IH1 c2 IH2|c1 IH1 c2 IH2|k]; intros v H; simpl in H |- *.
    - congruence.
    - congruence.
    - congruence.
    - congruence.
    - destruct (cond3 compiled used c1) as [v1|] eqn:E1; simpl in H; [|discriminate].
      injection H as H. rewrite (IH1 v1 eq_refl). exact H.
    - destruct (cond3 compiled used c1) as [[|]|] eqn:E1; destruct (cond3 compiled used c2) as [[|]|] eqn:E2;
        try discriminate; injection H as H; subst v;
        rewrite ?(IH1 _ eq_refl), ?(IH2 _ eq_refl); auto using andb_false_r.
    - destruct (cond3 compiled used c1) as [[|]|] eqn:E1; destruct (cond3 compiled used c2) as [[|]|] eqn:E2;
        try discriminate; injection H as H; subst v;
        rewrite ?(IH1 _ eq_refl), ?(IH2 _ eq_refl); auto using orb_true_r.
    - discriminate.
  Qed.

  Lemma engine_eqb_eq : forall a b, engine_eqb a b = true -> a = b.
  Proof. intros [|] [|]; simpl; congruence. Qed.

  Lemma leaves_ok_sound : forall want compiled used b t,
    leaves_ok want compiled used t = true ->
    run_tree T opq t compiled used b = Some (want, ArgParam, ArgParam).
  Proof.
    intros want compiled used b t. induction t as [e i l|c t1 IH1 t2 IH2|]; intros H; simpl in H |- *.
    - apply andb_true_iff in H. destruct H as [H Hl]. apply andb_true_iff in H. destruct H as [He Hi].
      apply engine_eqb_eq in He. destruct i; [|discriminate]. destruct l; [|discriminate]. subst e. reflexivity.
    - destruct (cond3 compiled used c) as [[|]|] eqn:E.
      + rewrite (cond3_sound compiled used b c true E). auto.
      + rewrite (cond3_sound compiled used b c false E). auto.
      + apply andb_true_iff in H. destruct H as [H1 H2].
        destruct (eval_cond T opq compiled used b c); auto.
    - discriminate.
  Qed.

  Lemma tree_ok_sound : forall t compiled used b,
    tree_ok t = true -> (used = true -> compiled = true) ->
    run_tree T opq t compiled used b = Some (want_engine compiled used, ArgParam, ArgParam).
  Proof.
    intros t compiled used b H Himp. unfold tree_ok in H.
    apply andb_true_iff in H. destruct H as [H Htt]. apply andb_true_iff in H. destruct H as [Hff Htf].
    destruct compiled, used.
    - apply leaves_ok_sound; assumption.
    - apply leaves_ok_sound; assumption.
    - specialize (Himp eq_refl). discriminate.
    - apply leaves_ok_sound; assumption.
  Qed.

  (** THE obligation on the generated tree (vm_compute): it breaks when some path calls the wrong engine, leaves the
      function otherwise, or hands an engine anything but the method's own untouched parameters. *)
  Lemma generated_tree_ok : tree_ok find_all_index_tree = true.
  Proof. vm_compute. reflexivity. Qed.

  (** the dispatch as written in the source is the hand model: for every setting, regexp, input and limit, and whatever the
      uninterpreted parts of the source do *)
  Lemma find_all_src_eq : forall thr r b n,
    find_all_src R T L O len grafana re2 xf xl opq thr r b n = Some (find_all R T L O len grafana re2 thr r b n).
  Proof.
    intros thr r b n. unfold find_all_src.
    rewrite re2_compiled_src_eq, use_re2_src_eq.
    rewrite (tree_ok_sound find_all_index_tree (re2_compiled thr) (use_re2 thr (len b)) b generated_tree_ok
               (used_implies_compiled thr (len b))).
    simpl. unfold find_all, want_engine.
    destruct (re2_compiled thr && use_re2 thr (len b)); reflexivity.
  Qed.

  Lemma find_all_reduction : forall r b n,
    (forall thr1 thr2, find_all R T L O len grafana re2 thr1 r b n = find_all R T L O len grafana re2 thr2 r b n)
    <-> grafana r b n = re2 r b n.
  Proof.
    intros r b n. split.
    - intros H. specialize (H (-1) 0). unfold find_all in H.
      replace (re2_compiled (-1) && use_re2 (-1) (len b)) with false in H by reflexivity.
      replace (re2_compiled 0 && use_re2 0 (len b)) with true in H; [exact H|].
      unfold re2_compiled, use_re2. simpl. symmetry. apply Z.leb_le. lia.
    - intros E thr1 thr2. unfold find_all.
      destruct (re2_compiled thr1 && use_re2 thr1 (len b)), (re2_compiled thr2 && use_re2 thr2 (len b)); congruence.
  Qed.

  Lemma find_all_src_reduction : forall r b n,
    (forall thr1 thr2, find_all_src R T L O len grafana re2 xf xl opq thr1 r b n
                       = find_all_src R T L O len grafana re2 xf xl opq thr2 r b n)
    <-> grafana r b n = re2 r b n.
  Proof.
    intros r b n. rewrite <- find_all_reduction. split.
    - intros H thr1 thr2. specialize (H thr1 thr2). rewrite !find_all_src_eq in H. congruence.
    - intros H thr1 thr2. rewrite !find_all_src_eq. f_equal. apply H.
  Qed.

  (** a setting above the input's size selects the grafana engine although RE2 is compiled: results under such a
      setting are the disabled setting's results, on the same bytes *)
  Lemma find_all_src_above_size : forall thr r b n, Z.of_nat (len b) < thr ->
    find_all_src R T L O len grafana re2 xf xl opq thr r b n = Some (grafana r b n) /\ re2_compiled thr = true.
  Proof.
    intros thr r b n Hlt. rewrite find_all_src_eq. unfold find_all, re2_compiled, use_re2.
    replace (thr <=? Z.of_nat (len b)) with false by lia. rewrite andb_false_r, andb_false_r.
    split; [reflexivity|lia].
  Qed.
End Sound.

Section Spec.
  Variables R T L O : Type.
  Variable len : T -> nat.
  Variable valid_utf8 : T -> Prop.
  Variables grafana re2 : R -> T -> L -> O.
  Variable spec_find_all : R -> T -> L -> O.
  Hypothesis grafana_spec : forall r b n, valid_utf8 b -> grafana r b n = spec_find_all r b n.
  Hypothesis re2_spec : forall r b n, valid_utf8 b -> re2 r b n = spec_find_all r b n.

  Lemma threshold_irrelevant : forall xf xl opq thr r b n, valid_utf8 b ->
    find_all_src R T L O len grafana re2 xf xl opq thr r b n = Some (spec_find_all r b n).
  Proof.
    intros xf xl opq thr r b n Hv. rewrite find_all_src_eq. unfold find_all.
    destruct (re2_compiled thr && use_re2 thr (len b)); f_equal; auto.
  Qed.
End Spec.

Lemma dispatch_shape : forall thr n n',
  (thr < 0 -> use_re2 thr n = false) /\ use_re2 0 n = true /\
  (use_re2 thr n = true -> (n <= n')%nat -> use_re2 thr n' = true) /\
  (use_re2 thr n = true -> re2_compiled thr = true).
Proof.
  intros thr n n'. unfold use_re2, re2_compiled. repeat split; intros; lia.
Qed.

Lemma engines_pinned :
  engine_compile_callees = expected_compile_callees /\ engine_packages = expected_engine_packages.
Proof. split; vm_compute; reflexivity. Qed.
