(** Correctness of the transcribed container/heap (Model/Queue.v, section ContainerHeap), generic in the
    heap.Interface implementation: up / down / Fix / Remove / Pop restore the heap order on the region
    they work on, for any strict weak order. *)
From ZV Require Import Lib.Base Model.Queue.
From Coq Require Import ZifyBool ZifyNat.

Definition parent (c : nat) : nat := (c - 1) / 2.
Definition transp (i j k : nat) : nat := if k =? i then j else if k =? j then i else k.

Section ParentFacts.
  Local Ltac Zify.zify_post_hook ::= Z.div_mod_to_equations.
  Lemma parent_lt c : 0 < c -> parent c < c.
  Proof. unfold parent. intros. lia. Qed.
  Lemma parent_zero : parent 0 = 0.
  Proof. reflexivity. Qed.
  Lemma parent_left i : parent (2 * i + 1) = i.
  Proof. unfold parent. lia. Qed.
  Lemma parent_right i : parent (2 * i + 1 + 1) = i.
  Proof. unfold parent. lia. Qed.
  Lemma parent_inv c i : 0 < c -> parent c = i -> c = 2 * i + 1 \/ c = 2 * i + 1 + 1.
  Proof. unfold parent. intros. lia. Qed.
End ParentFacts.

Lemma transp_l i j : transp i j i = j.
Proof. unfold transp. rewrite Nat.eqb_refl. reflexivity. Qed.
Lemma transp_r i j : transp i j j = i.
Proof. unfold transp. rewrite Nat.eqb_refl. destruct (j =? i) eqn:E; [apply Nat.eqb_eq in E; auto | reflexivity]. Qed.
Lemma transp_other i j k : k <> i -> k <> j -> transp i j k = k.
Proof. unfold transp. intros Hi Hj. apply Nat.eqb_neq in Hi, Hj. rewrite Hi, Hj. reflexivity. Qed.

Section Preserves.
  Context {St : Type} (less : St -> nat -> nat -> bool) (swap : St -> nat -> nat -> St).

  Lemma up_S f s j :
    up less swap (S f) s j =
    if (parent j =? j) || negb (less s j (parent j)) then s else up less swap f (swap s (parent j) j) (parent j).
  Proof. reflexivity. Qed.
  Lemma down_loop_S f s i n :
    down_loop less swap (S f) s i n =
    if n <=? 2 * i + 1 then (s, i) else
    let j := if (2 * i + 1 + 1 <? n) && less s (2 * i + 1 + 1) (2 * i + 1) then 2 * i + 1 + 1 else 2 * i + 1 in
    if negb (less s j i) then (s, i) else down_loop less swap f (swap s i j) j n.
  Proof. reflexivity. Qed.

  Lemma up_preserves (P : St -> Prop) m :
    (forall s i j, i < m -> j < m -> P s -> P (swap s i j)) ->
    forall fuel s j, j < m -> P s -> P (up less swap fuel s j).
  Proof.
    intros Hsw. induction fuel as [|f IH]; intros s j Hj HP; [exact HP|]. rewrite up_S.
    destruct ((parent j =? j) || negb (less s j (parent j))) eqn:E; [exact HP|].
    apply Bool.orb_false_iff in E. destruct E as [E _]. apply Nat.eqb_neq in E.
    assert (Hp : parent j < j). { apply parent_lt. destruct j; [exfalso; apply E; reflexivity | lia]. }
    apply IH; [lia|]. apply Hsw; [lia | lia | exact HP].
  Qed.

  Lemma down_loop_preserves (P : St -> Prop) n :
    (forall s i j, i < n -> j < n -> P s -> P (swap s i j)) ->
    forall fuel s i, P s -> P (fst (down_loop less swap fuel s i n)).
  Proof.
    intros Hsw. induction fuel as [|f IH]; intros s i HP; [exact HP|]. rewrite down_loop_S.
    destruct (n <=? 2 * i + 1) eqn:E1; [exact HP|]. apply Nat.leb_gt in E1. cbv zeta.
    set (j := if (2 * i + 1 + 1 <? n) && less s (2 * i + 1 + 1) (2 * i + 1) then 2 * i + 1 + 1 else 2 * i + 1).
    assert (Hj : j < n /\ i < j).
    { unfold j. destruct ((2 * i + 1 + 1 <? n) && less s (2 * i + 1 + 1) (2 * i + 1)) eqn:E2.
      - apply Bool.andb_true_iff in E2. destruct E2 as [E2 _]. apply Nat.ltb_lt in E2. lia.
      - lia. }
    destruct (negb (less s j i)); [exact HP|]. apply IH. apply Hsw; [lia | lia | exact HP].
  Qed.
End Preserves.

Section HeapGeneric.
  Context {St A : Type}.
  Variable len : St -> nat.
  Variable less : St -> nat -> nat -> bool.
  Variable swap : St -> nat -> nat -> St.
  Variable val : St -> nat -> A.
  Variable lt : A -> A -> bool.
  Hypothesis less_val : forall s i j, less s i j = lt (val s i) (val s j).
  Hypothesis len_swap : forall s i j, i < len s -> j < len s -> len (swap s i j) = len s.
  Hypothesis val_swap : forall s i j k, i < len s -> j < len s -> val (swap s i j) k = val s (transp i j k).
  Hypothesis lt_asym : forall a b, lt a b = true -> lt b a = false.
  Hypothesis le_trans : forall a b c, lt b a = false -> lt c b = false -> lt c a = false.

  (* le a b := lt b a = false *)
  Definition ordered (v : nat -> A) (n : nat) : Prop := forall c, 0 < c < n -> lt (v c) (v (parent c)) = false.
  Definition hole_inv (v : nat -> A) (n i : nat) : Prop :=
    (forall c, 0 < c < n -> c <> i -> parent c <> i -> lt (v c) (v (parent c)) = false) /\
    (forall c, 0 < c < n -> parent c = i -> 0 < i -> lt (v c) (v (parent i)) = false).
  Definition kids_ok (v : nat -> A) (n i : nat) : Prop := forall c, 0 < c < n -> parent c = i -> lt (v c) (v i) = false.
  Definition par_ok (v : nat -> A) (i : nat) : Prop := 0 < i -> lt (v i) (v (parent i)) = false.

  Lemma ordered_of_parts v n i : hole_inv v n i -> kids_ok v n i -> par_ok v i -> ordered v n.
  Proof.
    intros [H1 _] Hk Hp c Hc.
    destruct (Nat.eq_dec c i) as [->|Hci]; [apply Hp; lia|].
    destruct (Nat.eq_dec (parent c) i) as [Hpc|Hpc]; [rewrite Hpc; apply Hk; assumption | apply H1; assumption].
  Qed.

  Lemma ordered_hole_after_change v v' n i :
    ordered v n -> (forall k, k < n -> k <> i -> v' k = v k) -> hole_inv v' n i.
  Proof.
    intros Ho Hsame. split.
    - intros c Hc Hci Hpi. assert (parent c < c) by (apply parent_lt; lia).
      rewrite !Hsame by (assumption || lia). apply Ho; assumption.
    - intros c Hc Hpc Hi.
      assert (Hpi : parent i < i) by (apply parent_lt; exact Hi).
      assert (Hic : i < c) by (rewrite <- Hpc; apply parent_lt; lia).
      rewrite !Hsame by lia.
      apply le_trans with (b := v i).
      + apply Ho. lia.
      + rewrite <- Hpc. apply Ho. exact Hc.
  Qed.

  Lemma ordered_shrink v n m : ordered v n -> m <= n -> ordered v m.
  Proof. intros H Hm c Hc. apply H. lia. Qed.

  Lemma down_loop_spec : forall fuel s i n s' i',
    n <= i + fuel -> n <= len s ->
    hole_inv (val s) n i ->
    down_loop less swap fuel s i n = (s', i') ->
    i <= i' /\ len s' = len s /\
    hole_inv (val s') n i' /\ kids_ok (val s') n i' /\
    (i < i' -> par_ok (val s') i') /\ (i' = i -> s' = s).
  Proof.
    induction fuel as [|f IH]; intros s i n s' i' Hfuel Hn Hh Hd; [simpl in Hd | rewrite down_loop_S in Hd].
    - inversion Hd; subst. repeat split; try lia; try (apply Hh); auto.
      intros c Hc Hpc. assert (parent c < c) by (apply parent_lt; lia). lia.
    - destruct (n <=? 2 * i + 1) eqn:E1.
      { apply Nat.leb_le in E1. inversion Hd; subst. repeat split; try lia; try (apply Hh); auto.
        intros c Hc Hpc. apply parent_inv in Hpc; lia. }
      apply Nat.leb_gt in E1. cbv zeta in Hd.
      set (j := if (2 * i + 1 + 1 <? n) && less s (2 * i + 1 + 1) (2 * i + 1) then 2 * i + 1 + 1 else 2 * i + 1) in *.
      (* j is a child of i inside the region and not greater than its sibling *)
      assert (Hj : j < n /\ parent j = i /\ i < j /\
                   (forall c, 0 < c < n -> parent c = i -> c <> j -> lt (val s c) (val s j) = false)).
      { unfold j. destruct ((2 * i + 1 + 1 <? n) && less s (2 * i + 1 + 1) (2 * i + 1)) eqn:E2.
        - apply Bool.andb_true_iff in E2. destruct E2 as [E2 E3]. apply Nat.ltb_lt in E2.
          rewrite less_val in E3.
          repeat split; [lia | apply parent_right | lia |].
          intros c Hc Hpc Hne. apply parent_inv in Hpc; [|lia].
          destruct Hpc as [->| ->]; [apply lt_asym; exact E3 | congruence].
        - repeat split; [lia | apply parent_left | lia |].
          intros c Hc Hpc Hne. apply parent_inv in Hpc; [|lia].
          destruct Hpc as [->| ->]; [congruence|].
          apply Bool.andb_false_iff in E2. destruct E2 as [E2|E2]; [apply Nat.ltb_ge in E2; lia|].
          rewrite less_val in E2. exact E2. }
      destruct Hj as (Hjn & Hpj & Hij & Hsib).
      destruct (negb (less s j i)) eqn:E4.
      { apply Bool.negb_true_iff in E4. rewrite less_val in E4.
        inversion Hd; subst s' i'. repeat split; try lia; try (apply Hh); auto.
        intros c Hc Hpc. destruct (Nat.eq_dec c j) as [->|Hcj]; [exact E4|].
        apply le_trans with (b := val s j); [exact E4 | apply Hsib; assumption]. }
      apply Bool.negb_false_iff in E4. rewrite less_val in E4.
      assert (Hv2 : forall k, val (swap s i j) k = val s (transp i j k)) by (intro k; apply val_swap; lia).
      assert (Hl2 : len (swap s i j) = len s) by (apply len_swap; lia).
      destruct Hh as [Hh1 Hh2].
      assert (Hh' : hole_inv (val (swap s i j)) n j).
      { split.
        - intros c Hc Hcj Hpcj. rewrite !Hv2.
          destruct (Nat.eq_dec c i) as [->|Hci].
          + (* c = i : parent edge of i, new value at i is the old v j *)
            assert (parent i < i) by (apply parent_lt; lia).
            rewrite transp_l, transp_other by lia. apply Hh2; [lia | exact Hpj | lia].
          + destruct (Nat.eq_dec (parent c) i) as [Hpci|Hpci].
            * rewrite Hpci, transp_l, transp_other by assumption. apply Hsib; assumption.
            * rewrite !transp_other by assumption. apply Hh1; assumption.
        - intros c Hc Hpc _. rewrite !Hv2. rewrite Hpj, transp_l.
          assert (j < c) by (rewrite <- Hpc; apply parent_lt; lia).
          rewrite transp_other by lia.
          rewrite <- Hpc. apply Hh1; [exact Hc | lia | lia]. }
      specialize (IH (swap s i j) j n s' i').
      destruct IH as (I1 & I2 & I3 & I4 & I5 & I6); [lia | lia | exact Hh' | exact Hd |].
      repeat split; try lia; try (apply I3); auto.
      + intros _. destruct (Nat.eq_dec i' j) as [->|Hne].
        * rewrite (I6 eq_refl). intros _. rewrite !Hv2, Hpj, transp_l, transp_r. apply lt_asym. exact E4.
        * apply I5. lia.
  Qed.

  Lemma up_spec : forall fuel s j n,
    j < fuel -> n <= len s -> j < n ->
    hole_inv (val s) n j -> kids_ok (val s) n j ->
    ordered (val (up less swap fuel s j)) n /\ len (up less swap fuel s j) = len s.
  Proof.
    induction fuel as [|f IH]; intros s j n Hfuel Hn Hjn Hh Hk; [lia|]. rewrite up_S.
    destruct (parent j =? j) eqn:E1; simpl.
    { apply Nat.eqb_eq in E1. split; [|reflexivity].
      apply ordered_of_parts with (i := j); auto. intro H0. apply parent_lt in H0. lia. }
    apply Nat.eqb_neq in E1.
    assert (Hj0 : 0 < j) by (destruct j; [exfalso; apply E1; reflexivity | lia]).
    assert (Hpj : parent j < j) by (apply parent_lt; exact Hj0).
    destruct (less s j (parent j)) eqn:E2; simpl.
    2:{ split; [|reflexivity]. rewrite less_val in E2.
        apply ordered_of_parts with (i := j); auto. intros _. exact E2. }
    rewrite less_val in E2.
    set (i := parent j) in *.
    assert (Hv2 : forall k, val (swap s i j) k = val s (transp i j k)) by (intro k; apply val_swap; lia).
    assert (Hl2 : len (swap s i j) = len s) by (apply len_swap; lia).
    destruct Hh as [Hh1 Hh2].
    assert (Hji : lt (val s i) (val s j) = false) by (apply lt_asym; exact E2).
    assert (Hkids_i : forall c, 0 < c < n -> parent c = i -> c <> j -> lt (val s c) (val s i) = false).
    { intros c Hc Hpc Hne. rewrite <- Hpc. apply Hh1; [exact Hc | exact Hne | lia]. }
    destruct (IH (swap s i j) i n) as [I1 I2]; [lia | lia | lia | | | split; [exact I1 | lia]].
    - split.
      + intros c Hc Hci Hpci. rewrite !Hv2.
        destruct (Nat.eq_dec c j) as [->|Hcj]; [exfalso; apply Hpci; reflexivity|].
        destruct (Nat.eq_dec (parent c) j) as [Hpcj|Hpcj].
        * rewrite Hpcj, transp_r, transp_other by assumption. apply Hh2; [exact Hc | exact Hpcj | exact Hj0].
        * rewrite !transp_other by assumption. apply Hh1; assumption.
      + intros c Hc Hpc Hi0. rewrite !Hv2.
        assert (Hpi : parent i < i) by (apply parent_lt; exact Hi0).
        rewrite (transp_other i j (parent i)) by lia.
        assert (Hpii : lt (val s i) (val s (parent i)) = false) by (apply Hh1; lia).
        destruct (Nat.eq_dec c j) as [->|Hcj].
        * rewrite transp_r. exact Hpii.
        * assert (i < c) by (rewrite <- Hpc; apply parent_lt; lia).
          rewrite transp_other by lia.
          apply le_trans with (b := val s i); [exact Hpii | apply Hkids_i; assumption].
    - intros c Hc Hpc. rewrite !Hv2, transp_l.
      destruct (Nat.eq_dec c j) as [->|Hcj].
      + rewrite transp_r. exact Hji.
      + assert (i < c) by (rewrite <- Hpc; apply parent_lt; lia).
        rewrite transp_other by lia.
        apply le_trans with (b := val s i); [exact Hji | apply Hkids_i; assumption].
  Qed.

  (** down from i then (if it did not move) up from i: the body shared by heap.Fix and heap.Remove *)
  Lemma fix_region_spec : forall s i n s' moved,
    n <= len s -> i < n -> hole_inv (val s) n i ->
    down less swap (S (len s)) s i n = (s', moved) ->
    let s'' := if moved then s' else up less swap (S (len s)) s' i in
    ordered (val s'') n /\ len s'' = len s.
  Proof.
    intros s i n s' moved Hn Hi Hh Hd. unfold down in Hd.
    destruct (down_loop less swap (S (len s)) s i n) as [s1 i1] eqn:E. inversion Hd; subst s' moved. clear Hd.
    apply down_loop_spec in E; [|lia|exact Hn|exact Hh].
    destruct E as (E1 & E2 & E3 & E4 & E5 & E6).
    cbv zeta. destruct (i <? i1) eqn:Em.
    - apply Nat.ltb_lt in Em. split; [|exact E2].
      apply ordered_of_parts with (i := i1); auto.
    - apply Nat.ltb_ge in Em. assert (i1 = i) by lia. subst i1. rewrite (E6 eq_refl) in *.
      apply up_spec; auto; lia.
  Qed.

  Lemma heap_fix_spec s i :
    i < len s -> hole_inv (val s) (len s) i ->
    ordered (val (heap_fix len less swap s i)) (len s) /\ len (heap_fix len less swap s i) = len s.
  Proof.
    intros Hi Hh. unfold heap_fix.
    destruct (down less swap (S (len s)) s i (len s)) as [s' moved] eqn:E.
    apply (fix_region_spec s i (len s) s' moved); auto.
  Qed.

  Lemma hole_inv_change v v' n i :
    hole_inv v n i -> (forall k, k < n -> k <> i -> v' k = v k) -> hole_inv v' n i.
  Proof.
    intros [H1 H2] Hsame. split.
    - intros c Hc Hci Hpi. assert (parent c < c) by (apply parent_lt; lia).
      rewrite !Hsame by (assumption || lia). apply H1; assumption.
    - intros c Hc Hpc Hi.
      assert (Hpi : parent i < i) by (apply parent_lt; exact Hi).
      assert (Hic : i < c) by (rewrite <- Hpc; apply parent_lt; lia).
      rewrite !Hsame by lia. apply H2; assumption.
  Qed.
  Lemma hole_inv_shrink v n m i : hole_inv v n i -> m <= n -> hole_inv v m i.
  Proof. intros [H1 H2] Hm. split; intros c Hc; [apply H1 | apply H2]; lia. Qed.
  Lemma ordered_hole v n i : ordered v n -> hole_inv v n i.
  Proof. intro Ho. apply ordered_hole_after_change with (v := v); auto. Qed.

  (** heap.Remove before the final h.Pop(): the first len-1 entries are a heap again. The entry at i may
      already violate the order (SetIndexed changes the priority first and removes afterwards). *)
  Lemma heap_remove_pre_spec s i :
    i < len s -> hole_inv (val s) (len s) i ->
    ordered (val (heap_remove_pre len less swap s i)) (len s - 1) /\
    len (heap_remove_pre len less swap s i) = len s.
  Proof.
    intros Hi Ho. unfold heap_remove_pre.
    destruct (len s - 1 =? i) eqn:E.
    { split; [|reflexivity]. apply Nat.eqb_eq in E. destruct Ho as [H1 _]. intros c Hc.
      assert (parent c < c) by (apply parent_lt; lia). apply H1; lia. }
    apply Nat.eqb_neq in E.
    set (n := len s - 1) in *.
    assert (Hl1 : len (swap s i n) = len s) by (apply len_swap; lia).
    destruct (down less swap (S (len s)) (swap s i n) i n) as [s2 moved] eqn:Ed.
    rewrite <- Hl1 in Ed.
    pose proof (fix_region_spec (swap s i n) i n s2 moved) as H.
    rewrite Hl1 in *. apply H; [lia | lia | | exact Ed].
    apply hole_inv_change with (v := val s).
    - apply hole_inv_shrink with (n := len s); [exact Ho | lia].
    - intros k Hk Hki. rewrite val_swap by lia. rewrite transp_other by lia. reflexivity.
  Qed.

  (** heap.Pop before the final h.Pop() *)
  Lemma heap_pop_pre_spec s :
    0 < len s -> ordered (val s) (len s) ->
    ordered (val (heap_pop_pre len less swap s)) (len s - 1) /\
    len (heap_pop_pre len less swap s) = len s.
  Proof.
    intros Hl Ho. unfold heap_pop_pre, down.
    set (n := len s - 1) in *.
    assert (Hl1 : len (swap s 0 n) = len s) by (apply len_swap; lia).
    destruct (down_loop less swap (S (len s)) (swap s 0 n) 0 n) as [s1 i1] eqn:E. simpl.
    apply down_loop_spec in E; [|lia|lia|].
    - destruct E as (E1 & E2 & E3 & E4 & E5 & E6). split; [|lia].
      apply ordered_of_parts with (i := i1); auto.
      destruct (Nat.eq_dec i1 0) as [->|Hne]; [intro; lia | apply E5; lia].
    - apply ordered_hole_after_change with (v := val s).
      + apply ordered_shrink with (n := len s); [exact Ho | lia].
      + intros k Hk Hki. rewrite val_swap by lia. rewrite transp_other by lia. reflexivity.
  Qed.
End HeapGeneric.
