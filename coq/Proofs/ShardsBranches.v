(** Proofs about FileMatch.Branches under the sharded searcher's selection and rewrite (Model/Shards.v; C18). *)
From ZV Require Import Lib.Base Model.Shards Proofs.Shards.

(** what doSelectRepoSet did: nothing, or exactly one child (the first with a repository predicate) replaced,
    and then every repository of every selected shard satisfies that predicate *)
Lemma do_select_shape : forall post pre shards sel cs',
  do_select true shards pre post = (sel, cs') ->
  cs' = pre ++ post \/
  exists mid c c' rest p,
    post = mid ++ c :: rest /\ cs' = pre ++ mid ++ c' :: rest /\
    child_pred c = Some p /\ rewrite_child true sel c = Some c' /\
    (forall s, In s sel -> forallb p (sh_repos s) = true).
Proof.
  induction post as [|c rest IH]; intros pre shards sel cs' H.
  - cbn in H. injection H as <- <-. left. now rewrite app_nil_r.
  - cbn [do_select] in H. destruct (child_pred c) as [p|] eqn:Hc.
    + set (filtered := filter (fun s => negb (sh_known s) || existsb p (sh_repos s)) shards) in *.
      destruct filtered as [|f0 fl] eqn:Ef; [injection H as <- <-; left; reflexivity|].
      rewrite <- Ef in *.
      destruct (negb (forallb (fun s => sh_known s && forallb p (sh_repos s)) filtered)) eqn:Hall;
        [injection H as <- <-; left; reflexivity|].
      destruct (rewrite_child true filtered c) as [c'|] eqn:Hrw; [|injection H as <- <-; left; reflexivity].
      injection H as <- <-. right. exists [], c, c', rest, p. cbn [app].
      split; [reflexivity|]. split; [reflexivity|]. split; [exact Hc|]. split; [exact Hrw|].
      intros s Hs. apply negb_false_iff in Hall.
      pose proof (forallb_In _ _ _ s Hall Hs) as Hs2. cbn in Hs2. apply andb_prop in Hs2. exact (proj2 Hs2).
    + destruct (IH (pre ++ [c]) shards sel cs' H) as [E | (mid & c0 & c' & rest' & p & E1 & E2 & E3 & E4 & E5)].
      * left. rewrite E, <- app_assoc. reflexivity.
      * right. exists (c :: mid), c0, c', rest', p. split; [cbn; now rewrite E1|].
        split; [rewrite E2, <- app_assoc; reflexivity|]. auto.
Qed.

(** the replaced child contributes the same branches, in every selected shard *)
Lemma rewrite_bcontrib : forall filtered c p c' s r d,
  child_pred c = Some p -> rewrite_child true filtered c = Some c' ->
  In s filtered -> In r (sh_repos s) -> forallb p (sh_repos s) = true ->
  bcontrib (simp_sh s c') r d = bcontrib (simp_sh s c) r d.
Proof.
  intros filtered c p c' s r d Hc Hrw Hs Hr Hall.
  pose proof (forallb_In _ _ _ r Hall Hr) as Hp.
  destruct c; cbn in Hc; try discriminate.
  - injection Hc as <-. cbn in Hrw. injection Hrw as <-. cbn [simp_sh]. rewrite Hall. reflexivity.
  - injection Hc as <-. cbn in Hrw. destruct l as [|[b ids] [|x l]]; try discriminate.
    assert (Hid : memN (r_id r) ids = true).
    { cbn [existsb snd] in Hp. now rewrite orb_false_r in Hp. }
    assert (Hex : existsb (fun r0 => existsb (fun bi : N * list N => memN (r_id r0) (snd bi)) [(b, ids)]) (sh_repos s) = true).
    { apply existsb_exists. exists r. split; [exact Hr | exact Hp]. }
    cbn [simp_sh]. rewrite Hex. cbn [bcontrib flat_map fst snd]. rewrite Hid, app_nil_r. cbn [andb].
    destruct (N.eqb b HEAD) eqn:Eb.
    + cbn [andb] in Hrw.
      destruct (forallb (fun s0 => forallb first_is_head (sh_repos s0)) filtered) eqn:Ef; cbn in Hrw; [|discriminate].
      injection Hrw as <-. cbn [simp_sh bcontrib]. rewrite Eb.
      pose proof (forallb_In _ _ _ s Ef Hs) as Hs'. cbn in Hs'.
      pose proof (forallb_In _ _ _ r Hs' Hr) as Hh. unfold first_is_head in Hh.
      apply N.eqb_eq in Eb. subst b. unfold in_branch.
      destruct (r_branches r) as [|b0 bs]; [discriminate|].
      apply N.eqb_eq in Hh. subst b0. unfold memN at 2. cbn [existsb]. rewrite N.eqb_refl. reflexivity.
    + cbn [andb] in Hrw. injection Hrw as <-. cbn [simp_sh bcontrib]. rewrite Eb. reflexivity.
Qed.

Lemma file_branches_select : forall shards cs sel cs' s r d,
  do_select true shards [] cs = (sel, cs') -> In s sel -> In r (sh_repos s) ->
  file_branches cs' s r d = file_branches cs s r d.
Proof.
  intros shards cs sel cs' s r d H Hs Hr.
  destruct (do_select_shape cs [] shards sel cs' H) as [E | (mid & c & c' & rest & p & E1 & E2 & Hc & Hrw & Hall)].
  - cbn in E. now subst cs'.
  - cbn [app] in E2. subst cs cs'. unfold file_branches.
    rewrite !flat_map_app. cbn [flat_map].
    rewrite (rewrite_bcontrib sel c p c' s r d Hc Hrw Hs Hr (Hall s Hs)). reflexivity.
Qed.

Lemma search_shard_br_none : forall cs s, pt_none no_tr cs s -> search_shard_br cs s = [].
Proof.
  intros cs s H. unfold search_shard_br.
  assert (forall l, (forall rd, In rd l -> In rd (sh_parts s)) ->
            flat_map (fun rd : repo * list doc => map (fun d => (d_id d, file_branches cs s (fst rd) d))
                                                     (filter (eval_top no_tr cs (fst rd)) (snd rd))) l = []) as G.
  { induction l as [|rd l IH]; intros Hl; cbn; [reflexivity|].
    rewrite (filter_none _ _ (snd rd)); [cbn; apply IH; intros; apply Hl; now right|].
    intros d Hd. apply (H rd d); [apply Hl; now left | exact Hd]. }
  apply G. auto.
Qed.

Lemma search_shard_br_eq : forall cs cs' s,
  pt_eq no_tr cs cs' s ->
  (forall r d, In r (sh_repos s) -> file_branches cs' s r d = file_branches cs s r d) ->
  search_shard_br cs' s = search_shard_br cs s.
Proof.
  intros cs cs' s H Hb. unfold search_shard_br.
  assert (forall l, (forall rd, In rd l -> In rd (sh_parts s)) ->
            flat_map (fun rd : repo * list doc => map (fun d => (d_id d, file_branches cs' s (fst rd) d))
                                                     (filter (eval_top no_tr cs' (fst rd)) (snd rd))) l =
            flat_map (fun rd : repo * list doc => map (fun d => (d_id d, file_branches cs s (fst rd) d))
                                                     (filter (eval_top no_tr cs (fst rd)) (snd rd))) l) as G.
  { induction l as [|rd l IH]; intros Hl; cbn; [reflexivity|].
    rewrite (filter_ext_In _ (eval_top no_tr cs' (fst rd)) (eval_top no_tr cs (fst rd)) (snd rd)).
    - f_equal; [|apply IH; intros; apply Hl; now right].
      apply map_ext. intros d. f_equal. apply Hb. unfold sh_repos. apply in_map. apply Hl. now left.
    - intros d Hd. apply (H rd d); [apply Hl; now left | exact Hd]. }
  apply G. auto.
Qed.

(** files AND their reported branches: the sharded answer is, shard by shard, the answer of every loaded shard
    to the original query *)
Lemma select_sound_br : forall shards cs,
  sharded_search_br shards cs = flat_map (search_shard_br cs) shards.
Proof.
  intros shards cs. unfold sharded_search_br, sharded_search_br_gen, select_gen.
  rewrite do_select_coded_eq.
  destruct (do_select true shards [] cs) as [sel cs'] eqn:E.
  destruct (do_select_spec no_tr cs [] shards sel cs' E) as (keep & Esel & Hd & Hk). cbn in Hd, Hk.
  rewrite Esel. apply flat_map_filter_eq.
  - intros s Hs Hkp. apply search_shard_br_none. now apply Hd.
  - intros s Hs Hkp. apply search_shard_br_eq; [now apply Hk|].
    intros r d Hr. apply (file_branches_select shards cs sel cs' s r d E); [|exact Hr].
    rewrite Esel. apply filter_In. auto.
Qed.

(** the files are the same as in the branch-less model *)
Lemma search_shard_br_files : forall cs s, map fst (search_shard_br cs s) = search_shard cs s.
Proof.
  intros cs s. unfold search_shard_br, search_shard.
  induction (sh_parts s) as [|rd l IH]; cbn; [reflexivity|].
  rewrite map_app, IH, map_map. reflexivity.
Qed.

(** reported branches are branches of the file (and of its repository), in the repository's order; when the
    query has no contributing branch atom they are all of them *)
Lemma file_branches_sub : forall cs s r d b,
  In b (file_branches cs s r d) -> In b (r_branches r) /\ memN b (d_branches d) = true.
Proof.
  intros cs s r d b H. unfold file_branches in H. apply filter_In in H. destruct H as [H1 H2].
  apply andb_prop in H2. tauto.
Qed.

Lemma file_branches_all : forall cs s r d,
  flat_map (fun c => bcontrib (simp_sh s c) r d) cs = [] ->
  file_branches cs s r d = filter (fun b => memN b (d_branches d)) (r_branches r).
Proof.
  intros cs s r d H. unfold file_branches. rewrite H. apply filter_ext_In. intros b _. apply andb_true_r.
Qed.

(** a top-level exact branch filter (or the single-entry BranchesRepos it came from) restricts the report to
    that branch *)
Lemma file_branches_exact : forall b s r d b',
  N.eqb b HEAD = false -> In b' (file_branches [QBranchExact b] s r d) -> in_branch r d b = true -> b' = b.
Proof.
  intros b s r d b' Hb H Hin. unfold file_branches in H. cbn [flat_map simp_sh bcontrib] in H.
  rewrite Hb, Hin in H. cbn [app] in H. apply filter_In in H. destruct H as [_ H].
  apply andb_prop in H. destruct H as [_ H]. unfold memN in H. cbn in H. rewrite orb_false_r in H.
  now apply N.eqb_eq in H.
Qed.
