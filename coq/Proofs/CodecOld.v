(** C26: the pre-fix stringSetDecode is not bounded and can panic (refutations on Model/CodecOld.v). *)
From ZV Require Import Lib.Base Model.Codec Model.CodecOld Proofs.CodecCost Proofs.CodecRT.
From Coq Require Import ZifyBool ZifyNat ZifyN.
Open Scope N_scope.

(** on an exhausted buffer every iteration reads a "zero" varint (n = 0 is not an error), costs one step and
    leaves the reader where it was *)
Lemma old_body_empty s : obuf s = [] -> opanic s = false ->
  obuf (old_body s) = [] /\ opanic (old_body s) = false /\ osteps (old_body s) = osteps s + 1 /\ oalloc (old_body s) = oalloc s.
Proof.
  intros Hb Hp. unfold old_body. rewrite Hp. unfold old_str, old_uvarint. rewrite Hb. cbn. rewrite Hp. cbn.
  repeat split; reflexivity.
Qed.

Lemma old_iter_empty : forall n s, obuf s = [] -> opanic s = false ->
  obuf (N.iter n old_body s) = [] /\ opanic (N.iter n old_body s) = false
  /\ osteps (N.iter n old_body s) = osteps s + n /\ oalloc (N.iter n old_body s) = oalloc s.
Proof.
  induction n as [|n IH] using N.peano_ind; intros s Hb Hp.
  - cbn. repeat split; try assumption. symmetry; apply N.add_0_r.
  - rewrite N.iter_succ. destruct (IH s Hb Hp) as (B & P & S & A).
    destruct (old_body_empty _ B P) as (B' & P' & S' & A'). repeat split; try assumption; [rewrite S', S; lia | rewrite A', A; reflexivity].
Qed.

Lemma to_int_lt63 k : k < 2 ^ 63 -> to_int k = Z.of_N k.
Proof.
  intros H. unfold to_int, two63. change (2 ^ 63) with 9223372036854775808 in H.
  replace (Z.of_N k <? 9223372036854775808)%Z with true by lia. reflexivity.
Qed.

Lemma old_dec_set_form k : k < 2 ^ 63 ->
  exists s2, old_dec_set (1 :: put_uvarint k) = N.iter k old_body s2
             /\ obuf s2 = [] /\ opanic s2 = false /\ osteps s2 = 2 /\ oalloc s2 = nlen (1 :: put_uvarint k) + k.
Proof.
  intros Hk. pose proof (put_len k) as L.
  unfold old_dec_set. cbn [N.eqb Pos.eqb negb].
  unfold old_uvarint at 1. cbn [obuf].
  assert (H64 : k < 2 ^ 64) by (change (2 ^ 63) with 9223372036854775808 in Hk; change (2 ^ 64) with 18446744073709551616; lia).
  pose proof (uvarint_put k [] H64) as U. rewrite app_nil_r in U. rewrite U.
  replace (Z.of_nat (length (put_uvarint k)) <? 0)%Z with false by lia.
  cbn [obuf oerr opanic osteps oalloc oset]. rewrite Nat2Z.id, skipn_all. rewrite to_int_lt63 by exact Hk. rewrite N2Z.id.
  eexists. split; [reflexivity|]. cbn. repeat split; reflexivity.
Qed.

(** the input [1] ++ PutUvarint k (at most 11 bytes) makes the old decoder take more than k steps and request k
    map slots, for every k < 2^63 *)
Lemma old_dec_set_unbounded k : k < 2 ^ 63 ->
  let b := 1 :: put_uvarint k in
  (length b <= 11)%nat /\ k < osteps (old_dec_set b) /\ k <= oalloc (old_dec_set b) /\ opanic (old_dec_set b) = false.
Proof.
  intros Hk b. pose proof (put_len k) as L. split; [unfold b; cbn [length]; lia|].
  destruct (old_dec_set_form k Hk) as (s2 & E & B & P & S & A). unfold b. rewrite E.
  destruct (old_iter_empty k s2 B P) as (B' & P' & S' & A'). rewrite S', A', P', S, A. repeat split; lia.
Qed.
