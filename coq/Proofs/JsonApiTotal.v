(** The JSON handlers never panic when Parse and the searcher do not. *)
From ZV Require Import Lib.Base Model.Query Model.JsonApi.
From Coq Require Import Lia.
Open Scope N_scope.

Definition nopanic {A} (x : outcome A) : Prop := match x with Panic _ => False | _ => True end.

Section J.
  Variable parseq : str -> outcome Q.
  Variable search : Q -> bool -> outcome N.
  Variable listq : Q -> outcome unit.
  Hypothesis Hparse : forall s, nopanic (parseq s).
  Hypothesis Hsearch : forall q b, nopanic (search q b).
  Hypothesis Hlist : forall q, nopanic (listq q).

  Lemma default_limits_nopanic q m s : nopanic (default_limits search q m s).
  Proof.
    unfold default_limits. destruct ((m =? 0) || negb (s =? 0)); [exact I|].
    pose proof (Hsearch q true) as H. destruct (search q true) as [n| |]; simpl; auto.
    destruct (N.ltb_spec 10000 n); [|exact I].
    destruct (N.eqb_spec (n / 1000) 0) as [E|E]; [|exact I].
    apply N.div_small_iff in E; lia.
  Qed.

  Theorem json_search_nopanic post dec : nopanic (json_search parseq search post dec).
  Proof.
    unfold json_search. destruct (negb post); [exact I|]. destruct dec as [a|]; [|exact I].
    destruct (is_nil (sa_q a)); [exact I|].
    pose proof (Hparse (sa_q a)) as Hp. destruct (parseq (sa_q a)) as [q| |]; simpl in *; auto.
    match goal with |- context[default_limits search ?q' ?m ?s] =>
      pose proof (default_limits_nopanic q' m s) as Hd; destruct (default_limits search q' m s); simpl in *; auto;
      pose proof (Hsearch q' false) as Hs; destruct (search q' false); simpl in *; auto end.
  Qed.

  Theorem json_list_nopanic post dec : nopanic (json_list parseq listq post dec).
  Proof.
    unfold json_list. destruct (negb post); [exact I|]. destruct dec as [a|]; [|exact I].
    pose proof (Hparse (la_q a)) as Hp. destruct (parseq (la_q a)) as [q| |]; simpl in *; auto.
    pose proof (Hlist q) as Hl. destruct (listq q); simpl in *; auto.
  Qed.
End J.
