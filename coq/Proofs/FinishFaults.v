(** C12 — prefixes of runs WITH failing operations: every crash prefix of every run of Builder.Finish under ANY combination
    of failing renames / removals / SetTombstone steps (Model/FinishOps.v).  Extends the fault-free prefix facts of
    Proofs/FinishOps.v ([no_partial_any], [never_missing_any]). *)
From ZV Require Import Lib.Base Model.FsOps Model.FinishOps Proofs.FinishOps.
From Coq Require Import Permutation.

(** a run with faults: phase W arbitrary (temp names only) but complete, the rename loop visits the artifacts in any
    order [ro], renames fail according to [rf], the delete loop visits what is then left in toDelete in any order [dl] *)
Record f_run (b : build) (w : list xop) (ro dl : list name) (rf : name -> bool) : Prop := {
  fr_w : forallb tmp_only w = true;
  fr_ready : tmps_ready b (apply_ops w (fs0 b));
  fr_ro : Permutation ro (artifacts b);
  fr_dl : Permutation dl (todel_after b ro rf) }.

Definition frun_ops (skip : bool) (b : build) (w : list xop) (ro dl : list name) (rf df : name -> bool) (tf : tfault) : list xop :=
  w ++ finish_ops_gen skip b ro dl rf df tf.
(** the directory after a kill that let exactly k operations happen *)
Definition fstate_at (skip : bool) (b : build) (w : list xop) (ro dl : list name) (rf df : name -> bool) (tf : tfault) (k : nat) : fs :=
  apply_ops (firstn k (frun_ops skip b w ro dl rf df tf)) (fs0 b).

Lemma ff_run_f_run b w ro dl : ff_run b w ro dl -> f_run b w ro dl nofault.
Proof. intros [H1 H2 H3 H4]. constructor; assumption. Qed.
Lemma frun_ops_ff skip b w ro dl : frun_ops skip b w ro dl nofault nofault TNone = run_ops b w ro dl.
Proof. unfold frun_ops, run_ops. rewrite finish_ops_gen_ff, finish_ops_ff. reflexivity. Qed.

(** ---- the rename loop with failing renames: a failed rename has no effect *)
Definition okr (rf : name -> bool) (a : name) : bool := negb (rf a).

Lemma rename_ops_faults l rf : forall f,
  apply_ops (rename_ops l rf) f = apply_ops (rename_ops (filter (okr rf) l) nofault) f.
Proof.
  induction l as [|a l IH]; intro f; [reflexivity|].
  cbn [rename_ops map filter]. unfold okr at 1. destruct (rf a) eqn:Ea; cbn [negb].
  - rewrite apply_ops_cons. cbn [apply_op]. apply IH.
  - cbn [rename_ops map]. rewrite !apply_ops_cons. cbn [nofault negb]. apply IH.
Qed.

Lemma firstn_rename_ops k l rf : firstn k (rename_ops l rf) = rename_ops (firstn k l) rf.
Proof. unfold rename_ops. apply firstn_map. Qed.
Lemma rename_ops_length l rf : length (rename_ops l rf) = length l.
Proof. unfold rename_ops. apply map_length. Qed.

Lemma In_filter_firstn (p : name -> bool) a k l : In a (filter p (firstn k l)) -> In a l /\ 0 < k.
Proof.
  intro H. apply filter_In in H. destruct H as [H _]. split; [eapply In_firstn; exact H|].
  destruct k; [cbn in H; contradiction | lia].
Qed.

(** closed form of every prefix of  w ++ rename loop  under any rename faults *)
Lemma rename_prefix_faults b w ro rf k x :
  forallb tmp_only w = true -> tmps_ready b (apply_ops w (fs0 b)) ->
  NoDup ro -> (forall a, In a ro -> In a (artifacts b)) -> is_tmp x = false ->
  apply_ops (firstn k (w ++ rename_ops ro rf)) (fs0 b) x =
    if memname x (filter (okr rf) (firstn (k - length w) ro)) then Some (Data GNew) else fs0 b x.
Proof.
  intros Hw Hrdy Hnd Hsub Hx.
  rewrite firstn_app, firstn_rename_ops, apply_ops_app, rename_ops_faults.
  assert (Hag : agree_nontmp (apply_ops (firstn k w) (fs0 b)) (fs0 b)).
  { apply apply_tmp_only; [apply forallb_firstn; exact Hw | apply agree_refl]. }
  rewrite rename_phase.
  - rewrite (Hag x Hx). reflexivity.
  - apply NoDup_filter. apply NoDup_firstn'. exact Hnd.
  - intros a Ha. apply In_filter_firstn in Ha. destruct Ha as [Ha _]. eapply artifacts_nontmp. apply Hsub. exact Ha.
  - intros a Ha. apply In_filter_firstn in Ha. destruct Ha as [Ha Hpos].
    rewrite firstn_all2 by lia. apply Hrdy. apply Hsub. exact Ha.
  - exact Hx.
Qed.

(** ---- the toDelete loop with failing steps: whatever fails and wherever it is cut, the loop only removes names it
    visits and (SetTombstone, complete) puts the finished sidecar of the compound shard in place *)
Definition del_rel (dl : list name) (f g : fs) : Prop :=
  forall x, is_tmp x = false ->
    g x = f x \/ (g x = None /\ In x dl) \/ (x = Meta SComp /\ g x = Some (Data GNew) /\ In (Shard SComp) dl).

Lemma del_rel_refl dl f : del_rel dl f f.
Proof. intros x _. left. reflexivity. Qed.
Lemma del_rel_trans dl f g h : del_rel dl f g -> del_rel dl g h -> del_rel dl f h.
Proof.
  intros H1 H2 x Hx. destruct (H2 x Hx) as [E|[E|E]]; [|right; left; exact E | right; right; exact E].
  rewrite E. apply H1. exact Hx.
Qed.
Lemma del_rel_mono dl dl' f g : (forall x, In x dl -> In x dl') -> del_rel dl f g -> del_rel dl' f g.
Proof.
  intros Hsub H x Hx. destruct (H x Hx) as [E|[[E Hin]|(E1 & E2 & Hin)]]; [left; exact E | right; left | right; right]; auto.
Qed.

Lemma tomb_prefix_rel tf j f : del_rel [Shard SComp] f (apply_ops (firstn j (fst (tomb_ops tf))) f).
Proof.
  intros x Hx.
  assert (Hne : x <> TmpMeta SComp) by (intro E; subst; discriminate).
  destruct tf; cbn [tomb_ops fst].
  - (* TNone *)
    destruct j as [|[|[|j]]]; cbn [firstn apply_ops fold_left apply_op].
    + left. reflexivity.
    + left. apply upd_other. exact Hne.
    + left. rewrite upd_same. rewrite upd_other by exact Hne. apply upd_other. exact Hne.
    + rewrite firstn_nil. cbn [fold_left]. repeat (rewrite upd_same; cbv iota).
      destruct (name_eqb x (Meta SComp)) eqn:E.
      * apply name_eqb_eq in E. subst x. right. right. split; [reflexivity|]. split; [apply upd_same | left; reflexivity].
      * apply name_eqb_neq in E. left. rewrite upd_other by exact E. rewrite !upd_other by exact Hne. reflexivity.
  - (* TCreate *)
    destruct j as [|j]; cbn [firstn apply_ops fold_left apply_op]; [|rewrite firstn_nil; cbn [fold_left]]; left; reflexivity.
  - (* TWrite *)
    left. destruct j as [|[|[|j]]]; cbn [firstn apply_ops fold_left apply_op]; try rewrite firstn_nil; cbn [fold_left];
      rewrite ?upd_other by exact Hne; reflexivity.
  - (* TRename *)
    left. destruct j as [|[|[|[|j]]]]; cbn [firstn apply_ops fold_left apply_op]; try rewrite firstn_nil; cbn [fold_left];
      repeat (rewrite upd_same; cbv iota); rewrite ?upd_other by exact Hne; reflexivity.
Qed.

Lemma del_step_prefix_rel b df tf p j f : del_rel [p] f (apply_ops (firstn j (fst (del_step b df tf p))) f).
Proof.
  unfold del_step. destruct (b_merging b && is_comp_name p).
  - destruct (name_eqb p (Shard SComp)) eqn:E.
    + apply name_eqb_eq in E. subst p. apply tomb_prefix_rel.
    + cbn [fst]. rewrite firstn_nil. apply del_rel_refl.
  - cbn [fst]. destruct j as [|j]; [apply del_rel_refl|]. cbn [firstn]. rewrite firstn_nil.
    destruct (df p); cbn [negb apply_ops fold_left apply_op]; [apply del_rel_refl|].
    intros x Hx. destruct (name_eqb x p) eqn:E.
    + apply name_eqb_eq in E. subst x. right. left. split; [apply upd_same | left; reflexivity].
    + apply name_eqb_neq in E. left. apply upd_other. exact E.
Qed.

Lemma delete_prefix_rel b df tf : forall dl j f, del_rel dl f (apply_ops (firstn j (delete_ops b dl df tf)) f).
Proof.
  induction dl as [|p dl IH]; intros j f.
  - unfold delete_ops. cbn [flat_map]. rewrite firstn_nil. apply del_rel_refl.
  - unfold delete_ops. cbn [flat_map]. fold (delete_ops b dl df tf).
    rewrite firstn_app, apply_ops_app.
    eapply del_rel_trans.
    + eapply del_rel_mono; [|apply del_step_prefix_rel]. intros x [<-|[]]. left. reflexivity.
    + eapply del_rel_mono; [|apply IH]. intros x Hin. right. exact Hin.
Qed.

(** ---- every prefix of every run: split at the end of the rename loop *)
Lemma firstn_app_le {A} (l m : list A) k : k <= length l -> firstn k (l ++ m) = firstn k l.
Proof. intro H. rewrite firstn_app. replace (k - length l) with 0 by lia. cbn [firstn]. apply app_nil_r. Qed.
Lemma firstn_app_ge {A} (l m : list A) k : length l <= k -> firstn k (l ++ m) = l ++ firstn (k - length l) m.
Proof. intro H. rewrite firstn_app. rewrite firstn_all2 by exact H. reflexivity. Qed.

Definition tail_ops (skip : bool) (b : build) (ro dl : list name) (rf df : name -> bool) (tf : tfault) : list xop :=
  if skip && existsb rf ro then [] else delete_ops b dl df tf.

(** the state at k is: a prefix state of  w ++ rename loop, followed by a prefix of the (possibly skipped) delete loop,
    which is empty unless the rename loop is complete *)
Lemma fstate_split skip b w ro dl rf df tf k :
  exists j, (j = 0 \/ length w + length ro <= k) /\
  fstate_at skip b w ro dl rf df tf k =
    apply_ops (firstn j (tail_ops skip b ro dl rf df tf)) (apply_ops (firstn k (w ++ rename_ops ro rf)) (fs0 b)).
Proof.
  unfold fstate_at, frun_ops, finish_ops_gen. fold (tail_ops skip b ro dl rf df tf).
  rewrite app_assoc.
  destruct (le_lt_dec (length (w ++ rename_ops ro rf)) k) as [Hk|Hk].
  - exists (k - length (w ++ rename_ops ro rf)). split.
    + right. rewrite app_length, rename_ops_length in Hk. exact Hk.
    + rewrite firstn_app_ge by exact Hk. rewrite apply_ops_app. rewrite (firstn_all2 (w ++ rename_ops ro rf)) by exact Hk. reflexivity.
  - exists 0. split; [left; reflexivity|]. rewrite firstn_app_le by lia. reflexivity.
Qed.

Lemma tail_prefix_rel skip b ro dl rf df tf j f :
  del_rel (if skip && existsb rf ro then [] else dl) f (apply_ops (firstn j (tail_ops skip b ro dl rf df tf)) f).
Proof.
  unfold tail_ops. destruct (skip && existsb rf ro); [rewrite firstn_nil; apply del_rel_refl | apply delete_prefix_rel].
Qed.

Lemma f_run_NoDup b w ro dl rf : f_run b w ro dl rf -> NoDup ro.
Proof. intro H. eapply Permutation_NoDup; [apply Permutation_sym; apply (fr_ro _ _ _ _ _ H) | apply artifacts_NoDup]. Qed.
Lemma f_run_sub b w ro dl rf : f_run b w ro dl rf -> forall a, In a ro -> In a (artifacts b).
Proof. intros H a Ha. eapply Permutation_in; [apply (fr_ro _ _ _ _ _ H) | exact Ha]. Qed.

(** (A) no partially written file under a name the loader reads — every build, every order, EVERY fault combination,
    every crash prefix; with or without the skip of the delete loop *)
Lemma no_partial_faults skip b w ro dl rf df tf k x :
  f_run b w ro dl rf -> is_tmp x = false -> fstate_at skip b w ro dl rf df tf k x <> Some Partial.
Proof.
  intros H Hx. destruct (fstate_split skip b w ro dl rf df tf k) as (j & _ & E). rewrite E.
  assert (Hr : apply_ops (firstn k (w ++ rename_ops ro rf)) (fs0 b) x <> Some Partial).
  { rewrite (rename_prefix_faults b w ro rf k x); try assumption.
    - destruct (memname x _); [discriminate | apply fs0_not_partial].
    - apply (fr_w _ _ _ _ _ H).
    - apply (fr_ready _ _ _ _ _ H).
    - eapply f_run_NoDup; exact H.
    - eapply f_run_sub; exact H. }
  destruct (tail_prefix_rel skip b ro dl rf df tf j (apply_ops (firstn k (w ++ rename_ops ro rf)) (fs0 b)) x Hx)
    as [E2|[[E2 _]|(_ & E2 & _)]]; rewrite E2; [exact Hr | discriminate | discriminate].
Qed.

(** (B) with the skip (current code) the repository is never missing *)
Lemma filter_all_true {A} (p : A -> bool) l : (forall a, In a l -> p a = true) -> filter p l = l.
Proof.
  induction l as [|a l IH]; intro H; [reflexivity|]. cbn. rewrite (H a (or_introl eq_refl)). f_equal.
  apply IH. intros y Hy. apply H. right. exact Hy.
Qed.

Lemma never_missing_faults b w ro dl rf df tf k :
  build_wf b -> f_run b w ro dl rf -> (0 < b_nold b \/ b_comp b = true) ->
  served (fstate_at true b w ro dl rf df tf k).
Proof.
  intros [Hwf1 Hwf2] H Hold.
  destruct (fstate_split true b w ro dl rf df tf k) as (j & Hj & E). rewrite E. clear E.
  set (g := apply_ops (firstn k (w ++ rename_ops ro rf)) (fs0 b)).
  assert (Hg : forall x, is_tmp x = false ->
             g x = if memname x (filter (okr rf) (firstn (k - length w) ro)) then Some (Data GNew) else fs0 b x).
  { intros x Hx. unfold g. apply rename_prefix_faults; try assumption.
    - apply (fr_w _ _ _ _ _ H).
    - apply (fr_ready _ _ _ _ _ H).
    - eapply f_run_NoDup; exact H.
    - eapply f_run_sub; exact H. }
  assert (Hcomp : forall x, is_comp_name x = true -> g x = fs0 b x).
  { intros x Hx. rewrite Hg by (destruct x as [[|?]|[|?]|?|?]; (reflexivity || discriminate)).
    assert (En : memname x (filter (okr rf) (firstn (k - length w) ro)) = false); [|rewrite En; reflexivity].
    apply memname_false. intro Hin. apply In_filter_firstn in Hin. destruct Hin as [Hin _].
    apply (f_run_sub _ _ _ _ _ H) in Hin. revert Hin. apply in_artifacts_comp. exact Hx. }
  (* the state before any deletion serves the repository *)
  assert (Hserved_g : served g).
  { unfold served. destruct Hold as [Hold|Hold].
    - left. rewrite Hg by reflexivity. destruct (memname _ _); [discriminate|].
      cbn [fs0]. destruct (Nat.ltb_spec 0 (b_nold b)); [discriminate | lia].
    - right. rewrite !Hcomp by reflexivity. cbn [fs0]. rewrite Hold. split; [discriminate|].
      destruct (true && b_compmeta b); discriminate. }
  pose proof (tail_prefix_rel true b ro dl rf df tf j g) as Hrel. cbn [andb] in Hrel.
  destruct (existsb rf ro) eqn:Hrf.
  { (* a rename failed: nothing is deleted *)
    assert (Hsame : forall x, is_tmp x = false -> apply_ops (firstn j (tail_ops true b ro dl rf df tf)) g x = g x).
    { intros x Hx. destruct (Hrel x Hx) as [E|[[_ []]|(_ & _ & [])]]. exact E. }
    unfold served. rewrite !Hsame by reflexivity. exact Hserved_g. }
  destruct Hj as [Hj|Hj].
  { subst j. cbn [firstn apply_ops fold_left]. exact Hserved_g. }
  (* every rename succeeded and the rename loop is complete *)
  pose proof (fr_dl _ _ _ _ _ H) as Hdl. rewrite (todel_after_no_fault b ro rf Hrf) in Hdl.
  assert (Hall : filter (okr rf) (firstn (k - length w) ro) = ro).
  { rewrite firstn_all2 by lia. apply filter_all_true. intros a Ha. unfold okr.
    rewrite (existsb_false_forall _ _ Hrf a Ha). reflexivity. }
  assert (Hnotdl : ~ In (Shard (SReg 0)) dl).
  { intro Hin. apply (Permutation_in _ Hdl) in Hin. apply in_todel_after in Hin. destruct Hin as [Hin0 Hnin].
    unfold todel0 in Hin0. destruct (b_delta b) eqn:Hd; [contradiction|].
    apply Hnin. apply (Permutation_in _ (Permutation_sym (fr_ro _ _ _ _ _ H))).
    apply in_artifacts_shard. unfold first_new. rewrite Hd. specialize (Hwf1 eq_refl). lia. }
  assert (Hg0 : g (Shard (SReg 0)) <> None).
  { rewrite Hg by reflexivity. rewrite Hall. destruct (memname (Shard (SReg 0)) ro) eqn:Em; [discriminate|].
    destruct (b_delta b) eqn:Hd.
    - specialize (Hwf2 eq_refl). cbn [fs0]. destruct (Nat.ltb_spec 0 (b_nold b)); [discriminate | lia].
    - exfalso. apply memname_false in Em. apply Em.
      apply (Permutation_in _ (Permutation_sym (fr_ro _ _ _ _ _ H))).
      apply in_artifacts_shard. unfold first_new. rewrite Hd. specialize (Hwf1 eq_refl). lia. }
  left.
  destruct (Hrel (Shard (SReg 0)) eq_refl) as [E|[[_ Hin]|(E & _)]]; [rewrite E; exact Hg0 | contradiction | discriminate].
Qed.

(** ---- Would a different treatment of a stale sidecar shrink the delete-loop window?  (props/C12/NOTES.md, task 2)
    Variant A ("sidecars first"): the stale ".meta" of every name that is about to be overwritten is removed BEFORE the
    rename loop.  Variant B ("fresh sidecars"): a fresh sidecar for every new shard is part of the artifact set.
    Both are programs over the same tiny file system; neither is what /repo does. *)
Definition is_meta_of_artifact (ro : list name) (x : name) : bool :=
  match x with Meta s => memname (Shard s) ro | _ => false end.
Definition variant_a_ops (b : build) (w : list xop) (ro dl : list name) : list xop :=
  w ++ remove_ops (filter (is_meta_of_artifact ro) dl) ++ rename_ops ro nofault ++
       remove_ops (filter (fun x => negb (is_meta_of_artifact ro x)) dl).
Definition variant_b_ops (b : build) (w : list xop) (ro : list name) (dl : list name) : list xop :=
  w ++ flat_map (fun a => match a with Shard s => write_meta s | _ => [] end) ro ++
       rename_ops (flat_map (fun a => match a with Shard s => [a; Meta s] | _ => [a] end) ro) nofault ++
       remove_ops (filter (fun x => negb (is_meta_of_artifact ro x)) dl).
