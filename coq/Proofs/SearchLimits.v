(** C21: limits and cancellation only remove whole files. *)
From ZV Require Import Lib.Base Model.SearchCore Model.SearchLimits Proofs.SearchCoreText Proofs.SearchCoreTree
  Proofs.SearchCoreLoop Proofs.SearchCoreSelect Proofs.SearchCoreBuild Proofs.SearchCoreSimp Proofs.SearchCoreTop.
From Coq Require Import Sorting.Sorted ZifyBool.

(** subsequence *)
Inductive subseq {A : Type} : list A -> list A -> Prop :=
| ss_nil : forall l, subseq [] l
| ss_take : forall x l1 l2, subseq l1 l2 -> subseq (x :: l1) (x :: l2)
| ss_skip : forall x l1 l2, subseq l1 l2 -> subseq l1 (x :: l2).

Lemma subseq_inc : forall r L, inc r -> inc L -> (forall x, In x r -> In x L) -> subseq r L.
Proof.
  intros r L. revert r. induction L as [|y L IH]; intros r Hr HL Hsub.
  - destruct r as [|x r]; [constructor|]. destruct (Hsub x (or_introl eq_refl)).
  - destruct r as [|x r]; [constructor|].
    inversion HL as [|? ? HLs HLf]; subst. inversion Hr as [|? ? Hrs Hrf]; subst. rewrite Forall_forall in HLf, Hrf.
    destruct (Nat.eq_dec x y) as [->|Hne].
    + apply ss_take. apply IH; auto. intros z Hz. destruct (Hsub z (or_intror Hz)) as [E|Hin]; [|auto].
      subst. specialize (Hrf _ Hz). lia.
    + apply ss_skip. apply IH; auto. intros z Hz. destruct (Hsub z Hz) as [E|Hin]; [|auto]. subst.
      destruct Hz as [E|Hz]; [congruence|]. specialize (Hrf _ Hz).
      destruct (Hsub x (or_introl eq_refl)) as [E|Hin]; [congruence|]. specialize (HLf _ Hin). lia.
Qed.

Lemma first_from_ext : forall p p' i m, (forall k, p k = p' k) -> first_from p i m = first_from p' i m.
Proof.
  intros p p' i m H. unfold first_from. assert (E : forall l, find p l = find p' l).
  { induction l as [|x l IH]; simpl; [reflexivity|]. rewrite H. destruct (p' x); auto. }
  rewrite E. reflexivity.
Qed.

Section Limits.
Variable re_match : N -> list N -> bool.
Variable tolower : N -> N.
Variable orbit : N -> list N.
Variable c : corpus.
Hypothesis Hagree : agree tolower orbit.
Variable weight : nat -> list (list nat) -> nat.
Notation n := (ndocs c).
Notation sem := (sem re_match tolower c).
Notation tvalid := (tvalid tolower orbit c).
Notation lloop := (lloop re_match tolower c weight).

(* ------------------------------------------------------------------ the file payload does not depend on the history *)
Fixpoint spec_payload (k : nat) (t : mt) : list (list nat) :=
  match t with
  | MTand cs => flat_map (spec_payload k) cs
  | MTor cs => flat_map (spec_payload k) cs
  | MTandLine cs => flat_map (spec_payload k) cs
  | MTnot c' => spec_payload k c'
  | MTwrap c' => spec_payload k c'
  | MTsubstr s => [occ_offsets tolower (sl_cs s) (sl_pat s) (text_of c (sl_fn s) k)]
  | _ => []
  end.
Lemma flat_map_map_ext : forall (A B C : Type) (f : B -> list C) (g : A -> B) (h : A -> list C) l,
  (forall x, In x l -> f (g x) = h x) -> flat_map f (map g l) = flat_map h l.
Proof. induction l as [|x l IH]; simpl; intro H; [reflexivity|]. rewrite H by auto. rewrite IH by auto. reflexivity. Qed.

Lemma spec_payload_prepare : forall j k t, spec_payload k (prepare c j t) = spec_payload k t.
Proof.
  intros j k. induction t using mt_ind'; simpl; auto;
    try (apply flat_map_map_ext; rewrite Forall_forall in H; auto).
  destruct (sleaf_prepare_static c j s) as [-> [-> [-> _]]]. reflexivity.
Qed.

Theorem payload_spec : forall last k t, lt_last last k -> k < n -> tvalid last t ->
  payload tolower c k (prepare c k t) = spec_payload k t.
Proof.
  intros last k t Hl Hk. induction t using mt_ind'; intro Hv; simpl; auto.
  - simpl in Hv. apply tvalid_list in Hv. rewrite Forall_forall in H, Hv. apply flat_map_map_ext. auto.
  - simpl in Hv. apply tvalid_list in Hv. rewrite Forall_forall in H, Hv. apply flat_map_map_ext. auto.
  - simpl in Hv. apply tvalid_list in Hv. rewrite Forall_forall in H, Hv. apply flat_map_map_ext. auto.
  - simpl in Hv. destruct (leaf_run re_match tolower orbit c Hagree last k s Hl Hk Hv) as [_ [Hver _]]. rewrite Hver. reflexivity.
Qed.

(** states reachable from the tree built for the query by any sequence of prepare calls *)
Inductive reach (t0 : mt) : mt -> Prop :=
| reach_0 : reach t0 t0
| reach_S : forall t j, reach t0 t -> reach t0 (prepare c j t).
Lemma reach_spec_payload : forall t0 t k, reach t0 t -> spec_payload k t = spec_payload k t0.
Proof. intros t0 t k H. induction H; [reflexivity|]. rewrite spec_payload_prepare. exact IHreach. Qed.

(** Whatever documents were visited before (whatever the limits, counters and cancellation made the loop skip), the
    candidates the FileMatch of document k is built from are the same. *)
Theorem file_payload_independent : forall t0 t1 t2 last1 last2 k,
  reach t0 t1 -> reach t0 t2 -> tvalid last1 t1 -> tvalid last2 t2 -> lt_last last1 k -> lt_last last2 k -> k < n ->
  payload tolower c k (prepare c k t1) = payload tolower c k (prepare c k t2).
Proof.
  intros t0 t1 t2 last1 last2 k R1 R2 V1 V2 L1 L2 Hk.
  rewrite (payload_spec last1 k t1 L1 Hk V1), (payload_spec last2 k t2 L2 Hk V2).
  rewrite (reach_spec_payload t0 t1 k R1), (reach_spec_payload t0 t2 k R2). reflexivity.
Qed.

(* ------------------------------------------------------------------ the limited loop *)
(** every file returned under limits / cancellation is a live document behind [last] on which the tree holds; in order *)
Theorem lloop_sound : forall fuel lim ca t st,
  tvalid (ls_last st) t -> cursor_next (ls_last st) <= n ->
  inc (lloop fuel lim ca t st) /\
  forall k, In k (lloop fuel lim ca t st) ->
    cursor_next (ls_last st) <= k /\ k < n /\ live_at c k = true /\ sem k t = true.
Proof.
  induction fuel as [|f IH]; intros lim ca t st Hv Hs; [simpl; split; [constructor | intros k []]|].
  simpl.
  set (nd1 := Nat.max (nextDoc c t) (cursor_next (ls_last st))).
  set (pr := fun k => live_at c k && negb (repo_skip c lim st k)).
  set (nd := first_from pr nd1 n).
  destruct (n <=? nd) eqn:End; [split; [constructor | intros k []]|].
  assert (Hnd : nd < n) by lia.
  assert (Hnd1 : nd1 <= n).
  { destruct (le_lt_dec nd1 n); [auto|]. unfold nd, first_from in Hnd. replace (n - nd1) with 0 in Hnd by lia. simpl in Hnd. lia. }
  destruct (first_from_spec pr nd1 n Hnd1) as [Hr1 [Hr2 _]]. fold nd in Hr1, Hr2.
  assert (Hs0 : cursor_next (ls_last st) <= nd) by (unfold nd1 in Hr1; lia).
  destruct (canceled ca (ls_iter st) || _) eqn:Estop; [split; [constructor | intros k []]|].
  pose proof (lt_last_ge (ls_last st) nd Hs0) as Hll.
  destruct (prepare_run re_match tolower orbit c Hagree (ls_last st) nd t Hll Hnd Hv) as [Hv' _].
  destruct (accept_sem re_match tolower orbit c Hagree (ls_last st) nd t Hll Hnd Hv) as [Hacc _].
  assert (Hlive : live_at c nd = true).
  { specialize (Hr2 Hnd). unfold pr in Hr2. apply andb_true_iff in Hr2. tauto. }
  rewrite Hacc.
  destruct (sem nd t) eqn:Esem.
  - match goal with |- context [lloop f lim ca (prepare c nd t) ?st'] => destruct (IH lim ca (prepare c nd t) st' Hv' ltac:(simpl; lia)) as [I1 I2] end.
    simpl ls_last in I2. simpl cursor_next in I2. split.
    + constructor; [exact I1|]. apply Forall_forall. intros k Hk. apply I2 in Hk. lia.
    + intros k [<-|Hk]; [repeat split; auto; lia|]. destruct (I2 k Hk) as [A [B [C D]]]. rewrite sem_prepare in D. repeat split; auto; lia.
  - match goal with |- context [lloop f lim ca (prepare c nd t) ?st'] => destruct (IH lim ca (prepare c nd t) st' Hv' ltac:(simpl; lia)) as [I1 I2] end.
    simpl ls_last in I2. simpl cursor_next in I2. split; [exact I1|].
    intros k Hk. destruct (I2 k Hk) as [A [B [C D]]]. rewrite sem_prepare in D. repeat split; auto; lia.
Qed.

(** ... hence a subsequence of what the unlimited loop returns from the same state *)
Theorem lloop_subseq : forall fuel fuel' lim ca t st,
  tvalid (ls_last st) t -> cursor_next (ls_last st) <= n -> n - cursor_next (ls_last st) < fuel' ->
  subseq (lloop fuel lim ca t st) (loop re_match tolower c fuel' t (ls_last st)).
Proof.
  intros fuel fuel' lim ca t st Hv Hs Hf.
  rewrite (loop_exact re_match tolower orbit c Hagree fuel' t (ls_last st) Hv Hs Hf).
  destruct (lloop_sound fuel lim ca t st Hv Hs) as [H1 H2].
  apply subseq_inc; [exact H1 | apply inc_filter; apply inc_seq|].
  intros k Hk. destruct (H2 k Hk) as [A [B [C D]]]. apply filter_In. split; [apply in_seq; lia|]. rewrite C, D. reflexivity.
Qed.

(** without the per-repository limit (cancellation and / or ShardMaxMatchCount only) the result is a prefix; the loop
    stops at the first iteration that observes the cancellation *)
Theorem lloop_prefix : forall fuel lim ca t st, repo_max lim = 0 ->
  exists rest, loop re_match tolower c fuel t (ls_last st) = lloop fuel lim ca t st ++ rest.
Proof.
  induction fuel as [|f IH]; intros lim ca t st Hr; [exists []; reflexivity|].
  simpl.
  assert (Hpr : forall k, live_at c k = live_at c k && negb (repo_skip c lim st k)).
  { intro k. unfold repo_skip. rewrite Hr. simpl. rewrite andb_true_r. reflexivity. }
  rewrite <- (first_from_ext _ _ (Nat.max (nextDoc c t) (cursor_next (ls_last st))) n Hpr).
  set (nd := first_from (live_at c) (Nat.max (nextDoc c t) (cursor_next (ls_last st))) n).
  destruct (n <=? nd); [exists []; reflexivity|].
  destruct (canceled ca (ls_iter st) || _); [eexists; reflexivity|].
  destruct (accept re_match tolower c nd (prepare c nd t)).
  - match goal with |- context [lloop f lim ca (prepare c nd t) ?st'] => destruct (IH lim ca (prepare c nd t) st' Hr) as [rest Hrest] end.
    simpl ls_last in Hrest. exists rest. simpl. rewrite Hrest. reflexivity.
  - match goal with |- context [lloop f lim ca (prepare c nd t) ?st'] => destruct (IH lim ca (prepare c nd t) st' Hr) as [rest Hrest] end.
    simpl ls_last in Hrest. exists rest. exact Hrest.
Qed.

(** no limit set and never cancelled: the limited loop is the loop of C01 *)
Theorem lloop_unlimited : forall fuel lim t st, shard_max lim = 0 -> repo_max lim = 0 ->
  lloop fuel lim None t st = loop re_match tolower c fuel t (ls_last st).
Proof.
  induction fuel as [|f IH]; intros lim t st Hs Hr; [reflexivity|].
  simpl.
  assert (Hpr : forall k, live_at c k = live_at c k && negb (repo_skip c lim st k)).
  { intro k. unfold repo_skip. rewrite Hr. simpl. rewrite andb_true_r. reflexivity. }
  rewrite <- (first_from_ext _ _ (Nat.max (nextDoc c t) (cursor_next (ls_last st))) n Hpr).
  destruct (n <=? _); [reflexivity|]. rewrite Hs. simpl.
  destruct (accept re_match tolower c _ _); rewrite IH by auto; reflexivity.
Qed.
End Limits.

(* ------------------------------------------------------------------ at the level of indexData.Search *)
Section SearchLevel.
Variable re_match : N -> list N -> bool.
Variable tolower : N -> N.
Variable orbit : N -> list N.
Variable c : corpus.
Variable freq : bool -> bool -> tri -> N.
Hypothesis Hagree : agree tolower orbit.
Hypothesis Hfreq : forall fn cs g, freq fn cs g = 0%N -> post orbit (ix_tris c fn) cs g = [].
Variable weight : nat -> list (list nat) -> nat.
Notation tvalid := (tvalid tolower orbit c).

(** the tree built for any query starts in a valid iterator state (no obligation on the regexp engine is needed here) *)
Lemma build_valid : forall q, buildable q -> tvalid None (build orbit c freq q) /\ shape_ok (build orbit c freq q).
Proof.
  induction q using Q_ind'; intro Hb.
  - simpl in Hb. apply (proj1 (buildable_list _)) in Hb. rewrite Forall_forall in H, Hb. simpl. split.
    + apply (tvalid_and tolower orbit c). apply Forall_forall. intros t Ht. apply in_map_iff in Ht. destruct Ht as [x [<- Hx]]. apply H; auto.
    + apply shape_ok_and. apply Forall_forall. intros t Ht. apply in_map_iff in Ht. destruct Ht as [x [<- Hx]]. apply H; auto.
  - simpl in Hb. apply (proj1 (buildable_list _)) in Hb. rewrite Forall_forall in H, Hb. simpl. split.
    + apply (tvalid_or tolower orbit c). apply Forall_forall. intros t Ht. apply in_map_iff in Ht. destruct Ht as [x [<- Hx]]. apply H; auto.
    + apply shape_ok_or. apply Forall_forall. intros t Ht. apply in_map_iff in Ht. destruct Ht as [x [<- Hx]]. apply H; auto.
  - simpl in *. auto. - simpl in *. auto. - simpl in *. auto. - simpl in *. auto.
  - destruct q; try contradiction; simpl build; try (split; [reflexivity | exact I]).
    + destruct (new_substr_spec re_match tolower orbit c freq Hagree Hfreq p cs fn) as [A [B _]]. split; [auto | apply line_shape_ok; auto].
    + pose proof (distill_spec re_match tolower orbit c freq Hagree Hfreq cs fn r) as Hd.
      destruct (distill orbit c freq cs fn r) as [[sub isEq] sl]. simpl in Hd. destruct Hd as [D1 [D2 _]].
      destruct isEq; [auto|]. split.
      * apply (tvalid_and tolower orbit c). repeat constructor; auto. destruct (word_of r topfold cs); reflexivity.
      * apply shape_ok_and. repeat constructor; auto. destruct (word_of r topfold cs); exact I.
    + destruct b; simpl; auto.
    + destruct (lang_code c name); simpl; auto.
    + (* Symbol{Regexp} (added to Model/SearchCore.v by the C01 deepening): a scan leaf in every case *)
      destruct (distill orbit c freq cs false r) as [[sub isEq] sl]. destruct isEq; [destruct sub|]; split; try reflexivity; exact I.
Qed.

Lemma search_limited_unfold : forall lim ca q, search_limited re_match tolower orbit c freq weight lim ca q =
  match simp c q with
  | QConst false => []
  | _ => match prune (build orbit c freq (expand (simp c q))) with
         | None => []
         | Some t => lloop re_match tolower c weight (S (ndocs c)) lim ca t lstate0
         end
  end.
Proof. intros. unfold search_limited. destruct (simp c q); try reflexivity. destruct b; reflexivity. Qed.

Lemma pruned_valid : forall q, match prune (build orbit c freq (expand (simp c q))) with Some t => tvalid None t | None => True end.
Proof.
  intro q. destruct (build_valid (expand (simp c q)) (expand_buildable (simp c q) (simp_nb c q))) as [B1 B2].
  pose proof (prune_spec re_match tolower orbit c _ B1 B2) as Hp. unfold prune_ok in Hp.
  destruct (prune (build orbit c freq (expand (simp c q)))); [tauto | exact I].
Qed.

(** C21, limits: for every corpus, query, limit setting, weight function and cancellation point, the files returned
    under the limits form a subsequence of the files returned without them *)
Theorem search_limited_subseq : forall lim ca q,
  subseq (search_limited re_match tolower orbit c freq weight lim ca q) (search re_match tolower orbit c freq q).
Proof.
  intros lim ca q. rewrite search_limited_unfold. rewrite (search_unfold re_match tolower orbit c freq q). unfold search_body.
  pose proof (pruned_valid q) as Hv.
  destruct (simp c q); try (destruct (prune _) as [t|]; [|constructor];
    apply (lloop_subseq re_match tolower orbit c Hagree weight (S (ndocs c)) (S (ndocs c)) lim ca t lstate0 Hv); simpl; lia).
  destruct b; [|constructor]. destruct (prune _) as [t|]; [|constructor].
  apply (lloop_subseq re_match tolower orbit c Hagree weight (S (ndocs c)) (S (ndocs c)) lim ca t lstate0 Hv); simpl; lia.
Qed.

(** C21, cancellation / shard limit: without the per-repository limit the result is a prefix of the unlimited result *)
Theorem search_limited_prefix : forall lim ca q, repo_max lim = 0 ->
  exists rest, search re_match tolower orbit c freq q = search_limited re_match tolower orbit c freq weight lim ca q ++ rest.
Proof.
  intros lim ca q Hr. rewrite search_limited_unfold. rewrite (search_unfold re_match tolower orbit c freq q). unfold search_body.
  destruct (simp c q); try (destruct (prune _) as [t|]; [|exists []; reflexivity];
    apply (lloop_prefix re_match tolower c weight (S (ndocs c)) lim ca t lstate0 Hr)).
  destruct b; [|exists []; reflexivity]. destruct (prune _) as [t|]; [|exists []; reflexivity].
  apply (lloop_prefix re_match tolower c weight (S (ndocs c)) lim ca t lstate0 Hr).
Qed.

Theorem search_limited_unlimited : forall lim q, shard_max lim = 0 -> repo_max lim = 0 ->
  search_limited re_match tolower orbit c freq weight lim None q = search re_match tolower orbit c freq q.
Proof.
  intros lim q Hs Hr. rewrite search_limited_unfold. rewrite (search_unfold re_match tolower orbit c freq q). unfold search_body.
  destruct (simp c q); try (destruct (prune _) as [t|]; [|reflexivity];
    apply (lloop_unlimited re_match tolower c weight (S (ndocs c)) lim t lstate0 Hs Hr)).
  destruct b; [|reflexivity]. destruct (prune _) as [t|]; [|reflexivity].
  apply (lloop_unlimited re_match tolower c weight (S (ndocs c)) lim t lstate0 Hs Hr).
Qed.
End SearchLevel.

(** C21, total limit: the stream hands on whole shard results only: a prefix of the arrival sequence *)
Theorem total_stream_whole : forall (A : Type) limit inflight (rs : list (nat * list A)) total left,
  exists j, total_stream A limit inflight total left rs = firstn j (map snd rs).
Proof.
  induction rs as [|[cnt files] rs IH]; intros total left; [exists 0; reflexivity|].
  simpl. destruct left as [[|m]|].
  - exists 0. reflexivity.
  - destruct (IH (total + cnt) (Some m)) as [j Hj]. exists (S j). simpl. rewrite Hj. reflexivity.
  - destruct (IH (total + cnt) (if (0 <? limit) && (limit <? total + cnt) then Some inflight else None)) as [j Hj].
    exists (S j). simpl. rewrite Hj. reflexivity.
Qed.

(* ------------------------------------------------------------------ the per-repository limit keeps every repository *)
Section RepoLimit.
Variable re_match : N -> list N -> bool.
Variable tolower : N -> N.
Variable orbit : N -> list N.
Variable c : corpus.
Hypothesis Hagree : agree tolower orbit.
Variable weight : nat -> list (list nat) -> nat.
Notation n := (ndocs c).
Notation sem := (sem re_match tolower c).
Notation tvalid := (tvalid tolower orbit c).
Notation lloop := (lloop re_match tolower c weight).

(** With only ShardRepoMaxMatchCount set (what indexData.List does, with the value 1): for every live matching document
    behind [last], a file of ITS repository is returned -- unless the repository's quota was already used up before. *)
Theorem lloop_keeps_repos : forall fuel lim t st,
  shard_max lim = 0 -> 0 < repo_max lim ->
  tvalid (ls_last st) t -> cursor_next (ls_last st) <= n -> n - cursor_next (ls_last st) < fuel ->
  forall k, cursor_next (ls_last st) <= k -> k < n -> live_at c k = true -> sem k t = true ->
  (exists k', In k' (lloop fuel lim None t st) /\ repo_idx c k' = repo_idx c k) \/
  (repo_idx c k = ls_repo st /\ repo_max lim <= ls_rcount st).
Proof.
  induction fuel as [|f IH]; intros lim t st Hs Hr Hv Hc Hf k Hk1 Hk2 Hlive Hsem; [lia|].
  simpl.
  set (nd1 := Nat.max (nextDoc c t) (cursor_next (ls_last st))).
  set (pr := fun k => live_at c k && negb (repo_skip c lim st k)).
  set (nd := first_from pr nd1 n).
  assert (Hnd1k : nd1 <= k).
  { unfold nd1. apply Nat.max_lub; [|exact Hk1].
    apply (nextDoc_lower_bound re_match tolower orbit c Hagree (ls_last st) k t (lt_last_ge _ _ Hk1) Hk2 Hv Hsem). }
  assert (Hnd1 : nd1 <= n) by lia.
  destruct (first_from_spec pr nd1 n Hnd1) as [Hr1 [Hr2 Hr3]]. fold nd in Hr1, Hr2, Hr3.
  destruct (le_lt_dec nd k) as [Hndk|Hknd].
  2:{ (* k was skipped by the scan: only the repository quota can be the reason *)
      right. specialize (Hr3 k ltac:(lia)). unfold pr in Hr3. rewrite Hlive in Hr3. simpl in Hr3.
      apply negb_false_iff in Hr3. unfold repo_skip in Hr3. rewrite !andb_true_iff in Hr3. destruct Hr3 as [[_ H2] H3]. lia. }
  assert (Hnd : nd < n) by lia.
  destruct (n <=? nd) eqn:End; [lia|].
  rewrite Hs. simpl.
  pose proof (lt_last_ge (ls_last st) nd ltac:(unfold nd1 in Hr1; lia)) as Hll.
  destruct (prepare_run re_match tolower orbit c Hagree (ls_last st) nd t Hll Hnd Hv) as [Hv' _].
  destruct (accept_sem re_match tolower orbit c Hagree (ls_last st) nd t Hll Hnd Hv) as [Hacc _].
  rewrite Hacc.
  destruct (Nat.eq_dec k nd) as [->|Hne].
  - rewrite Hsem. left. exists nd. split; [left; reflexivity | reflexivity].
  - assert (Hk' : S nd <= k) by lia.
    destruct (sem nd t) eqn:Esem.
    + match goal with |- context [lloop f lim None (prepare c nd t) ?st'] =>
        destruct (IH lim (prepare c nd t) st' Hs Hr Hv' ltac:(simpl; lia) ltac:(simpl; lia) k ltac:(simpl; lia) Hk2 Hlive ltac:(rewrite sem_prepare; exact Hsem)) as [[k' [Hin He]]|[He _]]
      end.
      * left. exists k'. split; [right; exact Hin | exact He].
      * left. exists nd. split; [left; reflexivity|]. simpl in He. destruct (repo_idx c nd =? ls_repo st) eqn:E; [apply Nat.eqb_eq in E; congruence | congruence].
    + match goal with |- context [lloop f lim None (prepare c nd t) ?st'] =>
        destruct (IH lim (prepare c nd t) st' Hs Hr Hv' ltac:(simpl; lia) ltac:(simpl; lia) k ltac:(simpl; lia) Hk2 Hlive ltac:(rewrite sem_prepare; exact Hsem)) as [[k' [Hin He]]|[He Hq]]
      end.
      * left. exists k'. split; [exact Hin | exact He].
      * right. simpl in He, Hq. destruct (repo_idx c nd =? ls_repo st) eqn:E; [apply Nat.eqb_eq in E; split; [congruence | exact Hq] | lia].
Qed.
End RepoLimit.

Section RepoLimitSearch.
Variable re_match : N -> list N -> bool.
Variable tolower : N -> N.
Variable orbit : N -> list N.
Variable c : corpus.
Variable freq : bool -> bool -> tri -> N.
Hypothesis Hagree : agree tolower orbit.
Hypothesis Hfreq : forall fn cs g, freq fn cs g = 0%N -> post orbit (ix_tris c fn) cs g = [].
Variable weight : nat -> list (list nat) -> nat.

(** indexData.List searches with ShardRepoMaxMatchCount = 1: every repository that has a file in the unlimited result
    keeps at least one file *)
Theorem search_repo_limit_keeps_repos : forall lim q, shard_max lim = 0 -> 0 < repo_max lim ->
  forall k, In k (search re_match tolower orbit c freq q) ->
  exists k', In k' (search_limited re_match tolower orbit c freq weight lim None q) /\ repo_idx c k' = repo_idx c k.
Proof.
  intros lim q Hs Hr k Hk. rewrite search_limited_unfold. rewrite (search_unfold re_match tolower orbit c freq q) in Hk. unfold search_body in Hk.
  pose proof (pruned_valid re_match tolower orbit c freq Hagree Hfreq q) as Hv.
  assert (G : forall t, tvalid tolower orbit c None t -> In k (loop re_match tolower c (S (ndocs c)) t None) ->
              exists k', In k' (lloop re_match tolower c weight (S (ndocs c)) lim None t lstate0) /\ repo_idx c k' = repo_idx c k).
  { intros t Ht Hin. rewrite (loop_exact re_match tolower orbit c Hagree (S (ndocs c)) t None Ht ltac:(simpl; lia) ltac:(simpl; lia)) in Hin.
    apply filter_In in Hin. destruct Hin as [Hseq Hp]. apply in_seq in Hseq. simpl in Hseq. apply andb_true_iff in Hp. destruct Hp as [Hl Hsem].
    destruct (lloop_keeps_repos re_match tolower orbit c Hagree weight (S (ndocs c)) lim t lstate0 Hs Hr Ht ltac:(simpl; lia) ltac:(simpl; lia)
                k ltac:(simpl; lia) ltac:(lia) Hl Hsem) as [H|[_ H]]; [exact H | simpl in H; lia]. }
  destruct (simp c q); try (destruct (prune _) as [t|]; [apply (G t Hv Hk) | destruct Hk]).
  destruct b; [|destruct Hk]. destruct (prune _) as [t|]; [apply (G t Hv Hk) | destruct Hk].
Qed.
End RepoLimitSearch.
