(** C01: top-level theorem with the regexp engine characterised by the regexp semantics [rm]. *)
From ZV Require Import Lib.Base Model.SearchCore Proofs.SearchCoreText Proofs.SearchCoreBuild Proofs.SearchCoreSimp
  Proofs.SearchCoreTop Proofs.SearchCoreDistill.

Theorem search_exact_engine :
  forall (re_match : N -> list N -> bool) (tolower : N -> N) (orbit : N -> list N) (c : corpus)
         (freq : bool -> bool -> tri -> N) (q : Q),
  agree tolower orbit ->
  (forall fn cs g, freq fn cs g = 0%N -> post orbit (ix_tris c fn) cs g = []) ->
  (forall x, tolower x = tolower 10%N -> x = 10%N) ->
  engine_ok re_match tolower orbit c freq (expand (simp c q)) ->
  search re_match tolower orbit c freq q = spec_search re_match tolower c q.
Proof.
  intros re_match tolower orbit c freq q Hag Hf Hnl He.
  apply (search_exact re_match tolower orbit c freq Hag Hf).
  apply (engine_ok_re_ok re_match tolower orbit c freq Hag Hf Hnl). exact He.
Qed.
