(** C36 — proofs about the template functions (Model/WebFuncs.v): no registered function panics for any argument bytes
    (limits being non-negative, as at every call site of the generated table), functional spec of LimitPre / LimitPost. *)
From Coq Require Import String ZifyBool ZifyNat ZifyN.
From ZV Require Import Lib.Base Model.Web Model.WebFuncs.
Local Open Scope Z_scope.

(* ------------------------------------------------------------------ slicing *)
Lemma sslice_ok : forall s lo hi, 0 <= lo -> lo <= hi -> hi <= blen s ->
  sslice s lo hi = Ok (slice s (Z.to_nat lo) (Z.to_nat hi)).
Proof.
  intros s lo hi H0 H1 H2. unfold sslice.
  destruct ((lo <? 0) || (hi <? lo) || (blen s <? hi)) eqn:E; [lia | reflexivity].
Qed.

Lemma sslice_panic : forall s lo hi, (lo < 0 \/ hi < lo \/ blen s < hi) -> sslice s lo hi = Panic 1.
Proof.
  intros s lo hi H. unfold sslice.
  destruct ((lo <? 0) || (hi <? lo) || (blen s <? hi)) eqn:E; [reflexivity | lia].
Qed.

Lemma slice_suffix : forall (s : bytes) k, (k <= length s)%nat -> slice s k (length s) = skipn k s.
Proof.
  intros s k Hk. unfold slice. apply firstn_all2. rewrite skipn_length. lia.
Qed.

Lemma slice_prefix : forall (s : bytes) k, slice s 0 k = firstn k s.
Proof. intros s k. unfold slice. simpl. now rewrite Nat.sub_0_r. Qed.

(* ------------------------------------------------------------------ LimitPre / LimitPost *)
(** functional spec: the input is returned as it is when shorter than the limit; otherwise the result is the framing
    "...(N bytes skipped)..." followed by the SUFFIX of exactly [limit] bytes, N being the number of bytes dropped *)
Lemma limit_pre_spec : forall limit pre, 0 <= limit ->
  exists r, f_limit_pre limit pre = Ok r /\
    ((blen pre < limit /\ r = pre) \/
     (limit <= blen pre /\ exists skip suf, pre = skip ++ suf /\ blen suf = limit /\ r = skipped (blen skip) ++ suf)).
Proof.
  intros limit pre Hl. unfold f_limit_pre.
  destruct (blen pre <? limit) eqn:E.
  - exists pre. split; [reflexivity | left; split; [lia | reflexivity]].
  - assert (Hn : limit <= blen pre) by lia.
    rewrite sslice_ok by lia. cbn [obind].
    eexists. split; [reflexivity | right; split; [exact Hn |]].
    set (k := Z.to_nat (blen pre - limit)).
    assert (Hk : (k <= length pre)%nat) by (unfold k, blen in *; lia).
    exists (firstn k pre), (skipn k pre).
    assert (Hlen : Z.to_nat (blen pre) = length pre) by (unfold blen; lia).
    rewrite Hlen, slice_suffix by exact Hk.
    split; [symmetry; apply firstn_skipn |].
    split.
    + unfold blen in *. rewrite skipn_length. unfold k. lia.
    + f_equal. f_equal. unfold blen in *. rewrite firstn_length. unfold k. lia.
Qed.

Lemma limit_post_spec : forall limit post, 0 <= limit ->
  exists r, f_limit_post limit post = Ok r /\
    ((blen post < limit /\ r = post) \/
     (limit <= blen post /\ exists p rest, post = p ++ rest /\ blen p = limit /\ r = p ++ skipped (blen rest))).
Proof.
  intros limit post Hl. unfold f_limit_post.
  destruct (blen post <? limit) eqn:E.
  - exists post. split; [reflexivity | left; split; [lia | reflexivity]].
  - assert (Hn : limit <= blen post) by lia.
    rewrite sslice_ok by lia. cbn [obind].
    eexists. split; [reflexivity | right; split; [exact Hn |]].
    set (k := Z.to_nat limit).
    exists (firstn k post), (skipn k post).
    change (Z.to_nat 0) with 0%nat. rewrite slice_prefix.
    split; [symmetry; apply firstn_skipn |].
    split.
    + unfold blen in *. rewrite firstn_length. unfold k. lia.
    + f_equal. f_equal. unfold blen in *. rewrite skipn_length. unfold k. lia.
Qed.

(** the limit IS a precondition: with a negative limit both functions panic, for every string *)
Lemma limit_pre_panics_iff : forall limit pre, is_panic (f_limit_pre limit pre) = true <-> limit < 0.
Proof.
  intros limit pre. split.
  - intro H. destruct (Z.ltb_spec limit 0) as [Hneg | Hpos]; [exact Hneg |].
    destruct (limit_pre_spec limit pre Hpos) as [r [Hr _]]. rewrite Hr in H. discriminate.
  - intro Hneg. unfold f_limit_pre.
    assert (Hb : 0 <= blen pre) by (unfold blen; lia).
    destruct (blen pre <? limit) eqn:E; [lia |].
    rewrite sslice_panic by lia. reflexivity.
Qed.

Lemma limit_post_panics_iff : forall limit post, is_panic (f_limit_post limit post) = true <-> limit < 0.
Proof.
  intros limit post. split.
  - intro H. destruct (Z.ltb_spec limit 0) as [Hneg | Hpos]; [exact Hneg |].
    destruct (limit_post_spec limit post Hpos) as [r [Hr _]]. rewrite Hr in H. discriminate.
  - intro Hneg. unfold f_limit_post.
    assert (Hb : 0 <= blen post) by (unfold blen; lia).
    destruct (blen post <? limit) eqn:E; [lia |].
    rewrite sslice_panic by lia. reflexivity.
Qed.

(** the result never holds more than [limit] bytes of the input *)
Lemma limit_pre_length : forall limit pre r, 0 <= limit -> f_limit_pre limit pre = Ok r ->
  blen r <= limit + blen (skipped (blen pre - limit)) /\ (blen pre < limit -> r = pre).
Proof.
  intros limit pre r Hl Hr.
  destruct (limit_pre_spec limit pre Hl) as [r' [Hr' Hcase]].
  rewrite Hr in Hr'. injection Hr' as <-.
  destruct Hcase as [[Hlt ->] | [Hge [skip [suf [Hpre [Hsuf ->]]]]]].
  - split; [unfold blen in *; lia | reflexivity].
  - split; [| lia].
    assert (Hs : blen skip = blen pre - limit).
    { subst pre. unfold blen in *. rewrite app_length. lia. }
    rewrite Hs. unfold blen in *. rewrite app_length. lia.
Qed.

(* ------------------------------------------------------------------ integers *)
Lemma wrap64_range : forall z, in_int64 (wrap64 z) = true.
Proof.
  intro z. unfold in_int64, wrap64, int64_min, int64_max.
  pose proof (Z.mod_pos_bound (z + 2 ^ 63) (2 ^ 64) ltac:(lia)) as H.
  lia.
Qed.

Lemma wrap64_id : forall z, in_int64 z = true -> wrap64 z = z.
Proof.
  intros z H. unfold in_int64, wrap64, int64_min, int64_max in *.
  rewrite Z.mod_small by lia. lia.
Qed.

(* ------------------------------------------------------------------ the registry *)
Local Open Scope string_scope.

Definition func_names : list string :=
  ["Inc"; "More"; "AddLineNumbers"; "HumanUnit"; "LimitPre"; "LimitPost"; "TrimTrailingNewline"].

Lemma func_sig_names : forall name sg, func_sig name = Some sg -> In name func_names.
Proof.
  intros name sg H. unfold func_sig in H. unfold func_names.
  destruct (String.eqb name "Inc") eqn:E1; [apply String.eqb_eq in E1; subst name; simpl; tauto |].
  destruct (String.eqb name "More") eqn:E2; [apply String.eqb_eq in E2; subst name; simpl; tauto |].
  destruct (String.eqb name "AddLineNumbers") eqn:E3; [apply String.eqb_eq in E3; subst name; simpl; tauto |].
  destruct (String.eqb name "HumanUnit") eqn:E4; [apply String.eqb_eq in E4; subst name; simpl; tauto |].
  destruct (String.eqb name "LimitPre") eqn:E5; [apply String.eqb_eq in E5; subst name; simpl; tauto |].
  destruct (String.eqb name "LimitPost") eqn:E6; [apply String.eqb_eq in E6; subst name; simpl; tauto |].
  destruct (String.eqb name "TrimTrailingNewline") eqn:E7; [apply String.eqb_eq in E7; subst name; simpl; tauto |].
  discriminate.
Qed.

Ltac bad_args H := cbn [well_typed has_type andb] in H; rewrite ?andb_false_r in H; try discriminate H.

(** [funcs_total]: a registered function called with arguments of its parameter kinds — ANY strings, ANY 64-bit integers,
    limits non-negative — returns a value of its result kind: no panic, for every argument. *)
Lemma funcs_total : forall name args, args_ok name args = true ->
  exists tys r v, func_sig name = Some (tys, r) /\ apply_func name args = Some (Ok v) /\ has_type v r = true.
Proof.
  intros name args H. unfold args_ok in H.
  destruct (func_sig name) as [[tys r] |] eqn:Hs; [| discriminate].
  exists tys, r.
  pose proof (func_sig_names _ _ Hs) as Hin. unfold func_names in Hin. simpl in Hin.
  apply andb_true_iff in H. destruct H as [Hwt Hlim].
  repeat (destruct Hin as [<- | Hin]); try contradiction;
    cbv [func_sig String.eqb Ascii.eqb Bool.eqb] in Hs; injection Hs as <- <-;
    cbv [has_limit String.eqb Ascii.eqb Bool.eqb orb] in Hlim.
  - (* Inc *)
    destruct args as [| [z | | |] [| ? ?]]; bad_args Hwt.
    eexists. split; [reflexivity |]. split; [reflexivity | apply wrap64_range].
  - (* More *)
    destruct args as [| [z | | |] [| ? ?]]; bad_args Hwt.
    eexists. split; [reflexivity |]. split; [reflexivity | apply wrap64_range].
  - (* AddLineNumbers *)
    destruct args as [| [| s | |] [| [z | | |] [| [| | b |] [| ? ?]]]]; bad_args Hwt.
    eexists. split; [reflexivity |]. split; reflexivity.
  - (* HumanUnit *)
    destruct args as [| [z | | |] [| ? ?]]; bad_args Hwt.
    eexists. split; [reflexivity |]. split; reflexivity.
  - (* LimitPre *)
    destruct args as [| [l | | |] [| [| s | |] [| ? ?]]]; bad_args Hwt; try discriminate.
    destruct (limit_pre_spec l s ltac:(lia)) as [res [Hres _]].
    exists (VStr res). split; [reflexivity |]. split; [| reflexivity].
    cbv [apply_func String.eqb Ascii.eqb Bool.eqb]. rewrite Hres. reflexivity.
  - (* LimitPost *)
    destruct args as [| [l | | |] [| [| s | |] [| ? ?]]]; bad_args Hwt; try discriminate.
    destruct (limit_post_spec l s ltac:(lia)) as [res [Hres _]].
    exists (VStr res). split; [reflexivity |]. split; [| reflexivity].
    cbv [apply_func String.eqb Ascii.eqb Bool.eqb]. rewrite Hres. reflexivity.
  - (* TrimTrailingNewline *)
    destruct args as [| [| s | |] [| ? ?]]; bad_args Hwt.
    eexists. split; [reflexivity |]. split; reflexivity.
Qed.

(* ------------------------------------------------------------------ call sites *)
Lemma site_args_ok : forall s vs tys r, site_ok s = true -> func_sig (fs_func s) = Some (tys, r) ->
  inst (fs_args s) vs = true -> well_typed vs tys = true -> args_ok (fs_func s) vs = true.
Proof.
  intros s vs tys r Hs Hsig Hinst Hwt. unfold site_ok in Hs. unfold args_ok. rewrite Hsig in *.
  apply andb_true_iff in Hs. destruct Hs as [_ Hlim].
  rewrite Hwt. cbn [andb].
  destruct (has_limit (fs_func s)); [| reflexivity].
  destruct (fs_args s) as [| [l | | |] rest]; try discriminate.
  destruct vs as [| [l' | | |] vs']; cbn [inst inst1 andb] in Hinst; try discriminate.
  apply andb_true_iff in Hinst. destruct Hinst as [Heq _].
  apply Z.eqb_eq in Heq. subst l'. exact Hlim.
Qed.

(** every call site that passes the static check [site_ok] — the function has a model, literal arguments have the
    parameter's kind, a limit is a literal >= 0 — returns a value for ALL values of its data arguments *)
Lemma sites_total : forall s, site_ok s = true -> forall vs tys r, func_sig (fs_func s) = Some (tys, r) ->
  inst (fs_args s) vs = true -> well_typed vs tys = true ->
  exists v, apply_func (fs_func s) vs = Some (Ok v) /\ has_type v r = true.
Proof.
  intros s Hs vs tys r Hsig Hinst Hwt.
  destruct (funcs_total _ _ (site_args_ok s vs tys r Hs Hsig Hinst Hwt)) as [tys' [r' [v [Hsig' [Happ Hty]]]]].
  rewrite Hsig in Hsig'. injection Hsig' as <- <-.
  exists v. split; assumption.
Qed.

(** witnesses used by Props/C36.v *)
Definition cont_run (n : nat) : bytes := repeat 128%N n.
Lemma limit_pre_cont_run :
  f_limit_pre 100 (cont_run 100 ++ str "needle")%list = Ok (skipped 6 ++ skipn 6 (cont_run 100 ++ str "needle"))%list.
Proof. vm_compute. reflexivity. Qed.
