(** C22: incremental rank+truncate (collectSender.Send after every chunk) against the batch reference,
    for DOCUMENT limits only (MaxDocDisplayCount > 0, MaxMatchDisplayCount <= 0).

    - [collect_doclimit_inert]: with pairwise distinct scores, whenever the novel-extension promotion
      cannot change the first D files of any ranking of the files at hand ([boost_inert]), ranking and
      truncating after every chunk returns exactly the batch result.  Proof: insertion into a ranked list
      commutes with truncation ([firstn_ins_desc]); with distinct scores the ranking does not depend on the
      order of arrival ([sort_desc_perm]) and re-ranking a ranked prefix changes nothing ([sort_desc_fixed]).
    - instances: D <= 2 (the promotion starts at the third place) and results whose files all have the same
      extension.
    - the statement without the inertness hypothesis is false (Props/C22.v,
      C22_incremental_equals_batch_doclimit_refuted). *)
From ZV Require Import Lib.Base Model.Truncate Proofs.Truncate.
From Coq Require Import ZifyBool ZifyNat ZifyN Sorting.Permutation.

(** ** insertion commutes with truncation (ties included) *)
Lemma firstn_firstn_pred {A} d (l : list A) : firstn d (firstn (S d) l) = firstn d l.
Proof. rewrite firstn_firstn. f_equal. lia. Qed.

Lemma firstn_ins_desc D x l : firstn D (ins_desc x l) = firstn D (ins_desc x (firstn D l)).
Proof.
  revert D; induction l as [|y r IH]; intros D.
  - now rewrite firstn_nil.
  - destruct D as [|d]; [reflexivity|]. simpl.
    destruct (f_score y <? f_score x)%Z eqn:E.
    + change (firstn (S d) (x :: y :: r) = firstn (S d) (x :: y :: firstn d r)).
      rewrite !firstn_cons. f_equal. destruct d as [|d']; [reflexivity|].
      rewrite !firstn_cons. f_equal. symmetry. apply firstn_firstn_pred.
    + simpl. f_equal. apply IH.
Qed.

Lemma firstn_fold_ins D S b :
  firstn D (fold_right ins_desc S b) = firstn D (fold_right ins_desc (firstn D S) b).
Proof.
  induction b as [|x b IH]; simpl.
  - now rewrite firstn_firstn, Nat.min_id.
  - rewrite firstn_ins_desc, IH, <- firstn_ins_desc. reflexivity.
Qed.

(** ** with distinct scores the ranking is independent of the arrival order *)
Lemma ins_desc_comm x y l :
  f_score x <> f_score y -> ins_desc x (ins_desc y l) = ins_desc y (ins_desc x l).
Proof.
  intros Hne. induction l as [|s r IH]; simpl.
  - destruct (Z.ltb_spec (f_score y) (f_score x)), (Z.ltb_spec (f_score x) (f_score y)); try lia; reflexivity.
  - destruct (Z.ltb_spec (f_score s) (f_score x)) as [Hx|Hx], (Z.ltb_spec (f_score s) (f_score y)) as [Hy|Hy]; simpl.
    + destruct (Z.ltb_spec (f_score y) (f_score x)), (Z.ltb_spec (f_score x) (f_score y)); try lia; simpl.
      * destruct (Z.ltb_spec (f_score s) (f_score y)); [reflexivity|lia].
      * destruct (Z.ltb_spec (f_score s) (f_score x)); [reflexivity|lia].
    + destruct (Z.ltb_spec (f_score x) (f_score y)); [lia|].
      destruct (Z.ltb_spec (f_score s) (f_score x)); [|lia]. simpl.
      destruct (Z.ltb_spec (f_score s) (f_score y)); [lia|reflexivity].
    + destruct (Z.ltb_spec (f_score y) (f_score x)); [lia|].
      destruct (Z.ltb_spec (f_score s) (f_score y)); [|lia]. simpl.
      destruct (Z.ltb_spec (f_score s) (f_score x)); [lia|reflexivity].
    + destruct (Z.ltb_spec (f_score s) (f_score x)); [lia|].
      destruct (Z.ltb_spec (f_score s) (f_score y)); [lia|]. now rewrite IH.
Qed.

Definition distinct_scores (l : list file) : Prop := NoDup (map f_score l).

Lemma distinct_perm l l' : Permutation l l' -> distinct_scores l -> distinct_scores l'.
Proof. unfold distinct_scores. intros P. apply Permutation_NoDup. now apply Permutation_map. Qed.

Lemma sort_desc_perm l l' : Permutation l l' -> distinct_scores l -> sort_desc l = sort_desc l'.
Proof.
  induction 1 as [|x l l' P IH|x y l|l l' l'' P1 IH1 P2 IH2]; intros ND.
  - reflexivity.
  - simpl. rewrite IH; [reflexivity|]. unfold distinct_scores in *. simpl in ND. now inversion ND.
  - simpl. apply ins_desc_comm. unfold distinct_scores in ND. simpl in ND.
    inversion ND as [|? ? Hin _]; subst. intros E. apply Hin. left. symmetry. exact E.
  - rewrite IH1 by exact ND. apply IH2. eapply distinct_perm; eauto.
Qed.

Lemma ins_desc_perm x l : Permutation (ins_desc x l) (x :: l).
Proof.
  induction l as [|y r IH]; simpl; [reflexivity|].
  destruct (f_score y <? f_score x)%Z; [reflexivity|].
  rewrite IH. apply perm_swap.
Qed.

Lemma sort_desc_is_perm l : Permutation (sort_desc l) l.
Proof.
  induction l as [|x l IH]; simpl; [reflexivity|].
  rewrite ins_desc_perm. now constructor.
Qed.

(** ** a strictly decreasing list is its own ranking *)
Inductive sdesc : list file -> Prop :=
| sd_nil : sdesc []
| sd_one : forall x, sdesc [x]
| sd_cons : forall x y l, (f_score y < f_score x)%Z -> sdesc (y :: l) -> sdesc (x :: y :: l).

Lemma sdesc_tail x l : sdesc (x :: l) -> sdesc l.
Proof. inversion 1; subst; [constructor | assumption]. Qed.

Lemma sort_desc_fixed l : sdesc l -> sort_desc l = l.
Proof.
  induction l as [|x l IH]; intros H; [reflexivity|].
  simpl. rewrite IH by (eapply sdesc_tail; eauto).
  inversion H as [| |? y r Hlt Hs]; subst; simpl; [reflexivity|].
  destruct (Z.ltb_spec (f_score y) (f_score x)); [reflexivity|lia].
Qed.

Lemma ins_desc_sdesc x l :
  sdesc l -> ~ In (f_score x) (map f_score l) -> sdesc (ins_desc x l).
Proof.
  induction l as [|y r IH]; intros Hs Hn; simpl; [constructor|].
  destruct (Z.ltb_spec (f_score y) (f_score x)) as [Hlt|Hge].
  - constructor; assumption.
  - assert (Hne : f_score y <> f_score x) by (intros E; apply Hn; left; exact E).
    assert (Hr : sdesc (ins_desc x r)).
    { apply IH; [eapply sdesc_tail; eauto | intros Hin; apply Hn; right; exact Hin]. }
    destruct r as [|z r']; simpl in *.
    + constructor; [lia|constructor].
    + inversion Hs as [| |? ? ? Hzy Hs']; subst.
      destruct (f_score z <? f_score x)%Z; constructor; try assumption; lia.
Qed.

Lemma sort_desc_sdesc l : distinct_scores l -> sdesc (sort_desc l).
Proof.
  unfold distinct_scores. induction l as [|x l IH]; simpl; intros ND; [constructor|].
  inversion ND as [|? ? Hin ND']; subst. apply ins_desc_sdesc; [auto|].
  intros H. apply Hin. eapply Permutation_in; [|exact H]. apply Permutation_map, sort_desc_is_perm.
Qed.

Lemma sdesc_firstn D l : sdesc l -> sdesc (firstn D l).
Proof.
  revert D; induction l as [|x l IH]; intros D H; [now rewrite firstn_nil|].
  destruct D as [|d]; [constructor|]. simpl.
  inversion H as [| |? y r Hlt Hs]; subst.
  - rewrite firstn_nil. constructor.
  - specialize (IH d Hs). destruct d as [|d']; simpl in *; constructor; assumption.
Qed.

(** ** one incremental step = the batch step *)
Lemma nodup_drop_middle {A} (a m c : list A) : NoDup (a ++ m ++ c) -> NoDup (a ++ c).
Proof.
  induction a as [|x a IH]; simpl; intros H.
  - induction m as [|y m IHm]; simpl in *; [assumption|]. inversion H; auto.
  - inversion H as [|? ? Hin ND]; subst. constructor; [|auto].
    intros Hx. apply Hin. apply in_app_or in Hx as [Hx|Hx]; apply in_or_app; [left|right; apply in_or_app; right]; assumption.
Qed.

Lemma distinct_app_l a b : distinct_scores (a ++ b) -> distinct_scores a.
Proof.
  unfold distinct_scores. rewrite map_app. intros H.
  rewrite <- (app_nil_r (map f_score a)). apply (nodup_drop_middle _ (map f_score b) []). now rewrite app_nil_r.
Qed.

Lemma distinct_firstn_app D S b : distinct_scores (S ++ b) -> distinct_scores (firstn D S ++ b).
Proof.
  unfold distinct_scores. rewrite <- (firstn_skipn D S) at 1.
  rewrite <- app_assoc, !map_app. apply nodup_drop_middle.
Qed.

Lemma top_step D P b :
  distinct_scores (P ++ b) ->
  firstn D (sort_desc (firstn D (sort_desc P) ++ b)) = firstn D (sort_desc (P ++ b)).
Proof.
  intros ND.
  assert (NDP : distinct_scores P).
  { eapply distinct_app_l; eauto. }
  assert (NDS : distinct_scores (sort_desc P ++ b)).
  { eapply distinct_perm; [|exact ND]. apply Permutation_app_tail. symmetry. apply sort_desc_is_perm. }
  set (T := firstn D (sort_desc P)).
  assert (NDT : distinct_scores (T ++ b)) by (apply distinct_firstn_app; exact NDS).
  rewrite (sort_desc_perm (T ++ b) (b ++ T)) by (auto; apply Permutation_app_comm).
  rewrite (sort_desc_perm (P ++ b) (b ++ P)) by (auto; apply Permutation_app_comm).
  assert (F : forall a c, sort_desc (a ++ c) = fold_right ins_desc (sort_desc c) a).
  { intros a c. unfold sort_desc. apply fold_right_app. }
  rewrite !F.
  rewrite (sort_desc_fixed T) by (apply sdesc_firstn, sort_desc_sdesc; exact NDP).
  symmetry. apply firstn_fold_ins.
Qed.

Lemma firstn_In' {A} n (l : list A) x : In x (firstn n l) -> In x l.
Proof. intros H. rewrite <- (firstn_skipn n l). apply in_or_app. now left. Qed.

(** ** the collecting path under a document limit only *)
Definition doc_only (o : topts) : Prop := doc_limited o = true /\ match_limited o = false.

Lemma truncate_doc_only o l : doc_only o -> truncate o l = Ok (firstn (Z.to_nat (o_doc o)) l).
Proof. intros [D M]. rewrite truncate_unfold, M. unfold dlimit. now rewrite D. Qed.

(** the promotion does not change the first D files of the ranking of any sub-multiset of [all] *)
Definition boost_inert (D : nat) (all : list file) : Prop :=
  forall l, incl l all -> firstn D (boost l) = firstn D l.

Lemma collect_sends_doc_only o P bs :
  doc_only o -> distinct_scores (P ++ concat bs) ->
  boost_inert (Z.to_nat (o_doc o)) (P ++ concat bs) ->
  collect_sends o (firstn (Z.to_nat (o_doc o)) (sort_desc P)) bs =
  Ok (firstn (Z.to_nat (o_doc o)) (sort_desc (P ++ concat bs))).
Proof.
  intros DO. revert P. induction bs as [|b r IH]; intros P ND BI; simpl.
  - now rewrite app_nil_r.
  - simpl in ND, BI. rewrite app_assoc in ND, BI.
    destruct b as [|f b'] eqn:Eb.
    + simpl. rewrite app_nil_r in ND, BI. simpl. apply IH; assumption.
    + rewrite <- Eb in *. assert (HL : has_limits o = true) by (unfold has_limits; destruct DO as [-> _]; reflexivity).
      assert (CS : collect_send o (firstn (Z.to_nat (o_doc o)) (sort_desc P)) b =
                   Ok (firstn (Z.to_nat (o_doc o)) (sort_desc (P ++ b)))).
      { unfold collect_send. rewrite Eb at 1. rewrite HL. unfold sort_and_truncate, sort_files.
        rewrite truncate_doc_only by exact DO. f_equal.
        rewrite BI.
        - apply top_step. eapply distinct_app_l; eauto.
        - intros x Hx. apply in_or_app. left.
          eapply Permutation_in in Hx; [|apply sort_desc_is_perm].
          apply in_app_or in Hx as [Hx|Hx]; apply in_or_app; [left|right; exact Hx].
          apply firstn_In' in Hx. eapply Permutation_in; [apply sort_desc_is_perm|exact Hx]. }
      rewrite CS. simpl. rewrite app_assoc. apply IH; assumption.
Qed.

Theorem collect_doclimit_inert o bs :
  doc_only o -> distinct_scores (concat bs) ->
  boost_inert (Z.to_nat (o_doc o)) (concat bs) ->
  collect o bs = batch o bs.
Proof.
  intros DO ND BI. unfold collect, batch.
  pose proof (collect_sends_doc_only o [] bs DO ND BI) as H. simpl in H. rewrite firstn_nil in H.
  rewrite H. simpl.
  assert (HL : has_limits o = true) by (unfold has_limits; destruct DO as [-> _]; reflexivity).
  rewrite HL. unfold sort_and_truncate, sort_files. rewrite truncate_doc_only by exact DO.
  rewrite BI; [reflexivity|]. intros x Hx. eapply Permutation_in; [apply sort_desc_is_perm|exact Hx].
Qed.

(** ** instances of inertness *)
Lemma boost_keeps_top2 l : firstn boost_offset (boost l) = firstn boost_offset l.
Proof.
  unfold boost. destruct (length l <=? boost_offset + 1) eqn:EL; [reflexivity|].
  destruct (skipn boost_offset l) as [|c0 cs] eqn:E; [reflexivity|].
  destruct (find_novel (firstn boost_offset l) (f_score c0) (c0 :: cs) 0) as [[i c]|]; [|reflexivity].
  assert (L : length (firstn boost_offset l) = boost_offset).
  { rewrite firstn_length. apply Nat.leb_gt in EL. lia. }
  rewrite firstn_app_le by lia. now rewrite firstn_firstn, Nat.min_id.
Qed.

Lemma boost_inert_le2 D all : D <= 2 -> boost_inert D all.
Proof.
  intros HD l _. rewrite <- (Nat.min_l D boost_offset) by (unfold boost_offset; lia).
  rewrite <- !firstn_firstn. now rewrite boost_keeps_top2.
Qed.

Lemma find_novel_same_ext top s0 cands i e :
  top <> [] -> Forall (fun f => f_ext f = e) top -> Forall (fun f => f_ext f = e) cands ->
  find_novel top s0 cands i = None.
Proof.
  intros Hne Ht. revert i. induction cands as [|c r IH]; intros i Hc; [reflexivity|].
  inversion Hc as [|? ? Hce Hr]; subst.
  change (find_novel top s0 (c :: r) i) with
    (if (10 * f_score c <? 9 * s0)%Z then find_novel top s0 r (S i)
     else if ext_in (f_ext c) top then find_novel top s0 r (S i) else Some (i, c)).
  destruct (10 * f_score c <? 9 * s0)%Z; [now apply IH|].
  assert (X : ext_in (f_ext c) top = true).
  { destruct top as [|t top']; [congruence|]. inversion Ht as [|? ? Hte _]; subst.
    unfold ext_in. simpl. rewrite Hte. now rewrite N.eqb_refl. }
  rewrite X. now apply IH.
Qed.

Lemma boost_inert_one_ext D all e : Forall (fun f => f_ext f = e) all -> boost_inert D all.
Proof.
  intros HA l Hin. f_equal. unfold boost.
  destruct (length l <=? boost_offset + 1) eqn:EL; [reflexivity|].
  destruct (skipn boost_offset l) as [|c0 cs] eqn:E; [reflexivity|].
  assert (Fl : Forall (fun f => f_ext f = e) l).
  { apply Forall_forall. intros x Hx. rewrite Forall_forall in HA. apply HA, Hin, Hx. }
  rewrite (find_novel_same_ext _ _ _ _ e); [reflexivity| | |].
  - intros E0. apply (f_equal (@length _)) in E0. rewrite firstn_length in E0. apply Nat.leb_gt in EL.
    unfold boost_offset in *. simpl length in E0. lia.
  - apply Forall_forall. intros x Hx. apply firstn_In' in Hx. rewrite Forall_forall in Fl. auto.
  - rewrite <- E. apply Forall_forall. intros x Hx. rewrite Forall_forall in Fl. apply Fl.
    rewrite <- (firstn_skipn boost_offset l). apply in_or_app. now right.
Qed.
