(** Meaning preservation of the rewrites of query/query.go and query/parse.go under the reference
    evaluator of Model/Query.v: evalConstants, flatten, the flatten loop, Simplify, Map (for a
    meaning-preserving node function), ExpandFileContent, stripCaseScopes. *)
From ZV Require Import Lib.Base Model.Query Proofs.QueryInd.

Section Preserve.
  Variable D : Type.
  Variable e : atoms D.
  Variable d : D.
  Notation ev := (fun c => eval e c d).

  (** ---------------------------------------------------------------- evalConstants *)

  Lemma sel_fc_true (f : bool -> D -> bool) fn ct :
    (forall nm, f nm d = true) -> sel_fc f fn ct d = true.
  Proof.
    intros H. unfold sel_fc. destruct (Bool.eqb fn ct); [now rewrite !H|]. destruct fn; apply H.
  Qed.

  Lemma andor_scan_and (l : list Q) :
    match andor_scan true l with
    | inl c => c = QConst false /\ forallb ev l = false
    | inr l' => forallb ev l' = forallb ev l
    end.
  Proof.
    induction l as [|ch r IH]; simpl; [reflexivity|].
    destruct ch; simpl;
      try (destruct (andor_scan true r) as [c|r']; [destruct IH as [-> IH]; split; [reflexivity|now rewrite IH, andb_false_r] | simpl; now rewrite IH]).
    destruct v; simpl.
    - destruct (andor_scan true r) as [c|r']; [exact IH|exact IH].
    - split; reflexivity.
  Qed.

  Lemma andor_scan_or (l : list Q) :
    match andor_scan false l with
    | inl c => c = QConst true /\ existsb ev l = true
    | inr l' => existsb ev l' = existsb ev l
    end.
  Proof.
    induction l as [|ch r IH]; simpl; [reflexivity|].
    destruct ch; simpl;
      try (destruct (andor_scan false r) as [c|r']; [destruct IH as [-> IH]; split; [reflexivity|now rewrite IH, orb_true_r] | simpl; now rewrite IH]).
    destruct v; simpl.
    - split; reflexivity.
    - destruct (andor_scan false r) as [c|r']; [exact IH|exact IH].
  Qed.

  Lemma evalAndOrConstants_and (l : list Q) :
    eval e (evalAndOrConstants true l) d = forallb ev l.
  Proof.
    unfold evalAndOrConstants. pose proof (andor_scan_and l) as H.
    destruct (andor_scan true l) as [c|l'].
    - destruct H as [-> H]. now rewrite H.
    - rewrite <- H. destruct l'; reflexivity.
  Qed.

  Lemma evalAndOrConstants_or (l : list Q) :
    eval e (evalAndOrConstants false l) d = existsb ev l.
  Proof.
    unfold evalAndOrConstants. pose proof (andor_scan_or l) as H.
    destruct (andor_scan false l) as [c|l'].
    - destruct H as [-> H]. now rewrite H.
    - rewrite <- H. destruct l'; reflexivity.
  Qed.

  Lemma existsb_all_nil (l : list (str * list N)) :
    forallb (fun br => is_nil (snd br)) l = true ->
    existsb (fun br => a_onbranch e (fst br) d && existsb (fun id => a_repo_id e id d) (snd br)) l = false.
  Proof.
    induction l as [|[b ids] r IH]; simpl; [reflexivity|].
    intros H. apply andb_prop in H. destruct H as [H1 H2].
    destruct ids; [|discriminate]. simpl. rewrite andb_false_r. now apply IH.
  Qed.

  Theorem evalConstants_preserves :
    atoms_ok e -> forall q, eval e (evalConstants q) d = eval e q d.
  Proof.
    intros Hok q. induction q using Q_ind'; simpl; try reflexivity.
    - (* Substring *)
      destruct p; simpl; [|reflexivity]. symmetry. apply sel_fc_true. intros nm. apply (ok_substr_empty e Hok).
    - (* Regexp *)
      destruct (N.eqb (rx_op re) OpEmptyMatch) eqn:E; simpl; [|reflexivity].
      apply N.eqb_eq in E. symmetry. apply sel_fc_true. intros nm. now apply (ok_regexp_empty e Hok).
    - (* BranchesRepos *)
      destruct (forallb (fun br => is_nil (snd br)) l) eqn:E; simpl; [|reflexivity].
      symmetry. now apply existsb_all_nil.
    - (* RepoIDs *) destruct ids; reflexivity.
    - (* RepoSet *) destruct s; reflexivity.
    - (* FileNameSet *) destruct s; reflexivity.
    - (* Type *) destruct (evalConstants q) eqn:E; simpl in *; exact IHq.
    - (* Boost *) destruct (evalConstants q) eqn:E; simpl in *; exact IHq.
    - (* Branch *)
      destruct p; simpl; [|reflexivity]. destruct ex; simpl; [reflexivity|].
      symmetry. apply (ok_branch_empty e Hok).
    - (* And *)
      rewrite evalAndOrConstants_and, forallb_map_eq. now apply forallb_ext_Forall.
    - (* Or *)
      rewrite evalAndOrConstants_or, existsb_map_eq. now apply existsb_ext_Forall.
    - (* Not *)
      destruct (evalConstants q) eqn:E; simpl in *; now rewrite <- IHq.
  Qed.

  (** ---------------------------------------------------------------- flatten *)

  Lemma flattenAndOr_and (fl : Q -> Q * bool) (l : list Q) :
    Forall (fun c => eval e (fst (fl c)) d = eval e c d) l ->
    forallb ev (fst (flattenAndOr true fl l)) = forallb ev l.
  Proof.
    induction 1 as [|c r Hc _ IH]; simpl; [reflexivity|].
    destruct (fl c) as [c' sub] eqn:Ec. simpl in Hc.
    destruct (flattenAndOr true fl r) as [rest chg] eqn:Er. simpl in IH.
    rewrite <- Hc, <- IH.
    destruct c'; simpl; try reflexivity.
    now rewrite forallb_app_eq.
  Qed.

  Lemma flattenAndOr_or (fl : Q -> Q * bool) (l : list Q) :
    Forall (fun c => eval e (fst (fl c)) d = eval e c d) l ->
    existsb ev (fst (flattenAndOr false fl l)) = existsb ev l.
  Proof.
    induction 1 as [|c r Hc _ IH]; simpl; [reflexivity|].
    destruct (fl c) as [c' sub] eqn:Ec. simpl in Hc.
    destruct (flattenAndOr false fl r) as [rest chg] eqn:Er. simpl in IH.
    rewrite <- Hc, <- IH.
    destruct c'; simpl; try reflexivity.
    now rewrite existsb_app_eq.
  Qed.

  Theorem flatten_preserves : forall q, eval e (fst (flatten q)) d = eval e q d.
  Proof.
    intros q. induction q using Q_ind'; simpl; try reflexivity.
    - destruct (flatten q) as [c' chg]; simpl in *; exact IHq.
    - destruct (flatten q) as [c' chg]; simpl in *; exact IHq.
    - (* And *)
      destruct cs as [|c [|c2 r]].
      + reflexivity.
      + simpl. now rewrite andb_true_r.
      + pose proof (flattenAndOr_and flatten (c :: c2 :: r) H) as HF.
        destruct (flattenAndOr true flatten (c :: c2 :: r)) as [f chg]. exact HF.
    - (* Or *)
      destruct cs as [|c [|c2 r]].
      + reflexivity.
      + simpl. now rewrite orb_false_r.
      + pose proof (flattenAndOr_or flatten (c :: c2 :: r) H) as HF.
        destruct (flattenAndOr false flatten (c :: c2 :: r)) as [f chg]. exact HF.
    - destruct (flatten q) as [c' chg]; simpl in *; now rewrite IHq.
  Qed.

  Lemma flatten_loop_preserves : forall fuel q, eval e (flatten_loop fuel q) d = eval e q d.
  Proof.
    induction fuel as [|k IH]; intros q; simpl; [reflexivity|].
    pose proof (flatten_preserves q) as H.
    destruct (flatten q) as [q' chg]. simpl in H.
    destruct chg; [now rewrite IH|exact H].
  Qed.

  Theorem Simplify_preserves : atoms_ok e -> forall q, eval e (Simplify q) d = eval e q d.
  Proof.
    intros Hok q. unfold Simplify. rewrite flatten_loop_preserves. now apply evalConstants_preserves.
  Qed.

  (** ---------------------------------------------------------------- Map *)

  (** query.Map with a node function that preserves the meaning of every node preserves the
      meaning of the tree. *)
  Theorem qmap_preserves (f : Q -> Q) :
    (forall q, eval e (f q) d = eval e q d) -> forall q, eval e (qmap f q) d = eval e q d.
  Proof.
    intros Hf q. induction q using Q_ind'; simpl; rewrite Hf; simpl; try reflexivity; try assumption.
    - rewrite forallb_map_eq. now apply forallb_ext_Forall.
    - rewrite existsb_map_eq. now apply existsb_ext_Forall.
    - now rewrite IHq.
  Qed.

  Lemma ExpandFileContent_node : forall q, eval e (ExpandFileContent q) d = eval e q d.
  Proof.
    intros q. destruct q; simpl; try reflexivity.
    - unfold sel_fc. destruct fname, content; simpl; try reflexivity; now rewrite orb_false_r.
    - unfold sel_fc. destruct fname, content; simpl; try reflexivity; now rewrite orb_false_r.
  Qed.

  Theorem expand_preserves : forall q, eval e (qmap ExpandFileContent q) d = eval e q d.
  Proof. apply qmap_preserves. exact ExpandFileContent_node. Qed.

  (** ---------------------------------------------------------------- stripCaseScopes *)

  Theorem stripCaseScopes_preserves : forall q, eval e (stripCaseScopes q) d = eval e q d.
  Proof.
    intros q. induction q using Q_ind'; simpl; try reflexivity; try assumption.
    - rewrite forallb_map_eq. now apply forallb_ext_Forall.
    - rewrite existsb_map_eq. now apply existsb_ext_Forall.
    - now rewrite IHq.
  Qed.
End Preserve.
