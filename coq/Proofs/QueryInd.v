(** Induction principle for the nested inductive [Q] (children lists) and small list lemmas. *)
From ZV Require Import Lib.Base Model.Query.

Section QInd.
  Variable P : Q -> Prop.
  Hypothesis HConst : forall v, P (QConst v).
  Hypothesis HSubstring : forall p cs fn ct, P (QSubstring p cs fn ct).
  Hypothesis HRegexp : forall re cs fn ct, P (QRegexp re cs fn ct).
  Hypothesis HSymbol : forall e, P e -> P (QSymbol e).
  Hypothesis HCase : forall f, P (QCase f).
  Hypothesis HCaseScope : forall c, P c -> P (QCaseScope c).
  Hypothesis HLanguage : forall l, P (QLanguage l).
  Hypothesis HRepo : forall re, P (QRepo re).
  Hypothesis HRepoRegexp : forall re, P (QRepoRegexp re).
  Hypothesis HBranchesRepos : forall l, P (QBranchesRepos l).
  Hypothesis HRepoIDs : forall ids, P (QRepoIDs ids).
  Hypothesis HRepoSet : forall s, P (QRepoSet s).
  Hypothesis HFileNameSet : forall s, P (QFileNameSet s).
  Hypothesis HType : forall t c, P c -> P (QType t c).
  Hypothesis HBoost : forall w c, P c -> P (QBoost w c).
  Hypothesis HBranch : forall p ex, P (QBranch p ex).
  Hypothesis HMeta : forall f re, P (QMeta f re).
  Hypothesis HRawConfig : forall m, P (QRawConfig m).
  Hypothesis HAnd : forall cs, Forall P cs -> P (QAnd cs).
  Hypothesis HOr : forall cs, Forall P cs -> P (QOr cs).
  Hypothesis HNot : forall c, P c -> P (QNot c).

  Fixpoint Q_ind' (q : Q) : P q :=
    match q with
    | QConst v => HConst v
    | QSubstring p cs fn ct => HSubstring p cs fn ct
    | QRegexp re cs fn ct => HRegexp re cs fn ct
    | QSymbol e => HSymbol e (Q_ind' e)
    | QCase f => HCase f
    | QCaseScope c => HCaseScope c (Q_ind' c)
    | QLanguage l => HLanguage l
    | QRepo re => HRepo re
    | QRepoRegexp re => HRepoRegexp re
    | QBranchesRepos l => HBranchesRepos l
    | QRepoIDs ids => HRepoIDs ids
    | QRepoSet s => HRepoSet s
    | QFileNameSet s => HFileNameSet s
    | QType t c => HType t c (Q_ind' c)
    | QBoost w c => HBoost w c (Q_ind' c)
    | QBranch p ex => HBranch p ex
    | QMeta f re => HMeta f re
    | QRawConfig m => HRawConfig m
    | QAnd cs =>
        HAnd cs ((fix go (l : list Q) : Forall P l :=
                    match l with
                    | [] => Forall_nil P
                    | c :: r => Forall_cons c (Q_ind' c) (go r)
                    end) cs)
    | QOr cs =>
        HOr cs ((fix go (l : list Q) : Forall P l :=
                   match l with
                   | [] => Forall_nil P
                   | c :: r => Forall_cons c (Q_ind' c) (go r)
                   end) cs)
    | QNot c => HNot c (Q_ind' c)
    end.
End QInd.

Lemma forallb_app_eq {A} (f : A -> bool) (a b : list A) :
  forallb f (a ++ b) = forallb f a && forallb f b.
Proof. induction a as [|x a IH]; simpl; [reflexivity|]. rewrite IH. now rewrite andb_assoc. Qed.

Lemma existsb_app_eq {A} (f : A -> bool) (a b : list A) :
  existsb f (a ++ b) = existsb f a || existsb f b.
Proof. induction a as [|x a IH]; simpl; [reflexivity|]. rewrite IH. now rewrite orb_assoc. Qed.

Lemma forallb_map_eq {A B} (g : A -> B) (f : B -> bool) (l : list A) :
  forallb f (map g l) = forallb (fun x => f (g x)) l.
Proof. induction l as [|x l IH]; simpl; [reflexivity|]. now rewrite IH. Qed.

Lemma existsb_map_eq {A B} (g : A -> B) (f : B -> bool) (l : list A) :
  existsb f (map g l) = existsb (fun x => f (g x)) l.
Proof. induction l as [|x l IH]; simpl; [reflexivity|]. now rewrite IH. Qed.

Lemma forallb_ext_Forall {A} (f g : A -> bool) (l : list A) :
  Forall (fun x => f x = g x) l -> forallb f l = forallb g l.
Proof. induction 1 as [|x l Hx _ IH]; simpl; [reflexivity|]. now rewrite Hx, IH. Qed.

Lemma existsb_ext_Forall {A} (f g : A -> bool) (l : list A) :
  Forall (fun x => f x = g x) l -> existsb f l = existsb g l.
Proof. induction 1 as [|x l Hx _ IH]; simpl; [reflexivity|]. now rewrite Hx, IH. Qed.
