(** Proofs about Model/ResultOwn.v: a result all of whose byte-slice fields are copied survives the unload
    (unmapping / overwriting) of every shard. *)
From Coq Require Import String.
From ZV Require Import Lib.Base Model.ResultOwn.

Lemma mem_path_In : forall p l, mem_path p l = true <-> In p l.
Proof.
  intros p l. unfold mem_path. rewrite existsb_exists. split.
  - intros [x [Hin Heq]]. apply String.eqb_eq in Heq. subst. exact Hin.
  - intros Hin. exists p. split; [exact Hin|apply String.eqb_refl].
Qed.

Lemma subset_p_In : forall a b, subset_p a b = true -> forall p, In p a -> In p b.
Proof.
  intros a b Hs p Hin. unfold subset_p in Hs. rewrite forallb_forall in Hs.
  apply mem_path_In. apply Hs. exact Hin.
Qed.

Lemma nth_error_app_some : forall (hp ext : heap) a d, nth_error hp a = Some d -> nth_error (hp ++ ext) a = Some d.
Proof.
  intros hp ext a d H. rewrite nth_error_app1; [exact H|].
  apply nth_error_Some. rewrite H. discriminate.
Qed.

(** a successful read stays what it was when the heap grows *)
Lemma read_ext : forall sh hp ext s d, read sh hp s = Ok d -> read sh (hp ++ ext) s = Ok d.
Proof.
  intros sh hp ext s d H. unfold read in *. destruct (b_reg s) as [id|a]; [exact H|].
  destruct (nth_error hp a) as [d0|] eqn:Hn; [|discriminate].
  rewrite (nth_error_app_some hp ext a d0 Hn). exact H.
Qed.

Lemma read_all_ext : forall sh hp ext r snap, read_all sh hp r = Ok snap -> read_all sh (hp ++ ext) r = Ok snap.
Proof.
  intros sh hp ext r. induction r as [|[p s] r IH]; intros snap H; simpl in *; [exact H|].
  destruct (read sh hp s) as [d| |] eqn:Hr; simpl in H; try discriminate.
  rewrite (read_ext sh hp ext s d Hr). simpl.
  destruct (read_all sh hp r) as [ds| |] eqn:Hra; simpl in H; try discriminate.
  rewrite (IH ds eq_refl). simpl. exact H.
Qed.

(** reading a heap slice does not look at the shards *)
Lemma read_heap_any_shards : forall sh sh' hp a off len, read sh hp (mkBS (RHeap a) off len) = read sh' hp (mkBS (RHeap a) off len).
Proof. intros. reflexivity. Qed.

Lemma sub_bytes_whole : forall d, sub_bytes d 0 (length d) = Ok d.
Proof.
  intros d. unfold sub_bytes. simpl. rewrite Nat.leb_refl. unfold slice. simpl.
  rewrite Nat.sub_0_r. rewrite firstn_all. reflexivity.
Qed.

(** the fresh copy made by copySlice reads as the bytes copied, whatever happens to the shards and however the heap grows *)
Lemma read_fresh : forall sh' (hp : heap) d ext,
  read sh' ((hp ++ [d]) ++ ext) (mkBS (RHeap (length hp)) 0 (length d)) = Ok d.
Proof.
  intros sh' hp d ext. unfold read. simpl.
  rewrite <- app_assoc. rewrite nth_error_app2; [|apply Nat.le_refl].
  rewrite Nat.sub_diag. simpl. apply sub_bytes_whole.
Qed.

Definition all_copied (copied : list path) (r : result) : Prop := forall l, In l r -> mem_path (fst l) copied = true.

Lemma copy_survives : forall copied r sh hp snap,
  all_copied copied r -> read_all sh hp r = Ok snap ->
  exists hp' r', copy_result sh hp copied r = Ok (hp', r') /\
                 (exists ext, hp' = hp ++ ext) /\
                 map fst r' = map fst r /\
                 forall sh' ext', read_all sh' (hp' ++ ext') r' = Ok snap.
Proof.
  intros copied r. induction r as [|[p s] r IH]; intros sh hp snap Hall Hread.
  - simpl in *. inversion Hread; subst. exists hp, []. split; [reflexivity|]. split; [exists []; symmetry; apply app_nil_r|].
    split; reflexivity.
  - simpl in Hread.
    destruct (read sh hp s) as [d| |] eqn:Hr; simpl in Hread; try discriminate.
    destruct (read_all sh hp r) as [ds| |] eqn:Hra; simpl in Hread; try discriminate.
    inversion Hread; subst snap; clear Hread.
    assert (Hc : mem_path p copied = true) by (apply (Hall (p, s)); left; reflexivity).
    assert (Hall' : all_copied copied r) by (intros l Hl; apply Hall; right; exact Hl).
    pose proof (read_all_ext sh hp [d] r ds Hra) as Hra1.
    destruct (IH sh (hp ++ [d]) ds Hall' Hra1) as [hp2 [r2 [Hcr [[ext Hext] [Hpaths Hsurv]]]]].
    exists hp2, ((p, mkBS (RHeap (length hp)) 0 (length d)) :: r2).
    split.
    + simpl. unfold copy_leaf. simpl. rewrite Hc. rewrite Hr. simpl. rewrite Hcr. simpl. reflexivity.
    + split; [exists ([d] ++ ext); rewrite Hext; rewrite <- app_assoc; reflexivity|].
      split; [simpl; rewrite Hpaths; reflexivity|].
      intros sh' ext'. simpl. rewrite Hext. rewrite <- (app_assoc (hp ++ [d]) ext ext').
      rewrite read_fresh. simpl.
      rewrite (app_assoc (hp ++ [d]) ext ext'). rewrite <- Hext. rewrite Hsurv. simpl. reflexivity.
Qed.

(** the statement used in Props/C19.v *)
Theorem result_survives_unload : forall (t : gty) (root : string) (prog : list stmt),
  copy_covers t root prog = true ->
  forall (sh : shards) (hp : heap) (r : result) snap,
  conforms t r -> read_all sh hp r = Ok snap ->
  exists hp' r', copy_result sh hp (copied_paths root prog) r = Ok (hp', r') /\
                 map fst r' = map fst r /\
                 forall sh', read_all sh' hp' r' = Ok snap.
Proof.
  intros t root prog Hcov sh hp r snap Hconf Hread.
  unfold copy_covers in Hcov. apply andb_true_iff in Hcov. destruct Hcov as [_ Hsub].
  assert (Hall : all_copied (copied_paths root prog) r).
  { intros l Hl. apply mem_path_In. apply (subset_p_In _ _ Hsub). apply Hconf. exact Hl. }
  destruct (copy_survives _ r sh hp snap Hall Hread) as [hp' [r' [Hc [_ [Hp Hs]]]]].
  exists hp', r'. split; [exact Hc|]. split; [exact Hp|].
  intros sh'. specialize (Hs sh' []). rewrite app_nil_r in Hs. exact Hs.
Qed.

(** boolean form of [conforms], for concrete results *)
Definition conforms_b (t : gty) (r : result) : bool := forallb (fun l => mem_path (fst l) (bytes_paths t)) r.
Lemma conforms_b_ok : forall t r, conforms_b t r = true -> conforms t r.
Proof.
  intros t r H l Hl. unfold conforms_b in H. rewrite forallb_forall in H. apply mem_path_In. apply H. exact Hl.
Qed.
(** NECESSITY of the obligation: a view of shard memory in a field the program does not copy is still in the result
    after copyFiles, and reading the result once the shards are unmapped faults. *)
Lemma read_ok_or_panic : forall sh hp s, (exists d, read sh hp s = Ok d) \/ (exists w, read sh hp s = Panic w).
Proof.
  intros sh hp s. unfold read, sub_bytes.
  destruct (b_reg s) as [id|a].
  - destruct (sh id) as [d|]; [|right; eexists; reflexivity].
    destruct (b_off s + b_len s <=? List.length d); [left|right]; eexists; reflexivity.
  - destruct (nth_error hp a) as [d|]; [|right; eexists; reflexivity].
    destruct (b_off s + b_len s <=? List.length d); [left|right]; eexists; reflexivity.
Qed.

Lemma copy_result_keeps_uncopied : forall copied r sh hp hp' r' l,
  In l r -> mem_path (fst l) copied = false -> copy_result sh hp copied r = Ok (hp', r') -> In l r'.
Proof.
  intros copied r. induction r as [|l0 r IH]; intros sh hp hp' r' l Hin Hnc Hc; [destruct Hin|].
  simpl in Hc.
  destruct (copy_leaf sh hp copied l0) as [x| |] eqn:Hl; simpl in Hc; try discriminate.
  destruct (copy_result sh (fst x) copied r) as [y| |] eqn:Hr; simpl in Hc; try discriminate.
  inversion Hc; subst hp' r'; clear Hc.
  destruct Hin as [Heq|Hin].
  - subst l0. unfold copy_leaf in Hl. rewrite Hnc in Hl. inversion Hl; subst x. left. reflexivity.
  - right. destruct y as [hp2 r2]. simpl. apply (IH sh (fst x) hp2 r2 l Hin Hnc Hr).
Qed.

Lemma unmapped_view_faults : forall hp r p id off len,
  In (p, mkBS (RShard id) off len) r -> exists w, read_all (fun _ => None) hp r = Panic w.
Proof.
  intros hp r. induction r as [|[p0 s0] r IH]; intros p id off len Hin; [destruct Hin|].
  simpl. destruct Hin as [Heq|Hin].
  - inversion Heq; subst p0 s0. unfold read. simpl. eexists. reflexivity.
  - destruct (read_ok_or_panic (fun _ => None) hp s0) as [[d Hd]|[w Hw]].
    + rewrite Hd. simpl. destruct (IH p id off len Hin) as [w Hw]. rewrite Hw. simpl. eexists. reflexivity.
    + rewrite Hw. simpl. eexists. reflexivity.
Qed.

Theorem uncopied_view_faults : forall copied r sh hp hp' r' p id off len,
  In (p, mkBS (RShard id) off len) r -> mem_path p copied = false ->
  copy_result sh hp copied r = Ok (hp', r') ->
  In (p, mkBS (RShard id) off len) r' /\ exists w, read_all (fun _ => None) hp' r' = Panic w.
Proof.
  intros copied r sh hp hp' r' p id off len Hin Hnc Hc.
  assert (Hin' : In (p, mkBS (RShard id) off len) r') by (apply (copy_result_keeps_uncopied copied r sh hp hp' r' _ Hin Hnc Hc)).
  split; [exact Hin'|]. apply (unmapped_view_faults hp' r' p id off len Hin').
Qed.
