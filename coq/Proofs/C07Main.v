(** Assembly lemmas for Props/C07.v (the Props file only states the theorems). *)
From ZV Require Import Lib.Base Model.Query Generated.ParserTables Model.Parser Proofs.ParserTotal Proofs.ParserKinds Proofs.ParserFuel Model.JsonApi Proofs.JsonApiTotal.
Open Scope N_scope.

Lemma parse_never_panics :
  forall (rq : str -> rqres) (rx_auto rcompile : str -> bool) (lang : str -> option str) (s : str),
    (exists q, parse rq rx_auto rcompile lang s = Ok q) \/
    (exists e, parse rq rx_auto rcompile lang s = Err e /\ e <> E_FUEL).
Proof.
  intros. pose proof (parse_fine rq rx_auto rcompile lang s) as H.
  destruct (parse rq rx_auto rcompile lang s) as [q|e|w]; simpl in H; [left; eauto | right; eauto | contradiction].
Qed.

Lemma parse_terminates_within_fuel :
  forall (rq : str -> rqres) (rx_auto rcompile : str -> bool) (lang : str -> option str) (s : str) (fuel : nat),
    (3 * List.length s + 3 <= fuel)%nat ->
    match parse_with rq rx_auto rcompile lang fuel s with
    | Ok _ => True
    | Err e => e <> E_FUEL
    | Panic _ => False
    end.
Proof. intros. apply parse_with_fine. exact H. Qed.

Lemma parse_fuel_independent' :
  forall (rq : str -> rqres) (rx_auto rcompile : str -> bool) (lang : str -> option str) (s : str) (fuel : nat),
    (3 * List.length s + 3 <= fuel)%nat ->
    parse_with rq rx_auto rcompile lang fuel s = parse rq rx_auto rcompile lang s.
Proof. intros. apply parse_fuel_independent. exact H. Qed.

Lemma json_api_never_panics :
  forall (rq : str -> rqres) (rx_auto rcompile : str -> bool) (lang : str -> option str)
         (search : Q -> bool -> outcome N) (listq : Q -> outcome unit),
    (forall q b, nopanic (search q b)) -> (forall q, nopanic (listq q)) ->
    forall (is_post : bool) (sbody : option search_args) (lbody : option list_args),
      nopanic (json_search (parse rq rx_auto rcompile lang) search is_post sbody) /\
      nopanic (json_list (parse rq rx_auto rcompile lang) listq is_post lbody).
Proof.
  intros rq rx_auto rcompile lang search listq Hs Hl is_post sbody lbody.
  assert (Hp : forall s, nopanic (parse rq rx_auto rcompile lang s)).
  { intros s. pose proof (parse_fine rq rx_auto rcompile lang s) as H. destruct (parse rq rx_auto rcompile lang s); simpl in *; auto. }
  split; [apply json_search_nopanic | apply json_list_nopanic]; assumption.
Qed.
