(** The scan/loader model composed with the store of published lists (Model/RankedStore.v): every list scan publishes
    goes to a fresh backing array (replace's copy-on-write), getLoaded hands out the current header.  A header held
    by a running search reads, after ANY further history of scans, exactly the loaded map it showed when taken. *)
From ZV Require Import Lib.Base Model.RankedStore Model.Watcher Proofs.RankedStore Proofs.Watcher.

Definition wrs := (wstate * ranked_state (path * N))%type.
Definition wrs_init : wrs := (w_init, rs_init).

(** one scan: the watcher state moves as in [scan_pure]; its publications go through the store in order *)
Definition scan_rs (cur next : Z) (L : list fent) (p : wrs) : wrs :=
  let o := scan_pure cur next L (fst p) in (o_state o, publish_all (snd p) (o_snaps o)).
Fixpoint scans_rs (cur next : Z) (p : wrs) (Ls : list (list fent)) : wrs :=
  match Ls with
  | [] => p
  | L :: r => scans_rs cur next (scan_rs cur next L p) r
  end.

Lemma scans_rs_fst cur next Ls : forall p, fst (scans_rs cur next p Ls) = scans cur next (fst p) Ls.
Proof. induction Ls as [|L Ls IH]; intros p; simpl; [reflexivity|]. rewrite IH. reflexivity. Qed.

Lemma scans_rs_app cur next Ls1 : forall p Ls2,
  scans_rs cur next p (Ls1 ++ Ls2) = scans_rs cur next (scans_rs cur next p Ls1) Ls2.
Proof. induction Ls1 as [|L Ls1 IH]; intros p Ls2; simpl; [reflexivity|]. apply IH. Qed.

(** the runner's two-stage publication (Model/Watcher.v: publish_scan) ends in the same store *)
Lemma publish_scan_snd rs o : snd (publish_scan rs o) = publish_all rs (o_snaps o).
Proof.
  unfold publish_scan. destruct (o_drop o); [reflexivity|].
  destruct (o_snaps o); reflexivity.
Qed.

Lemma apply_loads_none L keys : forall m, any_loadable L keys = false -> apply_loads L keys m = m.
Proof.
  unfold apply_loads, any_loadable.
  induction keys as [|k keys IH]; intros m H; simpl in *; [reflexivity|].
  apply orb_false_iff in H. destruct H as [Hk Hr].
  destruct (find (fun e => path_eqb (f_path e) k) L) as [e|]; [rewrite Hk|]; apply IH, Hr.
Qed.

(** what getLoaded returns is always the current loaded map *)
Definition rs_current (p : wrs) : Prop := read (rs_store (snd p)) (get_loaded (snd p)) = Some (w_loaded (fst p)).

Lemma rs_current_init : rs_current wrs_init.
Proof. reflexivity. Qed.

Lemma scan_rs_current cur next L p : rs_current p -> rs_current (scan_rs cur next L p).
Proof.
  unfold rs_current, scan_rs, scan_pure. destruct p as [w rs]. simpl. intros H.
  set (td := to_drop_of (ts_of cur next L) (w_ts w)).
  set (tl := to_load_of (ts_of cur next L) (w_ts w)).
  destruct (any_loadable L tl) eqn:El.
  - rewrite publish_all_app. simpl. apply read_publish_cow_new.
  - rewrite app_nil_r, (apply_loads_none L tl _ El).
    destruct td eqn:Ed; simpl.
    + exact H.
    + apply read_publish_cow_new.
Qed.

Lemma scans_rs_current cur next Ls : forall p, rs_current p -> rs_current (scans_rs cur next p Ls).
Proof. induction Ls as [|L Ls IH]; intros p H; simpl; [exact H|]. apply IH, scan_rs_current, H. Qed.

Lemma scans_rs_keeps cur next Ls : forall p s x,
  read (rs_store (snd p)) s = Some x -> read (rs_store (snd (scans_rs cur next p Ls))) s = Some x.
Proof.
  induction Ls as [|L Ls IH]; intros p s x H; simpl; [exact H|].
  apply IH. unfold scan_rs. simpl. apply held_snapshot_immutable, H.
Qed.

(** a search takes its list after the history Ls1; the watcher goes on through Ls2 (replacing, dropping, adding
    shards); the held list still reads the map that was loaded after Ls1 *)
Lemma held_list_immutable cur next Ls1 Ls2 :
  let p1 := scans_rs cur next wrs_init Ls1 in
  let p2 := scans_rs cur next p1 Ls2 in
  fst p1 = scans cur next w_init Ls1 /\
  read (rs_store (snd p2)) (get_loaded (snd p1)) = Some (w_loaded (fst p1)).
Proof.
  simpl. split; [apply scans_rs_fst|].
  apply scans_rs_keeps. apply scans_rs_current, rs_current_init.
Qed.

(** the same for the lists published in the MIDDLE of a scan (after its drop, before its load): each header handed
    out during the scan of L reads, after any further history, the value it was published with *)
Lemma midscan_list_immutable cur next Ls1 L Ls2 s v :
  let p1 := scans_rs cur next wrs_init Ls1 in
  In (s, v) (pub_trace (snd p1) (o_snaps (scan_pure cur next L (fst p1)))) ->
  In v (o_snaps (scan_pure cur next L (scans cur next w_init Ls1))) /\
  read (rs_store (snd (scans_rs cur next p1 (L :: Ls2)))) s = Some v.
Proof.
  intros p1 Hin. split.
  - pose proof (scans_rs_fst cur next Ls1 wrs_init) as Ef. change (fst wrs_init) with w_init in Ef.
    rewrite <- Ef. eapply pub_trace_values, Hin.
  - change (scans_rs cur next p1 (L :: Ls2)) with (scans_rs cur next (scan_rs cur next L p1) Ls2).
    apply scans_rs_keeps. unfold scan_rs. cbn [snd]. apply pub_trace_reads, Hin.
Qed.
