(** C09 — the reader parses the tagged TOC that Write emitted: readHeader + readTOCSections applied to
    write_file's bytes return, for every entry of sectionsTaggedList, exactly the record laid out by [layout]
    (zero record for sections never written; compound sections with their offset table read from the file). *)
From Coq Require Import ZifyBool ZifyNat ZifyN.
From ZV Require Import Lib.Base Lib.Varint Generated.FormatConsts Model.Format Proofs.FormatCodec Proofs.FormatLayout.
Open Scope N_scope.

(* ------------------------------------------------------------------ "the file holds X at offset off" *)

Definition has (bs : list N) (off : N) (X : list N) : Prop :=
  exists pre post, bs = pre ++ X ++ post /\ off = nlen pre.

Lemma has_app : forall bs off X Y, has bs off (X ++ Y) -> has bs off X /\ has bs (off + nlen X) Y.
Proof.
  intros bs off X Y (pre & post & E & Ho). split.
  - exists pre, (Y ++ post). rewrite E, <- app_assoc. split; [reflexivity|exact Ho].
  - exists (pre ++ X), post. rewrite E, <- !app_assoc. split; [reflexivity|]. rewrite nlen_app. lia.
Qed.

Lemma has_bound : forall bs off X, has bs off X -> off + nlen X <= nlen bs.
Proof. intros bs off X (pre & post & E & Ho). subst. rewrite !nlen_app. lia. Qed.

Lemma has_read : forall bs off X, nlen bs < W32 -> has bs off X -> file_read (mem_file bs) off (nlen X) = Ok X.
Proof. intros bs off X Hlt (pre & post & E & Ho). subst. apply file_read_mid. exact Hlt. Qed.

(** IndexFile.Read inside the file returns the addressed bytes *)
Lemma file_read_in : forall bs off sz, nlen bs < W32 -> off + sz <= nlen bs ->
  file_read (mem_file bs) off sz = Ok (firstn (N.to_nat sz) (skipn (N.to_nat off) bs)).
Proof.
  intros bs off sz Hlt Hin. unfold file_read, mem_file. cbn [f_len f_data].
  rewrite (N.mod_small (off + sz)) by lia. rewrite (N.mod_small (nlen bs)) by lia.
  replace ((off + sz <? off) || (nlen bs <? off + sz)) with false by lia. reflexivity.
Qed.

Lemma read_u32_has : forall bs off v, nlen bs < W32 -> v < W32 -> has bs off (be32 v) ->
  read_u32 (mem_file bs) off = Ok (v, off + 4).
Proof.
  intros bs off v Hlt Hv H. unfold read_u32.
  replace 4 with (nlen (be32 v)) by reflexivity. rewrite (has_read _ _ _ Hlt H). cbn [obind].
  rewrite be32_get by exact Hv. pose proof (has_bound _ _ _ H) as Hb. change (nlen (be32 v)) with 4 in *.
  rewrite (N.mod_small (off + 4)) by lia. reflexivity.
Qed.

Lemma read_simple_has : forall bs off a b, nlen bs < W32 -> a < W32 -> b < W32 -> has bs off (be32 a ++ be32 b) ->
  read_simple (mem_file bs) off = Ok (a, b, off + 8).
Proof.
  intros bs off a b Hlt Ha Hb H. apply has_app in H. destruct H as (H1 & H2). change (nlen (be32 a)) with 4 in H2.
  unfold read_simple. rewrite (read_u32_has _ _ _ Hlt Ha H1). cbn [obind].
  rewrite (read_u32_has _ _ _ Hlt Hb H2). cbn [obind]. replace (off + 4 + 4) with (off + 8) by lia. reflexivity.
Qed.

Lemma put_uvarint_small : forall x, x < 128 -> put_uvarint x = [x].
Proof. intros x Hx. unfold put_uvarint. cbn [put_uvarint_fuel]. replace (x <? 128) with true by lia. reflexivity. Qed.

(** binary.ReadUvarint of a one-byte varint *)
Lemma read_uvarint_has1 : forall bs off x, nlen bs < W32 -> x < 128 -> has bs off [x] ->
  read_uvarint (mem_file bs) off = Ok (x, off + 1).
Proof.
  intros bs off x Hlt Hx H. unfold read_uvarint. cbn [read_uvarint_from].
  replace 1 with (nlen [x]) at 1 by reflexivity. rewrite (has_read _ _ _ Hlt H). cbn [obind].
  replace (x <? 128) with true by lia. cbn [Nat.eqb andb].
  pose proof (has_bound _ _ _ H) as Hb. change (nlen [x]) with 1 in Hb.
  rewrite (N.mod_small (off + 1)) by lia. change (2 ^ 0) with 1. rewrite N.mul_1_r, N.add_0_l.
  rewrite (N.mod_small x) by (unfold W64; lia). reflexivity.
Qed.

Lemma read_str_has : forall bs off t, nlen bs < W32 -> nlen t < 128 -> has bs off (put_string t) ->
  read_str (mem_file bs) off = Ok (t, off + 1 + nlen t).
Proof.
  intros bs off t Hlt Ht H. unfold put_string in H. rewrite put_uvarint_small in H by exact Ht.
  apply has_app in H. destruct H as (H1 & H2). change (nlen [nlen t]) with 1 in H2.
  unfold read_str. rewrite (read_uvarint_has1 _ _ _ Hlt Ht H1). cbn [obind].
  rewrite (N.mod_small (nlen t)) by (unfold W32; lia). rewrite (has_read _ _ _ Hlt H2). cbn [obind].
  pose proof (has_bound _ _ _ H2) as Hb. rewrite (N.mod_small (off + 1 + nlen t)) by lia. reflexivity.
Qed.

(* ------------------------------------------------------------------ one TOC entry *)

Definition rec_for (tbl : list (tag * sec_rec)) (t : tag) (k : N) : sec_rec :=
  match lookup_tag t tbl with Some r => r | None => zero_rec k end.

(** what section.read makes of a record: compound sections (kind 1) load their offset table *)
Definition view_rec (bs : list N) (k : N) (r : sec_rec) : rsec :=
  match r with
  | RSimple o s => SSimple o s
  | RCompound a b c d =>
    SCompound a b c d (if k =? 1 then words 4 (firstn (N.to_nat d) (skipn (N.to_nat c) bs)) else [])
  end.

Definition rec_ok (bs : list N) (k : N) (r : sec_rec) : Prop :=
  match r with
  | RSimple o s => k = 0 /\ o < W32 /\ s < W32
  | RCompound a b c d => (k = 1 \/ k = 2) /\ a < W32 /\ b < W32 /\ c < W32 /\ d < W32 /\ d mod 4 = 0 /\ c + d <= nlen bs
  end.

Definition entry_ok (bs : list N) (tbl : list (tag * sec_rec)) (tk : tag * N) : Prop :=
  nlen (fst tk) < 128 /\ lookup_tag (fst tk) toc_tags = Some (snd tk) /\ snd tk <= 2
  /\ rec_ok bs (snd tk) (rec_for tbl (fst tk) (snd tk)).

Definition expected_entry (bs : list N) (tbl : list (tag * sec_rec)) (tk : tag * N) : tag * rsec :=
  (fst tk, view_rec bs (snd tk) (rec_for tbl (fst tk) (snd tk))).

Lemma rec_bytes_len : forall r, nlen (rec_bytes r) = match r with RSimple _ _ => 8 | RCompound _ _ _ _ => 16 end.
Proof. destruct r; reflexivity. Qed.

Lemma read_section_has : forall bs off k r, nlen bs < W32 -> rec_ok bs k r -> has bs off (rec_bytes r) ->
  read_section (mem_file bs) k false off = Ok (view_rec bs k r, off + nlen (rec_bytes r)).
Proof.
  intros bs off k r Hlt Hok H. destruct r as [o s|a b c d]; cbn [rec_ok] in Hok.
  - destruct Hok as (-> & Ho & Hs). unfold read_section. cbn [N.eqb].
    cbn [rec_bytes] in H. rewrite (read_simple_has _ _ _ _ Hlt Ho Hs H). cbn [obind view_rec]. reflexivity.
  - destruct Hok as (Hk & Ha & Hb & Hc & Hd & Hm & Hin).
    cbn [rec_bytes] in H.
    replace (be32 a ++ be32 b ++ be32 c ++ be32 d) with ((be32 a ++ be32 b) ++ (be32 c ++ be32 d)) in H
      by (rewrite <- app_assoc; reflexivity).
    apply has_app in H. destruct H as (H1 & H2). change (nlen (be32 a ++ be32 b)) with 8 in H2.
    unfold read_section. replace (k =? 0) with false by lia.
    rewrite (read_simple_has _ _ _ _ Hlt Ha Hb H1). cbn [obind].
    rewrite (read_simple_has _ _ _ _ Hlt Hc Hd H2). cbn [obind]. cbn [view_rec].
    change (nlen (rec_bytes (RCompound a b c d))) with 16.
    replace (off + 8 + 8) with (off + 16) by lia.
    destruct (k =? 1) eqn:E1.
    + unfold read_section_words. replace (d mod 4 =? 0) with true by lia.
      rewrite (file_read_in _ _ _ Hlt Hin). cbn [obind]. reflexivity.
    + replace (k =? 1) with false. reflexivity.
Qed.

Lemma toc_entry_len : forall tbl (t : tag) k, nlen t < 128 -> k < 128 ->
  nlen (toc_entry tbl (t, k)) = 1 + nlen t + 1 + nlen (rec_bytes (rec_for tbl t k)).
Proof.
  intros tbl t k Ht Hk. unfold toc_entry, put_string. rewrite !put_uvarint_small by assumption.
  fold (rec_for tbl t k). rewrite !nlen_app. change (nlen [nlen t]) with 1. change (nlen [k]) with 1. lia.
Qed.

(* ------------------------------------------------------------------ the loop of readTOCSections *)

Lemma read_tagged_entries : forall bs tbl, nlen bs < W32 -> forall tks fuel off acc,
  has bs off (concat (map (toc_entry tbl) tks)) ->
  (length tks <= fuel)%nat ->
  Forall (entry_ok bs tbl) tks ->
  read_tagged (mem_file bs) fuel off (off + nlen (concat (map (toc_entry tbl) tks))) [] acc
  = Ok (rev (map (expected_entry bs tbl) tks) ++ acc).
Proof.
  intros bs tbl Hlt. induction tks as [|[t k] r IH]; intros fuel off acc H Hf Hok.
  - cbn [map concat]. change (nlen (@nil N)) with 0. rewrite N.add_0_r.
    destruct fuel; cbn [read_tagged]; rewrite N.leb_refl; reflexivity.
  - inversion Hok as [|x l Hk Hr]; subst x l. destruct Hk as (Ht & Hlk & Hk2 & Hrec). cbn [fst snd] in *.
    cbn [map concat] in *. rewrite nlen_app.
    assert (Hk128 : k < 128) by lia.
    pose proof (toc_entry_len tbl t k Ht Hk128) as Hlen.
    apply has_app in H. destruct H as (HE & HR).
    pose proof (has_bound _ _ _ HE) as HbE.
    destruct fuel as [|f]; [simpl in Hf; lia|]. cbn [read_tagged].
    replace (off + (nlen (toc_entry tbl (t, k)) + nlen (concat (map (toc_entry tbl) r))) <=? off) with false by lia.
    unfold toc_entry in HE. fold (rec_for tbl t k) in HE.
    apply has_app in HE. destruct HE as (HS & HE2).
    apply has_app in HE2. destruct HE2 as (HKd & HRec).
    rewrite (read_str_has _ _ _ Hlt Ht HS). cbn [obind].
    unfold put_string in HKd, HRec. rewrite !put_uvarint_small in HKd, HRec by assumption.
    rewrite nlen_app in HKd, HRec. change (nlen [nlen t]) with 1 in *. change (nlen [k]) with 1 in *.
    replace (off + (1 + nlen t)) with (off + 1 + nlen t) in HKd, HRec by lia.
    rewrite (read_uvarint_has1 _ _ _ Hlt Hk128 HKd). cbn [obind].
    rewrite Hlk. rewrite N.eqb_refl. cbn [negb andb orb].
    rewrite (read_section_has _ _ _ _ Hlt Hrec HRec). cbn [obind].
    replace (off + (nlen (toc_entry tbl (t, k)) + nlen (concat (map (toc_entry tbl) r))))
      with ((off + 1 + nlen t + 1 + nlen (rec_bytes (rec_for tbl t k))) + nlen (concat (map (toc_entry tbl) r))) by lia.
    rewrite IH.
    + cbn [map rev]. unfold expected_entry at 3. cbn [fst snd]. rewrite <- app_assoc. reflexivity.
    + replace (off + 1 + nlen t + 1 + nlen (rec_bytes (rec_for tbl t k))) with (off + nlen (toc_entry tbl (t, k))) by lia.
      exact HR.
    + simpl in Hf. lia.
    + exact Hr.
Qed.

(* ------------------------------------------------------------------ readHeader + readTOCSections on a written file *)

Lemma concat_len_ge : forall {A} (f : A -> list N) (l : list A), Forall (fun a => 1 <= nlen (f a)) l ->
  nlen l <= nlen (concat (map f l)).
Proof.
  intros A f l H. induction H as [|a r Ha Hr IH]; [reflexivity|].
  cbn [map concat]. rewrite nlen_app. unfold nlen at 1. cbn [length]. fold (nlen r) in IH. unfold nlen in *. lia.
Qed.

Theorem read_toc_written : forall secs,
  let bs := write_file secs in
  let tbl := snd (layout 0 secs) in
  nlen bs < W32 -> Forall (entry_ok bs tbl) toc_tags ->
  read_toc (mem_file bs) [] = Ok (rev (map (expected_entry bs tbl) toc_tags)).
Proof.
  intros secs bs tbl Hlt Hok. subst bs tbl. unfold write_file in *.
  destruct (layout 0 secs) as [body tbl] eqn:El. cbn [snd] in *.
  set (ents := concat (map (toc_entry tbl) toc_tags)) in *.
  unfold toc_bytes in *. fold ents in Hlt, Hok |- *.
  set (toc := be32 0 ++ ents) in *.
  set (bs := body ++ toc ++ be32 (nlen body) ++ be32 (nlen toc)) in *.
  assert (Hsz : nlen bs = nlen body + nlen toc + 8).
  { unfold bs. rewrite !nlen_app. change (nlen (be32 (nlen body))) with 4. change (nlen (be32 (nlen toc))) with 4. lia. }
  assert (Htoc : nlen toc = 4 + nlen ents).
  { unfold toc. rewrite nlen_app. reflexivity. }
  assert (Htr : has bs (nlen body + nlen toc) (be32 (nlen body) ++ be32 (nlen toc))).
  { exists (body ++ toc), []. split; [unfold bs; rewrite app_nil_r, <- !app_assoc; reflexivity|]. rewrite nlen_app. reflexivity. }
  assert (Hcnt : has bs (nlen body) (be32 0)).
  { exists body, (ents ++ be32 (nlen body) ++ be32 (nlen toc)). split; [|reflexivity].
    unfold bs, toc. rewrite <- !app_assoc. reflexivity. }
  assert (Hents : has bs (nlen body + 4) ents).
  { exists (body ++ be32 0), (be32 (nlen body) ++ be32 (nlen toc)). split.
    - unfold bs, toc. rewrite <- !app_assoc. reflexivity.
    - rewrite nlen_app. reflexivity. }
  unfold read_toc. cbn [f_size mem_file].
  replace ((nlen bs + W32 - 8) mod W32) with (nlen body + nlen toc).
  2:{ rewrite Hsz. replace (nlen body + nlen toc + 8 + W32 - 8) with (nlen body + nlen toc + 1 * W32) by lia.
      rewrite N.mod_add by discriminate. symmetry. apply N.mod_small. lia. }
  rewrite (read_simple_has bs _ (nlen body) (nlen toc) Hlt ltac:(lia) ltac:(lia) Htr). cbn [obind].
  rewrite (read_u32_has bs _ 0 Hlt ltac:(reflexivity) Hcnt). cbn [obind N.eqb].
  rewrite (N.mod_small (nlen body + nlen toc)) by lia. cbn [f_len].
  replace (nlen body + nlen toc) with ((nlen body + 4) + nlen ents) by lia.
  unfold ents at 2. rewrite (read_tagged_entries bs tbl Hlt toc_tags _ _ [] Hents).
  - rewrite app_nil_r. reflexivity.
  - fold ents. assert (Hge : nlen toc_tags <= nlen ents).
    { unfold ents. apply concat_len_ge. eapply Forall_impl; [|exact Hok].
      intros [t k] (Ht & _ & Hk & _). cbn [fst snd] in *. cbv beta. assert (Hk' : k < 128) by lia.
      pose proof (toc_entry_len tbl t k Ht Hk') as Hl.
      apply (N.le_trans _ (1 + nlen t + 1 + nlen (rec_bytes (rec_for tbl t k)))); [lia|].
      apply N.eq_le_incl. symmetry. exact Hl. }
    apply (Nat.le_trans _ (N.to_nat (nlen ents))); [|rewrite (N.mod_small (nlen bs)) by lia; lia].
    change (@length (tag * N) toc_tags) with (@length (list N * N) toc_tags).
    unfold nlen in Hge at 1. lia.
  - exact Hok.
Qed.

(* ------------------------------------------------------------------ the written table satisfies entry_ok *)

Lemma bytes_eqb_true : forall a b, bytes_eqb a b = true <-> a = b.
Proof.
  unfold bytes_eqb. induction a as [|x a IH]; intros [|y b]; cbn [list_eqb]; split; intros H; try discriminate; try reflexivity.
  - apply andb_true_iff in H. destruct H as (H1 & H2). apply N.eqb_eq in H1. apply IH in H2. subst. reflexivity.
  - inversion H; subst. rewrite N.eqb_refl. cbn [andb]. apply IH. reflexivity.
Qed.

Lemma lookup_tag_in : forall {A} t (l : list (tag * A)) a, lookup_tag t l = Some a -> In (t, a) l.
Proof.
  intros A t. induction l as [|[t' a'] r IH]; intros a H; cbn [lookup_tag] in H; [discriminate|].
  destruct (bytes_eqb t t') eqn:E.
  - apply bytes_eqb_true in E. inversion H; subst. left. reflexivity.
  - right. apply IH. exact H.
Qed.

(** if every entry with tag t carries v and there is one, lookup finds v (whatever the order) *)
Lemma lookup_tag_all : forall {A} t (l : list (tag * A)) v, (forall a, In (t, a) l -> a = v) -> (exists a, In (t, a) l) ->
  lookup_tag t l = Some v.
Proof.
  intros A t. induction l as [|[t' a'] r IH]; intros v Hall (a & Hin); [destruct Hin|].
  cbn [lookup_tag]. destruct (bytes_eqb t t') eqn:E.
  - apply bytes_eqb_true in E. subst t'. f_equal. apply Hall. left. reflexivity.
  - apply IH.
    + intros a0 H0. apply Hall. right. exact H0.
    + destruct Hin as [H1|H1]; [|exists a; exact H1]. inversion H1; subst.
      assert (bytes_eqb t t = true) by (apply bytes_eqb_true; reflexivity). congruence.
Qed.

Definition is_simple (b : sec_body) : bool := match b with SimpleB _ => true | CompoundB _ => false end.

(** every emitted section has the kind that sectionsTaggedList declares for its tag *)
Definition kinds_okb (tbs : list (tag * bool)) : bool :=
  forallb (fun tb => match lookup_tag (fst tb) toc_tags with Some k => Bool.eqb (k =? 0) (snd tb) | None => false end) tbs.
Definition secs_kinds_ok (secs : list (tag * sec_body)) : Prop :=
  kinds_okb (map (fun tb => (fst tb, is_simple (snd tb))) secs) = true.

Fixpoint uniq_tags (ts : list tag) : bool :=
  match ts with [] => true | t :: r => negb (existsb (bytes_eqb t) r) && uniq_tags r end.

(** the generated tag list: tags shorter than 128 bytes, distinct, kinds 0..2 *)
Definition toc_tags_okb : bool :=
  forallb (fun tk => (nlen (fst tk) <? 128) && (snd tk <=? 2)) toc_tags && uniq_tags (map fst toc_tags).
Lemma toc_tags_ok : toc_tags_okb = true.
Proof. vm_compute. reflexivity. Qed.

Lemma uniq_lookup : forall {A} (l : list (tag * A)) t a, uniq_tags (map fst l) = true -> In (t, a) l -> lookup_tag t l = Some a.
Proof.
  intros A. induction l as [|[t' a'] r IH]; intros t a Hu Hin; [destruct Hin|].
  cbn [map fst uniq_tags] in Hu. apply andb_true_iff in Hu. destruct Hu as (Hne & Hu).
  cbn [lookup_tag]. destruct Hin as [H1|H1].
  - inversion H1; subst. replace (bytes_eqb t t) with true by (symmetry; apply bytes_eqb_true; reflexivity). reflexivity.
  - destruct (bytes_eqb t t') eqn:E.
    + apply bytes_eqb_true in E. subst t'. exfalso.
      apply negb_true_iff in Hne. assert (Hex : existsb (bytes_eqb t) (map fst r) = true).
      { apply existsb_exists. exists t. split; [|apply bytes_eqb_true; reflexivity].
        apply in_map_iff. exists (t, a). split; [reflexivity|exact H1]. }
      congruence.
    + apply IH; assumption.
Qed.

Lemma toc_tags_facts : forall t k, In (t, k) toc_tags -> nlen t < 128 /\ lookup_tag t toc_tags = Some k /\ k <= 2.
Proof.
  intros t k Hin. pose proof toc_tags_ok as H. unfold toc_tags_okb in H. apply andb_true_iff in H. destruct H as (H1 & H2).
  rewrite forallb_forall in H1. specialize (H1 (t, k) Hin). cbn [fst snd] in H1. apply andb_true_iff in H1.
  split; [lia|]. split; [|lia]. apply uniq_lookup; assumption.
Qed.

(** layout: a record found in the table belongs to a section of the list, laid out inside the body *)
Lemma layout_lookup : forall secs off t r, lookup_tag t (snd (layout off secs)) = Some r ->
  exists pre' b post', In (t, b) secs /\ r = body_rec (off + nlen pre') b
                       /\ fst (layout off secs) = pre' ++ body_bytes (off + nlen pre') b ++ post'.
Proof.
  induction secs as [|[t0 b0] rs IH]; intros off t r H; [discriminate|].
  cbn [layout] in *. destruct (layout (off + nlen (body_bytes off b0)) rs) as [rb rt] eqn:El. cbn [fst snd lookup_tag] in *.
  destruct (bytes_eqb t t0) eqn:E.
  - apply bytes_eqb_true in E. subst t0. inversion H; subst. exists [], b0, rb. change (nlen (@nil N)) with 0. rewrite N.add_0_r.
    split; [left; reflexivity|]. split; reflexivity.
  - specialize (IH (off + nlen (body_bytes off b0)) t r). rewrite El in IH. cbn [fst snd] in IH.
    destruct (IH H) as (pre' & b & post' & Hin & Hr & Hb).
    exists (body_bytes off b0 ++ pre'), b, post'. rewrite nlen_app, N.add_assoc.
    split; [right; exact Hin|]. split; [exact Hr|]. rewrite Hb, <- app_assoc. reflexivity.
Qed.

Lemma body_bytes_len : forall off b, nlen (body_bytes off b) =
  match b with SimpleB d => nlen d | CompoundB items => nlen (concat items) + 4 * nlen items end.
Proof.
  intros off [d|items]; cbn [body_bytes]; [reflexivity|]. rewrite nlen_app. f_equal.
  unfold nlen. rewrite concat_be32_len, item_offsets_len. lia.
Qed.

Lemma written_entries_ok : forall secs, let bs := write_file secs in
  nlen bs < W32 -> secs_kinds_ok secs -> Forall (entry_ok bs (snd (layout 0 secs))) toc_tags.
Proof.
  intros secs bs Hlt Hk. apply Forall_forall. intros [t k] Hin.
  destruct (toc_tags_facts t k Hin) as (Ht & Hlk & Hk2). unfold entry_ok. cbn [fst snd].
  split; [exact Ht|]. split; [exact Hlk|]. split; [exact Hk2|].
  unfold rec_for. destruct (lookup_tag t (snd (layout 0 secs))) as [r|] eqn:El.
  - destruct (layout_lookup secs 0 t r El) as (pre' & b & post' & Hb & Hr & Hbody).
    destruct (write_file_split secs) as (toc & Ew).
    assert (Hlen : nlen pre' + nlen (body_bytes (0 + nlen pre') b) <= nlen bs).
    { unfold bs. rewrite Ew, Hbody, !nlen_app. lia. }
    rewrite body_bytes_len in Hlen. rewrite N.add_0_l in Hr.
    unfold secs_kinds_ok, kinds_okb in Hk. rewrite forallb_forall in Hk.
    specialize (Hk (t, is_simple b)). cbn [fst snd] in Hk. rewrite Hlk in Hk.
    assert (Hkb : Bool.eqb (k =? 0) (is_simple b) = true).
    { apply Hk. apply in_map_iff. exists (t, b). split; [reflexivity|exact Hb]. }
    apply Bool.eqb_prop in Hkb. subst r. destruct b as [d|items]; cbn [body_rec rec_ok is_simple] in *.
    + split; [lia|]. split; lia.
    + split; [lia|]. repeat split; try lia.
  - unfold zero_rec. destruct (k =? 0) eqn:E0; cbn [rec_ok].
    + split; [lia|]. unfold W32. split; lia.
    + split; [lia|]. unfold W32. repeat split; try lia. 
Qed.

Definition parsed_toc (secs : list (tag * sec_body)) : toc :=
  rev (map (expected_entry (write_file secs) (snd (layout 0 secs))) toc_tags).

Theorem read_toc_sections : forall secs, nlen (write_file secs) < W32 -> secs_kinds_ok secs ->
  read_toc (mem_file (write_file secs)) [] = Ok (parsed_toc secs).
Proof. intros secs Hlt Hk. apply read_toc_written; [exact Hlt|]. apply written_entries_ok; assumption. Qed.

(* ------------------------------------------------------------------ what the parsed TOC says about each written section *)

Lemma toc_lookup : forall bs tbl t k, lookup_tag t toc_tags = Some k ->
  lookup_tag t (rev (map (expected_entry bs tbl) toc_tags)) = Some (view_rec bs k (rec_for tbl t k)).
Proof.
  intros bs tbl t k Hlk. apply lookup_tag_all.
  - intros a Hin. apply in_rev in Hin. apply in_map_iff in Hin. destruct Hin as ([t' k'] & He & Hin').
    unfold expected_entry in He. cbn [fst snd] in He. inversion He; subst.
    destruct (toc_tags_facts t k' Hin') as (_ & Hlk' & _). rewrite Hlk in Hlk'. inversion Hlk'; subst. reflexivity.
  - exists (view_rec bs k (rec_for tbl t k)). apply in_rev. rewrite rev_involutive. apply in_map_iff.
    exists (t, k). split; [reflexivity|]. apply lookup_tag_in. exact Hlk.
Qed.

Lemma layout_tags : forall secs off, map fst (snd (layout off secs)) = map fst secs.
Proof.
  induction secs as [|[t b] r IH]; intros off; [reflexivity|]. cbn [layout].
  destruct (layout (off + nlen (body_bytes off b)) r) as [rb rt] eqn:El. cbn [snd map fst].
  f_equal. specialize (IH (off + nlen (body_bytes off b))). rewrite El in IH. exact IH.
Qed.

Lemma layout_nth_lookup : forall secs off i t b, uniq_tags (map fst secs) = true -> nth_error secs i = Some (t, b) ->
  exists pre' post', fst (layout off secs) = pre' ++ body_bytes (off + nlen pre') b ++ post'
                     /\ lookup_tag t (snd (layout off secs)) = Some (body_rec (off + nlen pre') b).
Proof.
  intros secs off i t b Hu Hn. destruct (layout_nth secs off i t b Hn) as (pre' & post' & E1 & E2).
  exists pre', post'. split; [exact E1|]. apply uniq_lookup; [rewrite layout_tags; exact Hu|].
  eapply nth_error_In. exact E2.
Qed.

Lemma kinds_of_sec : forall secs t b, secs_kinds_ok secs -> In (t, b) secs ->
  exists k, lookup_tag t toc_tags = Some k /\ (k =? 0) = is_simple b.
Proof.
  intros secs t b Hk Hin. unfold secs_kinds_ok, kinds_okb in Hk. rewrite forallb_forall in Hk.
  specialize (Hk (t, is_simple b)). cbn [fst snd] in Hk.
  destruct (lookup_tag t toc_tags) as [k|] eqn:E.
  - exists k. split; [reflexivity|]. apply Bool.eqb_prop. apply Hk. apply in_map_iff. exists (t, b). split; [reflexivity|exact Hin].
  - exfalso. assert (false = true); [|discriminate]. apply Hk. apply in_map_iff. exists (t, b). split; [reflexivity|exact Hin].
Qed.

(** a simple section: the parsed TOC holds its (offset, size) and the file holds its bytes there *)
Theorem written_simple : forall secs i t d,
  nlen (write_file secs) < W32 -> secs_kinds_ok secs -> uniq_tags (map fst secs) = true ->
  nth_error secs i = Some (t, SimpleB d) ->
  exists off, toc_simple (parsed_toc secs) t = (off, nlen d) /\ has (write_file secs) off d.
Proof.
  intros secs i t d Hlt Hk Hu Hn. set (bs := write_file secs) in *.
  destruct (layout_nth_lookup secs 0 i t _ Hu Hn) as (pre' & post' & E1 & E2). rewrite N.add_0_l in *.
  destruct (kinds_of_sec secs t _ Hk (nth_error_In _ _ Hn)) as (k & Hlk & Hk0). cbn [is_simple] in Hk0.
  apply N.eqb_eq in Hk0. subst k.
  exists (nlen pre'). split.
  - unfold toc_simple, parsed_toc. rewrite (toc_lookup _ _ t 0 Hlk). unfold rec_for. rewrite E2. reflexivity.
  - destruct (write_file_split secs) as (toc & Ew). cbn [body_bytes] in E1.
    exists pre', (post' ++ toc). split; [|reflexivity]. unfold bs. rewrite Ew, E1, <- !app_assoc. reflexivity.
Qed.

Lemma item_offsets_bound : forall items off, Forall (fun o => o <= off + nlen (concat items)) (item_offsets off items).
Proof.
  induction items as [|it r IH]; intros off; cbn [item_offsets concat]; [constructor|].
  rewrite nlen_app. constructor; [lia|]. eapply Forall_impl; [|apply IH]. intros o Ho. simpl in Ho. lia.
Qed.

(** a compound section: (data, index) records, the offset table as loaded (kind 1) and the bytes in the file *)
Theorem written_compound : forall secs i t items k,
  nlen (write_file secs) < W32 -> secs_kinds_ok secs -> uniq_tags (map fst secs) = true ->
  nth_error secs i = Some (t, CompoundB items) -> lookup_tag t toc_tags = Some k ->
  exists doff,
    toc_compound (parsed_toc secs) t
    = ((doff, nlen (concat items)), (doff + nlen (concat items), 4 * nlen items), if k =? 1 then item_offsets doff items else [])
    /\ has (write_file secs) doff (concat items ++ concat (map be32 (item_offsets doff items))).
Proof.
  intros secs i t items k Hlt Hk Hu Hn Hlk. set (bs := write_file secs) in *.
  destruct (layout_nth_lookup secs 0 i t _ Hu Hn) as (pre' & post' & E1 & E2). rewrite N.add_0_l in *.
  destruct (write_file_split secs) as (toc & Ew). cbn [body_bytes body_rec] in E1, E2.
  set (idx := concat (map be32 (item_offsets (nlen pre') items))) in *.
  assert (Hhas : has bs (nlen pre') (concat items ++ idx)).
  { exists pre', (post' ++ toc). split; [|reflexivity]. unfold bs. rewrite Ew, E1, <- !app_assoc. reflexivity. }
  exists (nlen pre'). cbv zeta. split; [|exact Hhas].
  unfold toc_compound, parsed_toc. rewrite (toc_lookup _ _ t k Hlk). unfold rec_for. rewrite E2. cbn [view_rec].
  destruct (k =? 1) eqn:E1k; [|reflexivity]. f_equal.
  apply has_app in Hhas. destruct Hhas as (_ & Hidx).
  assert (Hil : nlen idx = 4 * nlen items).
  { unfold idx, nlen. rewrite concat_be32_len, item_offsets_len. lia. }
  pose proof (has_bound _ _ _ Hidx) as Hb. fold bs in Hb.
  pose proof (has_read _ _ _ Hlt Hidx) as Hr. fold bs in Hr. rewrite Hil in Hr, Hb.
  rewrite (file_read_in bs _ _ Hlt Hb) in Hr.
  assert (Hr' : firstn (N.to_nat (4 * nlen items)) (skipn (N.to_nat (nlen pre' + nlen (concat items))) bs) = idx) by congruence.
  fold bs. rewrite Hr'.
  unfold idx. apply words4_be32.
  eapply Forall_impl; [|apply item_offsets_bound]. intros o Ho. simpl in Ho. lia.
Qed.
