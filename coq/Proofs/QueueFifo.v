(** C30: sequence numbers follow the order of enqueue events.  An item keeps its sequence number while it stays on
    the heap, and an item that enters the heap gets a number larger than that of every item already there.  With
    pop_fifo (smaller number first inside a priority class) this is first-in first-out by time of enqueue. *)
From ZV Require Import Lib.Base Model.Queue Proofs.QueueHeap Proofs.QueueMap Proofs.QueueInv Proofs.QueueOps Proofs.QueueSpec Proofs.QueueHistory.
Local Open Scope Z_scope.

Definition seqof (q : queue) (id : N) : Z := it_seq (item_of (q_items q) id).

Lemma seq_of_erase_one m m' k :
  option_map erase (get k m') = option_map erase (get k m) -> it_seq (item_of m' k) = it_seq (item_of m k).
Proof.
  intro E. unfold item_of.
  destruct (get k m') as [x'|], (get k m) as [x|]; simpl in E; try discriminate; [|reflexivity].
  assert (H1 : erase x' = erase x) by congruence. apply (f_equal it_seq) in H1. exact H1.
Qed.

Lemma seq_of_erase m m' k :
  (forall id, option_map erase (get id m') = option_map erase (get id m)) ->
  it_seq (item_of m' k) = it_seq (item_of m k).
Proof. intro E. apply seq_of_erase_one. apply E. Qed.

Lemma seq_frame q q' k : frame q q' -> seqof q' k = seqof q k.
Proof. intro F. unfold seqof. apply seq_of_erase. apply (fr_items _ _ F). Qed.

Lemma seq_modify q id f k : keeps_id f -> keeps_seq f -> seqof (q_modify q id f) k = seqof q k.
Proof.
  intros Hf Hs. unfold seqof, item_of. simpl. rewrite get_modify by exact Hf.
  destruct (N.eqb k id); [|reflexivity]. destruct (get k (q_items q)); simpl; [apply Hs|reflexivity].
Qed.

Lemma seq_get_or_add q id k : seqof (get_or_add q id) k = seqof q k.
Proof.
  unfold get_or_add. destruct (get id (q_items q)) eqn:G; [reflexivity|].
  unfold seqof, item_of. simpl. rewrite get_app. destruct (get k (q_items q)) eqn:Gk; [reflexivity|].
  simpl. destruct (N.eqb id k); reflexivity.
Qed.

Lemma seq_enqueue q id x : inv q -> get id (q_items q) = Some x -> it_hidx x = (-1)%Z ->
  seqof (enqueue q id) id = q_seq q + 1 /\ (forall k, k <> id -> seqof (enqueue q id) k = seqof q k) /\
  q_seq (enqueue q id) = q_seq q + 1.
Proof.
  intros I G Hx. pose proof (inv_enqueue q id x I G Hx) as En.
  assert (E : forall k, seqof (enqueue q id) k = it_seq (item_of (modify id (set_seq (q_seq q + 1)) (q_items q)) k)).
  { intro k. unfold seqof. apply seq_of_erase. apply (en_items _ _ _ En). }
  split; [|split; [|apply (en_seq _ _ _ En)]].
  - rewrite E. unfold item_of. rewrite get_modify by (intro; reflexivity). rewrite N.eqb_refl, G. reflexivity.
  - intros k Hk. rewrite E. unfold seqof, item_of. rewrite get_modify by (intro; reflexivity).
    apply N.eqb_neq in Hk. rewrite Hk. reflexivity.
Qed.

(** the sequence number of a tracked item never exceeds q.seq *)
Lemma seq_le q id : inv q -> on_heap q id -> seqof q id <= q_seq q.
Proof.
  intros I H. destruct (on_heap_get q id (inv_shape _ I) H) as (x & G & _).
  unfold seqof. rewrite (item_of_get _ _ _ G). apply (sq1 _ (inv_seq _ I) id x G).
Qed.

(** what one operation does to the sequence numbers *)
Record seq_step (q q' : queue) : Prop := {
  ss_keep : forall id, on_heap q id -> on_heap q' id -> seqof q' id = seqof q id;
  ss_new : forall id, ~ on_heap q id -> on_heap q' id -> q_seq q < seqof q' id;
  ss_mono : q_seq q <= q_seq q'
}.

Lemma seq_step_same q q' :
  (forall id, seqof q' id = seqof q id) -> (forall id, on_heap q' id -> on_heap q id) -> q_seq q' = q_seq q -> seq_step q q'.
Proof. intros A B C. split; [intros; apply A | intros id Hn H; exfalso; auto | lia]. Qed.

Lemma add_seq q now o : inv q -> seq_step q (add_or_update q now o).
Proof.
  intro I. rewrite add_or_update_unfold. cbv zeta.
  set (id := o_repo o). destruct (inv_get_or_add q id I) as (I1 & (x1 & G1) & On1).
  set (q1 := get_or_add q id) in *.
  set (g := if opts_eqb (it_opts (item_of (q_items q1) id)) o then (fun x => x) else upd_opts o).
  assert (Hg : keeps_id g /\ keeps_hidx g /\ keeps_seq g).
  { unfold g. destruct (opts_eqb (it_opts (item_of (q_items q1) id)) o); repeat split; intro; reflexivity. }
  destruct Hg as (Hg1 & Hg2 & Hg3).
  pose proof (item_of_modify_same q1 id g x1 Hg1 G1) as G2.
  rewrite (item_of_get _ _ _ G2). rewrite Hg2.
  destruct (inv_modify_fix q1 id g x1 I1 G1 Hg1 Hg2 Hg3) as [A B].
  assert (S2 : forall k, seqof (q_modify q1 id g) k = seqof q k).
  { intro k. rewrite seq_modify by assumption. apply seq_get_or_add. }
  assert (On2 : forall k, on_heap (q_modify q1 id g) k <-> on_heap q k) by (intro k; rewrite on_heap_modify; apply On1).
  assert (Q2 : q_seq (q_modify q1 id g) = q_seq q).
  { unfold q1, get_or_add. destruct (get id (q_items q)); reflexivity. }
  destruct (it_hidx x1 <? 0)%Z eqn:E.
  - apply Z.ltb_lt in E. specialize (A E).
    destruct (allow (g x1) now).
    + assert (Hx : it_hidx (g x1) = (-1)%Z) by (rewrite Hg2; destruct (shape_hidx_cases q1 id x1 (inv_shape _ I1) G1); lia).
      destruct (seq_enqueue _ id (g x1) A G2 Hx) as (E1 & E2 & E3).
      pose proof (inv_enqueue _ id (g x1) A G2 Hx) as En.
      assert (Hoff : ~ on_heap q id).
      { intro H. apply On2 in H. revert H. eapply shape_not_on_heap; [apply (inv_shape _ A)|exact G2|exact Hx]. }
      split.
      * intros k Hk _. rewrite E2, S2; [reflexivity|]. intros ->. contradiction.
      * intros k Hn Hk. apply (en_on _ _ _ En) in Hk. destruct Hk as [Hk| ->]; [apply On2 in Hk; contradiction|].
        rewrite E1, Q2. lia.
      * rewrite E3, Q2. lia.
    + apply seq_step_same; [exact S2|intros k; apply On2|exact Q2].
  - apply Z.ltb_ge in E. destruct (B E) as [_ Kp].
    apply seq_step_same.
    + intro k. rewrite (seq_frame _ _ k (kp_frame _ _ _ Kp)). apply S2.
    + intros k Hk. apply (kp_heap _ _ _ Kp) in Hk. apply On2. exact Hk.
    + rewrite (fr_seq _ _ (kp_frame _ _ _ Kp)). exact Q2.
Qed.

Lemma bump_seq now ids : forall q, inv q -> seq_step q (fst (bump q now ids)).
Proof.
  induction ids as [|id r IH]; intros q I; simpl.
  - apply seq_step_same; auto.
  - destruct (get id (q_items q)) as [x|] eqn:G.
    + destruct ((it_hidx x <? 0)%Z && allow x now) eqn:E; [|apply IH; exact I].
      apply Bool.andb_true_iff in E. destruct E as [E _]. apply Z.ltb_lt in E.
      assert (Hx : it_hidx x = (-1)%Z) by (destruct (shape_hidx_cases q id x (inv_shape _ I) G); lia).
      pose proof (inv_enqueue q id x I G Hx) as En.
      destruct (seq_enqueue q id x I G Hx) as (E1 & E2 & E3).
      assert (Hoff : ~ on_heap q id) by (eapply shape_not_on_heap; [apply (inv_shape _ I)|exact G|exact Hx]).
      destruct (IH (enqueue q id) (en_inv _ _ _ En)) as [K1 K2 K3].
      split.
      * intros k Hk Hk'. rewrite K1; [|apply (en_on _ _ _ En); left; exact Hk|exact Hk'].
        apply E2. intros ->. contradiction.
      * intros k Hn Hk'. destruct (N.eq_dec k id) as [->|Hne].
        -- rewrite K1; [rewrite E1; lia|apply (en_on _ _ _ En); right; reflexivity|exact Hk'].
        -- assert (Hn' : ~ on_heap (enqueue q id) k).
           { intro H. apply (en_on _ _ _ En) in H. destruct H; contradiction. }
           specialize (K2 k Hn' Hk'). rewrite E3 in K2. lia.
      * rewrite E3 in K3. lia.
    + specialize (IH q I). destruct (bump q now r) as [q' miss]. exact IH.
Qed.

Lemma set_indexed_seq q now o st : inv q -> seq_step q (set_indexed_op q now o st).
Proof.
  intro I. pose proof (set_indexed_on_heap q now o st) as On.
  assert (Hsame : (forall k, seqof (set_indexed_op q now o st) k = seqof q k) /\ q_seq (set_indexed_op q now o st) = q_seq q).
  { unfold set_indexed_op. set (id := o_repo o).
    destruct (inv_get_or_add q id I) as (I1 & (x1 & G1) & On1).
    set (q1 := get_or_add q id) in *.
    assert (Q1 : q_seq q1 = q_seq q) by (unfold q1, get_or_add; destruct (get id (q_items q)); reflexivity).
    destruct (negb (N.eqb st st_fail)).
    - rewrite q_modify_modify by auto.
      set (g := fun x => bo_reset (set_indexed (opts_eqb o (it_opts (set_state st x))) (set_state st x))).
      assert (Hg1 : keeps_id g) by (intro; reflexivity).
      assert (Hg2 : keeps_hidx g) by (intro; reflexivity).
      assert (Hg3 : keeps_seq g) by (intro; reflexivity).
      pose proof (item_of_modify_same q1 id g x1 Hg1 G1) as G2.
      rewrite (item_of_get _ _ _ G2). rewrite Hg2.
      destruct (inv_modify_fix q1 id g x1 I1 G1 Hg1 Hg2 Hg3) as [A B].
      destruct (0 <=? it_hidx x1)%Z eqn:E.
      + apply Z.leb_le in E. destruct (B E) as [_ Kp]. split.
        * intro k. rewrite (seq_frame _ _ k (kp_frame _ _ _ Kp)), seq_modify by assumption. apply seq_get_or_add.
        * rewrite (fr_seq _ _ (kp_frame _ _ _ Kp)). exact Q1.
      + split; [|exact Q1]. intro k. rewrite seq_modify by assumption. apply seq_get_or_add.
    - rewrite q_modify_modify by auto.
      change (q_cfg (q_modify q1 id (set_state st))) with (q_cfg q1).
      set (g := fun x => bo_fail (q_cfg q1) now (set_state st x)).
      destruct (keeps_bo_fail (q_cfg q1) now) as (K1 & K2 & K3).
      assert (Hg1 : keeps_id g) by (intro x; unfold g; rewrite K1; reflexivity).
      assert (Hg2 : keeps_hidx g) by (intro x; unfold g; rewrite K2; reflexivity).
      assert (Hg3 : keeps_seq g) by (intro x; unfold g; rewrite K3; reflexivity).
      pose proof (item_of_modify_same q1 id g x1 Hg1 G1) as G2.
      rewrite (item_of_get _ _ _ G2). rewrite Hg2.
      destruct (0 <=? it_hidx x1)%Z eqn:E.
      + apply Z.leb_le in E.
        destruct (inv_modify_remove q1 id g x1 I1 G1 E Hg1 Hg2 Hg3) as [_ R]. split.
        * intro k. rewrite seq_modify by (intro; reflexivity).
          rewrite (seq_frame _ _ k (ro_frame _ _ _ R)), seq_modify by assumption. apply seq_get_or_add.
        * change (q_seq (q_modify ?X id (set_hidx (-1)%Z))) with (q_seq X).
          rewrite (fr_seq _ _ (ro_frame _ _ _ R)). exact Q1.
      + split; [|exact Q1]. intro k. rewrite seq_modify by assumption. apply seq_get_or_add. }
  destruct Hsame as [S Q]. apply seq_step_same; [exact S| |exact Q].
  intros k Hk. apply (On k I). exact Hk.
Qed.

Lemma pop_seq q : inv q -> seq_step q (fst (pop q)).
Proof.
  intro I. unfold pop. destruct (q_pq q) as [|a l] eqn:E; [apply seq_step_same; auto|].
  pose proof (pq_len_pos q a l E) as Hl.
  destruct (h_pop_ok q (inv_shape _ I) Hl (inv_heap _ I)) as [_ R].
  destruct (h_pop q) as [q' id]. simpl in *. apply seq_step_same.
  - intro k. apply (seq_frame _ _ k (ro_frame _ _ _ R)).
  - intros k Hk. apply (ro_on _ _ _ R) in Hk. tauto.
  - apply (fr_seq _ _ (ro_frame _ _ _ R)).
Qed.

Lemma remove_missing_seq q ids : inv q -> seq_step q (fst (remove_missing q ids)).
Proof.
  intro I. unfold remove_missing, remove_missing_gen.
  destruct (length (q_items q) =? length ids)%nat; [apply seq_step_same; auto|].
  pose proof (rm_loop_spec ids (keys (q_items q)) q [] I eq_refl) as [R1 R2 R3 R4 R5 R6 R7].
  destruct (rm_loop it_id ids q (keys (q_items q))) as [q' rem]. simpl in *.
  split.
  - intros k Hk Hk'. apply R4 in Hk'. destruct Hk' as [_ Hn]. unfold seqof. apply seq_of_erase_one. exact (R5 k Hn).
  - intros k Hn Hk'. apply R4 in Hk'. tauto.
  - lia.
Qed.

Lemma step_seq q now o : inv q -> seq_step q (fst (step q now o)).
Proof.
  intro I. destruct o; simpl.
  - apply add_seq; exact I.
  - pose proof (pop_seq q I) as H. destruct (pop q). exact H.
  - pose proof (bump_seq now ids q I) as H. destruct (bump q now ids). exact H.
  - apply set_indexed_seq; exact I.
  - pose proof (remove_missing_seq q ids I) as H. unfold remove_missing in H. destruct (remove_missing_gen it_id q ids). exact H.
  - apply seq_step_same; auto.
  - apply seq_step_same; auto.
Qed.

(** an item entering the heap gets a sequence number above that of every item already waiting *)
Theorem enqueue_after_all_waiting q now o id id' : inv q ->
  let q' := fst (step q now o) in
  ~ on_heap q id -> on_heap q' id -> on_heap q id' -> on_heap q' id' -> seqof q' id' < seqof q' id.
Proof.
  intros I q' Hn Hon Hw Hw'. destruct (step_seq q now o I) as [K1 K2 _]. fold q' in K1, K2.
  pose proof (K1 id' Hw Hw') as E. pose proof (seq_le q id' I Hw). specialize (K2 id Hn Hon). lia.
Qed.

(** a repository without events in a stretch of history stays on the heap with its sequence number *)
Lemma no_event_stays id q now o : inv q -> on_heap q id -> step_event id q now o = [] -> on_heap (fst (step q now o)) id.
Proof.
  intros I Hon He. destruct o; unfold step_event in He;
    try (apply onb_on_heap in Hon; rewrite Hon in He; simpl in He;
         match type of He with (if negb ?b then _ else _) = _ => destruct b eqn:B; [apply onb_on_heap; exact B|discriminate] end).
  rewrite step_pop_fst. pose proof (pop_step q I) as P. destruct (pop_id q) as [i|].
  - destruct P as [_ Hq']. apply Hq'. split; [exact Hon|]. intros ->. rewrite N.eqb_refl in He. discriminate.
  - destruct P as [P _]. rewrite step_pop_fst in P. rewrite P. exact Hon.
Qed.

Lemma quiet_stretch id : forall h q, inv q -> on_heap q id -> events id q h = [] ->
  on_heap (run q h) id /\ seqof (run q h) id = seqof q id.
Proof.
  induction h as [|[now o] r IH]; intros q I Hon He; simpl; [split; [exact Hon|reflexivity]|].
  simpl in He. apply app_eq_nil in He. destruct He as [He1 He2].
  pose proof (no_event_stays id q now o I Hon He1) as Hon'.
  destruct (IH (fst (step q now o)) (inv_step q now o I) Hon' He2) as [A B].
  split; [exact A|]. rewrite B. apply (ss_keep _ _ (step_seq q now o I)); assumption.
Qed.

(** first-in first-out by time of enqueue: id2 enters the heap in a step during which id1 is already waiting; as long
    as neither of them has an event afterwards, id1 carries the smaller sequence number *)
Theorem enqueue_order_is_seq_order q now o h id1 id2 : inv q ->
  let q1 := fst (step q now o) in
  on_heap q id1 -> on_heap q1 id1 -> ~ on_heap q id2 -> on_heap q1 id2 ->
  events id1 q1 h = [] -> events id2 q1 h = [] ->
  on_heap (run q1 h) id1 /\ on_heap (run q1 h) id2 /\ seqof (run q1 h) id1 < seqof (run q1 h) id2.
Proof.
  intros I q1 H1 H1' H2 H2' E1 E2.
  pose proof (inv_step q now o I) as I1. fold q1 in I1.
  destruct (quiet_stretch id1 h q1 I1 H1' E1) as [A1 B1].
  destruct (quiet_stretch id2 h q1 I1 H2' E2) as [A2 B2].
  split; [exact A1|]. split; [exact A2|]. rewrite B1, B2.
  apply (enqueue_after_all_waiting q now o id2 id1 I); assumption.
Qed.
