(** Every queue operation preserves the invariant (shape + heap order + sequence numbers). *)
From ZV Require Import Lib.Base Model.Queue Proofs.QueueHeap Proofs.QueueMap Proofs.QueueInv.

From Coq Require Import Permutation.
Lemma NoDup_snoc {A} (l : list A) x : NoDup l -> ~ In x l -> NoDup (l ++ [x]).
Proof. intros H Hn. apply (Permutation_NoDup (l := x :: l)); [apply Permutation_cons_append | constructor; auto]. Qed.

Definition q_ordered_hole_after_change := ordered_hole_after_change pq_len pq_less pq_swap qval lt_prio q_less_val q_len_swap qval_swap lt_prio_le_trans.
Definition q_ordered_hole := ordered_hole pq_len pq_less pq_swap qval lt_prio q_less_val q_len_swap qval_swap lt_prio_le_trans.

Record seq_ok (q : queue) : Prop := {
  sq0 : (0 <= q_seq q)%Z;
  sq1 : forall id x, get id (q_items q) = Some x -> (it_seq x <= q_seq q)%Z;
  sq2 : forall id1 id2, on_heap q id1 -> on_heap q id2 ->
        it_seq (item_of (q_items q) id1) = it_seq (item_of (q_items q) id2) -> id1 = id2
}.
Record inv (q : queue) : Prop := { inv_shape : shape q; inv_heap : heap_ordered q; inv_seq : seq_ok q }.

Lemma inv_init bd mx : inv (new_queue bd mx).
Proof.
  split.
  - split; simpl.
    + constructor.
    + intros k Hk. unfold pq_len in Hk. simpl in Hk. lia.
    + intros id x G. discriminate.
  - intros c Hc. unfold pq_len in Hc. simpl in Hc. lia.
  - split; simpl; [lia | discriminate |].
    intros id1 id2 (k & Hk & _). unfold pq_len in Hk. simpl in Hk. lia.
Qed.

Lemma seq_ok_frame q q' : seq_ok q -> frame q q' -> (forall id, on_heap q' id -> on_heap q id) -> seq_ok q'.
Proof.
  intros [S0 S1 S2] F Hon. split.
  - rewrite (fr_seq _ _ F). exact S0.
  - intros id x' G. rewrite (fr_seq _ _ F). pose proof (fr_items _ _ F id) as H. rewrite G in H.
    destruct (get id (q_items q)) as [x|] eqn:Gx; simpl in H; [|discriminate].
    assert (E : erase x' = erase x) by congruence.
    apply (f_equal it_seq) in E. simpl in E. rewrite E. eapply S1. exact Gx.
  - intros id1 id2 H1 H2 E. apply S2; auto.
    rewrite <- !(frame_item_of q q' _ it_seq F) by reflexivity. exact E.
Qed.

Lemma inv_transfer q q' :
  seq_ok q -> shape q' -> heap_ordered q' -> frame q q' -> (forall id, on_heap q' id -> on_heap q id) -> inv q'.
Proof. intros Sq Sh Ho F Hon. split; auto. eapply seq_ok_frame; eauto. Qed.

(** * modifying one item *)
Definition keeps_seq (f : item -> item) : Prop := forall x, it_seq (f x) = it_seq x.
Definition keeps_hidx (f : item -> item) : Prop := forall x, it_hidx (f x) = it_hidx x.

Lemma shape_modify q id f :
  keeps_id f -> (forall x, get id (q_items q) = Some x -> it_hidx (f x) = it_hidx x) ->
  shape q -> shape (q_modify q id f).
Proof.
  intros Hf Hh Sh. split.
  - simpl. rewrite keys_modify by auto. apply (sh_nodup _ Sh).
  - intros k Hk. change (pq_len (q_modify q id f)) with (pq_len q) in Hk.
    change (pq_at (q_modify q id f) k) with (pq_at q k). simpl. rewrite get_modify by auto.
    destruct (sh_idx1 _ Sh k Hk) as (x & G & I). rewrite G.
    destruct (N.eqb (pq_at q k) id) eqn:E; simpl; eexists; split; try reflexivity; [|exact I].
    apply N.eqb_eq in E. rewrite E in G. rewrite (Hh x G). exact I.
  - intros id' x G. change (pq_len (q_modify q id f)) with (pq_len q).
    change (pq_at (q_modify q id f)) with (pq_at q). simpl in G. rewrite get_modify in G by auto.
    destruct (N.eqb id' id) eqn:E.
    + apply N.eqb_eq in E. subst id'. pose proof (sh_idx2 _ Sh id) as H2.
      destruct (get id (q_items q)) as [y|]; simpl in G; inversion G; subst x.
      rewrite (Hh y eq_refl). apply H2. reflexivity.
    + apply (sh_idx2 _ Sh). exact G.
Qed.

Lemma qval_modify_other q id f k : keeps_id f -> pq_at q k <> id -> qval (q_modify q id f) k = qval q k.
Proof.
  intros Hf Hne. unfold qval, item_of. change (pq_at (q_modify q id f) k) with (pq_at q k). simpl.
  rewrite get_modify by auto. apply N.eqb_neq in Hne. rewrite Hne. reflexivity.
Qed.

Lemma on_heap_modify q id f id' : on_heap (q_modify q id f) id' <-> on_heap q id'.
Proof. reflexivity. Qed.

Lemma seq_ok_modify q id f : keeps_id f -> keeps_seq f -> seq_ok q -> seq_ok (q_modify q id f).
Proof.
  intros Hf Hs [S0 S1 S2]. split; [exact S0 | |].
  - intros id' x G. simpl in *. rewrite get_modify in G by auto.
    destruct (N.eqb id' id); [|eapply S1; exact G].
    destruct (get id' (q_items q)) as [y|] eqn:Gy; simpl in G; inversion G; subst x.
    rewrite Hs. eapply S1. exact Gy.
  - intros id1 id2 H1 H2 E. apply S2; auto.
    assert (Hi : forall k, it_seq (item_of (q_items (q_modify q id f)) k) = it_seq (item_of (q_items q) k)).
    { intro k. unfold item_of. simpl. rewrite get_modify by auto. destruct (N.eqb k id); [|reflexivity].
      destruct (get k (q_items q)); simpl; [apply Hs | reflexivity]. }
    rewrite <- !Hi. exact E.
Qed.

Lemma inv_modify_off q id f :
  inv q -> ~ on_heap q id -> keeps_id f -> (forall x, get id (q_items q) = Some x -> it_hidx (f x) = it_hidx x) ->
  keeps_seq f -> inv (q_modify q id f).
Proof.
  intros [Sh Ho Sq] Hoff Hf Hh Hs. split.
  - apply shape_modify; auto.
  - intros c Hc. change (pq_len (q_modify q id f)) with (pq_len q) in Hc.
    assert (parent c < c) by (apply parent_lt; lia).
    rewrite !qval_modify_other; auto; try (intro E; apply Hoff; eexists; split; [|exact E]; lia).
  - apply seq_ok_modify; auto.
Qed.

Lemma modify_on_hole q id f x :
  shape q -> heap_ordered q -> get id (q_items q) = Some x -> (0 <= it_hidx x)%Z -> keeps_id f ->
  hole_inv lt_prio (qval (q_modify q id f)) (pq_len q) (Z.to_nat (it_hidx x)).
Proof.
  intros Sh Ho G H0 Hf.
  destruct (shape_on_heap_hidx q id x Sh G H0) as [Hlt Hat].
  apply (q_ordered_hole_after_change (qval q)); [exact Ho|].
  intros k Hk Hne. apply qval_modify_other; auto.
  intro E. rewrite <- Hat in E. apply (shape_pq_inj q _ _ Sh Hk Hlt) in E. contradiction.
Qed.

Lemma inv_modify_fix q id f x :
  inv q -> get id (q_items q) = Some x -> keeps_id f -> keeps_hidx f -> keeps_seq f ->
  ((it_hidx x < 0)%Z -> inv (q_modify q id f)) /\
  ((0 <= it_hidx x)%Z -> inv (h_fix (q_modify q id f) (Z.to_nat (it_hidx x))) /\
                         keep (q_modify q id f) (pq_len q) (h_fix (q_modify q id f) (Z.to_nat (it_hidx x)))).
Proof.
  intros I G Hf Hh Hs. pose proof I as [Sh Ho Sq]. split.
  - intro Hneg. apply inv_modify_off; auto.
    destruct (shape_hidx_cases q id x Sh G) as [Hm|Hp]; [|lia]. eapply shape_not_on_heap; eauto.
  - intro H0. destruct (shape_on_heap_hidx q id x Sh G H0) as [Hlt Hat].
    assert (Sh2 : shape (q_modify q id f)) by (apply shape_modify; auto).
    destruct (h_fix_ok (q_modify q id f) (Z.to_nat (it_hidx x)) Sh2 Hlt) as [F1 F2].
    { exact (modify_on_hole q id f x Sh Ho G H0 Hf). }
    split; [|exact F2].
    apply (inv_transfer (q_modify q id f)); auto.
    + apply seq_ok_modify; auto.
    + apply (kp_shape _ _ _ F2).
    + apply (kp_frame _ _ _ F2).
    + intro id'. apply (kp_heap _ _ _ F2).
Qed.

Lemma inv_modify_remove q id f x :
  inv q -> get id (q_items q) = Some x -> (0 <= it_hidx x)%Z -> keeps_id f -> keeps_hidx f -> keeps_seq f ->
  let q' := fst (h_remove (q_modify q id f) (Z.to_nat (it_hidx x))) in
  inv q' /\ removed_ok (q_modify q id f) q' id.
Proof.
  intros I G H0 Hf Hh Hs q'. pose proof I as [Sh Ho Sq].
  destruct (shape_on_heap_hidx q id x Sh G H0) as [Hlt Hat].
  assert (Sh2 : shape (q_modify q id f)) by (apply shape_modify; auto).
  destruct (h_remove_ok (q_modify q id f) (Z.to_nat (it_hidx x)) Sh2 Hlt) as [_ R].
  { exact (modify_on_hole q id f x Sh Ho G H0 Hf). }
  change (pq_at (q_modify q id f) (Z.to_nat (it_hidx x))) with (pq_at q (Z.to_nat (it_hidx x))) in R.
  rewrite Hat in R. split; [|exact R].
  apply (inv_transfer (q_modify q id f)).
  - apply seq_ok_modify; auto.
  - apply (ro_shape _ _ _ R).
  - apply (ro_heap _ _ _ R).
  - apply (ro_frame _ _ _ R).
  - intros id' H. apply (ro_on _ _ _ R) in H. tauto.
Qed.

Lemma modify_id id m : modify id (fun x => x) m = m.
Proof. unfold modify. rewrite <- (map_id m) at 2. apply map_ext. intro a. destruct (N.eqb (it_id a) id); reflexivity. Qed.
Lemma q_modify_id q id : q_modify q id (fun x => x) = q.
Proof. unfold q_modify, with_items. rewrite modify_id. destruct q; reflexivity. Qed.
Lemma modify_modify id f g m : keeps_id f -> modify id g (modify id f m) = modify id (fun x => g (f x)) m.
Proof.
  intro Hf. unfold modify. rewrite map_map. apply map_ext. intro a.
  destruct (N.eqb (it_id a) id) eqn:E; [rewrite Hf, E | rewrite E]; reflexivity.
Qed.
Lemma q_modify_modify q id f g : keeps_id f -> q_modify (q_modify q id f) id g = q_modify q id (fun x => g (f x)).
Proof. intro Hf. unfold q_modify, with_items. simpl. rewrite modify_modify by auto. reflexivity. Qed.

(** * getOrAdd *)
Lemma inv_get_or_add q id :
  inv q -> inv (get_or_add q id) /\ (exists x, get id (q_items (get_or_add q id)) = Some x) /\
  (forall id', on_heap (get_or_add q id) id' <-> on_heap q id').
Proof.
  intros I. pose proof I as [Sh Ho [S0 S1 S2]]. unfold get_or_add.
  destruct (get id (q_items q)) as [x|] eqn:G; [split; [exact I | split; [eauto | tauto]]|].
  assert (Hg : forall k y, get k (q_items q) = Some y -> get k (q_items q ++ [new_item id]) = Some y).
  { intros k y Gk. rewrite get_app, Gk. reflexivity. }
  assert (Hio : forall k, k < pq_len q -> item_of (q_items q ++ [new_item id]) (pq_at q k) = item_of (q_items q) (pq_at q k)).
  { intros k Hk. destruct (sh_idx1 _ Sh k Hk) as (y & Gy & _). unfold item_of. rewrite (Hg _ _ Gy), Gy. reflexivity. }
  split; [|split; [|tauto]].
  - split.
    + split.
      * simpl. unfold keys. rewrite map_app. simpl. apply NoDup_snoc; [apply (sh_nodup _ Sh) | apply get_none_keys; exact G].
      * intros k Hk. destruct (sh_idx1 _ Sh k Hk) as (y & Gy & Iy). exists y. split; [apply Hg; exact Gy | exact Iy].
      * intros id' y Gy. simpl in Gy. rewrite get_app in Gy.
        destruct (get id' (q_items q)) as [z|] eqn:Gz.
        { inversion Gy; subst z. apply (sh_idx2 _ Sh). exact Gz. }
        simpl in Gy. destruct (N.eqb id id'); inversion Gy. left. reflexivity.
    + intros c Hc. change (pq_len (with_items q (q_items q ++ [new_item id]))) with (pq_len q) in Hc.
      assert (parent c < c) by (apply parent_lt; lia).
      unfold qval. change (pq_at (with_items q (q_items q ++ [new_item id]))) with (pq_at q). simpl q_items.
      rewrite !Hio by lia. apply Ho. exact Hc.
    + split; [exact S0 | |].
      * intros id' y Gy. simpl in Gy. rewrite get_app in Gy.
        destruct (get id' (q_items q)) as [z|] eqn:Gz.
        { inversion Gy; subst z. eapply S1. exact Gz. }
        simpl in Gy. destruct (N.eqb id id'); inversion Gy. simpl. exact S0.
      * intros id1 id2 H1 H2 E. apply S2; auto.
        destruct H1 as (k1 & Hk1 & E1). destruct H2 as (k2 & Hk2 & E2).
        change (pq_len (with_items q (q_items q ++ [new_item id]))) with (pq_len q) in *.
        change (pq_at (with_items q (q_items q ++ [new_item id]))) with (pq_at q) in *.
        subst id1 id2. simpl q_items in E. rewrite !Hio in E by assumption. exact E.
  - simpl. rewrite get_app, G. simpl. rewrite N.eqb_refl. eauto.
Qed.

(** * enqueue: q.seq++; item.seq = q.seq; heap.Push *)
Lemma shape_ext q q' : q_items q' = q_items q -> q_pq q' = q_pq q -> shape q -> shape q'.
Proof. destruct q, q'; simpl. intros -> -> Sh. destruct Sh as [A B C]. split; [exact A | exact B | exact C]. Qed.
Lemma heap_ordered_ext q q' : q_items q' = q_items q -> q_pq q' = q_pq q -> heap_ordered q -> heap_ordered q'.
Proof. destruct q, q'; simpl. intros -> -> H. exact H. Qed.

Lemma on_heap_get q id : shape q -> on_heap q id -> exists x, get id (q_items q) = Some x /\ (0 <= it_hidx x)%Z.
Proof.
  intros Sh (k & Hk & E). destruct (sh_idx1 _ Sh k Hk) as (x & G & I). rewrite E in G. exists x. split; [exact G | lia].
Qed.

Record enqueued (q q' : queue) (id : N) : Prop := {
  en_inv : inv q';
  en_on : forall id', on_heap q' id' <-> on_heap q id' \/ id' = id;
  en_keys : keys (q_items q') = keys (q_items q);
  en_seq : q_seq q' = (q_seq q + 1)%Z;
  en_cfg : q_cfg q' = q_cfg q;
  en_items : forall id', option_map erase (get id' (q_items q')) =
                         option_map erase (get id' (modify id (set_seq (q_seq q + 1)%Z) (q_items q)))
}.

Lemma inv_enqueue q id x :
  inv q -> get id (q_items q) = Some x -> it_hidx x = (-1)%Z -> enqueued q (enqueue q id) id.
Proof.
  intros [Sh Ho [S0 S1 S2]] G Hx.
  pose proof (shape_not_on_heap q id x Sh G Hx) as Hoff.
  set (s := (q_seq q + 1)%Z).
  set (q2 := q_modify q id (set_seq s)).
  set (q1 := {| q_cfg := q_cfg q; q_items := modify id (set_seq s) (q_items q); q_pq := q_pq q; q_seq := s |}).
  assert (Sh2 : shape q2) by (apply shape_modify; auto).
  assert (Ho2 : heap_ordered q2).
  { intros c Hc. change (pq_len q2) with (pq_len q) in Hc. assert (parent c < c) by (apply parent_lt; lia).
    unfold q2. rewrite !qval_modify_other; auto; try (intro E; apply Hoff; eexists; split; [|exact E]; lia). }
  assert (Sh1 : shape q1) by (apply (shape_ext q2); auto).
  assert (Ho1 : heap_ordered q1) by (apply (heap_ordered_ext q2); auto).
  assert (G1 : get id (q_items q1) = Some (set_seq s x)).
  { simpl. rewrite get_modify by auto. rewrite N.eqb_refl, G. reflexivity. }
  pose proof (h_push_ok q1 id (set_seq s x) Sh1 Ho1 G1 Hx) as P.
  change (enqueue q id) with (h_push q1 id).
  set (q' := h_push q1 id) in *.
  pose proof (po_frame _ _ _ P) as F.
  assert (Hseq1 : forall k, it_seq (item_of (q_items q1) k) = if N.eqb k id then s else it_seq (item_of (q_items q) k)).
  { intro k. unfold item_of. simpl. rewrite get_modify by auto. destruct (N.eqb k id) eqn:E; [|reflexivity].
    apply N.eqb_eq in E. subst k. rewrite G. reflexivity. }
  split.
  - split; [apply (po_shape _ _ _ P) | apply (po_heap _ _ _ P) |]. split.
    + rewrite (fr_seq _ _ F). simpl. unfold s. lia.
    + intros id' y Gy. rewrite (fr_seq _ _ F). simpl.
      pose proof (fr_items _ _ F id') as H. rewrite Gy in H. simpl q_items in H. rewrite get_modify in H by auto.
      destruct (N.eqb id' id) eqn:E.
      * destruct (get id' (q_items q)) as [z|]; simpl in H; [|discriminate].
        assert (E2 : erase y = erase (set_seq s z)) by congruence. apply (f_equal it_seq) in E2. simpl in E2. lia.
      * destruct (get id' (q_items q)) as [z|] eqn:Gz; simpl in H; [|discriminate].
        assert (E2 : erase y = erase z) by congruence. apply (f_equal it_seq) in E2. simpl in E2.
        pose proof (S1 _ _ Gz). unfold s. lia.
    + intros id1 id2 H1 H2 E.
      rewrite !(frame_item_of q1 q' _ it_seq F) in E by reflexivity. rewrite !Hseq1 in E.
      apply (po_on _ _ _ P) in H1, H2.
      assert (Hold : forall k, on_heap q1 k -> k <> id /\ (it_seq (item_of (q_items q) k) <= q_seq q)%Z).
      { intros k Hk. change (on_heap q k) in Hk. split; [intro; subst; contradiction|].
        destruct (on_heap_get q k Sh Hk) as (y & Gy & _). rewrite (item_of_get _ _ _ Gy). eapply S1; eauto. }
      destruct H1 as [H1| ->], H2 as [H2| ->]; auto.
      * destruct (Hold _ H1) as [N1 _], (Hold _ H2) as [N2 _]. apply N.eqb_neq in N1, N2. rewrite N1, N2 in E.
        apply S2; auto.
      * destruct (Hold _ H1) as [N1 L1]. apply N.eqb_neq in N1. rewrite N1, N.eqb_refl in E. unfold s in E. lia.
      * destruct (Hold _ H2) as [N2 L2]. apply N.eqb_neq in N2. rewrite N2, N.eqb_refl in E. unfold s in E. lia.
  - intro id'. rewrite (po_on _ _ _ P). reflexivity.
  - rewrite (fr_keys _ _ F). simpl. apply keys_modify; auto.
  - rewrite (fr_seq _ _ F). reflexivity.
  - rewrite (fr_cfg _ _ F). reflexivity.
  - intro id'. apply (fr_items _ _ F).
Qed.

(** * AddOrUpdate *)
Lemma item_of_modify_same q id f x : keeps_id f -> get id (q_items q) = Some x ->
  get id (q_items (q_modify q id f)) = Some (f x).
Proof. intros Hf G. simpl. rewrite get_modify by auto. rewrite N.eqb_refl, G. reflexivity. Qed.

Definition upd_opts (o : opts) (x : item) : item := set_opts o (set_indexed false x).

Lemma add_or_update_unfold q now o :
  add_or_update q now o =
  let id := o_repo o in
  let q1 := get_or_add q id in
  let g := if opts_eqb (it_opts (item_of (q_items q1) id)) o then (fun x => x) else upd_opts o in
  let q2 := q_modify q1 id g in
  let x := item_of (q_items q2) id in
  if (it_hidx x <? 0)%Z then (if allow x now then enqueue q2 id else q2) else h_fix q2 (Z.to_nat (it_hidx x)).
Proof.
  unfold add_or_update. cbv zeta.
  destruct (opts_eqb (it_opts (item_of (q_items (get_or_add q (o_repo o))) (o_repo o))) o).
  - rewrite !q_modify_id. reflexivity.
  - reflexivity.
Qed.

Lemma inv_add_or_update q now o : inv q -> inv (add_or_update q now o).
Proof.
  intro I. rewrite add_or_update_unfold. cbv zeta.
  set (id := o_repo o). destruct (inv_get_or_add q id I) as (I1 & (x1 & G1) & _).
  set (q1 := get_or_add q id) in *.
  set (g := if opts_eqb (it_opts (item_of (q_items q1) id)) o then (fun x => x) else upd_opts o).
  assert (Hg : keeps_id g /\ keeps_hidx g /\ keeps_seq g).
  { unfold g. destruct (opts_eqb (it_opts (item_of (q_items q1) id)) o); repeat split; intro; reflexivity. }
  destruct Hg as (Hg1 & Hg2 & Hg3).
  pose proof (item_of_modify_same q1 id g x1 Hg1 G1) as G2.
  rewrite (item_of_get _ _ _ G2). rewrite Hg2.
  destruct (inv_modify_fix q1 id g x1 I1 G1 Hg1 Hg2 Hg3) as [A B].
  destruct (it_hidx x1 <? 0)%Z eqn:E.
  - apply Z.ltb_lt in E. specialize (A E).
    destruct (allow (g x1) now); [|exact A].
    apply (en_inv _ _ _ (inv_enqueue _ id (g x1) A G2 ltac:(rewrite Hg2; destruct (shape_hidx_cases q1 id x1 (inv_shape _ I1) G1); lia))).
  - apply Z.ltb_ge in E. apply (B E).
Qed.

(** * Pop *)
Lemma pq_len_pos q a l : q_pq q = a :: l -> 0 < pq_len q.
Proof. unfold pq_len. intros ->. simpl. lia. Qed.

Lemma inv_removed q q' id : seq_ok q -> removed_ok q q' id -> inv q'.
Proof.
  intros Sq R. apply (inv_transfer q); [exact Sq | apply R | apply R | apply R |].
  intros id' H. apply (ro_on _ _ _ R) in H. tauto.
Qed.

Lemma inv_pop q : inv q -> inv (fst (pop q)).
Proof.
  intro I. unfold pop. destruct (q_pq q) as [|a l] eqn:E; [exact I|].
  pose proof (pq_len_pos q a l E) as Hl.
  destruct (h_pop_ok q (inv_shape _ I) Hl (inv_heap _ I)) as [_ R].
  destruct (h_pop q) as [q' id]. simpl in *. eapply inv_removed; [apply (inv_seq _ I) | exact R].
Qed.

(** * Bump *)
Lemma inv_bump now ids : forall q, inv q -> inv (fst (bump q now ids)).
Proof.
  induction ids as [|id r IH]; intros q I; simpl; [exact I|].
  destruct (get id (q_items q)) as [x|] eqn:G.
  - destruct ((it_hidx x <? 0)%Z && allow x now) eqn:E; [|apply IH; exact I].
    apply Bool.andb_true_iff in E. destruct E as [E _]. apply Z.ltb_lt in E.
    apply IH. apply (en_inv _ _ _ (inv_enqueue q id x I G ltac:(destruct (shape_hidx_cases q id x (inv_shape _ I) G); lia))).
  - specialize (IH q I). destruct (bump q now r) as [q' miss]. exact IH.
Qed.

(** * SetIndexed *)
Lemma keeps_bo_fail c now : keeps_id (bo_fail c now) /\ keeps_hidx (bo_fail c now) /\ keeps_seq (bo_fail c now).
Proof. repeat split; intro x; unfold bo_fail; destruct ((it_cf x + 1) * c_bd c >? c_max c)%Z; reflexivity. Qed.

Lemma inv_set_indexed q now o st : inv q -> inv (set_indexed_op q now o st).
Proof.
  intro I. unfold set_indexed_op. set (id := o_repo o).
  destruct (inv_get_or_add q id I) as (I1 & (x1 & G1) & _).
  set (q1 := get_or_add q id) in *.
  destruct (negb (N.eqb st st_fail)).
  - rewrite q_modify_modify by auto.
    set (g := fun x => bo_reset (set_indexed (opts_eqb o (it_opts (set_state st x))) (set_state st x))).
    assert (Hg1 : keeps_id g) by (intro; reflexivity).
    assert (Hg2 : keeps_hidx g) by (intro; reflexivity).
    assert (Hg3 : keeps_seq g) by (intro; reflexivity).
    pose proof (item_of_modify_same q1 id g x1 Hg1 G1) as G2.
    rewrite (item_of_get _ _ _ G2). rewrite Hg2.
    destruct (inv_modify_fix q1 id g x1 I1 G1 Hg1 Hg2 Hg3) as [A B].
    destruct (0 <=? it_hidx x1)%Z eqn:E.
    + apply Z.leb_le in E. apply (B E).
    + apply Z.leb_gt in E. apply (A E).
  - rewrite q_modify_modify by auto.
    change (q_cfg (q_modify q1 id (set_state st))) with (q_cfg q1).
    set (g := fun x => bo_fail (q_cfg q1) now (set_state st x)).
    destruct (keeps_bo_fail (q_cfg q1) now) as (K1 & K2 & K3).
    assert (Hg1 : keeps_id g) by (intro x; unfold g; rewrite K1; reflexivity).
    assert (Hg2 : keeps_hidx g) by (intro x; unfold g; rewrite K2; reflexivity).
    assert (Hg3 : keeps_seq g) by (intro x; unfold g; rewrite K3; reflexivity).
    pose proof (item_of_modify_same q1 id g x1 Hg1 G1) as G2.
    rewrite (item_of_get _ _ _ G2). rewrite Hg2.
    destruct (0 <=? it_hidx x1)%Z eqn:E.
    + apply Z.leb_le in E.
      destruct (inv_modify_remove q1 id g x1 I1 G1 E Hg1 Hg2 Hg3) as [A R].
      destruct (ro_hidx _ _ _ R) as (y & Gy & Hy).
      apply inv_modify_off; auto.
      * eapply shape_not_on_heap; [apply (inv_shape _ A) | exact Gy | exact Hy].
      * intros z Gz. rewrite Gy in Gz. inversion Gz; subst z. simpl. symmetry. exact Hy.
      * intro; reflexivity.
    + apply Z.leb_gt in E. apply (proj1 (inv_modify_fix q1 id g x1 I1 G1 Hg1 Hg2 Hg3) E).
Qed.

(** * MaybeRemoveMissing *)
Lemma inv_del_off q id : inv q -> ~ on_heap q id -> inv (with_items q (del id (q_items q))).
Proof.
  intros [Sh Ho [S0 S1 S2]] Hoff.
  assert (Hne : forall k, k < pq_len q -> N.eqb (pq_at q k) id = false).
  { intros k Hk. apply N.eqb_neq. intro E. apply Hoff. exists k. auto. }
  assert (Hio : forall k, k < pq_len q -> item_of (del id (q_items q)) (pq_at q k) = item_of (q_items q) (pq_at q k)).
  { intros k Hk. unfold item_of. rewrite get_del, (Hne k Hk). reflexivity. }
  split.
  - split.
    + simpl. rewrite keys_del. apply NoDup_filter. apply (sh_nodup _ Sh).
    + intros k Hk. change (pq_len (with_items q (del id (q_items q)))) with (pq_len q) in Hk.
      change (pq_at (with_items q (del id (q_items q))) k) with (pq_at q k). simpl.
      rewrite get_del, (Hne k Hk). apply (sh_idx1 _ Sh). exact Hk.
    + intros id' x G. simpl in G. rewrite get_del in G. destruct (N.eqb id' id); [discriminate|].
      apply (sh_idx2 _ Sh). exact G.
  - intros c Hc. change (pq_len (with_items q (del id (q_items q)))) with (pq_len q) in Hc.
    assert (parent c < c) by (apply parent_lt; lia).
    unfold qval. change (pq_at (with_items q (del id (q_items q)))) with (pq_at q). simpl q_items.
    rewrite !Hio by lia. apply Ho. exact Hc.
  - split; [exact S0 | |].
    + intros id' x G. simpl in G. rewrite get_del in G. destruct (N.eqb id' id); [discriminate|]. eapply S1; eauto.
    + intros id1 id2 H1 H2 E. apply S2; auto.
      destruct H1 as (k1 & Hk1 & E1), H2 as (k2 & Hk2 & E2).
      change (pq_len (with_items q (del id (q_items q)))) with (pq_len q) in *.
      change (pq_at (with_items q (del id (q_items q)))) with (pq_at q) in *.
      subst id1 id2. simpl q_items in E. rewrite !Hio in E by assumption. exact E.
Qed.

Definition rm_q1 (q : queue) (x : item) : queue :=
  if (0 <=? it_hidx x)%Z then fst (h_remove q (Z.to_nat (it_hidx x))) else q.

Lemma rm_q1_ok q k x :
  inv q -> get k (q_items q) = Some x ->
  inv (rm_q1 q x) /\ frame q (rm_q1 q x) /\ (forall id, on_heap (rm_q1 q x) id <-> on_heap q id /\ id <> k) /\
  (exists y, get k (q_items (rm_q1 q x)) = Some y /\ it_hidx y = (-1)%Z).
Proof.
  intros I G. unfold rm_q1. destruct (0 <=? it_hidx x)%Z eqn:E.
  - apply Z.leb_le in E.
    destruct (inv_modify_remove q k (fun z => z) x I G E) as [A R]; try (intro; reflexivity).
    rewrite q_modify_id in *. split; [exact A|]. split; [apply R|]. split; [apply R | apply R].
  - apply Z.leb_gt in E.
    assert (Hm : it_hidx x = (-1)%Z) by (destruct (shape_hidx_cases q k x (inv_shape _ I) G); lia).
    pose proof (shape_not_on_heap q k x (inv_shape _ I) G Hm) as Hoff.
    split; [exact I|]. split; [apply frame_refl|]. split; [|eauto].
    intro id. split; [intro H; split; [exact H | intro; subst; contradiction] | tauto].
Qed.

Lemma filter_not_in (k : N) l : ~ In k l -> filter (fun k' => negb (N.eqb k' k)) l = l.
Proof.
  induction l as [|a l IH]; intro H; simpl; [reflexivity|].
  destruct (N.eqb a k) eqn:E; simpl.
  - apply N.eqb_eq in E. exfalso. apply H. left. exact E.
  - rewrite IH; [reflexivity|]. intro Hc. apply H. right. exact Hc.
Qed.

Record rm_result (ids : list N) (q : queue) (pre ks : list N) (r : queue * list N) : Prop := {
  rr_inv : inv (fst r);
  rr_keys : keys (q_items (fst r)) = pre ++ filter (fun k => mem k ids) ks;
  rr_removed : snd r = filter (fun k => negb (mem k ids)) ks;
  rr_on : forall id, on_heap (fst r) id <-> on_heap q id /\ ~ In id (snd r);
  rr_items : forall id, ~ In id (snd r) -> option_map erase (get id (q_items (fst r))) = option_map erase (get id (q_items q));
  rr_seq : q_seq (fst r) = q_seq q;
  rr_cfg : q_cfg (fst r) = q_cfg q
}.

Lemma rm_loop_cons ids q k r :
  rm_loop it_id ids q (k :: r) =
  match get k (q_items q) with
  | None => rm_loop it_id ids q r
  | Some x =>
      if mem (it_id x) ids then rm_loop it_id ids q r else
      let q2 := q_modify (rm_q1 q x) k (set_state st_none) in
      let q3 := with_items q2 (del (it_id x) (q_items q2)) in
      let (q', rem) := rm_loop it_id ids q3 r in (q', it_id x :: rem)
  end.
Proof. reflexivity. Qed.

Lemma rm_loop_spec ids : forall ks q pre,
  inv q -> keys (q_items q) = pre ++ ks -> rm_result ids q pre ks (rm_loop it_id ids q ks).
Proof.
  induction ks as [|k r IH]; intros q pre I Hk.
  - simpl. split; simpl; auto; try tauto.
  - assert (Hnd : NoDup (pre ++ k :: r)) by (rewrite <- Hk; apply (sh_nodup _ (inv_shape _ I))).
    assert (Hk_pre : ~ In k pre /\ ~ In k r).
    { apply NoDup_remove_2 in Hnd. split; intro; apply Hnd; apply in_or_app; auto. }
    destruct (keys_get_some k (q_items q)) as (x & G). { rewrite Hk. apply in_or_app. right. left. reflexivity. }
    pose proof (get_some_id _ _ _ G) as Hid.
    rewrite rm_loop_cons, G, Hid. cbv zeta.
    destruct (mem k ids) eqn:Em.
    + specialize (IH q (pre ++ [k]) I). rewrite <- app_assoc in IH. specialize (IH Hk).
      destruct IH as [R1 R2 R3 R4 R5 R6 R7]. split; auto.
      * rewrite R2. simpl. rewrite Em. rewrite <- app_assoc. reflexivity.
      * rewrite R3. simpl. rewrite Em. reflexivity.
    + destruct (rm_q1_ok q k x I G) as (I1 & F1 & On1 & (y & Gy & Hy)).
      set (q1 := rm_q1 q x) in *.
      set (q2 := q_modify q1 k (set_state st_none)).
      assert (Hoff1 : ~ on_heap q1 k) by (eapply shape_not_on_heap; [apply (inv_shape _ I1) | exact Gy | exact Hy]).
      assert (I2 : inv q2).
      { apply inv_modify_off; auto; intro; reflexivity. }
      set (q3 := with_items q2 (del k (q_items q2))).
      assert (I3 : inv q3) by (apply inv_del_off; auto).
      assert (K3 : keys (q_items q3) = pre ++ r).
      { unfold q3, q2. simpl. rewrite keys_del, keys_modify by auto. rewrite (fr_keys _ _ F1), Hk.
        rewrite filter_app. simpl. rewrite N.eqb_refl. simpl.
        rewrite !filter_not_in by tauto. reflexivity. }
      specialize (IH q3 pre I3 K3).
      destruct (rm_loop it_id ids q3 r) as [q' rem] eqn:Er. destruct IH as [R1 R2 R3 R4 R5 R6 R7]. simpl in *.
      split; simpl; auto.
      * rewrite R2, Em. reflexivity.
      * rewrite R3, Em. reflexivity.
      * intro id. rewrite R4. change (on_heap q3 id) with (on_heap q1 id). rewrite On1.
        split; [intros [[A B] C]; split; [exact A | intros [D|D]; [apply B; symmetry; exact D | exact (C D)]]
               | intros [A B]; split; [split; [exact A | intro D; apply B; left; symmetry; exact D] | intro D; apply B; right; exact D]].
      * intros id Hn. rewrite R5 by (intro D; apply Hn; right; exact D).
        assert (id <> k) by (intro D; apply Hn; left; symmetry; exact D).
        unfold q3, q2. simpl. rewrite get_del, get_modify by auto.
        apply N.eqb_neq in H. rewrite H. apply (fr_items _ _ F1).
      * rewrite R6. apply (fr_seq _ _ F1).
      * rewrite R7. apply (fr_cfg _ _ F1).
Qed.

Lemma inv_remove_missing q ids : inv q -> inv (fst (remove_missing q ids)).
Proof.
  intro I. unfold remove_missing, remove_missing_gen.
  destruct (length (q_items q) =? length ids); [exact I|].
  apply (rr_inv _ _ _ _ _ (rm_loop_spec ids (keys (q_items q)) q [] I eq_refl)).
Qed.

(** * every reachable state satisfies the invariant *)
Lemma inv_step q now o : inv q -> inv (fst (step q now o)).
Proof.
  intro I. destruct o; simpl.
  - apply inv_add_or_update; exact I.
  - pose proof (inv_pop q I) as H. destruct (pop q) as [q' r]. exact H.
  - pose proof (inv_bump now ids q I) as H. destruct (bump q now ids) as [q' r]. exact H.
  - apply inv_set_indexed; exact I.
  - pose proof (inv_remove_missing q ids I) as H. unfold remove_missing in H.
    destruct (remove_missing_gen it_id q ids) as [q' r]. exact H.
  - exact I.
  - exact I.
Qed.

Lemma inv_run h : forall q, inv q -> inv (run q h).
Proof.
  induction h as [|[now o] r IH]; intros q I; simpl; [exact I|]. apply IH. apply inv_step. exact I.
Qed.

Theorem reachable_inv bd mx h : inv (run (new_queue bd mx) h).
Proof. apply inv_run. apply inv_init. Qed.
