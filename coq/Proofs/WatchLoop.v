(** Proofs about Model/WatchLoop.v: no lost wakeup, the ticker repairs everything, the startup window, progress. *)
From ZV Require Import Lib.Base Model.WatchLoop.

Definition fresh_from (acc : bool) (es : list levent) : bool :=
  fold_left (fun acc e => match e with EChange _ => false | EScanStart => true | _ => acc end) es acc.

Lemma scanned_is_fresh (es : list levent) : scanned_after_last_change es = fresh_from true es.
Proof. reflexivity. Qed.

Lemma fresh_from_app (acc : bool) (a b : list levent) : fresh_from acc (a ++ b) = fresh_from (fresh_from acc a) b.
Proof. unfold fresh_from. apply fold_left_app. Qed.

Lemma fresh_no_change (es : list levent) : existsb is_change es = false -> fresh_from true es = true.
Proof.
  induction es as [|e es IH]; simpl; intros H; [reflexivity|].
  apply orb_false_iff in H. destruct H as [He Hes].
  destruct e; simpl in He; try discriminate; apply IH; exact Hes.
Qed.

Lemma lrun_app (s : lstate) (a b : list levent) :
  lrun s (a ++ b) = match lrun s a with Some s' => lrun s' b | None => None end.
Proof.
  revert s. induction a as [|e a IH]; intros s; simpl; [reflexivity|].
  destruct (lstep s e); [apply IH|reflexivity].
Qed.

(** case analysis of one executable step *)
Ltac crush_step H :=
  simpl in H;
  repeat match type of H with
         | (if ?c then _ else _) = Some _ => destruct c eqn:?; [|discriminate H]
         end;
  try discriminate H;
  injection H as H; subst.

Lemma watching_step (s s' : lstate) (e : levent) : lstep s e = Some s' -> l_watching s = true -> l_watching s' = true.
Proof.
  intros Hstep Hw. destruct s as [w q sg sc idn]; simpl in Hw; subst w.
  destruct e; crush_step Hstep; reflexivity.
Qed.

Lemma watching_run (es : list levent) (s s' : lstate) : lrun s es = Some s' -> l_watching s = true -> l_watching s' = true.
Proof.
  revert s. induction es as [|e es IH]; simpl; intros s H Hw; [injection H as H; subst; exact Hw|].
  destruct (lstep s e) as [s1|] eqn:Hs; [|discriminate]. apply (IH s1 H). apply (watching_step s s1 e Hs Hw).
Qed.

Lemma watch_add_sets (s s' : lstate) : lstep s EWatchAdd = Some s' -> l_watching s' = true.
Proof. intros H. crush_step H. reflexivity. Qed.

Lemma watching_after_add (es : list levent) (s s' : lstate) :
  lrun s es = Some s' -> existsb is_watch_add es = true -> l_watching s' = true.
Proof.
  revert s. induction es as [|e es IH]; simpl; intros s H Hin; [discriminate|].
  destruct (lstep s e) as [s1|] eqn:Hs; [|discriminate].
  destruct (is_watch_add e) eqn:He.
  - destruct e; try discriminate He. apply (watching_run es s1 s' H). apply (watch_add_sets s s1 Hs).
  - simpl in Hin. apply (IH s1 H Hin).
Qed.

(** ---- no lost wakeup: while the watch is installed and no event is dropped, "a change happened after the start
    of the last scan" implies "an event is pending or the token is set" *)
Definition pendingb (s : lstate) : bool := (0 <? l_queue s) || l_sig s.

Lemma no_lost_wakeup_step (s s' : lstate) (e : levent) (acc : bool) :
  lstep s e = Some s' -> is_drop e = false -> l_watching s = true ->
  (acc = false -> pendingb s = true) ->
  (fresh_from acc [e] = false -> pendingb s' = true).
Proof.
  intros Hstep Hd Hw HJ. unfold pendingb in *.
  destruct e; simpl in Hd; try discriminate Hd; simpl in Hstep; simpl.
  - (* EChange *) rewrite Hw in Hstep. injection Hstep as Hstep. subst s'. simpl. intros _.
    replace (0 <? l_queue s + S extra) with true; [reflexivity|]. symmetry. apply Nat.ltb_lt. lia.
  - (* EInitScanEnd *) destruct (l_scanning s && negb (l_init_done s)); [|discriminate].
    injection Hstep as Hstep. subst s'. simpl. exact HJ.
  - (* EWatchAdd *) destruct (l_init_done s && negb (l_watching s)); [|discriminate].
    injection Hstep as Hstep. subst s'. simpl. exact HJ.
  - (* EDeliver *) destruct (l_watching s && (0 <? l_queue s)); [|discriminate].
    injection Hstep as Hstep. subst s'. simpl. intros _. apply orb_true_r.
  - (* ETick *) rewrite Hw in Hstep. injection Hstep as Hstep. subst s'. simpl. intros _. apply orb_true_r.
  - (* EScanStart *) intros Hf. discriminate Hf.
  - (* EScanEnd *) destruct (l_scanning s && l_init_done s); [|discriminate].
    injection Hstep as Hstep. subst s'. simpl. exact HJ.
Qed.

Lemma no_lost_wakeup_run (es : list levent) (s s' : lstate) (acc : bool) :
  lrun s es = Some s' -> existsb is_drop es = false -> l_watching s = true ->
  (acc = false -> pendingb s = true) ->
  (fresh_from acc es = false -> pendingb s' = true).
Proof.
  revert s acc. induction es as [|e es IH]; simpl; intros s acc H Hd Hw HJ.
  - injection H as H. subst s'. exact HJ.
  - destruct (lstep s e) as [s1|] eqn:Hs; [|discriminate].
    apply orb_false_iff in Hd. destruct Hd as [Hde Hdes].
    apply (IH s1 (fresh_from acc [e]) H Hdes (watching_step s s1 e Hs Hw)).
    apply (no_lost_wakeup_step s s1 e acc Hs Hde Hw HJ).
Qed.

Lemma quiescent_not_pending (s : lstate) : quiescent s = true -> pendingb s = false.
Proof.
  unfold quiescent, pendingb. intros H.
  apply andb_true_iff in H. destruct H as [H Hsc]. apply andb_true_iff in H. destruct H as [Hq Hsig].
  apply Nat.eqb_eq in Hq. rewrite Hq. simpl. destruct (l_sig s); [discriminate Hsig|reflexivity].
Qed.

(** If no change races with the startup (all changes come after watcher.Add) and fsnotify drops no event, then
    whenever the watcher is quiescent, its last scan started after the last change. *)
Theorem no_lost_wakeup (pre post : list levent) (s : lstate) :
  lrun l_init (pre ++ post) = Some s ->
  existsb is_change pre = false -> existsb is_watch_add pre = true -> existsb is_drop post = false ->
  quiescent s = true ->
  scanned_after_last_change (pre ++ post) = true.
Proof.
  intros Hrun Hnc Hwa Hnd Hq. rewrite scanned_is_fresh, fresh_from_app, (fresh_no_change pre Hnc).
  rewrite lrun_app in Hrun. destruct (lrun l_init pre) as [s1|] eqn:Hpre; [|discriminate].
  destruct (fresh_from true post) eqn:Hf; [reflexivity|exfalso].
  assert (Hp : pendingb s = true).
  { apply (no_lost_wakeup_run post s1 s true Hrun Hnd (watching_after_add pre l_init s1 Hpre Hwa)); [intros H; discriminate H|exact Hf]. }
  rewrite (quiescent_not_pending s Hq) in Hp. discriminate Hp.
Qed.

(** ---- the ticker: after a tick, however many events were lost before, a scan follows *)
Lemma token_until_scan (b : list levent) (s s' : lstate) :
  lrun s b = Some s' -> l_sig s = true -> l_sig s' = false -> existsb is_scan_start b = true.
Proof.
  revert s. induction b as [|e b IH]; simpl; intros s H Hsig Hend.
  - injection H as H. subst s'. congruence.
  - destruct (lstep s e) as [s1|] eqn:Hs; [|discriminate].
    destruct (is_scan_start e) eqn:He; [reflexivity|]. simpl.
    apply (IH s1 H); [|exact Hend].
    destruct s as [w q sg sc idn]; simpl in Hsig; subst sg.
    destruct e; try discriminate He; destruct w; crush_step Hs; reflexivity.
Qed.

Lemma fresh_scan_no_change (b : list levent) (acc : bool) :
  existsb is_change b = false -> existsb is_scan_start b = true -> fresh_from acc b = true.
Proof.
  revert acc. induction b as [|e b IH]; simpl; intros acc Hc Hs; [discriminate|].
  apply orb_false_iff in Hc. destruct Hc as [Hce Hcb].
  destruct e; simpl in Hce; try discriminate Hce; simpl in Hs; try (apply (IH _ Hcb Hs)).
  (* EScanStart *) fold (fresh_from true b). clear Hs IH. revert Hcb. generalize b. intros b0 Hb0.
  apply fresh_no_change. exact Hb0.
Qed.

Theorem tick_repairs (a b : list levent) (s : lstate) :
  lrun l_init (a ++ ETick :: b) = Some s -> existsb is_change b = false -> quiescent s = true ->
  existsb is_scan_start b = true /\ scanned_after_last_change (a ++ ETick :: b) = true.
Proof.
  intros Hrun Hnc Hq. rewrite lrun_app in Hrun. destruct (lrun l_init a) as [s1|] eqn:Ha; [|discriminate].
  simpl in Hrun. destruct (l_watching s1) eqn:Hw; [|discriminate].
  assert (Hs : existsb is_scan_start b = true).
  { apply (token_until_scan b _ s Hrun); [reflexivity|].
    unfold quiescent in Hq. apply andb_true_iff in Hq. destruct Hq as [Hq _]. apply andb_true_iff in Hq. destruct Hq as [_ Hsig].
    destruct (l_sig s); [discriminate Hsig|reflexivity]. }
  split; [exact Hs|].
  rewrite scanned_is_fresh, fresh_from_app. simpl. apply (fresh_scan_no_change b _ Hnc Hs).
Qed.

(** ---- the startup window: a change made while the initial scan is running (after it read the directory) is
    followed by no scan until another event or the next tick arrives *)
Theorem startup_window :
  let es := [EChange 0; EInitScanEnd; EWatchAdd] in
  exists s, lrun l_init es = Some s /\ quiescent s = true /\ existsb is_drop es = false /\
            scanned_after_last_change es = false.
Proof. eexists. repeat split. Qed.

(** ---- progress: the watcher never deadlocks *)
Definition reach_inv (s : lstate) : Prop :=
  (l_watching s = true -> l_init_done s = true) /\
  (l_init_done s = false -> l_scanning s = true) /\
  (l_watching s = false -> l_queue s = 0 /\ l_sig s = false) /\
  (l_watching s = false -> l_init_done s = true -> l_scanning s = false).

Lemma reach_inv_init : reach_inv l_init.
Proof. unfold reach_inv, l_init; simpl. repeat split; intros; try discriminate; try reflexivity. Qed.

Lemma reach_inv_step (s s' : lstate) (e : levent) : lstep s e = Some s' -> reach_inv s -> reach_inv s'.
Proof.
  intros Hstep (H1 & H2 & H3 & H4). unfold reach_inv.
  destruct s as [w q sg sc idn]; simpl in *.
  assert (Hq : w = false -> q = 0) by (intros Hw; destruct (H3 Hw); assumption).
  assert (Hs : w = false -> sg = false) by (intros Hw; destruct (H3 Hw); assumption).
  destruct e; simpl in Hstep.
  - (* EChange *) destruct w; injection Hstep as Hstep; subst s'; simpl;
      (split; [exact H1|split; [exact H2|split; [exact H3 || (intros Hf; discriminate Hf)|exact H4 || (intros Hf; discriminate Hf)]]]).
  - (* EInitScanEnd *) destruct sc, idn; simpl in Hstep; try discriminate Hstep. injection Hstep as Hstep; subst s'; simpl.
    split; [reflexivity|]. split; [intros Hf; discriminate Hf|]. split; [exact H3|reflexivity].
  - (* EWatchAdd *) destruct idn, w; simpl in Hstep; try discriminate Hstep. injection Hstep as Hstep; subst s'; simpl.
    split; [reflexivity|]. split; [intros Hf; discriminate Hf|]. split; intros Hf; discriminate Hf.
  - (* EDeliver *) destruct w; simpl in Hstep; [|discriminate Hstep]. destruct (0 <? q); [|discriminate Hstep].
    injection Hstep as Hstep; subst s'; simpl.
    split; [exact H1|]. split; [exact H2|]. split; intros Hf; discriminate Hf.
  - (* EDrop *) destruct (0 <? q) eqn:Eq; [|discriminate Hstep]. injection Hstep as Hstep; subst s'; simpl.
    split; [exact H1|]. split; [exact H2|]. split; [|exact H4].
    intros Hw. rewrite (Hq Hw) in Eq. discriminate Eq.
  - (* ETick *) destruct w; [|discriminate Hstep]. injection Hstep as Hstep; subst s'; simpl.
    split; [exact H1|]. split; [exact H2|]. split; intros Hf; discriminate Hf.
  - (* EScanStart *) destruct w; simpl in Hstep; [|discriminate Hstep]. destruct sg; simpl in Hstep; [|discriminate Hstep].
    destruct sc; simpl in Hstep; [discriminate Hstep|]. injection Hstep as Hstep; subst s'; simpl.
    split; [exact H1|]. split; [intros _; reflexivity|]. split; intros Hf; discriminate Hf.
  - (* EScanEnd *) destruct sc, idn; simpl in Hstep; try discriminate Hstep. injection Hstep as Hstep; subst s'; simpl.
    split; [intros _; reflexivity|]. split; [intros Hf; discriminate Hf|]. split; [exact H3|intros _ _; reflexivity].
Qed.

Lemma reach_inv_run (es : list levent) (s s' : lstate) : lrun s es = Some s' -> reach_inv s -> reach_inv s'.
Proof.
  revert s. induction es as [|e es IH]; simpl; intros s H Hi; [injection H as H; subst; exact Hi|].
  destruct (lstep s e) as [s1|] eqn:Hs; [|discriminate]. apply (IH s1 H). apply (reach_inv_step s s1 e Hs Hi).
Qed.

(** in every reachable state that is not quiescent, or in which the watch is not installed yet, one of the
    watcher's OWN steps is executable (the environment's EChange / EDrop / ETick are not needed) *)
Definition own_step (e : levent) : bool :=
  match e with EInitScanEnd | EWatchAdd | EDeliver | EScanStart | EScanEnd => true | _ => false end.

Theorem watcher_progress (es : list levent) (s : lstate) :
  lrun l_init es = Some s -> (quiescent s = false \/ l_watching s = false) ->
  exists e s', own_step e = true /\ lstep s e = Some s'.
Proof.
  intros Hrun Hnq. destruct (reach_inv_run es l_init s Hrun reach_inv_init) as (H1 & H2 & H3 & H4).
  destruct s as [w q sg sc idn]; simpl in *. unfold quiescent in Hnq; simpl in Hnq.
  destruct idn.
  - destruct w.
    + destruct sc; [exists EScanEnd; eexists; split; [reflexivity|reflexivity]|].
      destruct (0 <? q) eqn:Eq; [exists EDeliver; eexists; split; [reflexivity|simpl; rewrite Eq; reflexivity]|].
      destruct sg; [exists EScanStart; eexists; split; [reflexivity|reflexivity]|].
      exfalso. apply Nat.ltb_ge in Eq. assert (q = 0) by lia. subst q. simpl in Hnq. destruct Hnq; discriminate.
    + exists EWatchAdd. eexists. split; [reflexivity|reflexivity].
  - rewrite (H2 eq_refl). exists EInitScanEnd. eexists. split; [reflexivity|reflexivity].
Qed.
