(** Proofs about the tree walk of Model/GitWalk.v (C14), against the recursive listing of every path of the tree:
    the current RepoWalker.walkTree ([walk_forest], end of this file) and, for the record of the two repaired defects,
    go-git's TreeWalker state machine with the caller's [seen] map that CollectFiles used before. *)
From ZV Require Import Lib.Base Model.DirWalk Model.Catfile Model.GitWalk Proofs.DirWalk.

(** ---------- reference listing with a seen set: an entry whose hash is in [seen] is dropped together with
    everything below it; an entry with a name go-git rejects is handed over with the empty path and not descended into *)
Fixpoint node_visits (seen : list N) (base name : bytes) (n : gnode) : list gentry :=
  match n with
  | GNode m h ch =>
      if memN h seen then []
      else if negb (valid_name name) then [{| ge_path := []; ge_mode := m; ge_id := h |}]
      else let full := simple_join base name in
           {| ge_path := full; ge_mode := m; ge_id := h |}
             :: match m with GDir => forest_visits seen full ch | _ => [] end
  end
with forest_visits (seen : list N) (base : bytes) (f : gforest) : list gentry :=
  match f with GNil => [] | GCons name n r => node_visits seen base name n ++ forest_visits seen base r end.

(** what is still to come from a walker state *)
Fixpoint pending (seen : list N) (stack : list gforest) (base : bytes) : list gentry :=
  match stack with
  | [] => []
  | it :: rest => forest_visits seen base it ++ pending seen rest (parent_base base)
  end.

(** names as git writes them: no '/' inside an entry name *)
Definition no_slash (name : bytes) : Prop := ~ In 47%N name.

Fixpoint node_names_ok (n : gnode) : Prop := match n with GNode _ _ ch => forest_names_ok ch end
with forest_names_ok (f : gforest) : Prop :=
  match f with GNil => True | GCons name n r => no_slash name /\ node_names_ok n /\ forest_names_ok r end.

(** number of tree levels below (and including) this forest, directories only *)
Fixpoint node_height (n : gnode) : nat :=
  match n with GNode m _ ch => match m with GDir => forest_height ch | _ => 0 end end
with forest_height (f : gforest) : nat :=
  match f with GNil => 1 | GCons _ n r => Nat.max (S (node_height n)) (forest_height r) end.

Fixpoint stack_names_ok (stack : list gforest) : Prop :=
  match stack with [] => True | it :: rest => forest_names_ok it /\ stack_names_ok rest end.
Fixpoint stack_depth_ok (stack : list gforest) : Prop :=
  match stack with [] => True | it :: rest => forest_height it + length rest <= S max_tree_depth /\ stack_depth_ok rest end.
Fixpoint stack_size (stack : list gforest) : nat :=
  match stack with [] => 0 | it :: rest => S (forest_size it + stack_size rest) end.

Lemma forest_height_pos : forall f, 1 <= forest_height f.
Proof. destruct f as [|name n r]; cbn [forest_height]; lia. Qed.

(** ---------- base restoration *)
Lemma from_first_slash_app : forall a b, ~ In 47%N a -> from_first_slash (a ++ 47%N :: b) = 47%N :: b.
Proof.
  induction a as [|x a IH]; intros b H; cbn.
  - reflexivity.
  - destruct (x =? 47)%N eqn:E.
    + apply N.eqb_eq in E. subst x. exfalso. apply H. left. reflexivity.
    + apply IH. intro C. apply H. right. exact C.
Qed.

Lemma from_first_slash_none : forall a, ~ In 47%N a -> from_first_slash a = [].
Proof.
  induction a as [|x a IH]; intro H; cbn; [reflexivity|].
  destruct (x =? 47)%N eqn:E.
  - apply N.eqb_eq in E. subst x. exfalso. apply H. left. reflexivity.
  - apply IH. intro C. apply H. right. exact C.
Qed.

Lemma parent_base_join : forall base name, no_slash name -> parent_base (simple_join base name) = base.
Proof.
  intros base name H. unfold parent_base, path_split_dir, simple_join.
  assert (~ In 47%N (rev name)) as Hr by (intro C; apply in_rev in C; exact (H C)).
  destruct base as [|b0 base'].
  - rewrite from_first_slash_none by exact Hr. reflexivity.
  - remember (b0 :: base') as base eqn:Eb.
    rewrite rev_app_distr. cbn [rev]. rewrite <- app_assoc. cbn [app].
    rewrite from_first_slash_app by exact Hr.
    change (47%N :: rev base) with ([47%N] ++ rev base). rewrite rev_app_distr, rev_involutive. cbn [rev app].
    unfold trim_slash_suffix. rewrite rev_app_distr. cbn [rev app]. apply rev_involutive.
Qed.

(** ---------- the run yields exactly what is pending *)
Lemma tw_run_pending : forall fuel seen stack base,
  stack_names_ok stack -> stack_depth_ok stack -> stack_size stack < fuel ->
  tw_run fuel {| tw_stack := stack; tw_base := base; tw_seen := seen |} = Ok (pending seen stack base).
Proof.
  induction fuel as [|fuel IH]; intros seen stack base Hn Hd Hf; [lia|].
  destruct stack as [|it rest]; [reflexivity|].
  cbn [stack_names_ok] in Hn. destruct Hn as [Hit Hrest].
  cbn [stack_depth_ok] in Hd. destruct Hd as [Hdit Hdrest].
  cbn [stack_size] in Hf.
  cbn [tw_run]. unfold tw_step. cbn [tw_stack tw_base tw_seen].
  assert ((max_tree_depth <? length rest) = false) as Edepth.
  { apply Nat.ltb_ge. pose proof (forest_height_pos it). lia. }
  rewrite Edepth.
  destruct it as [|name [m h ch] it'].
  - (* tree finished *)
    cbn [pending forest_visits app]. apply IH; [exact Hrest|exact Hdrest|lia].
  - cbn [forest_names_ok node_names_ok] in Hit. destruct Hit as [Hname [Hch Hit']].
    cbn [forest_height node_height] in Hdit. cbn [forest_size node_size] in Hf.
    cbn [pending forest_visits node_visits].
    assert (stack_depth_ok (it' :: rest)) as Hd'.
    { cbn [stack_depth_ok]. split; [lia|exact Hdrest]. }
    assert (stack_names_ok (it' :: rest)) as Hn' by (cbn [stack_names_ok]; split; assumption).
    destruct (memN h seen) eqn:Eseen.
    + (* skipped *)
      cbn [app]. rewrite (IH seen (it' :: rest) base Hn' Hd') by (cbn [stack_size]; lia). reflexivity.
    + destruct (valid_name name) eqn:Evalid; cbn [negb].
      * destruct m;
          try (rewrite (IH seen (it' :: rest) base Hn' Hd') by (cbn [stack_size]; lia);
               cbn [obind pending app]; rewrite app_nil_r || idtac; reflexivity).
        (* directory: descend *)
        rewrite (IH seen (ch :: it' :: rest) (simple_join base name)).
        -- cbn [obind pending]. rewrite parent_base_join by exact Hname.
           rewrite <- app_assoc. reflexivity.
        -- cbn [stack_names_ok]. repeat split; assumption.
        -- cbn [stack_depth_ok length]. split; [|exact Hd']. cbn [length] in *. lia.
        -- cbn [stack_size]. lia.
      * rewrite (IH seen (it' :: rest) base Hn' Hd') by (cbn [stack_size]; lia).
        cbn [obind pending app]. reflexivity.
Qed.

(** with an empty seen set and names go-git accepts, the visits are all paths *)
Fixpoint node_valid (n : gnode) : Prop := match n with GNode _ _ ch => forest_valid ch end
with forest_valid (f : gforest) : Prop :=
  match f with GNil => True | GCons name n r => valid_name name = true /\ node_valid n /\ forest_valid r end.

Scheme gnode_mut := Induction for gnode Sort Prop
with gforest_mut := Induction for gforest Sort Prop.

Lemma forest_visits_nil_all : forall f base, forest_valid f -> forest_visits [] base f = forest_paths base f.
Proof.
  intro f.
  apply (gforest_mut
    (fun n => forall base name, valid_name name = true -> node_valid n -> node_visits [] base name n = node_paths base name n)
    (fun f => forall base, forest_valid f -> forest_visits [] base f = forest_paths base f)).
  - intros m h ch IHch base name Hv Hn. cbn [node_visits node_paths memN existsb]. rewrite Hv. cbn [negb].
    destruct m; try reflexivity. rewrite IHch by exact Hn. reflexivity.
  - intros base _. reflexivity.
  - intros name n IHn r IHr base [Hv [Hn Hr]]. cbn [forest_visits forest_paths].
    rewrite IHn by assumption. rewrite IHr by assumption. reflexivity.
Qed.

(** The go-git walker with an empty seen set is complete, whatever hashes are shared, on the trees it accepts: for every tree
    (entry names without '/', accepted by go-git's ValidTreePath, at most maxTreeDepth+1 levels), CollectFiles was handed every path of the tree exactly as the recursive
    listing gives them — equal hashes at different paths (identical subtrees, identical blobs) make no difference. *)
Theorem gogit_walker_all_paths : forall root,
  forest_names_ok root -> forest_valid root -> forest_height root <= S max_tree_depth ->
  tree_entries_before_fix root = Ok (forest_paths [] root).
Proof.
  intros root Hn Hv Hh. unfold tree_entries_before_fix, tw_init, walk_fuel.
  rewrite tw_run_pending.
  - cbn [pending]. rewrite app_nil_r. rewrite forest_visits_nil_all by exact Hv. reflexivity.
  - cbn [stack_names_ok]. split; [exact Hn|exact I].
  - cbn [stack_depth_ok length]. split; [lia|exact I].
  - cbn [stack_size]. lia.
Qed.

(** the general statement, for any seen set the caller might hand over (names / depth as above): exactly the entries
    whose hash — and whose ancestors' hashes — are not in the set.  This is why the set must stay empty. *)
Theorem tree_walk_seen : forall root seen,
  forest_names_ok root -> forest_height root <= S max_tree_depth ->
  tw_run (walk_fuel root) (tw_init root seen) = Ok (forest_visits seen [] root).
Proof.
  intros root seen Hn Hh. unfold tw_init, walk_fuel.
  rewrite tw_run_pending.
  - cbn [pending]. rewrite app_nil_r. reflexivity.
  - cbn [stack_names_ok]. split; [exact Hn|exact I].
  - cbn [stack_depth_ok length]. split; [lia|exact I].
  - cbn [stack_size]. lia.
Qed.

(** every path of the tree is visited: membership form *)
Inductive path_in : bytes -> gforest -> bytes -> gmode -> N -> Prop :=
| PiHere : forall base name m h ch r, path_in base (GCons name (GNode m h ch) r) (simple_join base name) m h
| PiBelow : forall base name h ch r p m' h',
    path_in (simple_join base name) ch p m' h' -> path_in base (GCons name (GNode GDir h ch) r) p m' h'
| PiNext : forall base name n r p m h, path_in base r p m h -> path_in base (GCons name n r) p m h.

Lemma path_in_forest_paths : forall f base p m h,
  path_in base f p m h -> In {| ge_path := p; ge_mode := m; ge_id := h |} (forest_paths base f).
Proof.
  intros f base p m h H. induction H as [base name m h ch r|base name h ch r p m' h' _ IH|base name n r p m h _ IH].
  - cbn [forest_paths node_paths]. left. reflexivity.
  - cbn [forest_paths node_paths]. right. apply in_or_app. left. exact IH.
  - cbn [forest_paths]. apply in_or_app. right. exact IH.
Qed.

(** ---------- the current code: RepoWalker.walkTree *)
Lemma walk_forest_all_paths : forall f depth base,
  depth + forest_height f <= S max_tree_depth -> walk_forest depth base f = Ok (forest_paths base f).
Proof.
  intro f.
  apply (gforest_mut
    (fun n => forall depth base name, depth + S (node_height n) <= S max_tree_depth ->
       forall r, depth + forest_height r <= S max_tree_depth ->
       (forall d b, d + forest_height r <= S max_tree_depth -> walk_forest d b r = Ok (forest_paths b r)) ->
       walk_forest depth base (GCons name n r) = Ok (forest_paths base (GCons name n r)))
    (fun f => forall depth base, depth + forest_height f <= S max_tree_depth -> walk_forest depth base f = Ok (forest_paths base f))).
  - intros m h ch IHch depth base name Hh r Hr IHr.
    cbn [walk_forest forest_paths node_paths]. cbn [node_height] in Hh.
    rewrite (IHr depth base Hr).
    destruct m; cbn [obind app]; try reflexivity.
    assert ((max_tree_depth <? S depth) = false) as E.
    { apply Nat.ltb_ge. pose proof (forest_height_pos ch). lia. }
    rewrite E. rewrite IHch by lia. cbn [obind]. reflexivity.
  - intros depth base _. reflexivity.
  - intros name n IHn r IHr depth base Hh. cbn [forest_height] in Hh.
    apply IHn; [lia|lia|]. intros d b Hd. apply IHr. exact Hd.
Qed.

(** THE WALK IS COMPLETE: for every tree with at most maxTreeDepth+1 = 1025 levels — any entry names, any sharing of hashes
    (the same tree object at several paths, nested duplicates, identical blobs, all hashes equal) — handleEntry is handed
    every path of the tree exactly once, a directory before its content, in tree order. *)
Theorem tree_entries_all_paths : forall root,
  forest_height root <= S max_tree_depth -> tree_entries root = Ok (forest_paths [] root).
Proof. intros root H. unfold tree_entries. apply walk_forest_all_paths. lia. Qed.

Theorem tree_walk_visits_every_path : forall root p m h,
  forest_height root <= S max_tree_depth ->
  path_in [] root p m h ->
  exists es, tree_entries root = Ok es /\ In {| ge_path := p; ge_mode := m; ge_id := h |} es.
Proof.
  intros root p m h Hh Hp. exists (forest_paths [] root). split.
  - apply tree_entries_all_paths; assumption.
  - apply path_in_forest_paths. exact Hp.
Qed.

(** a deeper tree is refused with an error (never a partial listing) *)
Lemma walk_forest_never_partial : forall f depth base es, walk_forest depth base f = Ok es -> es = forest_paths base f.
Proof.
  intro f.
  apply (gforest_mut
    (fun n => forall depth base name r es,
       (forall d b es', walk_forest d b r = Ok es' -> es' = forest_paths b r) ->
       walk_forest depth base (GCons name n r) = Ok es -> es = forest_paths base (GCons name n r))
    (fun f => forall depth base es, walk_forest depth base f = Ok es -> es = forest_paths base f)).
  - intros m h ch IHch depth base name r es IHr H.
    cbn [walk_forest] in H. cbn [forest_paths node_paths].
    destruct m; cbn [obind] in H;
      try (destruct (walk_forest depth base r) as [rest| |] eqn:Er; cbn [obind] in H; try discriminate;
           injection H as H; subst es; rewrite (IHr _ _ _ Er); reflexivity).
    destruct (max_tree_depth <? S depth); [discriminate|].
    destruct (walk_forest (S depth) (simple_join base name) ch) as [below| |] eqn:Eb; cbn [obind] in H; try discriminate.
    destruct (walk_forest depth base r) as [rest| |] eqn:Er; cbn [obind] in H; try discriminate.
    injection H as H. subst es. rewrite (IHch _ _ _ Eb), (IHr _ _ _ Er). reflexivity.
  - intros depth base es H. cbn in H. injection H as H. subst es. reflexivity.
  - intros name n IHn r IHr depth base es H. apply (IHn depth base name r es); [|exact H].
    intros d b es' H'. apply (IHr d b es' H').
Qed.
