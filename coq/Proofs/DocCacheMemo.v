(** Proofs about the sharing discipline of the docMatchTree cache (Model/DocCache.v, second half; C04):
    predicate objects with a mutable memo cell, interleaved at the granularity of single accesses to the cell. *)
From ZV Require Import Lib.Base Model.DocCache Proofs.DocCache.

Lemma set_memo_length : forall mh a m, length (set_memo mh a m) = length mh.
Proof. induction mh as [|x mh IH]; intros [|a] m; cbn; auto. Qed.

Lemma get_set_memo_same : forall mh a m, a < length mh -> get_memo (set_memo mh a m) a = m.
Proof.
  unfold get_memo. induction mh as [|x mh IH]; intros [|a] m H; cbn in *; try lia; [reflexivity|].
  apply IH. lia.
Qed.

Lemma get_set_memo_other : forall mh a b m, a <> b -> get_memo (set_memo mh a m) b = get_memo mh b.
Proof.
  unfold get_memo. induction mh as [|x mh IH]; intros [|a] [|b] m H; cbn; try reflexivity; try lia.
  apply IH. lia.
Qed.

Lemma is_repo_true : forall lr r, is_repo lr r = true -> lr = Some r.
Proof. intros [x|] r H; cbn in H; [apply Nat.eqb_eq in H; now subst | discriminate]. Qed.

Definition wantdoc (ps : pshard) (d : nat) : bool := want ps (repo_of ps d).

(** the state of the thread's memo cell, per program point: at the start of an evaluation the cell is coherent
    (empty, or it holds the verdict of the repository it names); after the first write it names the repository
    of the current document; before the return it holds that repository's verdict *)
Definition cell_ok (ps : pshard) (th : mthread) (mh : mheap) : Prop :=
  match mt_cell th with
  | None => mt_pc th = EStart
  | Some a =>
      a < length mh /\
      match mt_pc th with
      | EStart => forall r, fst (get_memo mh a) = Some r -> snd (get_memo mh a) = want ps r
      | EWrote => fst (get_memo mh a) = Some (repo_of ps (mt_doc th))
      | ERet => fst (get_memo mh a) = Some (repo_of ps (mt_doc th)) /\ snd (get_memo mh a) = wantdoc ps (mt_doc th)
      end
  end.

Definition acc_ok (ps : pshard) (th : mthread) : Prop :=
  mt_doc th <= p_ndocs ps /\
  mt_acc th = filter (wantdoc ps) (seq 0 (mt_doc th)) /\
  (mt_confirm th = true -> wantdoc ps (mt_doc th) = true).

Definition mt_inv (ps : pshard) (th : mthread) (mh : mheap) : Prop := cell_ok ps th mh /\ acc_ok ps th.

Lemma filter_seq_S : forall (p : nat -> bool) n,
  filter p (seq 0 (S n)) = if p n then filter p (seq 0 n) ++ [n] else filter p (seq 0 n).
Proof.
  intros p n. rewrite seq_S, filter_app. cbn. destruct (p n); [reflexivity | apply app_nil_r].
Qed.

(** advancing after an evaluation that returned the right value keeps the accumulator invariant *)
Lemma acc_ok_advance : forall ps th,
  acc_ok ps th -> mt_doc th < p_ndocs ps ->
  (* confirm step *)
  (mt_confirm th = true ->
   acc_ok ps {| mt_cell := mt_cell th; mt_doc := S (mt_doc th); mt_confirm := false; mt_pc := EStart;
                mt_acc := if wantdoc ps (mt_doc th) then mt_acc th ++ [mt_doc th] else mt_acc th |}) /\
  (* scan step *)
  (mt_confirm th = false ->
   acc_ok ps (if wantdoc ps (mt_doc th)
              then {| mt_cell := mt_cell th; mt_doc := mt_doc th; mt_confirm := true; mt_pc := EStart; mt_acc := mt_acc th |}
              else {| mt_cell := mt_cell th; mt_doc := S (mt_doc th); mt_confirm := false; mt_pc := EStart; mt_acc := mt_acc th |})).
Proof.
  intros ps th (Hle & Hacc & Hcf) Hlt. split.
  - intros Ec. unfold acc_ok. cbn [mt_doc mt_acc mt_confirm]. split; [lia|]. split; [|discriminate].
    rewrite filter_seq_S, Hacc. reflexivity.
  - intros Ec. destruct (wantdoc ps (mt_doc th)) eqn:Ew; unfold acc_ok; cbn [mt_doc mt_acc mt_confirm].
    + split; [lia|]. split; [exact Hacc | intros _; exact Ew].
    + split; [lia|]. split; [|discriminate]. rewrite filter_seq_S, Ew. exact Hacc.
Qed.

Lemma mt_step_cell : forall ps th mh, mt_cell (fst (mt_step ps th mh)) = mt_cell th.
Proof.
  intros ps th mh. unfold mt_step. destruct (Nat.leb (p_ndocs ps) (mt_doc th)); [reflexivity|].
  destruct (eval_step ps (mt_cell th) (mt_doc th) (mt_pc th) mh) as [[pc'|v] mh']; [reflexivity|].
  destruct (mt_confirm th); [reflexivity|]. destruct v; reflexivity.
Qed.

Lemma mt_step_length : forall ps th mh, length (snd (mt_step ps th mh)) = length mh.
Proof.
  intros ps th mh. unfold mt_step. destruct (Nat.leb (p_ndocs ps) (mt_doc th)); [reflexivity|].
  unfold eval_step. destruct (mt_cell th) as [a|].
  - destruct (get_memo mh a) as [lr lw]. destruct (mt_pc th).
    + destruct (is_repo lr (repo_of ps (mt_doc th))); cbn; [reflexivity | apply set_memo_length].
    + cbn. apply set_memo_length.
    + destruct (mt_confirm th); [reflexivity|]. destruct lw; reflexivity.
  - destruct (mt_confirm th); [reflexivity|]. destruct (want ps (repo_of ps (mt_doc th))); reflexivity.
Qed.

(** a step of a thread keeps its own invariant *)
Lemma mt_step_inv : forall ps th mh,
  mt_inv ps th mh -> mt_inv ps (fst (mt_step ps th mh)) (snd (mt_step ps th mh)).
Proof.
  intros ps th mh [Hc Ha]. unfold mt_step.
  destruct (Nat.leb (p_ndocs ps) (mt_doc th)) eqn:Ed; [split; assumption|].
  apply Nat.leb_gt in Ed. destruct (acc_ok_advance ps th Ha Ed) as [Adv1 Adv2].
  unfold cell_ok in Hc. unfold eval_step. destruct (mt_cell th) as [a|] eqn:Ecell.
  - destruct Hc as [Hlen Hpc]. destruct (get_memo mh a) as [lr lw] eqn:Eg. cbn [fst snd] in Hpc.
    destruct (mt_pc th) eqn:Epc.
    + (* EStart *)
      destruct (is_repo lr (repo_of ps (mt_doc th))) eqn:Er; cbn [fst snd].
      * apply is_repo_true in Er. split; [|exact Ha].
        unfold cell_ok. cbn [mt_cell mt_pc mt_doc]. rewrite ?Ecell. split; [exact Hlen|]. rewrite Eg. cbn [fst snd].
        split; [exact Er | apply Hpc; exact Er].
      * split; [|exact Ha]. unfold cell_ok. cbn [mt_cell mt_pc mt_doc]. rewrite ?Ecell.
        rewrite set_memo_length. split; [exact Hlen|]. rewrite get_set_memo_same by exact Hlen. reflexivity.
    + (* EWrote *)
      cbn [fst snd]. split; [|exact Ha]. unfold cell_ok. cbn [mt_cell mt_pc mt_doc]. rewrite ?Ecell.
      rewrite set_memo_length. split; [exact Hlen|]. rewrite get_set_memo_same by exact Hlen. cbn [fst snd].
      split; [exact Hpc | reflexivity].
    + (* ERet: returns lw = wantdoc *)
      destruct Hpc as [Hlr Hlw]. subst lw.
      assert (Hcoh : forall r, fst (get_memo mh a) = Some r -> snd (get_memo mh a) = want ps r).
      { rewrite Eg. cbn [fst snd]. intros r Hr. rewrite Hlr in Hr. injection Hr as <-. reflexivity. }
      destruct (mt_confirm th) eqn:Ecf; cbn [fst snd].
      * split; [|apply Adv1; reflexivity]. unfold cell_ok. cbn [mt_cell mt_pc]. rewrite ?Ecell. split; [exact Hlen | exact Hcoh].
      * specialize (Adv2 eq_refl). destruct (wantdoc ps (mt_doc th)); cbn [fst snd];
          (split; [unfold cell_ok; cbn [mt_cell mt_pc]; rewrite ?Ecell; split; [exact Hlen | exact Hcoh] | exact Adv2]).
  - (* immutable closure *)
    fold (wantdoc ps (mt_doc th)).
    destruct (mt_confirm th) eqn:Ecf; cbn [fst snd].
    + split; [|apply Adv1; reflexivity]. unfold cell_ok. cbn [mt_cell mt_pc]. rewrite ?Ecell. reflexivity.
    + specialize (Adv2 eq_refl). destruct (wantdoc ps (mt_doc th)); cbn [fst snd];
        (split; [unfold cell_ok; cbn [mt_cell mt_pc]; rewrite ?Ecell; reflexivity | exact Adv2]).
Qed.

(** what a thread relies on: nobody else touches ITS memo cell (nothing at all when its closure is immutable) *)
Definition mrely (cell : option nat) (mh mh' : mheap) : Prop :=
  match cell with
  | None => True
  | Some a => a < length mh -> a < length mh' /\ get_memo mh' a = get_memo mh a
  end.

Lemma cell_ok_rely : forall ps th mh mh', cell_ok ps th mh -> mrely (mt_cell th) mh mh' -> cell_ok ps th mh'.
Proof.
  intros ps th mh mh' Hc Hr. unfold cell_ok, mrely in *. destruct (mt_cell th) as [a|]; [|exact Hc].
  destruct Hc as [Hlen Hpc]. destruct (Hr Hlen) as [Hlen' Hg]. split; [exact Hlen'|]. rewrite Hg. exact Hpc.
Qed.

(** ... and what it guarantees: its steps touch no memo cell but its own *)
Lemma mt_step_guarantee : forall ps th mh cell',
  (forall a, mt_cell th = Some a -> cell' <> Some a) ->
  mrely cell' mh (snd (mt_step ps th mh)).
Proof.
  intros ps th mh cell' Hdis. unfold mrely. destruct cell' as [b|]; [|exact I]. intros Hb.
  split; [now rewrite mt_step_length|].
  unfold mt_step. destruct (Nat.leb (p_ndocs ps) (mt_doc th)); [reflexivity|].
  unfold eval_step. destruct (mt_cell th) as [a|] eqn:Ecell.
  - assert (Hab : a <> b) by (intro; subst; now apply (Hdis b eq_refl)).
    destruct (get_memo mh a) as [lr lw]. destruct (mt_pc th).
    + destruct (is_repo lr (repo_of ps (mt_doc th))); cbn; [reflexivity | now apply get_set_memo_other].
    + cbn. now apply get_set_memo_other.
    + destruct (mt_confirm th); [reflexivity|]. destruct lw; reflexivity.
  - destruct (mt_confirm th); [reflexivity|]. destruct (want ps (repo_of ps (mt_doc th))); reflexivity.
Qed.

(** ---- termination measure ---- *)
Definition pc_weight (pc : epc) : nat := match pc with EStart => 0 | EWrote => 1 | ERet => 2 end.
Definition mt_measure (ps : pshard) (th : mthread) : nat :=
  if Nat.leb (p_ndocs ps) (mt_doc th) then 0
  else 6 * (p_ndocs ps - mt_doc th) - (if mt_confirm th then 3 else 0) - pc_weight (mt_pc th).

Lemma mt_step_measure : forall ps th mh,
  Nat.leb (p_ndocs ps) (mt_doc th) = false ->
  mt_measure ps (fst (mt_step ps th mh)) < mt_measure ps th.
Proof.
  intros ps th mh Ed. unfold mt_step. rewrite Ed. unfold mt_measure at 2. rewrite Ed.
  apply Nat.leb_gt in Ed.
  assert (Hnext : forall c pc acc, mt_measure ps {| mt_cell := c; mt_doc := S (mt_doc th); mt_confirm := false; mt_pc := pc; mt_acc := acc |}
                                  <= 6 * (p_ndocs ps - mt_doc th) - 6).
  { intros c pc acc. unfold mt_measure. cbn [mt_doc mt_confirm mt_pc].
    destruct (Nat.leb (p_ndocs ps) (S (mt_doc th))) eqn:E; [lia|]. apply Nat.leb_gt in E. lia. }
  assert (Hsame : forall c cf pc acc, mt_measure ps {| mt_cell := c; mt_doc := mt_doc th; mt_confirm := cf; mt_pc := pc; mt_acc := acc |}
                                  = 6 * (p_ndocs ps - mt_doc th) - (if cf then 3 else 0) - pc_weight pc).
  { intros c cf pc acc. unfold mt_measure. cbn [mt_doc mt_confirm mt_pc].
    destruct (Nat.leb (p_ndocs ps) (mt_doc th)) eqn:E; [apply Nat.leb_le in E; lia | reflexivity]. }
  unfold eval_step. destruct (mt_cell th) as [a|].
  - destruct (get_memo mh a) as [lr lw]. destruct (mt_pc th) eqn:Epc; cbn [pc_weight].
    + destruct (is_repo lr (repo_of ps (mt_doc th))); cbn [fst]; rewrite Hsame; cbn [pc_weight]; destruct (mt_confirm th); lia.
    + cbn [fst]. rewrite Hsame. cbn [pc_weight]. destruct (mt_confirm th); lia.
    + destruct (mt_confirm th) eqn:Ecf; cbn [fst].
      * pose proof (Hnext (Some a) EStart (if lw then mt_acc th ++ [mt_doc th] else mt_acc th)). lia.
      * destruct lw; cbn [fst]; [rewrite Hsame; cbn [pc_weight]; lia | pose proof (Hnext (Some a) EStart (mt_acc th)); lia].
  - destruct (mt_confirm th) eqn:Ecf; cbn [fst].
    + pose proof (Hnext None EStart (if want ps (repo_of ps (mt_doc th)) then mt_acc th ++ [mt_doc th] else mt_acc th)).
      destruct (mt_pc th); cbn [pc_weight]; lia.
    + destruct (want ps (repo_of ps (mt_doc th))); cbn [fst].
      * rewrite Hsame. cbn [pc_weight]. destruct (mt_pc th); cbn [pc_weight]; lia.
      * pose proof (Hnext None EStart (mt_acc th)). destruct (mt_pc th); cbn [pc_weight]; lia.
Qed.

Lemma mt_measure_bound : forall ps th, mt_measure ps th <= 6 * p_ndocs ps.
Proof. intros ps th. unfold mt_measure. destruct (Nat.leb (p_ndocs ps) (mt_doc th)); lia. Qed.

Lemma mt_done_result : forall ps th mh,
  mt_inv ps th mh -> mt_measure ps th = 0 -> mt_acc th = mref ps.
Proof.
  intros ps th mh [Hc (Hle & Hacc & Hcf)] Hm. unfold mt_measure in Hm.
  destruct (Nat.leb (p_ndocs ps) (mt_doc th)) eqn:Ed.
  - apply Nat.leb_le in Ed. assert (E : mt_doc th = p_ndocs ps) by lia. rewrite Hacc, E. reflexivity.
  - apply Nat.leb_gt in Ed. exfalso.
    assert (pc_weight (mt_pc th) <= 2) by (destruct (mt_pc th); cbn; lia).
    destruct (mt_confirm th); lia.
Qed.

(** ---- one search under arbitrary interference that respects the rely ---- *)
Lemma mt_run_env_spec : forall env ps fuel th mh,
  (forall i h, mrely (mt_cell th) h (env i h)) ->
  mt_inv ps th mh -> mt_measure ps th <= fuel ->
  let '(r, mh') := mt_run_env env fuel ps th mh in
  mt_inv ps r mh' /\ mt_measure ps r = 0 /\ mt_cell r = mt_cell th.
Proof.
  intros env ps fuel. induction fuel as [|f IH]; intros th mh Henv Hi Hm.
  - cbn. split; [exact Hi|]. split; [lia | reflexivity].
  - cbn [mt_run_env].
    assert (Hi0 : mt_inv ps th (env f mh)).
    { destruct Hi as [Hc Ha]. split; [|exact Ha]. eapply cell_ok_rely; [exact Hc | apply Henv]. }
    pose proof (mt_step_inv ps th (env f mh) Hi0) as I1. pose proof (mt_step_cell ps th (env f mh)) as C1.
    assert (M1 : mt_measure ps (fst (mt_step ps th (env f mh))) <= f).
    { destruct (Nat.leb (p_ndocs ps) (mt_doc th)) eqn:Ed.
      - unfold mt_step. rewrite Ed. cbn [fst]. unfold mt_measure. rewrite Ed. lia.
      - pose proof (mt_step_measure ps th (env f mh) Ed). lia. }
    destruct (mt_step ps th (env f mh)) as [th1 mh1]. cbn [fst snd] in *.
    assert (Henv1 : forall i h, mrely (mt_cell th1) h (env i h)) by (rewrite C1; exact Henv).
    specialize (IH th1 mh1 Henv1 I1 M1). destruct (mt_run_env env f ps th1 mh1) as [r mh'].
    destruct IH as (A & B & C). split; [exact A|]. split; [exact B | congruence].
Qed.

Lemma mt_run_as_env : forall fuel ps th mh, mt_run fuel ps th mh = mt_run_env (fun _ h => h) fuel ps th mh.
Proof. induction fuel as [|f IH]; intros; cbn; [reflexivity|]. destruct (mt_step ps th mh). apply IH. Qed.

(** initial state of a search: fresh thread; its cell (if any) exists and is coherent *)
Lemma mk_mthread_inv : forall ps cell mh,
  match cell with
  | None => True
  | Some a => a < length mh /\ forall r, fst (get_memo mh a) = Some r -> snd (get_memo mh a) = want ps r
  end ->
  mt_inv ps (mk_mthread cell) mh.
Proof.
  intros ps cell mh H. split.
  - unfold cell_ok. cbn. destruct cell as [a|]; [exact H | reflexivity].
  - unfold acc_ok. cbn. split; [lia|]. split; [reflexivity | discriminate].
Qed.

Lemma memo_search_under_interference : forall env ps cell mh,
  (forall i h, mrely cell h (env i h)) ->
  match cell with
  | None => True
  | Some a => a < length mh /\ forall r, fst (get_memo mh a) = Some r -> snd (get_memo mh a) = want ps r
  end ->
  mt_acc (fst (mt_run_env env (mfuel ps) ps (mk_mthread cell) mh)) = mref ps.
Proof.
  intros env ps cell mh Henv Hinit.
  pose proof (mt_run_env_spec env ps (mfuel ps) (mk_mthread cell) mh Henv (mk_mthread_inv ps cell mh Hinit)) as R.
  assert (Hm : mt_measure ps (mk_mthread cell) <= mfuel ps) by (pose proof (mt_measure_bound ps (mk_mthread cell)); unfold mfuel; lia).
  specialize (R Hm). destruct (mt_run_env env (mfuel ps) ps (mk_mthread cell) mh) as [r mh'].
  destruct R as (A & B & _). cbn [fst]. eapply mt_done_result; eauto.
Qed.

(** ---- two searches, any schedule of their atomic steps, cells not shared ---- *)
Definition cells_apart (ca cb : option nat) : Prop := forall a, ca = Some a -> cb <> Some a.

Lemma mpar_run_spec : forall ps sched a b mh,
  cells_apart (mt_cell a) (mt_cell b) ->
  mt_inv ps a mh -> mt_inv ps b mh ->
  let '(a', b', mh') := mpar_run ps sched a b mh in
  mt_inv ps a' mh' /\ mt_inv ps b' mh' /\ mt_cell a' = mt_cell a /\ mt_cell b' = mt_cell b.
Proof.
  intros ps sched. induction sched as [|[|] r IH]; intros a b mh Hap Ia Ib; cbn [mpar_run].
  - split; [assumption|]. split; [assumption|]. split; reflexivity.
  - pose proof (mt_step_inv ps a mh Ia) as I1. pose proof (mt_step_cell ps a mh) as C1.
    pose proof (mt_step_guarantee ps a mh (mt_cell b) Hap) as G.
    destruct (mt_step ps a mh) as [a1 mh1]. cbn [fst snd] in *.
    assert (Ib1 : mt_inv ps b mh1) by (destruct Ib as [Hc Ha]; split; [eapply cell_ok_rely; eauto | exact Ha]).
    assert (Hap1 : cells_apart (mt_cell a1) (mt_cell b)) by (rewrite C1; exact Hap).
    specialize (IH a1 b mh1 Hap1 I1 Ib1). destruct (mpar_run ps r a1 b mh1) as [[a' b'] mh'].
    destruct IH as (A & B & C & D). split; [exact A|]. split; [exact B|]. split; [congruence | exact D].
  - assert (Hap' : cells_apart (mt_cell b) (mt_cell a)) by (intros x Hb Ha; exact (Hap x Ha Hb)).
    pose proof (mt_step_inv ps b mh Ib) as I1. pose proof (mt_step_cell ps b mh) as C1.
    pose proof (mt_step_guarantee ps b mh (mt_cell a) Hap') as G.
    destruct (mt_step ps b mh) as [b1 mh1]. cbn [fst snd] in *.
    assert (Ia1 : mt_inv ps a mh1) by (destruct Ia as [Hc Ha]; split; [eapply cell_ok_rely; eauto | exact Ha]).
    assert (Hap1 : cells_apart (mt_cell a) (mt_cell b1)) by (rewrite C1; exact Hap).
    specialize (IH a b1 mh1 Hap1 Ia1 I1). destruct (mpar_run ps r a b1 mh1) as [[a' b'] mh'].
    destruct IH as (A & B & C & D). split; [exact A|]. split; [exact B|]. split; [exact C | congruence].
Qed.

(** running one thread to completion while the other's invariant is framed *)
Lemma mt_run_frame : forall ps fuel th th' mh,
  cells_apart (mt_cell th) (mt_cell th') ->
  mt_inv ps th mh -> mt_inv ps th' mh -> mt_measure ps th <= fuel ->
  let '(r, mh') := mt_run fuel ps th mh in
  mt_acc r = mref ps /\ mt_inv ps th' mh'.
Proof.
  intros ps fuel. induction fuel as [|f IH]; intros th th' mh Hap Hi Hi' Hm.
  - cbn. split; [eapply mt_done_result; eauto; lia | exact Hi'].
  - cbn [mt_run].
    pose proof (mt_step_inv ps th mh Hi) as I1. pose proof (mt_step_cell ps th mh) as C1.
    pose proof (mt_step_guarantee ps th mh (mt_cell th') Hap) as G.
    assert (M1 : mt_measure ps (fst (mt_step ps th mh)) <= f).
    { destruct (Nat.leb (p_ndocs ps) (mt_doc th)) eqn:Ed.
      - unfold mt_step. rewrite Ed. cbn [fst]. unfold mt_measure. rewrite Ed. lia.
      - pose proof (mt_step_measure ps th mh Ed). lia. }
    destruct (mt_step ps th mh) as [th1 mh1]. cbn [fst snd] in *.
    assert (I' : mt_inv ps th' mh1) by (destruct Hi' as [Hc Ha]; split; [eapply cell_ok_rely; eauto | exact Ha]).
    assert (Hap1 : cells_apart (mt_cell th1) (mt_cell th')) by (rewrite C1; exact Hap).
    exact (IH th1 th' mh1 Hap1 I1 I' M1).
Qed.

Lemma mpar_search_unshared : forall sh ps sched,
  sh <> ShareMutableMemo -> mpar_search sh ps sched = (mref ps, mref ps).
Proof.
  intros sh ps sched Hsh. unfold mpar_search.
  assert (H0 : let '(ca, cb, mh0) := hand_out sh in
               cells_apart ca cb /\ mt_inv ps (mk_mthread ca) mh0 /\ mt_inv ps (mk_mthread cb) mh0).
  { destruct sh; [| |contradiction]; cbn [hand_out].
    - split; [intros a Ha; discriminate|]. split; apply mk_mthread_inv; exact I.
    - split; [intros a Ha Hb; congruence|].
      split; apply mk_mthread_inv; (split; [cbn; lia | cbn; intros r Hr; discriminate]). }
  destruct (hand_out sh) as [[ca cb] mh0]. destruct H0 as (Hap & Ia & Ib).
  pose proof (mpar_run_spec ps sched (mk_mthread ca) (mk_mthread cb) mh0 Hap Ia Ib) as P.
  destruct (mpar_run ps sched (mk_mthread ca) (mk_mthread cb) mh0) as [[a b] mh].
  destruct P as (Pa & Pb & Ca & Cb). cbn [mt_cell mk_mthread] in Ca, Cb.
  assert (Hap1 : cells_apart (mt_cell a) (mt_cell b)) by (rewrite Ca, Cb; exact Hap).
  assert (Ma : mt_measure ps a <= mfuel ps) by (pose proof (mt_measure_bound ps a); unfold mfuel; lia).
  pose proof (mt_run_frame ps (mfuel ps) a b mh Hap1 Pa Pb Ma) as R1.
  destruct (mt_run (mfuel ps) ps a mh) as [a' mh1]. destruct R1 as [Ra Pb1].
  assert (Mb : mt_measure ps b <= mfuel ps) by (pose proof (mt_measure_bound ps b); unfold mfuel; lia).
  (* run b alone: frame against a thread without a cell *)
  pose proof (mt_run_frame ps (mfuel ps) b (mk_mthread None) mh1) as R2.
  assert (Hapn : cells_apart (mt_cell b) (mt_cell (mk_mthread None))) by (intros x _; discriminate).
  specialize (R2 Hapn Pb1 (mk_mthread_inv ps None mh1 I) Mb).
  destruct (mt_run (mfuel ps) ps b mh1) as [b' mh2]. destruct R2 as [Rb _].
  rewrite Ra, Rb. reflexivity.
Qed.

(** ---- a shared mutable memo cell: refuted ---- *)
(** 3 documents in repositories 1,1,0; the atom matches repository 1 only.  Search A misses on document 0
    (writes (lastRepo,lastWant) = (1,false)) and is descheduled before storing the verdict; search B asks about
    document 0, reads lastRepo = 1 and returns the not-yet-computed lastWant = false: B drops document 0. *)
Definition memo_wit : pshard := {| p_ndocs := 3; repo_of := fun d => if Nat.ltb d 2 then 1 else 0; want := fun r => Nat.eqb r 1 |}.
Definition memo_wit_sched : list bool := [true; false; false].

Lemma shared_memo_refuted :
  mref memo_wit = [0; 1] /\
  mpar_search ShareMutableMemo memo_wit memo_wit_sched = ([0; 1], [1]) /\
  mpar_search ShareMutableMemo memo_wit memo_wit_sched <> (mref memo_wit, mref memo_wit) /\
  (* the same cell used by ONE search after another is harmless: the memo is sequentially transparent *)
  mpar_search ShareMutableMemo memo_wit [] = (mref memo_wit, mref memo_wit).
Proof. vm_compute. split; [reflexivity|]. split; [reflexivity|]. split; [intro H; discriminate H | reflexivity]. Qed.

Lemma sharing_iff : forall sh,
  (forall ps sched, mpar_search sh ps sched = (mref ps, mref ps)) <-> sh <> ShareMutableMemo.
Proof.
  intros sh. split.
  - intros H E. subst sh. destruct shared_memo_refuted as (_ & _ & R & _). apply R. apply H.
  - intros Hsh ps sched. now apply mpar_search_unshared.
Qed.

(** the atom-level reference is what the document-loop model returns for the Meta atom on a fresh shard *)
Lemma mref_is_search : forall cf ps k s,
  ndocs s = p_ndocs ps -> (forall d, meta s k d = want ps (repo_of ps d)) ->
  fst (search true cf s (QMeta k) fresh) = mref ps.
Proof.
  intros cf ps k s Hn Hm. rewrite (proj1 (search_correct cf s (QMeta k) fresh (cache_ok_fresh s))).
  unfold reference, mref. rewrite Hn. apply filter_ext_seq. intros d _. cbn. apply Hm.
Qed.
