(** C25, collect stage (search/aggregate.go): conservation and file preservation through flushCollectSender,
    composed with the sampler/chunker theorems of Proofs/Stream.v. *)
From ZV Require Import Lib.Base Model.Stream Model.StreamCollect Proofs.Stream.
From Coq Require Import ZifyBool ZifyNat ZifyN Permutation.
Open Scope Z_scope.

Lemma fold_collect_cnt i : forall evs a,
  cnt_at i (ev_stats (fold_left collect_add evs a)) = cnt_at i (ev_stats a) + zsum (ev_cnt i) evs.
Proof.
  induction evs as [|e r IH]; intros a; cbn [fold_left zsum]; [lia|].
  rewrite IH. unfold collect_add. cbn [ev_stats]. rewrite cnt_add. unfold ev_cnt. lia.
Qed.

Lemma fold_collect_files : forall evs a,
  ev_files (fold_left collect_add evs a) = ev_files a ++ evs_files evs.
Proof.
  induction evs as [|e r IH]; intros a; cbn [fold_left]; [unfold evs_files; cbn; symmetry; apply app_nil_r|].
  rewrite IH. unfold collect_add. cbn [ev_files]. unfold evs_files. cbn [map concat]. rewrite app_assoc. reflexivity.
Qed.

Lemma fold_collect_nonneg : forall evs a, nonneg (ev_stats a) -> Forall (fun e => nonneg (ev_stats e)) evs ->
  nonneg (ev_stats (fold_left collect_add evs a)).
Proof.
  induction evs as [|e r IH]; intros a Ha He; cbn [fold_left]; [exact Ha|].
  inversion He; subst. apply IH; [|assumption]. unfold collect_add. cbn [ev_stats]. apply add_nonneg; assumption.
Qed.

Section Rank.
Variable rank : list file -> list file.

Lemma collect_flush_cnt i reason evs : zsum (ev_cnt i) (collect_flush rank reason evs) = zsum (ev_cnt i) evs.
Proof.
  unfold collect_flush. destruct evs as [|e r]; [reflexivity|].
  cbn [zsum]. unfold ev_cnt at 1. cbn [ev_stats]. unfold cnt_at at 1. cbn [st_cnt].
  change (nth i (st_cnt (ev_stats (fold_left collect_add (e :: r) collect0))) 0) with (cnt_at i (ev_stats (fold_left collect_add (e :: r) collect0))).
  rewrite fold_collect_cnt. cbn [collect0 ev_stats]. rewrite cnt_stats0. cbn [zsum]. lia.
Qed.

Lemma collect_flush_files reason evs : evs_files (collect_flush rank reason evs) = match evs with [] => [] | _ => rank (evs_files evs) end.
Proof.
  unfold collect_flush. destruct evs as [|e r]; [reflexivity|].
  unfold evs_files at 1. cbn [map concat ev_files]. rewrite app_nil_r, fold_collect_files. reflexivity.
Qed.

Lemma collect_flush_nonneg reason evs : Forall (fun e => nonneg (ev_stats e)) evs ->
  Forall (fun e => nonneg (ev_stats e)) (collect_flush rank reason evs).
Proof.
  intros H. unfold collect_flush. destruct evs as [|e r]; [constructor|]. constructor; [|constructor].
  cbn [ev_stats]. unfold nonneg. cbn [st_cnt]. apply (fold_collect_nonneg (e :: r) collect0 nonneg0 H).
Qed.

Lemma zsum_firstn_skipn {A} (f : A -> Z) k l : zsum f (firstn k l) + zsum f (skipn k l) = zsum f l.
Proof. rewrite <- zsum_app, firstn_skipn. reflexivity. Qed.

Lemma flush_collect_cnt i fp evs : zsum (ev_cnt i) (flush_collect rank fp evs) = zsum (ev_cnt i) evs.
Proof.
  unfold flush_collect. destruct fp as [k|]; [|apply collect_flush_cnt].
  rewrite zsum_app, collect_flush_cnt. apply zsum_firstn_skipn.
Qed.

Lemma flush_collect_nonneg fp evs : Forall (fun e => nonneg (ev_stats e)) evs ->
  Forall (fun e => nonneg (ev_stats e)) (flush_collect rank fp evs).
Proof.
  intros H. unfold flush_collect. destruct fp as [k|]; [|apply collect_flush_nonneg, H].
  apply Forall_app. split; [apply collect_flush_nonneg | ]; rewrite <- (firstn_skipn k evs) in H; apply Forall_app in H; tauto.
Qed.

Lemma evs_files_app a b : evs_files (a ++ b) = evs_files a ++ evs_files b.
Proof. unfold evs_files. rewrite map_app, concat_app. reflexivity. Qed.

Hypothesis rank_perm : forall l, Permutation (rank l) l.

Lemma collect_flush_perm reason evs : Permutation (evs_files (collect_flush rank reason evs)) (evs_files evs).
Proof. rewrite collect_flush_files. destruct evs; [reflexivity | apply rank_perm]. Qed.

Lemma flush_collect_files fp evs :
  match fp with
  | Some k => exists pre, Permutation pre (evs_files (firstn k evs))
                          /\ evs_files (flush_collect rank fp evs) = pre ++ evs_files (skipn k evs)
  | None => Permutation (evs_files (flush_collect rank fp evs)) (evs_files evs)
  end.
Proof.
  destruct fp as [k|]; cbn [flush_collect]; [|apply collect_flush_perm].
  exists (evs_files (collect_flush rank 1 (firstn k evs))). split; [apply collect_flush_perm | apply evs_files_app].
Qed.

Lemma flush_collect_perm fp evs : Permutation (evs_files (flush_collect rank fp evs)) (evs_files evs).
Proof.
  pose proof (flush_collect_files fp evs) as H. destruct fp as [k|]; [|exact H].
  destruct H as (pre & P & E). rewrite E. rewrite <- (firstn_skipn k evs) at 2. rewrite evs_files_app.
  apply Permutation_app_tail. exact P.
Qed.

(** ---- composed with sampler + chunker *)
Lemma deliver_fc_cnt maxsz i fp evs : Forall (fun e => nonneg (ev_stats e)) evs ->
  zsum (msg_cnt i) (deliver_fc rank maxsz fp evs) = zsum (ev_cnt i) evs.
Proof.
  intros H. unfold deliver_fc. rewrite deliver_cnt by (apply flush_collect_nonneg, H). apply flush_collect_cnt.
Qed.

Lemma deliver_fc_files maxsz fp evs :
  Permutation (concat (map m_files (deliver_fc rank maxsz fp evs))) (evs_files evs).
Proof. unfold deliver_fc. rewrite deliver_files. apply flush_collect_perm. Qed.

Lemma deliver_fc_files_order maxsz k evs :
  exists pre, Permutation pre (evs_files (firstn k evs))
              /\ concat (map m_files (deliver_fc rank maxsz (Some k) evs)) = pre ++ evs_files (skipn k evs).
Proof. unfold deliver_fc. rewrite deliver_files. exact (flush_collect_files (Some k) evs). Qed.
End Rank.
