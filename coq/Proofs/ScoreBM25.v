From Coq Require Import QArith Qabs Lqa Sorting.Permutation.
From ZV Require Import Lib.Base Generated.ScoreConsts Model.Score Model.ScoreBM25 Proofs.Score.
Open Scope Q_scope.

Lemma tf_denominator_pos L f : 0 <= L -> (0 <= f)%Z -> 0 < c_bm25_k * (1 - c_bm25_b + c_bm25_b * L) + inject_Z f.
Proof.
  intros HL Hf. assert (F : 0 <= inject_Z f) by (change 0 with (inject_Z 0); rewrite <- Zle_Qle; exact Hf).
  unfold c_bm25_k, c_bm25_b. lra.
Qed.

(** every term contributes between 0 and k+1 *)
Theorem tf_score_bounds L f : 0 <= L -> (0 <= f)%Z -> 0 <= tf_score L f <= c_bm25_k + 1.
Proof.
  intros HL Hf. pose proof (tf_denominator_pos L f HL Hf) as D.
  assert (F : 0 <= inject_Z f) by (change 0 with (inject_Z 0); rewrite <- Zle_Qle; exact Hf).
  assert (K : 0 <= c_bm25_k * (1 - c_bm25_b + c_bm25_b * L)) by (unfold c_bm25_k, c_bm25_b; lra).
  unfold tf_score. set (d := c_bm25_k * (1 - c_bm25_b + c_bm25_b * L) + inject_Z f) in *.
  assert (K1 : 0 <= c_bm25_k + 1) by (unfold c_bm25_k; lra).
  split.
  - apply Qle_shift_div_l; [exact D|]. rewrite Qmult_0_l. nra.
  - apply Qle_shift_div_r; [exact D|]. unfold d. nra.
Qed.

Lemma bm25_sum_from L tfs a : fold_left (fun s f => s + tf_score L f) tfs a == a + bm25_sum L tfs.
Proof.
  unfold bm25_sum. revert a. induction tfs as [|f r IH]; intros a; simpl; [lra|].
  rewrite (IH (a + tf_score L f)), (IH (0 + tf_score L f)). lra.
Qed.

Theorem bm25_sum_bounds L tfs :
  0 <= L -> Forall (fun f => (0 <= f)%Z) tfs ->
  0 <= bm25_sum L tfs <= (c_bm25_k + 1) * inject_Z (Z.of_nat (length tfs)).
Proof.
  intros HL H. induction H as [|f r Hf Hr IH].
  - unfold bm25_sum. simpl. change (inject_Z 0) with 0. unfold c_bm25_k. lra.
  - unfold bm25_sum. simpl fold_left. rewrite bm25_sum_from.
    pose proof (tf_score_bounds L f HL Hf) as T.
    replace (Z.of_nat (length (f :: r))) with (1 + Z.of_nat (length r))%Z by (simpl length; lia).
    rewrite inject_Z_plus. change (inject_Z 1) with 1. lra.
Qed.

(** in exact arithmetic the order of the terms is irrelevant: the run-to-run differences observed
    on the implementation (repaired in /repo e48ad27) were purely binary64 non-associativity *)
Theorem bm25_sum_perm L tfs tfs' : Permutation tfs tfs' -> bm25_sum L tfs == bm25_sum L tfs'.
Proof.
  induction 1 as [|x l l' P IH|x y l|l l' l'' P1 IH1 P2 IH2].
  - reflexivity.
  - unfold bm25_sum. simpl. rewrite !bm25_sum_from, IH. reflexivity.
  - unfold bm25_sum. simpl. rewrite !bm25_sum_from. lra.
  - now rewrite IH1.
Qed.

Lemma max_weight_bounds ws W : 1 <= W -> Forall (fun w => w <= W) ws -> 1 <= max_weight ws <= W.
Proof.
  intros HW H. unfold max_weight.
  assert (G : forall m, 1 <= m <= W -> 1 <= fold_left (fun m w => if Qltb m w then w else m) ws m <= W).
  { induction H as [|w r Hw Hr IH]; intros m Hm; simpl; [exact Hm|]. apply IH.
    destruct (Qltb m w) eqn:E; [|exact Hm]. split; [|exact Hw].
    unfold Qltb in E. apply negb_true_iff in E. assert (~ w <= m) by (intros C; apply Qle_bool_iff in C; congruence). lra. }
  apply G. lra.
Qed.

Theorem bm25_score_bounds L tfs ws W :
  0 <= L -> Forall (fun f => (0 <= f)%Z) tfs -> 1 <= W -> Forall (fun w => w <= W) ws ->
  0 <= bm25_score L tfs ws <= (c_bm25_k + 1) * inject_Z (Z.of_nat (length tfs)) * W.
Proof.
  intros HL Hf HW Hw. unfold bm25_score, boost_score.
  pose proof (bm25_sum_bounds L tfs HL Hf) as S. pose proof (max_weight_bounds ws W HW Hw) as M.
  set (s := bm25_sum L tfs) in *. set (m := max_weight ws) in *.
  set (B := (c_bm25_k + 1) * inject_Z (Z.of_nat (length tfs))) in *.
  destruct (eps_one m); nra.
Qed.

(** every binary64 product of boosts, after the cap of setScoreWeight: the BM25 score stays within
    (k+1) * #terms * maxBoostWeight — in particular a zero sum (a low-priority file whose term frequencies
    were divided down to 0) times the weight is 0, not the NaN that 0 * Inf was before /repo b74fc3f *)
Corollary bm25_score_finite_every_boost L tfs (xws : list xweight) :
  0 <= L -> Forall (fun f => (0 <= f)%Z) tfs ->
  0 <= bm25_score L tfs (map eff_weight xws) <= (c_bm25_k + 1) * inject_Z (Z.of_nat (length tfs)) * c_maxBoostWeight.
Proof.
  intros HL Hf. apply bm25_score_bounds; [exact HL|exact Hf|exact maxBoostWeight_ge_1|].
  apply Forall_forall. intros w Hw. apply in_map_iff in Hw as [x [E _]]. subst w. apply eff_weight_le.
Qed.
