(** C24 - proofs about the generic wire model (Model/Wire.v). *)
From ZV Require Import Lib.Base Lib.WireTypes Model.Wire.
From Coq Require Import String ZifyBool.

(* ---------------------------------------------------------------- induction over [val] *)

Section ValInd.
  Variable P : val -> Prop.
  Hypothesis HB : forall b, P (VB b).
  Hypothesis HZ : forall z, P (VZ z).
  Hypothesis HS : forall s, P (VS s).
  Hypothesis HT : forall s n, P (VTime s n).
  Hypothesis HN : P VNil.
  Hypothesis HL : forall l, Forall P l -> P (VL l).
  Hypothesis HM : forall kvs, Forall (fun kv => P (snd kv)) kvs -> P (VM kvs).
  Hypothesis HR : forall fs, Forall (fun kv => P (snd kv)) fs -> P (VR fs).
  Hypothesis HQ : forall k x, P x -> P (VQ k x).

  Fixpoint val_ind2 (v : val) : P v :=
    match v with
    | VB b => HB b
    | VZ z => HZ z
    | VS s => HS s
    | VTime s n => HT s n
    | VNil => HN
    | VL l => HL l ((fix go (l : list val) : Forall P l :=
                       match l with [] => Forall_nil _ | x :: r => Forall_cons _ (val_ind2 x) (go r) end) l)
    | VM kvs => HM kvs ((fix go (l : list (val * val)) : Forall (fun kv => P (snd kv)) l :=
                           match l with
                           | [] => Forall_nil _
                           | (k, x) :: r => Forall_cons (k, x) (val_ind2 x) (go r)
                           end) kvs)
    | VR fs => HR fs ((fix go (l : list (string * val)) : Forall (fun kv => P (snd kv)) l :=
                         match l with
                         | [] => Forall_nil _
                         | (k, x) :: r => Forall_cons (k, x) (val_ind2 x) (go r)
                         end) fs)
    | VQ k x => HQ k x (val_ind2 x)
    end.
End ValInd.

(* ---------------------------------------------------------------- helpers *)

Lemma lookup_with_spec : forall {A B} (f : A -> B) d k fs,
  lookup_with f d k fs = match lookup k fs with Some x => f x | None => d end.
Proof.
  intros A B f d k fs. induction fs as [|[k' x] r IH]; simpl; [reflexivity|].
  destruct (String.eqb k k'); [reflexivity|exact IH].
Qed.

Lemma lookup_In : forall {A} k (fs : list (string * A)) x, lookup k fs = Some x -> In (k, x) fs.
Proof.
  intros A k fs x. induction fs as [|[k' y] r IH]; simpl; [discriminate|].
  destruct (String.eqb k k') eqn:Ek.
  - intros H. inversion H. subst. apply String.eqb_eq in Ek. subst. left. reflexivity.
  - intros H. right. exact (IH H).
Qed.

Lemma omap_cons : forall {A B} (f : A -> outcome B) x r,
  omap f (x :: r) = (do y <- f x; do ys <- omap f r; Ok (y :: ys)).
Proof. reflexivity. Qed.

Lemma omap_ok_ex : forall {A B} (f : A -> outcome B) (R : A -> B -> Prop) l,
  (forall x, In x l -> exists y, f x = Ok y /\ R x y) ->
  exists ys, omap f l = Ok ys /\ Forall2 R l ys.
Proof.
  intros A B f R l. induction l as [|x r IH]; intros H.
  - exists []. split; [reflexivity|constructor].
  - destruct (H x (or_introl eq_refl)) as [y [Hy Ry]].
    destruct IH as [ys [Hys Rys]]. { intros z Hz. apply H. right. exact Hz. }
    exists (y :: ys). split.
    + rewrite omap_cons, Hy. simpl. rewrite Hys. reflexivity.
    + constructor; assumption.
Qed.

Lemma omap_ok_map : forall {A B} (f : A -> outcome B) (g : A -> B) l,
  (forall x, In x l -> f x = Ok (g x)) -> omap f l = Ok (map g l).
Proof.
  intros A B f g l. induction l as [|x r IH]; intros H; [reflexivity|].
  rewrite omap_cons, (H x (or_introl eq_refl)). simpl.
  rewrite IH; [reflexivity|]. intros z Hz. apply H. right. exact Hz.
Qed.

Lemma mem_In : forall s l, mem s l = true <-> In s l.
Proof.
  intros s l. induction l as [|x r IH]; simpl; [split; [discriminate|tauto]|].
  rewrite orb_true_iff, IH, String.eqb_eq. split; intros [H|H]; auto.
Qed.

Lemma nodup_str_NoDup : forall l, nodup_str l = true -> NoDup l.
Proof.
  induction l as [|x r IH]; simpl; intros H; [constructor|].
  apply andb_true_iff in H. destruct H as [H1 H2]. constructor; [|exact (IH H2)].
  intros Hin. apply mem_In in Hin. rewrite Hin in H1. discriminate.
Qed.

Lemma find_row_In : forall d rows r, find_row d rows = Some r -> In r rows /\ r_dst r = d.
Proof.
  intros d rows r. induction rows as [|r0 rest IH]; simpl; [discriminate|].
  destruct (String.eqb d (r_dst r0)) eqn:Ed.
  - intros H. inversion H. subst. apply String.eqb_eq in Ed. split; [left; reflexivity|symmetry; exact Ed].
  - intros H. destruct (IH H) as [H1 H2]. split; [right; exact H1|exact H2].
Qed.

Lemma find_row_nodup : forall rows r, NoDup (map r_dst rows) -> In r rows -> find_row (r_dst r) rows = Some r.
Proof.
  induction rows as [|r0 rest IH]; simpl; intros r Hnd Hin; [contradiction|].
  inversion Hnd as [|? ? Hnot Hnd']. subst.
  destruct Hin as [Heq|Hin].
  - subst. rewrite String.eqb_refl. reflexivity.
  - destruct (String.eqb (r_dst r) (r_dst r0)) eqn:Ed.
    + apply String.eqb_eq in Ed. exfalso. apply Hnot. rewrite <- Ed. apply in_map. exact Hin.
    + apply IH; assumption.
Qed.

Lemma lookup_tables_In : forall {A} n (l : list (string * A)) t, lookup n l = Some t -> In (n, t) l.
Proof. intros. apply lookup_In. assumption. Qed.

(* ---------------------------------------------------------------- scalars *)

Lemma wrap_id : forall t z, in_ity t z = true -> wrap t z = z.
Proof.
  intros t z H. unfold in_ity in H. apply andb_true_iff in H. destruct H as [H1 H2].
  apply Z.leb_le in H1. apply Z.leb_le in H2. unfold wrap.
  rewrite Z.mod_small; [lia|]. destruct t; simpl in *; lia.
Qed.

Lemma ity_sub_in : forall a b z, ity_sub a b = true -> in_ity a z = true -> in_ity b z = true.
Proof.
  intros a b z Hs Hi. unfold ity_sub, in_ity in *.
  apply andb_true_iff in Hs. apply andb_true_iff in Hi. destruct Hs as [S1 S2]. destruct Hi as [I1 I2].
  apply Z.leb_le in S1, S2, I1, I2. apply andb_true_iff. split; apply Z.leb_le; lia.
Qed.

Lemma ity_eqb_eq : forall a b, ity_eqb a b = true -> a = b.
Proof. destruct a, b; simpl; intros H; try discriminate; reflexivity. Qed.

Lemma dur_roundtrip : forall d, in_ity I64 d = true -> dur_from (Z.quot d e9) (Z.rem d e9) = d.
Proof.
  intros d H. unfold in_ity in H. apply andb_true_iff in H. destruct H as [H1 H2].
  apply Z.leb_le in H1. apply Z.leb_le in H2. simpl in H1, H2.
  assert (He9 : e9 = 1000000000%Z) by reflexivity.
  pose proof (Z.quot_rem' d e9) as Hqr.
  assert (Hrb : (Z.abs (Z.rem d e9) < e9)%Z).
  { pose proof (Z.rem_bound_abs d e9). rewrite He9 in *. lia. }
  assert (Hsgn : (0 <= Z.rem d e9 * d)%Z).
  { destruct (Z.eq_dec d 0) as [->|Hd]; [rewrite Z.rem_0_l by (rewrite He9; lia); lia|].
    pose proof (Z.rem_sign_mul d e9). rewrite He9 in *. lia. }
  set (q := Z.quot d e9) in *. set (r := Z.rem d e9) in *.
  assert (Hq : (Z.abs (q * e9) <= Z.abs d)%Z).
  { rewrite He9 in *. nia. }
  unfold dur_from.
  assert (Hw1 : wrap I64 (q * e9) = (q * e9)%Z).
  { apply wrap_id. unfold in_ity. simpl. apply andb_true_iff. split; apply Z.leb_le; rewrite He9 in *; lia. }
  rewrite Hw1.
  assert (Hqq : Z.quot (q * e9) e9 = q). { apply Z.quot_mul. rewrite He9. lia. }
  rewrite Hqq, Z.eqb_refl. simpl negb.
  assert (Hd : (q * e9 + r = d)%Z) by lia.
  rewrite Hd.
  assert (Hw2 : wrap I64 d = d).
  { apply wrap_id. unfold in_ity. simpl. apply andb_true_iff. split; apply Z.leb_le; lia. }
  rewrite Hw2.
  assert (O2 : ((q <? 0) && (r <? 0) && (0 <? d))%Z = false).
  { destruct (q <? 0)%Z eqn:A; [|reflexivity]. destruct (r <? 0)%Z eqn:B; [|reflexivity].
    destruct (0 <? d)%Z eqn:C; [|reflexivity]. apply Z.ltb_lt in A, B, C. rewrite He9 in *. nia. }
  assert (O3 : ((0 <? q) && (0 <? r) && (d <? 0))%Z = false).
  { destruct (0 <? q)%Z eqn:A; [|reflexivity]. destruct (0 <? r)%Z eqn:B; [|reflexivity].
    destruct (d <? 0)%Z eqn:C; [|reflexivity]. apply Z.ltb_lt in A, B, C. rewrite He9 in *. nia. }
  rewrite O2, O3. reflexivity.
Qed.

Lemma time_roundtrip : forall s n, (0 <=? n)%Z && (n <? e9)%Z = true ->
  time_from s (wrap I32 n) = VTime s n.
Proof.
  intros s n H. apply andb_true_iff in H. destruct H as [H1 H2].
  apply Z.leb_le in H1. apply Z.ltb_lt in H2. assert (He9 : e9 = 1000000000%Z) by reflexivity.
  rewrite wrap_id.
  - unfold time_from. rewrite Z.div_small, Z.mod_small by (rewrite He9 in *; lia). f_equal. lia.
  - unfold in_ity. simpl. apply andb_true_iff. rewrite He9 in *. split; apply Z.leb_le; lia.
Qed.

Lemma set_insert_lt : forall x y r, vs_cmp x y = Lt -> set_insert x (y :: r) = x :: y :: r.
Proof. intros x y r H. simpl. rewrite H. reflexivity. Qed.

Lemma set_of_list_sorted : forall l, strictly_sorted l = true -> set_of_list l = l.
Proof.
  induction l as [|x r IH]; [reflexivity|].
  intros H. simpl in H. apply andb_true_iff in H. destruct H as [H Hr].
  apply andb_true_iff in H. destruct H as [_ Hxy].
  unfold set_of_list in *. simpl. rewrite (IH Hr).
  destruct r as [|y r']; [reflexivity|].
  destruct (vs_cmp x y) eqn:C; try discriminate. apply set_insert_lt. exact C.
Qed.

Lemma forallb_In : forall {A} (f : A -> bool) l x, forallb f l = true -> In x l -> f x = true.
Proof. intros A f l x H Hin. rewrite forallb_forall in H. apply H. exact Hin. Qed.

Lemma enum_roundtrip : forall ps d qs e z,
  forallb (fun z => (enum_map qs e (enum_map ps d z) =? z)%Z) (0%Z :: map fst ps) = true ->
  (z =? 0)%Z || existsb (fun p => (fst p =? z)%Z) ps = true ->
  enum_map qs e (enum_map ps d z) = z.
Proof.
  intros ps d qs e z Hall Hz. apply Z.eqb_eq. apply (forallb_In _ _ z Hall).
  apply orb_true_iff in Hz. destruct Hz as [Hz|Hz].
  - apply Z.eqb_eq in Hz. subst. left. reflexivity.
  - right. apply existsb_exists in Hz. destruct Hz as [p [Hp Hpz]]. apply Z.eqb_eq in Hpz. subst.
    apply in_map. exact Hp.
Qed.

Lemma flags_roundtrip : forall ps qs z,
  forallb (fun z => match flags_from qs (flags_to ps z) with Ok z' => (z' =? z)%Z | _ => false end)
          (zsubsets_or (map fst ps)) = true ->
  masks_only ps z = true ->
  flags_from qs (flags_to ps z) = Ok z.
Proof.
  intros ps qs z Hall Hz. unfold masks_only in Hz. apply existsb_exists in Hz.
  destruct Hz as [s [Hs Hsz]]. apply Z.eqb_eq in Hsz. subst s.
  pose proof (forallb_In _ _ z Hall Hs) as H. simpl in H.
  destruct (flags_from qs (flags_to ps z)) as [z'| |]; try discriminate.
  apply Z.eqb_eq in H. subst. reflexivity.
Qed.

(* ---------------------------------------------------------------- records *)

Definition row_apply (E : env) (fs : list (string * val)) (r : row) : outcome (string * val) :=
  match r_src r with
  | None => Ok (r_dst r, r_zero r)
  | Some (g, c') => do y <- lookup_with (fun x => apply E c' x) (Err ERR_SHAPE) g fs; Ok (r_dst r, y)
  end.

Lemma apply_rec_VR : forall E to nl n fs,
  apply E (CRec to nl n) (VR fs) =
  match rows_of E to n with
  | None => Err ERR_SHAPE
  | Some rows => do fs' <- omap (row_apply E fs) rows; Ok (VR fs')
  end.
Proof. reflexivity. Qed.

Lemma apply_rec_VNil_nilable : forall E to n t,
  lookup n (e_tables E) = Some t -> apply E (CRec to true n) VNil = Ok VNil.
Proof. intros E to n t H. simpl. unfold rows_of. rewrite H. reflexivity. Qed.

(** the round-trip statement for one value, for every admissible conversion pair *)
Definition RT (E : env) (v : val) : Prop :=
  forall ct cf, inv_ok E ct cf = true -> dom_b E ct cf v = true ->
    exists w, apply E ct v = Ok w /\ apply E cf w = Ok v.

Definition Rto (E : env) (fs : list (string * val)) (tr : row) (kv : string * val) : Prop :=
  fst kv = r_dst tr /\
  match r_src tr with
  | None => True
  | Some (g, ct) => exists x, lookup g fs = Some x /\ apply E ct x = Ok (snd kv)
  end.

Lemma Forall2_find_lookup : forall E fs rows fs' p tr,
  Forall2 (Rto E fs) rows fs' -> find_row p rows = Some tr ->
  exists y, lookup p fs' = Some y /\ Rto E fs tr (p, y).
Proof.
  intros E fs rows fs' p tr H. induction H as [|tr0 [k y0] rows' fs'' Hh Ht IH]; simpl; [discriminate|].
  destruct Hh as [Hk Hsrc]. simpl in Hk. subst k.
  destruct (String.eqb p (r_dst tr0)) eqn:Ep.
  - intros Heq. inversion Heq. subst tr0. exists y0. split; [reflexivity|].
    apply String.eqb_eq in Ep. split; [exact Ep|exact Hsrc].
  - exact IH.
Qed.

Lemma lookup_nodup : forall {A} (fs : list (string * A)) k x,
  NoDup (map fst fs) -> In (k, x) fs -> lookup k fs = Some x.
Proof.
  induction fs as [|[k0 x0] r IH]; simpl; intros k x Hnd Hin; [contradiction|].
  inversion Hnd as [|? ? Hnot Hnd']. subst.
  destruct Hin as [Heq|Hin].
  - inversion Heq. subst. rewrite String.eqb_refl. reflexivity.
  - destruct (String.eqb k k0) eqn:Ek.
    + apply String.eqb_eq in Ek. subst. exfalso. apply Hnot.
      change k0 with (fst (k0, x)). apply in_map. exact Hin.
    + apply IH; assumption.
Qed.

Lemma list_eqb_str_eq : forall a b, list_eqb String.eqb a b = true -> a = b.
Proof.
  induction a as [|x a IH]; destruct b as [|y b]; simpl; intros H; try discriminate; [reflexivity|].
  apply andb_true_iff in H. destruct H as [H1 H2]. apply String.eqb_eq in H1. subst. f_equal. apply IH. exact H2.
Qed.

Definition back_field (ex : list string) (fs : list (string * val)) (r : row) : string * val :=
  (r_dst r, if mem (r_dst r) ex then r_zero r
            else match lookup (r_dst r) fs with Some x => x | None => VNil end).

Lemma back_fields_mask : forall ex rows fs,
  map fst fs = map r_dst rows -> NoDup (map r_dst rows) ->
  map (back_field ex fs) rows = mask_excl ex rows fs.
Proof.
  intros ex rows fs Hnames Hnd.
  assert (Hnd' : NoDup (map fst fs)) by (rewrite Hnames; exact Hnd).
  assert (G : forall rows' fs', map fst fs' = map r_dst rows' ->
              (forall r, In r rows' -> find_row (r_dst r) rows = Some r) ->
              (forall kv, In kv fs' -> lookup (fst kv) fs = Some (snd kv)) ->
              map (back_field ex fs) rows' =
              map (fun kv => if mem (fst kv) ex
                             then (fst kv, match find_row (fst kv) rows with Some r => r_zero r | None => snd kv end)
                             else kv) fs').
  { induction rows' as [|r rows' IH]; destruct fs' as [|[k x] fs']; simpl; intros Hn Hr Hf; try discriminate; [reflexivity|].
    inversion Hn as [[Hk Hn']]. subst k. f_equal.
    - unfold back_field. destruct (mem (r_dst r) ex).
      + rewrite (Hr r (or_introl eq_refl)). reflexivity.
      + pose proof (Hf (r_dst r, x) (or_introl eq_refl)) as Hl. simpl in Hl. rewrite Hl. reflexivity.
    - apply IH; [exact Hn'| |]; intros; [apply Hr|apply Hf]; right; assumption. }
  unfold mask_excl. apply G; [exact Hnames| |].
  - intros r Hin. apply find_row_nodup; assumption.
  - intros [k x] Hin. simpl. apply lookup_nodup; assumption.
Qed.

Lemma rec_roundtrip : forall E n t fs nl nl',
  lookup n (e_tables E) = Some t ->
  fields_ok E n t = true ->
  Forall (fun kv => RT E (snd kv)) fs ->
  dom_b E (CRec true nl n) (CRec false nl' n) (VR fs) = true ->
  exists w, apply E (CRec true nl n) (VR fs) = Ok w /\
            apply E (CRec false nl' n) w = Ok (VR (mask_excl (excl_of E n) (t_from t) fs)).
Proof.
  intros E n t fs nl nl' Ht Hok IH Hdom.
  unfold fields_ok in Hok. repeat (apply andb_true_iff in Hok; destruct Hok as [Hok ?]).
  rename Hok into Hnd_from. rename H into Hto. rename H0 into Hfrom. rename H1 into Hnd_to.
  apply nodup_str_NoDup in Hnd_from. apply nodup_str_NoDup in Hnd_to.
  simpl in Hdom. rewrite Ht in Hdom. apply andb_true_iff in Hdom. destruct Hdom as [Hnames Hdom].
  apply list_eqb_str_eq in Hnames.
  (* facts about one from-row that is not excluded *)
  assert (Frow : forall r, In r (t_from t) -> mem (r_dst r) (excl_of E n) = false ->
            exists p cf tr ct x,
              r_src r = Some (p, cf) /\ find_row p (t_to t) = Some tr /\ r_src tr = Some (r_dst r, ct) /\
              inv_ok E ct cf = true /\ lookup (r_dst r) fs = Some x /\ dom_b E ct cf x = true).
  { intros r Hin Hex.
    pose proof (forallb_In _ _ r Hfrom Hin) as Hr. unfold from_row_ok in Hr. rewrite Hex in Hr.
    pose proof (forallb_In _ _ r Hdom Hin) as Hd. simpl in Hd. rewrite Hex in Hd. simpl in Hd.
    destruct (r_src r) as [[p cf]|]; [|discriminate].
    destruct (find_row p (t_to t)) as [tr|] eqn:Hf; [|discriminate].
    destruct (r_src tr) as [[g ct]|] eqn:Hs; [|discriminate].
    apply andb_true_iff in Hr. destruct Hr as [Hg Hinv]. apply String.eqb_eq in Hg. subst g.
    rewrite lookup_with_spec in Hd.
    destruct (lookup (r_dst r) fs) as [x|] eqn:Hl; [|discriminate].
    exists p, cf, tr, ct, x. repeat split; try assumption; reflexivity. }
  (* to direction *)
  assert (A : exists fs', omap (row_apply E fs) (t_to t) = Ok fs' /\ Forall2 (Rto E fs) (t_to t) fs').
  { apply omap_ok_ex. intros tr Hin. unfold row_apply, Rto.
    destruct (r_src tr) as [[g ct]|] eqn:Hs.
    - pose proof (forallb_In _ _ tr Hto Hin) as Htr. unfold to_row_ok in Htr. rewrite Hs in Htr.
      destruct (find_row g (t_from t)) as [r|] eqn:Hfr; [|discriminate].
      destruct (find_row_In _ _ _ Hfr) as [Hrin Hrg].
      destruct (r_src r) as [[p cf0]|] eqn:Hrs; [|discriminate].
      apply String.eqb_eq in Htr. subst p.
      assert (Hex : mem (r_dst r) (excl_of E n) = false).
      { destruct (mem (r_dst r) (excl_of E n)) eqn:Hm; [|reflexivity].
        pose proof (forallb_In _ _ r Hfrom Hrin) as Hr. unfold from_row_ok in Hr. rewrite Hm, Hrs in Hr. discriminate. }
      destruct (Frow r Hrin Hex) as [p [cf [tr' [ct' [x [E1 [E2 [E3 [E4 [E5 E6]]]]]]]]]].
      rewrite Hrs in E1. inversion E1. subst p cf.
      rewrite (find_row_nodup _ _ Hnd_to Hin) in E2. inversion E2. subst tr'.
      rewrite Hs in E3. inversion E3. subst g ct'.
      assert (Hx : RT E x).
      { rewrite Forall_forall in IH. apply (IH (r_dst r, x)). apply lookup_In. exact E5. }
      destruct (Hx ct cf0 E4 E6) as [w [Hw _]].
      exists (r_dst tr, w). rewrite lookup_with_spec, E5, Hw. simpl. split; [reflexivity|].
      split; [reflexivity|]. exists x. split; [first [exact E5|reflexivity]|exact Hw].
    - exists (r_dst tr, r_zero tr). split; [reflexivity|]. split; [reflexivity|exact I]. }
  destruct A as [fs' [Hfs' HR]].
  exists (VR fs'). split.
  - rewrite apply_rec_VR. unfold rows_of. rewrite Ht. rewrite Hfs'. reflexivity.
  - rewrite apply_rec_VR. unfold rows_of. rewrite Ht.
    rewrite (omap_ok_map _ (back_field (excl_of E n) fs)).
    + simpl. rewrite back_fields_mask; [reflexivity|exact Hnames|exact Hnd_from].
    + intros r Hin. unfold row_apply, back_field.
      destruct (mem (r_dst r) (excl_of E n)) eqn:Hex.
      * pose proof (forallb_In _ _ r Hfrom Hin) as Hr. unfold from_row_ok in Hr. rewrite Hex in Hr.
        destruct (r_src r); [discriminate|reflexivity].
      * destruct (Frow r Hin Hex) as [p [cf [tr [ct [x [E1 [E2 [E3 [E4 [E5 E6]]]]]]]]]].
        rewrite E1, lookup_with_spec.
        destruct (Forall2_find_lookup _ _ _ _ _ _ HR E2) as [y [Hy [_ Hsrc]]].
        rewrite Hy. rewrite E3 in Hsrc. destruct Hsrc as [x' [Hx' Hct]]. rewrite E5 in Hx'. inversion Hx'. subst x'.
        simpl in Hct.
        assert (Hx : RT E x).
        { rewrite Forall_forall in IH. apply (IH (r_dst r, x)). apply lookup_In. exact E5. }
        destruct (Hx ct cf E4 E6) as [w [Hw Hb]]. rewrite Hw in Hct. inversion Hct. subst y.
        rewrite Hb. simpl. rewrite E5. reflexivity.
Qed.

(* ---------------------------------------------------------------- the generic theorem *)

Lemma mask_excl_nil : forall rows fs, mask_excl [] rows fs = fs.
Proof.
  intros rows fs. unfold mask_excl. induction fs as [|kv r IH]; [reflexivity|]. simpl. f_equal. exact IH.
Qed.

Lemma omap_back : forall {A B} (f : B -> outcome A) l ys,
  Forall2 (fun x y => f y = Ok x) l ys -> omap f ys = Ok l.
Proof.
  intros A B f l ys H. induction H as [|x y l' ys' Hxy _ IH]; [reflexivity|].
  rewrite omap_cons, Hxy. simpl. rewrite IH. reflexivity.
Qed.

Lemma env_ok_table : forall E n t, env_ok E = true -> lookup n (e_tables E) = Some t -> fields_ok E n t = true.
Proof.
  intros E n t H Hl. unfold env_ok in H. apply andb_true_iff in H. destruct H as [H _].
  apply andb_true_iff in H. destruct H as [H _].
  apply (forallb_In _ _ (n, t) H). apply lookup_In. exact Hl.
Qed.

Lemma env_ok_qkind : forall E k pc, env_ok E = true -> lookup k (e_qto E) = Some pc -> qkind_ok E k = true.
Proof.
  intros E k pc H Hl. unfold env_ok in H. apply andb_true_iff in H. destruct H as [_ H].
  apply (forallb_In _ _ (k, pc) H). apply lookup_In. exact Hl.
Qed.

Lemma apply_list : forall E c l, apply E (CList c) (VL l) = (do l' <- omap (fun x => apply E c x) l; Ok (VL l')).
Proof. reflexivity. Qed.
Lemma apply_mapv : forall E c kvs,
  apply E (CMapV c) (VM kvs) =
  (do kvs' <- omap (fun kv => do y <- apply E c (snd kv); Ok (fst kv, y)) kvs; Ok (VM kvs')).
Proof. reflexivity. Qed.

Ltac pre ct cf Hinv Hdom :=
  destruct ct as [| |a1 b1| | | | |ps1 d1|c1|c1| | |[|] nl1 n1|f1|f1| | |s1|s1| | |ps1|ps1|w1];
  destruct cf as [| |a2 b2| | | | |ps2 d2|c2|c2| | |[|] nl2 n2|f2|f2| | |s2|s2| | |ps2|ps2|w2];
  simpl in Hinv; try discriminate; simpl in Hdom; try discriminate;
  try (match type of Hdom with context [lookup ?n (e_tables ?E)] =>
         destruct (lookup n (e_tables E)) eqn:Ht; simpl in Hdom; try discriminate end).

Theorem roundtrip_all : forall E, env_ok E = true -> forall v, RT E v.
Proof.
  intros E HE. induction v using val_ind2; intros ct cf Hinv Hdom.
  - (* VB *) pre ct cf Hinv Hdom. exists (VB b). split; reflexivity.
  - (* VZ *) pre ct cf Hinv Hdom.
    + exists (VZ z). split; reflexivity.
    + apply andb_true_iff in Hinv. destruct Hinv as [Hinv Hsub]. apply andb_true_iff in Hinv. destruct Hinv as [Ha Hb].
      apply ity_eqb_eq in Ha. apply ity_eqb_eq in Hb. subst.
      exists (VZ z). simpl. rewrite (wrap_id _ z (ity_sub_in _ _ _ Hsub Hdom)). split; [reflexivity|].
      rewrite (wrap_id _ z Hdom). reflexivity.
    + exists (dur_to z). split; [reflexivity|]. simpl. rewrite (dur_roundtrip z Hdom). reflexivity.
    + exists (VZ (enum_map ps1 d1 z)). split; [reflexivity|]. simpl.
      rewrite (enum_roundtrip _ _ _ _ _ Hinv Hdom). reflexivity.
    + exists (VR [("Flags"%string, VL (flags_to ps1 z))]). split; [reflexivity|]. simpl.
      rewrite (flags_roundtrip _ _ _ Hinv Hdom). reflexivity.
  - (* VS *) pre ct cf Hinv Hdom.
    + exists (VS s). split; reflexivity.
    + exists (VS s). split; reflexivity.
    + exists (VS s). split; [reflexivity|]. simpl.
      destruct (e_re_norm E s) as [s'|]; [|discriminate].
      destruct s1, s2; simpl in Hinv; try discriminate; [|reflexivity].
      assert (s' = s) as ->; [|reflexivity].
      clear -Hdom. revert s Hdom. induction s' as [|a s' IH]; destruct s as [|b s]; simpl; intros H; try discriminate; [reflexivity|].
      apply andb_true_iff in H. destruct H as [H1 H2]. apply N.eqb_eq in H1. subst. f_equal. apply IH. exact H2.
  - (* VTime *) pre ct cf Hinv Hdom.
    + exists (VTime s n). split; reflexivity.
    + exists (time_to s n). split; [reflexivity|]. simpl. rewrite (time_roundtrip s n Hdom). reflexivity.
  - (* VNil *) pre ct cf Hinv Hdom.
    + exists VNil. split; reflexivity.
    + apply andb_true_iff in Hinv. destruct Hinv as [Hinv _]. apply andb_true_iff in Hinv. destruct Hinv as [Hn _].
      apply String.eqb_eq in Hn. subst n2.
      apply andb_true_iff in Hdom. destruct Hdom as [-> ->].
      exists VNil. split; apply (apply_rec_VNil_nilable _ _ _ _ Ht).
  - (* VL *) pre ct cf Hinv Hdom.
    + exists (VL l). split; reflexivity.
    + (* CList *)
      destruct (omap_ok_ex (fun x => apply E c1 x) (fun x y => apply E c2 y = Ok x) l) as [ys [Hys HR]].
      { intros x Hin. rewrite Forall_forall in H. apply (H x Hin c1 c2 Hinv). apply (forallb_In _ _ x Hdom Hin). }
      exists (VL ys). split.
      * rewrite apply_list, Hys. reflexivity.
      * rewrite apply_list, (omap_back (fun x => apply E c2 x) _ _ HR). reflexivity.
    + exists (VL l). split; [reflexivity|]. simpl. rewrite (set_of_list_sorted l Hdom). reflexivity.
    + exists (VL l). split; reflexivity.
  - (* VM *) pre ct cf Hinv Hdom.
    + exists (VM kvs). split; reflexivity.
    + destruct (omap_ok_ex (fun kv => do y <- apply E c1 (snd kv); Ok (fst kv, y))
                  (fun kv kv' => (do y <- apply E c2 (snd kv'); Ok (fst kv', y)) = Ok kv) kvs) as [ys [Hys HR]].
      { intros [k x] Hin. rewrite Forall_forall in H.
        destruct (H (k, x) Hin c1 c2 Hinv) as [w [Hw Hb]]. { apply (forallb_In _ _ (k, x) Hdom Hin). }
        exists (k, w). simpl in *. rewrite Hw, Hb. split; reflexivity. }
      exists (VM ys). split.
      * rewrite apply_mapv, Hys. reflexivity.
      * rewrite apply_mapv, (omap_back _ _ _ HR). reflexivity.
  - (* VR *) pre ct cf Hinv Hdom.
    + exists (VR fs). split; reflexivity.
    + (* CRec *)
      apply andb_true_iff in Hinv. destruct Hinv as [Hinv Hex]. apply andb_true_iff in Hinv. destruct Hinv as [Hn _].
      apply String.eqb_eq in Hn. subst n2.
      destruct (rec_roundtrip E n1 t fs nl1 nl2 Ht (env_ok_table _ _ _ HE Ht) H) as [w [Hw Hb]].
      { simpl. rewrite Ht. exact Hdom. }
      destruct (excl_of E n1) eqn:Hexn; [|discriminate].
      exists w. split; [exact Hw|]. rewrite Hb, mask_excl_nil. reflexivity.
    + (* CProj *)
      destruct fs as [|[g x] [|? ?]]; try discriminate.
      apply String.eqb_eq in Hinv. apply String.eqb_eq in Hdom. subst.
      exists x. simpl. rewrite String.eqb_refl. split; [reflexivity|]. destruct x; reflexivity.
  - (* VQ *) pre ct cf Hinv Hdom.
    + exists (VQ k v). split; reflexivity.
    + destruct (lookup k (e_qto E)) as [[pk ct']|] eqn:Hk; [|discriminate].
      pose proof (env_ok_qkind _ _ _ HE Hk) as Hq. unfold qkind_ok in Hq. rewrite Hk in Hq.
      destruct (lookup pk (e_qfrom E)) as [[k' cf']|] eqn:Hpk; [|discriminate].
      apply andb_true_iff in Hq. destruct Hq as [Hkk Hinv']. apply String.eqb_eq in Hkk. subst k'.
      destruct (IHv ct' cf' Hinv' Hdom) as [w [Hw Hb]].
      exists (VQ pk w). simpl. rewrite Hk, Hw. simpl. split; [reflexivity|]. rewrite Hpk, Hb. reflexivity.
Qed.

(* ---------------------------------------------------------------- no request panics *)

Definition np (o : outcome val) : Prop := forall w, o <> Panic w.

Lemma omap_np : forall {A B} (f : A -> outcome B) l,
  (forall x, In x l -> forall w, f x <> Panic w) -> forall w, omap f l <> Panic w.
Proof.
  intros A B f l. induction l as [|x r IH]; intros H w; [discriminate|].
  rewrite omap_cons. destruct (f x) as [y|e|w'] eqn:Hx; simpl.
  - destruct (omap f r) as [ys|e|w'] eqn:Hr; simpl; try discriminate.
    intros Heq. inversion Heq. subst. apply (IH (fun z Hz => H z (or_intror Hz)) w). reflexivity.
  - discriminate.
  - exfalso. apply (H x (or_introl eq_refl) w'). exact Hx.
Qed.

Lemma from_safe_parts : forall E, from_safe E = true ->
  e_qfrom_nil_safe E = true /\ e_qfrom_default_panics E = false /\
  forallb (fun nt => forallb (row_safe E) (t_from (snd nt))) (e_tables E) = true /\
  forallb (fun kc => safe_payload_conv E (snd (snd kc))) (e_qfrom E) = true /\
  lookup "" (e_qfrom E) = None /\
  (exists t, lookup "zoekt.SearchOptions" (e_tables E) = Some t) /\
  forallb (fun nt => t_from_nilsafe (snd nt)) (e_tables E) = true /\
  forallb (fun no => not_panic (snd no)) (e_nilfrom E) = true.
Proof.
  intros E H. unfold from_safe in H. repeat rewrite andb_true_iff in H.
  destruct H as [[[[[[[H1 H2] H3] H4] H5] H6] H7] H8].
  repeat split; try assumption.
  - destruct (e_qfrom_default_panics E); [discriminate|reflexivity].
  - destruct (lookup "" (e_qfrom E)); [discriminate|reflexivity].
  - destruct (lookup "zoekt.SearchOptions" (e_tables E)) as [t|]; [exists t; reflexivity|discriminate].
Qed.

Lemma from_safe_rows : forall E n t r, from_safe E = true -> lookup n (e_tables E) = Some t ->
  In r (t_from t) -> row_safe E r = true.
Proof.
  intros E n t r H Hl Hin. destruct (from_safe_parts E H) as [_ [_ [H3 _]]].
  apply (forallb_In _ _ r (forallb_In _ _ (n, t) H3 (lookup_In _ _ _ Hl)) Hin).
Qed.

Lemma obind_np : forall {A B} (x : outcome A) (f : A -> outcome B),
  (forall w, x <> Panic w) -> (forall a w, f a <> Panic w) -> forall w, obind x f <> Panic w.
Proof.
  intros A B x f Hx Hf w. destruct x as [a|e|w']; simpl; [apply Hf|discriminate|].
  exfalso. apply (Hx w'). reflexivity.
Qed.

Lemma flags_from_np : forall ps l w, flags_from ps l <> Panic w.
Proof.
  intros ps l. induction l as [|x r IH]; intros w; simpl; [discriminate|].
  destruct x; try discriminate. destruct (flags_from ps r) as [a|e|w'] eqn:Hr; simpl; try discriminate.
  exfalso. apply (IH w'). reflexivity.
Qed.

Ltac shallow :=
  simpl; try discriminate;
  repeat match goal with
  | |- context [match ?x with _ => _ end] => is_var x; destruct x; simpl; try discriminate
  | |- context [match e_re_norm ?E ?s with _ => _ end] => destruct (e_re_norm E s); simpl; try discriminate
  | |- context [match rows_of ?E ?t ?n with _ => _ end] => destruct (rows_of E t n); simpl; try discriminate
  | |- context [if String.eqb ?a ?b then _ else _] => destruct (String.eqb a b); simpl; try discriminate
  end.

Theorem from_no_panic : forall E, from_safe E = true ->
  forall v, wire_wf v = true -> forall c, safe_payload_conv E c = true ->
  (v <> VNil \/ safe_conv E c = true) -> forall w, apply E c v <> Panic w.
Proof.
  intros E HE. destruct (from_safe_parts E HE) as [Hns [Hdp [_ [Hq [Hq0 [_ [_ Hnf]]]]]]].
  induction v using val_ind2; intros Hwf c Hc Hnil w;
    destruct c as [| |a1 b1| | | | |ps1 d1|c1|c1| | |[|] nl1 n1|f1|f1| | |s1|s1| | |ps1|ps1|w1];
    simpl in Hc; try discriminate.
  (* everything whose result is decided by the outer shape of the value *)
  all: try solve [shallow].
  - (* VNil, CRec false *)
    destruct Hnil as [Hnil|Hnil]; [exfalso; apply Hnil; reflexivity|]. simpl in Hnil. simpl. unfold rows_of.
    destruct (lookup n1 (e_tables E)) as [t|]; [|discriminate]. rewrite Hnil. destruct nl1; [discriminate|].
    destruct (lookup n1 (e_nilfrom E)) as [o|] eqn:Ho; [|discriminate].
    pose proof (forallb_In _ _ (n1, o) Hnf (lookup_In _ _ _ Ho)) as Hnp. simpl in Hnp.
    destruct o; [discriminate|discriminate|discriminate Hnp].
  - (* VNil, CQFrom *) simpl. rewrite Hns, Hdp. discriminate.
  - (* VNil, CFlagsFrom *)
    destruct Hnil as [Hnil|Hnil]; [exfalso; apply Hnil; reflexivity|discriminate].
  - (* VL, CList *)
    rewrite apply_list. apply obind_np; [|intros a w'; discriminate].
    apply omap_np. intros x Hin. rewrite Forall_forall in H. simpl in Hwf.
    assert (Hs : safe_conv E c1 = true) by (unfold safe_payload_conv in Hc; simpl in Hc; rewrite orb_false_r in Hc; exact Hc).
    apply (H x Hin (forallb_In _ _ x Hwf Hin) c1).
    + unfold safe_payload_conv. rewrite Hs. reflexivity.
    + right. exact Hs.
  - (* VM, CMapV *)
    rewrite apply_mapv. apply obind_np; [|intros a w'; discriminate].
    apply omap_np. intros [k x] Hin. rewrite Forall_forall in H. simpl in Hwf.
    apply obind_np; [|intros a w'; discriminate].
    assert (Hs : safe_conv E c1 = true) by (unfold safe_payload_conv in Hc; simpl in Hc; rewrite orb_false_r in Hc; exact Hc).
    apply (H (k, x) Hin (forallb_In _ _ (k, x) Hwf Hin) c1).
    + unfold safe_payload_conv. rewrite Hs. reflexivity.
    + right. exact Hs.
  - (* VR, CRec false *)
    rewrite apply_rec_VR. unfold rows_of. destruct (lookup n1 (e_tables E)) as [t|] eqn:Ht; [|discriminate].
    apply obind_np; [|intros a w'; discriminate].
    apply omap_np. intros r Hin. unfold row_apply.
    pose proof (from_safe_rows E n1 t r HE Ht Hin) as Hr. unfold row_safe in Hr.
    destruct (r_src r) as [[g c']|]; [|intros w'; discriminate].
    apply obind_np; [|intros a w'; discriminate].
    rewrite lookup_with_spec. destruct (lookup g fs) as [x|] eqn:Hl; [|intros w'; discriminate].
    rewrite Forall_forall in H. simpl in Hwf.
    apply (H (g, x) (lookup_In _ _ _ Hl) (forallb_In _ _ (g, x) Hwf (lookup_In _ _ _ Hl)) c').
    + unfold safe_payload_conv. rewrite Hr. reflexivity.
    + right. exact Hr.
  - (* VR, CFlagsFrom *)
    simpl. destruct fs as [|[g x] fs']; [discriminate|]. destruct x; destruct fs'; try discriminate.
    apply obind_np; [apply flags_from_np|intros a w'; discriminate].
  - (* VQ, CQFrom *)
    simpl. destruct (lookup k (e_qfrom E)) as [[gk c']|] eqn:Hk; [|rewrite Hdp; discriminate].
    apply obind_np; [|intros a w'; discriminate].
    simpl in Hwf. apply andb_true_iff in Hwf. destruct Hwf as [Hk0 Hwf].
    apply IHv; [exact Hwf| |].
    + apply (forallb_In _ _ (k, (gk, c')) Hq (lookup_In _ _ _ Hk)).
    + left. intros ->. apply orb_true_iff in Hk0. destruct Hk0 as [Hk0|Hk0]; [|discriminate].
      apply String.eqb_eq in Hk0. subst k. rewrite Hq0 in Hk. discriminate.
Qed.

(* ---------------------------------------------------------------- handlers *)

Lemma wire_wf_getf : forall f v, wire_wf v = true -> wire_wf (getf f v) = true.
Proof.
  intros f v H. destruct v; try reflexivity. simpl in *.
  destruct (lookup f fs) as [x|] eqn:Hl; [|reflexivity].
  apply (forallb_In _ _ (f, x) H (lookup_In _ _ _ Hl)).
Qed.

Lemma safe_conv_rec : forall E nl n, from_safe E = true -> safe_conv E (CRec false nl n) = true.
Proof.
  intros E nl n H. destruct (from_safe_parts E H) as [_ [_ [_ [_ [_ [_ [H7 _]]]]]]]. simpl.
  destruct (lookup n (e_tables E)) as [t|] eqn:Hl; [|reflexivity].
  apply (forallb_In _ _ (n, t) H7 (lookup_In _ _ _ Hl)).
Qed.

(** the record-level corollary with named exclusions *)
Theorem record_roundtrip : forall E, env_ok E = true ->
  forall n t fs nl nl', lookup n (e_tables E) = Some t ->
  dom_b E (CRec true nl n) (CRec false nl' n) (VR fs) = true ->
  exists w, apply E (CRec true nl n) (VR fs) = Ok w /\
            apply E (CRec false nl' n) w = Ok (VR (mask_excl (excl_of E n) (t_from t) fs)).
Proof.
  intros E HE n t fs nl nl' Ht Hdom.
  apply (rec_roundtrip E n t fs nl nl' Ht (env_ok_table _ _ _ HE Ht)); [|exact Hdom].
  apply Forall_forall. intros kv _. apply roundtrip_all. exact HE.
Qed.

(* ---------------------------------------------------------------- handlers: decode, call, encode *)

(** response encoding: a result of the domain is encoded without panic, and decodes (on the client)
    to the same result with the named exclusions reset *)
Lemma enc_result_roundtrip : forall E, env_ok E = true -> forall n r, res_dom E n r = true ->
  exists w, enc_result E n r = Ok w /\ dec_result E n w = Ok (res_back E n r).
Proof.
  intros E HE n r Hd. unfold res_dom, enc_result, dec_result, res_back in *.
  destruct (lookup n (e_tables E)) as [t|] eqn:Ht; [|discriminate].
  destruct r; try (simpl in Hd; rewrite Ht in Hd; discriminate).
  - (* VNil *) simpl in Hd. rewrite Ht in Hd. apply andb_true_iff in Hd. destruct Hd as [-> ->].
    exists VNil. split; apply (apply_rec_VNil_nilable _ _ _ _ Ht).
  - (* VR *) apply (record_roundtrip E HE n t fs _ _ Ht Hd).
Qed.

Section HandlersTotal.
  Variable E : env.
  Variable search : val -> val -> outcome val.
  Variable stream : val -> val -> outcome val.
  Variable list : val -> val -> outcome val.
  Hypothesis HE : from_safe E = true.
  Hypothesis HOK : env_ok E = true.
  (** the searcher behind the server does not panic when it is given options ... *)
  Hypothesis search_np : forall q o w, o <> VNil -> search q o <> Panic w.
  Hypothesis stream_np : forall q o w, o <> VNil -> stream q o <> Panic w.
  Hypothesis list_np : forall q o w, list q o <> Panic w.
  (** ... and what it returns is a value of the result type's round-trip domain *)
  Hypothesis search_dom : forall q o r, search q o = Ok r -> res_dom E "zoekt.SearchResult" r = true.
  Hypothesis stream_dom : forall q o evs, stream q o = Ok (VL evs) ->
    forallb (res_dom E "zoekt.SearchResult") evs = true.
  Hypothesis list_dom : forall q o r, list q o = Ok r -> res_dom E "zoekt.RepoList" r = true.

  Lemma decode_query_np : forall q, wire_wf q = true -> forall w, decode_query E q <> Panic w.
  Proof.
    intros q Hq w. unfold decode_query.
    pose proof (from_no_panic E HE q Hq CQFrom eq_refl (or_intror eq_refl)) as H.
    destruct (apply E CQFrom q) as [a|e|w'] eqn:Ha; try discriminate. exfalso. apply (H w'). reflexivity.
  Qed.

  Lemma enc_np : forall n r, res_dom E n r = true -> forall w, enc_result E n r <> Panic w.
  Proof.
    intros n r Hd w. destruct (enc_result_roundtrip E HOK n r Hd) as [x [Hx _]]. rewrite Hx. discriminate.
  Qed.

  (** decoding and the call: no panic, and an Ok result is a result of the searcher *)
  Lemma search_core_spec : forall f, (forall q o w, o <> VNil -> f q o <> Panic w) ->
    forall request, wire_wf request = true ->
    (forall w, search_core E f true request <> Panic w) /\
    (forall r, search_core E f true request = Ok r -> exists q o, f q o = Ok r).
  Proof.
    intros f f_np request Hwf. unfold search_core.
    pose proof (decode_query_np _ (wire_wf_getf "Query" _ Hwf)) as Hq.
    destruct (decode_query E (getf "Query" request)) as [q|e|w0]; simpl;
      [|split; [discriminate|intros r Hr; discriminate]|exfalso; apply (Hq w0); reflexivity].
    assert (Ho : forall w, apply E (CRec false true "zoekt.SearchOptions") (getf "Opts" request) <> Panic w).
    { apply (from_no_panic E HE _ (wire_wf_getf _ _ Hwf)).
      - unfold safe_payload_conv. rewrite (safe_conv_rec E _ _ HE). reflexivity.
      - right. apply (safe_conv_rec E _ _ HE). }
    destruct (apply E (CRec false true "zoekt.SearchOptions") (getf "Opts" request)) as [opts|e|w0]; simpl;
      [|split; [discriminate|intros r Hr; discriminate]|exfalso; apply (Ho w0); reflexivity].
    unfold call_search.
    destruct (is_nil opts) eqn:Hn.
    - unfold zero_opts, rows_of.
      destruct (from_safe_parts E HE) as [_ [_ [_ [_ [_ [[t Ht] _]]]]]]. rewrite Ht. simpl.
      split; [intros w; apply f_np; discriminate|intros r Hr; eauto].
    - rewrite Hn. split; [intros w; apply f_np; intros ->; discriminate|intros r Hr; eauto].
  Qed.

  Theorem handlers_total : forall h req, wire_wf req = true ->
    forall w, handle E search stream list true h req <> Panic w.
  Proof.
    intros h req Hwf. unfold handle.
    assert (HL : forall w, handle_list E list req <> Panic w).
    { unfold handle_list, list_core.
      pose proof (decode_query_np _ (wire_wf_getf "Query" _ Hwf)) as Hq.
      destruct (decode_query E (getf "Query" req)) as [q|e|w0]; simpl;
        [|intros w; discriminate|exfalso; apply (Hq w0); reflexivity].
      assert (Ho : forall w, apply E (CRec false true "zoekt.ListOptions") (getf "Opts" req) <> Panic w).
      { apply (from_no_panic E HE _ (wire_wf_getf _ _ Hwf)).
        - unfold safe_payload_conv. rewrite (safe_conv_rec E _ _ HE). reflexivity.
        - right. apply (safe_conv_rec E _ _ HE). }
      destruct (apply E (CRec false true "zoekt.ListOptions") (getf "Opts" req)) as [o|e|w0]; simpl;
        [|intros w; discriminate|exfalso; apply (Ho w0); reflexivity].
      intros w. destruct (list q o) as [r|e|w0] eqn:Hl; simpl.
      - apply enc_np. apply (list_dom _ _ _ Hl).
      - discriminate.
      - exfalso. apply (list_np q o w0). exact Hl. }
    destruct h as [|[p|p|]]; try exact HL.
    - (* Search *)
      unfold handle_search. destruct (search_core_spec search search_np req Hwf) as [Hnp Hres].
      intros w. destruct (search_core E search true req) as [r|e|w0] eqn:Hc; simpl.
      + destruct (Hres r eq_refl) as [q [o Hq]]. apply enc_np. apply (search_dom _ _ _ Hq).
      + discriminate.
      + exfalso. apply (Hnp w0). reflexivity.
    - (* StreamSearch *)
      unfold handle_stream_search.
      destruct (search_core_spec stream stream_np (getf "Request" req) (wire_wf_getf _ _ Hwf)) as [Hnp Hres].
      intros w. destruct (search_core E stream true (getf "Request" req)) as [r|e|w0] eqn:Hc; simpl.
      + destruct (Hres r eq_refl) as [q [o Hq]].
        destruct r; try discriminate.
        apply obind_np; [|intros a w'; discriminate].
        apply omap_np. intros x Hin. apply enc_np.
        apply (forallb_In _ _ x (stream_dom _ _ _ Hq) Hin).
      + discriminate.
      + exfalso. apply (Hnp w0). reflexivity.
  Qed.

  (** what the client decodes from the response of Search / List is what the searcher returned
      (named exclusions reset) *)
  Theorem search_response_lossless : forall req resp, wire_wf req = true ->
    handle_search E search true req = Ok resp ->
    exists q o r, search q o = Ok r /\ dec_result E "zoekt.SearchResult" resp = Ok (res_back E "zoekt.SearchResult" r).
  Proof.
    intros req resp Hwf H. unfold handle_search in H.
    destruct (search_core_spec search search_np req Hwf) as [_ Hres].
    destruct (search_core E search true req) as [r|e|w0] eqn:Hc; simpl in H; try discriminate.
    destruct (Hres r eq_refl) as [q [o Hq]]. exists q, o, r. split; [exact Hq|].
    destruct (enc_result_roundtrip E HOK _ r (search_dom _ _ _ Hq)) as [x [Hx Hb]].
    rewrite Hx in H. inversion H. subst. exact Hb.
  Qed.

  Theorem list_response_lossless : forall req resp, wire_wf req = true ->
    handle_list E list req = Ok resp ->
    exists q o r, list q o = Ok r /\ dec_result E "zoekt.RepoList" resp = Ok (res_back E "zoekt.RepoList" r).
  Proof.
    intros req resp Hwf H. unfold handle_list, list_core in H.
    destruct (decode_query E (getf "Query" req)) as [q|e|w0]; simpl in H; try discriminate.
    destruct (apply E (CRec false true "zoekt.ListOptions") (getf "Opts" req)) as [o|e|w0]; simpl in H; try discriminate.
    destruct (list q o) as [r|e|w0] eqn:Hl; simpl in H; try discriminate.
    exists q, o, r. split; [exact Hl|].
    destruct (enc_result_roundtrip E HOK _ r (list_dom _ _ _ Hl)) as [x [Hx Hb]].
    rewrite Hx in H. inversion H. subst. exact Hb.
  Qed.
End HandlersTotal.
