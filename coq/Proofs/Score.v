(** Proofs about Model/Score.v (property C29). *)
From Coq Require Import QArith Qabs Qround Lqa Sorting.Sorted Sorting.Permutation.
From ZV Require Import Lib.Base Generated.ScoreConsts Model.Score.
Open Scope Q_scope.

(** ** 1. Debug neutrality: the flag only feeds the explanation tokens *)
Lemma add_score_fst d1 d2 t s a1 a2 :
  fst a1 = fst a2 -> fst (add_score d1 t s a1) = fst (add_score d2 t s a2).
Proof. intros H. unfold add_score. simpl. now rewrite H. Qed.

Lemma word_part_fst d1 d2 c a1 a2 : fst a1 = fst a2 -> fst (word_part d1 c a1) = fst (word_part d2 c a2).
Proof.
  intros H. unfold word_part. destruct (c_sb c && c_eb c); [now apply add_score_fst|].
  destruct (c_sb c || c_eb c); [now apply add_score_fst|exact H].
Qed.
Lemma kind_part_fst d1 d2 c a1 a2 : fst a1 = fst a2 -> fst (kind_part d1 c a1) = fst (kind_part d2 c a2).
Proof.
  intros H. unfold kind_part. destruct (c_kind c) as [|s e inner|s e k]; [exact H| |].
  - destruct (s && e); [now apply add_score_fst|]. destruct (s || e); [now apply add_score_fst|].
    destruct inner; [now apply add_score_fst|exact H].
  - cbv zeta. destruct k; [apply add_score_fst|];
      (destruct (s && e); [now apply add_score_fst|]; destruct (s || e); now apply add_score_fst).
Qed.
Lemma weight_part_fst d1 d2 c a1 a2 : fst a1 = fst a2 -> fst (weight_part d1 c a1) = fst (weight_part d2 c a2).
Proof. intros H. unfold weight_part. destruct (eps_one (c_weight c)); [exact H|]. simpl. now rewrite H. Qed.

Lemma score_cand_neutral c : fst (score_cand true c) = fst (score_cand false c).
Proof. unfold score_cand. apply weight_part_fst, kind_part_fst, word_part_fst. reflexivity. Qed.

Lemma fold_better_neutral cs a1 a2 :
  fst a1 = fst a2 ->
  fst (fold_left (fun b c => better b (score_cand true c)) cs a1) =
  fst (fold_left (fun b c => better b (score_cand false c)) cs a2).
Proof.
  revert a1 a2; induction cs as [|c r IH]; intros a1 a2 H; simpl; [exact H|].
  apply IH. unfold better. rewrite H, score_cand_neutral.
  destruct (Qltb (fst a2) (fst (score_cand false c))); [apply score_cand_neutral | exact H].
Qed.

Lemma score_line_neutral cs : fst (score_line true cs) = fst (score_line false cs).
Proof. unfold score_line. simpl. now apply fold_better_neutral. Qed.

Lemma score_chunk_neutral ls : fst (score_chunk true ls) = fst (score_chunk false ls).
Proof.
  unfold score_chunk.
  assert (G : forall a1 a2 : Q * Z * list dtoken, fst a1 = fst a2 ->
    fst (fold_left (fun (b : Q * Z * list dtoken) (l : Z * list cand) =>
                      let s := score_line true (snd l) in
                      if Qltb (fst (fst b)) (fst s) then (fst s, fst l, snd s) else b) ls a1) =
    fst (fold_left (fun (b : Q * Z * list dtoken) (l : Z * list cand) =>
                      let s := score_line false (snd l) in
                      if Qltb (fst (fst b)) (fst s) then (fst s, fst l, snd s) else b) ls a2)).
  { induction ls as [|l r IH]; intros a1 a2 H; cbn [fold_left]; [exact H|]. apply IH. cbv zeta.
    rewrite H, score_line_neutral.
    destruct (Qltb (fst (fst a2)) (fst (score_line false (snd l)))); [reflexivity|exact H]. }
  now apply G.
Qed.

Lemma match_score_neutral m : fst (match_score true m) = fst (match_score false m).
Proof. unfold match_score. simpl. now rewrite score_chunk_neutral. Qed.

Theorem score_file_neutral f :
  fst (score_file true f) = fst (score_file false f) /\ snd (score_file false f) = [].
Proof.
  unfold score_file. split; [|reflexivity].
  assert (E : map (fun m => fst (match_score true m)) (fi_matches f) =
              map (fun m => fst (match_score false m)) (fi_matches f)).
  { apply map_ext. intros m. apply match_score_neutral. }
  rewrite E. reflexivity.
Qed.

Theorem rank_matches_neutral f : rank_matches true f = rank_matches false f.
Proof. unfold rank_matches. now rewrite (proj1 (score_file_neutral f)). Qed.

Theorem rank_all_neutral fs : rank_all true fs = rank_all false fs.
Proof.
  unfold rank_all.
  assert (E : map (fun x : N * N * fin => let '(i, e, f) := x in
                     ({| sf_id := i; sf_score := snd (fst (score_file true f)); sf_ext := e |}, rank_matches true f)) fs =
              map (fun x : N * N * fin => let '(i, e, f) := x in
                     ({| sf_id := i; sf_score := snd (fst (score_file false f)); sf_ext := e |}, rank_matches false f)) fs).
  { apply map_ext. intros [[i e] f]. now rewrite rank_matches_neutral, (proj1 (score_file_neutral f)). }
  now rewrite E.
Qed.

(** ** 2. Sorting by decreasing score *)
Section SortFacts.
  Context {A : Type} (score : A -> Q).
  Definition desc (a b : A) : Prop := score b <= score a.

  Lemma Qltb_false a b : Qltb a b = false -> b <= a.
  Proof. unfold Qltb. intros H. apply negb_false_iff in H. now apply Qle_bool_iff. Qed.
  Lemma Qltb_true a b : Qltb a b = true -> a < b.
  Proof.
    unfold Qltb. intros H. apply negb_true_iff in H. apply Qnot_le_lt. intros L.
    apply Qle_bool_iff in L. congruence.
  Qed.

  Lemma ins_desc_perm x l : Permutation (x :: l) (ins_desc score x l).
  Proof.
    induction l as [|y r IH]; simpl; [reflexivity|].
    destruct (Qltb (score y) (score x)); [reflexivity|].
    rewrite perm_swap. now constructor.
  Qed.

  Lemma ins_desc_hd x l a : HdRel desc a l -> desc a x -> HdRel desc a (ins_desc score x l).
  Proof.
    intros H Hx. destruct l as [|y r]; simpl; [now constructor|].
    destruct (Qltb (score y) (score x)); constructor; [exact Hx|]. now inversion H.
  Qed.

  Lemma ins_desc_sorted x l : Sorted desc l -> Sorted desc (ins_desc score x l).
  Proof.
    induction 1 as [|y r Hs IH Hh]; simpl; [repeat constructor|].
    destruct (Qltb (score y) (score x)) eqn:E.
    - constructor; [now constructor|]. constructor. unfold desc. apply Qlt_le_weak. now apply Qltb_true.
    - constructor; [exact IH|]. apply ins_desc_hd; [exact Hh|]. unfold desc. now apply Qltb_false.
  Qed.

  Theorem sort_desc_sorted l : Sorted desc (sort_desc score l).
  Proof. induction l; simpl; [constructor|now apply ins_desc_sorted]. Qed.

  Theorem sort_desc_perm l : Permutation l (sort_desc score l).
  Proof.
    induction l as [|x l IH]; simpl; [reflexivity|].
    rewrite <- ins_desc_perm. now constructor.
  Qed.

  Lemma desc_trans : Relations_1.Transitive desc.
  Proof. intros a b c H1 H2. unfold desc in *. eapply Qle_trans; eauto. Qed.

  Lemma ssorted_remove (a : list A) x b :
    StronglySorted desc (a ++ x :: b) -> StronglySorted desc (a ++ b).
  Proof.
    induction a as [|y a IH]; simpl; intros H.
    - now inversion H.
    - inversion H as [|? ? Hs Hf]; subst. constructor; [now apply IH|].
      rewrite Forall_app in *. destruct Hf as [F1 F2]. split; [exact F1|]. now inversion F2.
  Qed.
End SortFacts.

(** ** 3. SortFiles = sorted, except exactly the documented promotion *)
Definition eligible (top : list sfile) (min_score : Q) (c : sfile) : bool :=
  negb (Qltb (sf_score c) min_score) && negb (ext_in (sf_ext c) top).

Lemma find_novel_spec top m cands k i c :
  find_novel top m cands k = Some (i, c) ->
  (k <= i)%nat /\ nth_error cands (i - k) = Some c /\ eligible top m c = true /\
  forall j d, (j < i - k)%nat -> nth_error cands j = Some d -> eligible top m d = false.
Proof.
  revert k; induction cands as [|x r IH]; intros k; simpl; [discriminate|].
  unfold eligible in *.
  destruct (Qltb (sf_score x) m) eqn:E1; [|destruct (ext_in (sf_ext x) top) eqn:E2].
  1,2: intros H; destruct (IH _ H) as (L & N1 & El & Fst);
    (split; [lia|]); replace (i - k)%nat with (S (i - S k)) by lia; simpl;
    (split; [exact N1|]); (split; [exact El|]);
    intros [|j] d Hj Hd; simpl in Hd;
    [injection Hd as <-; rewrite ?E1, ?E2; simpl; now rewrite ?andb_false_r | apply (Fst j d); [lia|exact Hd]].
  intros H; injection H as <- <-. replace (k - k)%nat with 0%nat by lia. simpl.
  split; [lia|]. split; [reflexivity|]. split; [now rewrite E1, E2|]. intros j d Hj. lia.
Qed.

Theorem sort_files_shape ms :
  let l := sort_desc sf_score ms in
  Permutation ms l /\ Sorted (desc sf_score) l /\
  (sort_files ms = l \/
   exists i c displaced,
     (c_boostOffset + 1 < length l)%nat /\
     nth_error l c_boostOffset = Some displaced /\
     nth_error (skipn c_boostOffset l) i = Some c /\
     sort_files ms = firstn c_boostOffset l ++ c :: firstn i (skipn c_boostOffset l) ++ skipn (S i) (skipn c_boostOffset l) /\
     eligible (firstn c_boostOffset l) (sf_score displaced * c_minScoreRatio) c = true /\
     (forall j d, (j < i)%nat -> nth_error (skipn c_boostOffset l) j = Some d ->
                  eligible (firstn c_boostOffset l) (sf_score displaced * c_minScoreRatio) d = false)).
Proof.
  intros l. split; [apply sort_desc_perm|]. split; [apply sort_desc_sorted|].
  unfold sort_files. fold l. unfold boost_novel.
  destruct (length l <=? c_boostOffset + 1)%nat eqn:EL; [now left|].
  destruct (skipn c_boostOffset l) as [|c0 rest] eqn:ES; [now left|].
  destruct (find_novel (firstn c_boostOffset l) (sf_score c0 * c_minScoreRatio) (c0 :: rest) 0) as [[i c]|] eqn:EF; [|now left].
  right. destruct (find_novel_spec _ _ _ _ _ _ EF) as (_ & N1 & El & Fst).
  rewrite Nat.sub_0_r in N1, Fst.
  exists i, c, c0. repeat split; auto.
  - apply Nat.leb_gt in EL. lia.
  - rewrite <- (firstn_skipn c_boostOffset l) at 1. rewrite ES.
    rewrite nth_error_app2 by (rewrite firstn_length; lia).
    rewrite firstn_length. apply Nat.leb_gt in EL.
    replace (c_boostOffset - Nat.min c_boostOffset (length l))%nat with 0%nat by lia. reflexivity.
Qed.

Lemma take_out {A} (top : list A) c rest n :
  length top = n -> firstn n (top ++ c :: rest) ++ skipn (S n) (top ++ c :: rest) = top ++ rest.
Proof.
  intros <-. rewrite firstn_app, Nat.sub_diag, firstn_all.
  change (firstn 0 (c :: rest)) with (@nil A). rewrite app_nil_r.
  rewrite skipn_app. rewrite (skipn_all2 top) by lia.
  replace (S (length top) - length top)%nat with 1%nat by lia. reflexivity.
Qed.

(** taking the promoted file out again leaves a list in non-increasing score order *)
Theorem sort_files_sorted_but_one ms :
  StronglySorted (desc sf_score) (sort_files ms) \/
  StronglySorted (desc sf_score) (firstn c_boostOffset (sort_files ms) ++ skipn (S c_boostOffset) (sort_files ms)).
Proof.
  destruct (sort_files_shape ms) as (_ & HS & [E | (i & c & d & L & Nd & Nc & E & _)]).
  - left. rewrite E. apply Sorted_StronglySorted; [apply desc_trans | exact HS].
  - right. set (l := sort_desc sf_score ms) in *.
    assert (SS : StronglySorted (desc sf_score) l) by (apply Sorted_StronglySorted; [apply desc_trans | exact HS]).
    assert (LT : length (firstn c_boostOffset l) = c_boostOffset) by (rewrite firstn_length; lia).
    rewrite E. rewrite (take_out _ _ _ _ LT).
    (* l = top ++ firstn i cands ++ c :: skipn (S i) cands *)
    assert (D : l = (firstn c_boostOffset l ++ firstn i (skipn c_boostOffset l)) ++ c :: skipn (S i) (skipn c_boostOffset l)).
    { rewrite <- app_assoc. rewrite <- (firstn_skipn c_boostOffset l) at 1. f_equal.
      rewrite <- (firstn_skipn i (skipn c_boostOffset l)) at 1. f_equal.
      clear - Nc. revert Nc. generalize (skipn c_boostOffset l). intros x. revert x.
      induction i as [|i IH]; intros [|y x]; simpl; try discriminate.
      - intros H; now injection H as ->.
      - apply IH. }
    rewrite D in SS. apply ssorted_remove in SS. now rewrite <- app_assoc in SS.
Qed.

(** the ranked matches of a file are in non-increasing score order and are exactly its matches *)
Theorem rank_matches_sorted dbg f :
  Sorted (desc snd) (rank_matches dbg f) /\
  Permutation (combine (seq 0 (length (fst (fst (score_file dbg f))))) (fst (fst (score_file dbg f)))) (rank_matches dbg f).
Proof. unfold rank_matches. split; [apply sort_desc_sorted | apply sort_desc_perm]. Qed.

(** ** 4. Scores are bounded (hence finite in binary64) *)
Definition base_bound : Q := c_scoreWordMatch + c_scoreSymbol + c_maxKindFactor * c_scoreKindMatch.
Definition kind_ok (c : cand) : Prop :=
  match c_kind c with
  | KSym _ _ (Some q) => 0 <= q <= c_maxKindFactor * c_scoreKindMatch
  | _ => True
  end.

Ltac unfold_consts :=
  unfold base_bound, c_scoreWordMatch, c_scorePartialWordMatch, c_scoreBase, c_scorePartialBase, c_scoreSymbol,
    c_scorePartialSymbol, c_maxKindFactor, c_scoreKindMatch, c_scoreFactorAtomMatch, c_scoreLineOrderFactor,
    c_scoreRepoRankFactor, c_scoreFileOrderFactor, c_ScoreOffset in *.

Lemma Qhalf x : x / 2 == x * (1 # 2).
Proof. unfold Qdiv. reflexivity. Qed.

Lemma base_bounds d c : kind_ok c -> 0 <= fst (kind_part d c (word_part d c (0, []))) <= base_bound.
Proof.
  unfold kind_ok, kind_part, word_part, add_score.
  destruct (c_sb c && c_eb c), (c_sb c || c_eb c), (c_kind c) as [|s e inner|s e [q|]]; intros K; simpl;
    try destruct (s && e); try destruct (s || e); try destruct inner; simpl; rewrite ?Qhalf; unfold_consts; lra.
Qed.

(** the weight may be negative (a negative Boost is accepted): only an upper bound on the weight is needed
    for the upper bound on a candidate's score; the lower bound 0 of a LINE score comes from scoreLine keeping
    only candidates that beat the running best, which starts at 0 *)
Lemma cand_bounds d c W :
  kind_ok c -> c_weight c <= W -> 1 <= W -> fst (score_cand d c) <= base_bound * W.
Proof.
  intros K Hw HW. unfold score_cand, weight_part.
  pose proof (base_bounds d c K) as B. set (s := fst (kind_part d c (word_part d c (0, [])))) in *.
  assert (B0 : 0 <= base_bound) by lra.
  destruct (eps_one (c_weight c)); simpl; fold s; [nra|].
  destruct (Qlt_le_dec (c_weight c) 0) as [N|P]; nra.
Qed.

Definition cands_ok (W : Q) (cs : list cand) : Prop :=
  Forall (fun c => kind_ok c /\ c_weight c <= W) cs.

Lemma line_bounds d cs W : cands_ok W cs -> 1 <= W -> 0 <= fst (score_line d cs) <= base_bound * W.
Proof.
  intros H HW. unfold score_line. simpl.
  assert (G : forall a : Q * list dtoken, 0 <= fst a <= base_bound * W ->
              0 <= fst (fold_left (fun b c => better b (score_cand d c)) cs a) <= base_bound * W).
  { induction H as [|c r [K Hw] Hr IH]; intros a Ha; simpl; [exact Ha|]. apply IH.
    unfold better. destruct (Qltb (fst a) (fst (score_cand d c))) eqn:E; [|exact Ha].
    apply Qltb_true in E. split; [lra|now apply cand_bounds]. }
  apply G. simpl. assert (0 <= base_bound) by (unfold_consts; lra). nra.
Qed.

Lemma match_bounds d (m : list (Z * list cand)) W :
  Forall (fun l => cands_ok W (snd l)) m -> 1 <= W -> 0 <= fst (match_score d m) <= base_bound * W.
Proof.
  intros H HW. unfold match_score, score_chunk. simpl.
  assert (G : forall a : Q * Z * list dtoken, 0 <= fst (fst a) <= base_bound * W ->
     0 <= fst (fst (fold_left (fun (b : Q * Z * list dtoken) (l : Z * list cand) =>
                      let s := score_line d (snd l) in
                      if Qltb (fst (fst b)) (fst s) then (fst s, fst l, snd s) else b) m a)) <= base_bound * W).
  { induction H as [|l r Hl Hr IH]; intros a Ha; cbn [fold_left]; [exact Ha|]. apply IH. cbv zeta.
    destruct (Qltb (fst (fst a)) (fst (score_line d (snd l)))); [simpl; now apply line_bounds|exact Ha]. }
  apply G. simpl. assert (0 <= base_bound) by (unfold_consts; lra). nra.
Qed.

Lemma max_score_bounds (l : list Q) B : 0 <= B -> Forall (fun s => 0 <= s <= B) l -> 0 <= max_score l <= B.
Proof.
  intros HB H. unfold max_score.
  assert (G : forall m, 0 <= m <= B -> 0 <= fold_left (fun m s => if Qltb m s then s else m) l m <= B).
  { induction H as [|s r Hs Hr IH]; intros m Hm; simpl; [exact Hm|]. apply IH. destruct (Qltb m s); assumption. }
  apply G. lra.
Qed.

Lemma atom_bounds n : 0 <= atom_score n <= c_scoreFactorAtomMatch.
Proof.
  destruct n as [|k]; [unfold atom_score; unfold_consts; lra|].
  unfold atom_score, c_scoreFactorAtomMatch.
  assert (H : 0 < inject_Z (Z.of_nat (S k))) by (unfold Qlt, inject_Z; simpl; lia).
  assert (H1 : 1 <= inject_Z (Z.of_nat (S k))) by (unfold Qle, inject_Z; simpl; lia).
  set (n := inject_Z (Z.of_nat (S k))) in *.
  assert (0 < / n) by (apply Qinv_lt_0_compat; exact H).
  assert (E : n * / n == 1) by (apply Qmult_inv_r; lra).
  unfold Qdiv. nra.
Qed.

Definition fin_ok (W : Q) (f : fin) : Prop :=
  Forall (fun m => Forall (fun l : Z * list cand => cands_ok W (snd l)) m) (fi_matches f) /\
  (0 <= fi_rank f <= 65535)%Z /\ (0 <= fi_doc f < fi_ndocs f)%Z.

Definition file_bound (W : Q) : Q :=
  c_ScoreOffset * (c_scoreFactorAtomMatch + base_bound * W) + c_scoreRepoRankFactor * 65535 + c_scoreFileOrderFactor.

Lemma score_file_final d f :
  snd (fst (score_file d f)) =
  c_ScoreOffset * inject_Z (Qtrunc (0 + atom_score (fi_atoms f) + max_score (map (fun m => fst (match_score d m)) (fi_matches f))))
  + c_scoreRepoRankFactor * inject_Z (fi_rank f)
  + c_scoreFileOrderFactor * (1 - inject_Z (fi_doc f) / inject_Z (fi_ndocs f)).
Proof. reflexivity. Qed.

Theorem file_score_bounds d f W :
  fin_ok W f -> 1 <= W -> 0 <= snd (fst (score_file d f)) <= file_bound W.
Proof.
  intros (HM & HR & HD) HW. rewrite score_file_final. unfold file_bound.
  set (ms := map (fun m => fst (match_score d m)) (fi_matches f)).
  assert (B0 : 0 <= base_bound) by (unfold_consts; lra).
  assert (BW : 0 <= base_bound * W) by nra.
  assert (Hms : Forall (fun s => 0 <= s <= base_bound * W) ms).
  { unfold ms. apply Forall_map. eapply Forall_impl; [|exact HM]. intros m Hm. now apply match_bounds. }
  pose proof (max_score_bounds ms _ BW Hms) as MX.
  pose proof (atom_bounds (fi_atoms f)) as AT.
  set (x := 0 + atom_score (fi_atoms f) + max_score ms).
  assert (Hx : 0 <= x <= c_scoreFactorAtomMatch + base_bound * W) by (unfold x; lra).
  assert (T : 0 <= inject_Z (Qtrunc x) <= x).
  { unfold Qtrunc. destruct (Qle_bool 0 x) eqn:E.
    - split; [|apply Qfloor_le]. change 0 with (inject_Z 0). rewrite <- Zle_Qle.
      rewrite <- (Qfloor_Z 0). apply Qfloor_resp_le. exact (proj1 Hx).
    - assert (0 <= x) by lra. apply Qle_bool_iff in H. congruence. }
  (* tie-breakers *)
  assert (RK : 0 <= inject_Z (fi_rank f) <= 65535).
  { split; [change 0 with (inject_Z 0)|change 65535 with (inject_Z 65535)]; rewrite <- Zle_Qle; lia. }
  assert (ND : 0 < inject_Z (fi_ndocs f)) by (change 0 with (inject_Z 0); rewrite <- Zlt_Qlt; lia).
  assert (DD : 0 <= inject_Z (fi_doc f) / inject_Z (fi_ndocs f) <= 1).
  { split.
    - apply Qle_shift_div_l; [exact ND|]. rewrite Qmult_0_l. change 0 with (inject_Z 0). rewrite <- Zle_Qle. lia.
    - apply Qle_shift_div_r; [exact ND|]. rewrite Qmult_1_l. rewrite <- Zle_Qle. lia. }
  set (t := inject_Z (Qtrunc x)) in *. set (rk := inject_Z (fi_rank f)) in *.
  set (dd := inject_Z (fi_doc f) / inject_Z (fi_ndocs f)) in *.
  unfold_consts. lra.
Qed.

Lemma file_bound_mono W W' : W <= W' -> file_bound W <= file_bound W'.
Proof.
  intros H. unfold file_bound. assert (B0 : 0 <= base_bound) by (unfold_consts; lra).
  set (b := base_bound) in *. unfold c_ScoreOffset, c_scoreFactorAtomMatch, c_scoreRepoRankFactor, c_scoreFileOrderFactor. nra.
Qed.

(** the kind-score hypothesis as a boolean, checked on every correspondence case *)
Definition kind_okb (c : cand) : bool :=
  match c_kind c with
  | KSym _ _ (Some q) => Qle_bool 0 q && Qle_bool q (c_maxKindFactor * c_scoreKindMatch)
  | _ => true
  end.
Lemma kind_okb_ok c : kind_okb c = true -> kind_ok c.
Proof.
  unfold kind_okb, kind_ok. destruct (c_kind c) as [| |s e [q|]]; auto.
  intros H. apply andb_true_iff in H as [H1 H2]. split; now apply Qle_bool_iff.
Qed.

(** ** 5. Every binary64 product of boosts: after the cap of setScoreWeight the effective weight is at most
    maxBoostWeight, whatever the query carries (NaN, +-Inf, negative, huge) *)
Lemma maxBoostWeight_ge_1 : 1 <= c_maxBoostWeight.
Proof. unfold Qle. vm_compute. discriminate. Qed.

Lemma eff_weight_le w : eff_weight w <= c_maxBoostWeight.
Proof.
  pose proof maxBoostWeight_ge_1 as M.
  destruct w as [| | |q]; simpl; try lra.
  destruct (Qltb c_maxBoostWeight q) eqn:E; [lra|]. now apply Qltb_false.
Qed.

Lemma eff_weight_fin_small q : q <= c_maxBoostWeight -> eff_weight (XFin q) = q.
Proof.
  intros H. simpl. destruct (Qltb c_maxBoostWeight q) eqn:E; [|reflexivity].
  apply Qltb_true in E. lra.
Qed.

(** candidates as the implementation can produce them: any kind score within the generated bound, the weight
    is the capped image of SOME binary64 product *)
Definition cands_x (cs : list cand) : Prop :=
  Forall (fun c => kind_ok c /\ exists w : xweight, c_weight c = eff_weight w) cs.

Lemma cands_x_ok cs : cands_x cs -> cands_ok c_maxBoostWeight cs.
Proof.
  intros H. eapply Forall_impl; [|exact H]. intros c [K [w E]]. split; [exact K|]. rewrite E. apply eff_weight_le.
Qed.

Definition fin_x (f : fin) : Prop :=
  Forall (fun m => Forall (fun l : Z * list cand => cands_x (snd l)) m) (fi_matches f) /\
  (0 <= fi_rank f <= 65535)%Z /\ (0 <= fi_doc f < fi_ndocs f)%Z.

Lemma fin_x_ok f : fin_x f -> fin_ok c_maxBoostWeight f.
Proof.
  intros (HM & HR & HD). split; [|split; assumption].
  eapply Forall_impl; [|exact HM]. intros m Hm. eapply Forall_impl; [|exact Hm]. intros l Hl. now apply cands_x_ok.
Qed.

Lemma file_bound_cap_finite : file_bound c_maxBoostWeight < inject_Z (2 ^ 1023).
Proof. unfold Qlt. vm_compute. reflexivity. Qed.

Theorem scores_finite_every_boost dbg f :
  fin_x f ->
  0 <= snd (fst (score_file dbg f)) <= file_bound c_maxBoostWeight /\
  Forall (fun m => 0 <= fst (match_score dbg m) <= base_bound * c_maxBoostWeight) (fi_matches f) /\
  file_bound c_maxBoostWeight < inject_Z (2 ^ 1023) /\
  base_bound * c_maxBoostWeight + c_scoreLineOrderFactor < inject_Z (2 ^ 1023).
Proof.
  intros H. pose proof (fin_x_ok f H) as Hok. pose proof maxBoostWeight_ge_1 as M.
  split; [now apply file_score_bounds|]. split; [|split; [exact file_bound_cap_finite|]].
  - destruct Hok as (HM & _). eapply Forall_impl; [|exact HM]. intros m Hm. now apply match_bounds.
  - unfold Qlt. vm_compute. reflexivity.
Qed.
