(** Model of cmd/zoekt-local-sync (main.go: runSync, runRemove; index.go: readInventory, normalizeSource,
    planPrune, applyRemovals, indexRepositories, recordsFromShards, selectRecords, removeRepositories;
    discover.go: resolveRoots, discoverRoot, discoverRepositories) together with the parts of
    gitindex.indexGitRepo (dry-run early return) and index.Options.IndexState / FindAllShards /
    Builder.Finish (old-shard deletion) that decide what a run does to the index directory.

    Executable model ONLY.  Every mutation of the file system the command can perform is an [op] in the
    run's op log; what the command prints is a list of [line]s (data).  Shared by C33 and C34.

    Abstractions (see props/C33/NOTES.md):
      - strings are byte lists; paths are absolute and clean ("/a/b"), so filepath.Abs/Clean are identities;
      - a shard FILE is identified by its key (n, k) = "<QueryEscape n>_v16.<%05d k>.zoekt" (the harness decodes
        file names; shardName is injective for names below 200 bytes);
      - what IndexState compares besides the name (IndexOptions hash, Branches, mutable metadata) is one
        number, the fingerprint [fp]; the world tells the fingerprint a build of a repository would record
        ([None]: the repository cannot be opened / has no HEAD: IndexGitRepo fails, in both modes, before the
        skip test);
      - file-system operations succeed (no faults, no crashes, no concurrent writers). *)
From ZV Require Import Lib.Base.

Definition str := list N.
Definition str_eqb (a b : str) : bool := list_eqb N.eqb a b.

Fixpoint str_ltb (a b : str) : bool :=
  match a, b with
  | [], [] => false
  | [], _ :: _ => true
  | _ :: _, [] => false
  | x :: a', y :: b' => if N.ltb x y then true else if N.ltb y x then false else str_ltb a' b'
  end.

Definition slash : N := 47.
Definition dot_git : str := [46; 103; 105; 116]%N.            (* ".git" *)
Definition objects_s : str := [111; 98; 106; 101; 99; 116; 115]%N.   (* "objects" *)

Fixpoint join_slash (segs : list str) : str :=
  match segs with
  | [] => []
  | [s] => s
  | s :: r => s ++ slash :: join_slash r
  end.
(** "/a/b" for ["a";"b"] *)
Definition abs_path (segs : list str) : str := flat_map (fun s => slash :: s) segs.

(** Some (before, after) the LAST '/', None if there is none *)
Fixpoint split_last (s : str) : option (str * str) :=
  match s with
  | [] => None
  | c :: r => match split_last r with
              | Some (d, b) => Some (c :: d, b)
              | None => if N.eqb c slash then Some ([], r) else None
              end
  end.

(** index.go normalizeSource on absolute clean paths: "" stays, a final component ".git" is dropped *)
Definition normalize_source (s : str) : str :=
  match s with
  | [] => []
  | _ => match split_last s with
         | Some (d, b) => if str_eqb b dot_git then (match d with [] => [slash] | _ => d end) else s
         | None => s
         end
  end.

Definition has_suffix (s suf : str) : bool := prefixb (rev suf) (rev s).
Definition trim_suffix (s suf : str) : str :=
  if has_suffix s suf then firstn (length s - length suf) s else s.

(** ------------------------------------------------------------------ discovery (discover.go) *)

Inductive node : Type :=
| NFile                                   (* regular file *)
| NOther                                  (* neither directory nor regular file (fifo, socket) *)
| NDir (ch : list (str * node)).          (* children in ReadDir (= WalkDir) order *)

Definition child (ch : list (str * node)) (nm : str) : option node :=
  option_map snd (find (fun p => str_eqb (fst p) nm) ch).
Definition is_dir (n : node) : bool := match n with NDir _ => true | _ => false end.
Definition is_dir_or_file (n : node) : bool := match n with NDir _ | NFile => true | NOther => false end.

(** what discoverRoot's callback decides for a directory entry named [ename] with children [ch]:
    Some false = working-tree repository (".git" directory or regular file),
    Some true  = bare repository (name ends in ".git" and "objects" is a directory), None = descend *)
Definition repo_kind (ename : str) (ch : list (str * node)) : option bool :=
  if match child ch dot_git with Some g => is_dir_or_file g | None => false end then Some false
  else if has_suffix ename dot_git && match child ch objects_s with Some o => is_dir o | None => false end
       then Some true
  else None.

(** fs.WalkDir with fs.SkipDir on a hit; result: (path relative to the root, bare?) in walk order *)
Fixpoint walk (ename : str) (rel : list str) (n : node) : list (list str * bool) :=
  match n with
  | NDir ch =>
      match repo_kind ename ch with
      | Some b => [(rel, b)]
      | None => (fix go (l : list (str * node)) : list (list str * bool) :=
                   match l with
                   | [] => []
                   | (nm, c) :: r => walk nm (rel ++ [nm]) c ++ go r
                   end) ch
      end
  | _ => []
  end.

Record spec := mkSpec { sp_name : str; sp_source : str }.

Definition spec_of (root : list str) (hit : list str * bool) : spec :=
  let '(rel, bare) := hit in
  let nm := match rel with [] => last root [] | _ => join_slash rel end in
  {| sp_name := if bare then trim_suffix nm dot_git else nm;
     sp_source := abs_path (root ++ rel) |}.

Fixpoint lookup (n : node) (p : list str) : option node :=
  match p with
  | [] => Some n
  | s :: r => match n with
              | NDir ch => match child ch s with Some c => lookup c r | None => None end
              | _ => None
              end
  end.

Definition discover_root (tree : node) (root : list str) : list spec :=
  match lookup tree root with
  | Some n => map (spec_of root) (walk (last root []) [] n)
  | None => []
  end.

(** error codes *)
Definition E_DUP_NAME : N := 1.      (* duplicate repository name *)
Definition E_DUP_SOURCE : N := 2.    (* discovered by more than one root *)
Definition E_ROOT : N := 3.          (* root missing / not a directory / duplicate root / a repository under it would get the empty name *)
Definition E_INVENTORY : N := 4.     (* readInventory: unreadable shard or shard with != 1 repositories *)
Definition E_INDEX : N := 5.         (* at least one IndexGitRepo call failed (the run continues) *)
Definition E_NOT_FOUND : N := 6.     (* remove: selector matches nothing *)
Definition E_AMBIGUOUS : N := 7.     (* remove: selector matches several records *)

Definition segs_eqb (a b : list str) : bool := list_eqb str_eqb a b.

(** resolveRoots: every root must exist, be a directory, and not repeat *)
Fixpoint resolve_roots (tree : node) (seen roots : list (list str)) : bool :=
  match roots with
  | [] => true
  | r :: rest =>
      match r, lookup tree r with
      | _ :: _, Some (NDir _) => negb (existsb (segs_eqb r) seen) && resolve_roots tree (r :: seen) rest
      | _, _ => false
      end
  end.

(** bySource is keyed by normalizeSource(repo.Source) — the key planPrune uses — since the repair `fix: zoekt-local-sync:
    a repository and its own .git directory are one source`: a working tree x and its git directory x/.git (itself a
    working tree when it contains a .git entry) given as two roots are "discovered by more than one root". *)
Fixpoint add_all (acc : list spec) (l : list spec) : outcome (list spec) :=
  match l with
  | [] => Ok acc
  | s :: r =>
      if existsb (fun p => str_eqb (sp_name p) (sp_name s)) acc then Err E_DUP_NAME
      else if existsb (fun p => str_eqb (normalize_source (sp_source p)) (normalize_source (sp_source s))) acc then Err E_DUP_SOURCE
      else add_all (acc ++ [s]) r
  end.

(** discoverRoot's add(): a repository whose name would be empty — a root directory called ".git" that is a bare
    repository ("<x>/.git" given as a root) — makes the walk of that root fail ("cannot derive a repository name",
    repair `fix: zoekt-local-sync: reject a repository whose name would be empty`).  Before the repair it was
    returned with the name "": the preview then announced `Would index ""` and succeeded while -f always failed in
    index.NewBuilder ("must set Name") — see props/C33/NOTES.md. *)
Definition nameless (l : list spec) : bool := existsb (fun s => match sp_name s with [] => true | _ => false end) l.

Fixpoint discover_roots (tree : node) (acc : list spec) (roots : list (list str)) : outcome (list spec) :=
  match roots with
  | [] => Ok acc
  | r :: rest => if nameless (discover_root tree r) then Err E_ROOT
                 else do acc' <- add_all acc (discover_root tree r); discover_roots tree acc' rest
  end.

Fixpoint ins_by_name (x : spec) (l : list spec) : list spec :=
  match l with
  | [] => [x]
  | y :: r => if str_ltb (sp_name x) (sp_name y) then x :: l else y :: ins_by_name x r
  end.
Definition sort_by_name (l : list spec) : list spec := fold_right ins_by_name [] l.

Definition discover (tree : node) (roots : list (list str)) : outcome (list spec) :=
  if resolve_roots tree [] roots
  then do l <- discover_roots tree [] roots; Ok (sort_by_name l)
  else Err E_ROOT.

(** ------------------------------------------------------------------ the index directory *)

Definition fkey := (str * nat)%type.      (* shard file "<name>_v16.<k>.zoekt" *)
Definition fkey_eqb (a b : fkey) : bool := str_eqb (fst a) (fst b) && Nat.eqb (snd a) (snd b).

Record shard := mkShard {
  sh_file : fkey;        (* which file *)
  sh_repo : str;         (* Repository.Name stored in it *)
  sh_source : str;       (* Repository.Source stored in it *)
  sh_fp : N;             (* fingerprint of IndexOptions/Branches/mutable metadata *)
  sh_bad : bool          (* unreadable, or holds a number of repositories other than one *)
}.
Definition inventory := list shard.       (* in os.ReadDir order (sorted by file name) *)

Definition find_file (f : fkey) (inv : inventory) : option shard :=
  find (fun sh => fkey_eqb (sh_file sh) f) inv.
Definition has_file (f : fkey) (inv : inventory) : bool :=
  match find_file f inv with Some _ => true | None => false end.
Definition remove_file (f : fkey) (inv : inventory) : inventory :=
  filter (fun sh => negb (fkey_eqb (sh_file sh) f)) inv.

(** Options.FindAllShards: shard 0 and the contiguous run of higher numbers *)
Fixpoint count_from (fuel : nat) (n : str) (k : nat) (inv : inventory) : nat :=
  match fuel with
  | O => 0
  | S fuel' => if has_file (n, k) inv then S (count_from fuel' n (S k) inv) else 0
  end.
Definition all_shards_count (n : str) (inv : inventory) : nat := count_from (length inv) n 0 inv.

Inductive op : Type :=
| OpMkdirAll                                  (* os.MkdirAll(indexDir) *)
| OpLockFile                                  (* create/open .zoekt-local-sync.lock *)
| OpRemoveShard (f : fkey)                    (* removeShard: the shard file and its .meta sidecar *)
| OpBuild (n : str) (src : str) (fp : N).     (* Builder.Finish of a full (non-delta) build: new shard 0 of n, old shards of n deleted *)

Definition apply_op (inv : inventory) (o : op) : inventory :=
  match o with
  | OpMkdirAll | OpLockFile => inv
  | OpRemoveShard f => remove_file f inv
  | OpBuild n src fp =>
      let c := all_shards_count n inv in
      filter (fun sh => negb (str_eqb (fst (sh_file sh)) n && (snd (sh_file sh) <? c))) inv
      ++ [mkShard (n, 0) n src fp false]
  end.
Definition apply_ops (inv : inventory) (ops : list op) : inventory := fold_left apply_op ops inv.

Inductive reason : Type :=
| RNotSelected                     (* "repository is no longer selected" *)
| RRenamed (now : str)             (* "repository is now named %q" *)
| RExplicit.                       (* "explicitly selected" *)

Record action := mkAction { a_file : fkey; a_name : str; a_source : str; a_reason : reason }.

Inductive line : Type :=
| LWouldRemove (a : action)
| LRemoving (a : action)
| LIndexing (n src : str)
| LWouldIndex (n src : str)
| LIndexed (n src : str)
| LUpToDate (n src : str)
| LPassF.

Inductive mode := Dry | Force.

(** readInventory *)
Definition read_inventory (inv : inventory) : outcome inventory :=
  if existsb sh_bad inv then Err E_INVENTORY else Ok inv.

(** planPrune: desiredBySource is a map, a later spec with the same normalised source wins *)
Definition lookup_source (desired : list spec) (src : str) : option spec :=
  find (fun d => str_eqb (normalize_source (sp_source d)) src) (rev desired).

Definition prune_action (desired : list spec) (sh : shard) : option action :=
  let src := normalize_source (sh_source sh) in
  match lookup_source desired src with
  | Some d => if str_eqb (sp_name d) (sh_repo sh) then None
              else Some (mkAction (sh_file sh) (sh_repo sh) src (RRenamed (sp_name d)))
  | None => Some (mkAction (sh_file sh) (sh_repo sh) src RNotSelected)
  end.

Fixpoint filter_map {A B} (f : A -> option B) (l : list A) : list B :=
  match l with
  | [] => []
  | x :: r => match f x with Some y => y :: filter_map f r | None => filter_map f r end
  end.

(** the final sort by shard path is the identity: the inventory is already in path order *)
Definition plan_prune (desired : list spec) (inv : inventory) : list action :=
  filter_map (prune_action desired) inv.

(** applyRemovals *)
Definition apply_removals (m : mode) (acts : list action) : list op * list line :=
  match m with
  | Dry => ([], map LWouldRemove acts)
  | Force => (map (fun a => OpRemoveShard (a_file a)) acts, map LRemoving acts)
  end.

(** Options.IndexState <> IndexStateEqual for the repository n whose build would record fp *)
Definition needs_index (n : str) (fp : N) (inv : inventory) : bool :=
  match find_file (n, 0) inv with
  | None => true                                                     (* IndexStateMissing *)
  | Some sh => negb (str_eqb (sh_repo sh) n && N.eqb (sh_fp sh) fp)  (* Corrupt / Option / Content / Meta *)
  end.

Definition world_fp := list (str * option N).     (* source -> fingerprint of a build, None = cannot be indexed *)
Definition fp_of (w : world_fp) (src : str) : option N :=
  match find (fun p => str_eqb (fst p) src) w with
  | Some (_, v) => v
  | None => None
  end.

(** indexRepositories.  [pruned]: the shard files of the prune plan (used by the preview only).
    The preview's decision: IndexGitRepo(DryRun) on the index AS IT IS ON DISK (nothing was removed),
    corrected by: "the repository's first shard is in the prune plan" (cmd/zoekt-local-sync/index.go, fix). *)
Definition dry_decision (pruned : list fkey) (n : str) (fp : N) (inv : inventory) : bool :=
  needs_index n fp inv
  || (has_file (n, 0) inv && existsb (fkey_eqb (n, 0)) pruned).

Fixpoint index_repos (m : mode) (w : world_fp) (pruned : list fkey) (specs : list spec) (inv : inventory)
  : list op * list line * bool :=            (* ops, output, some IndexGitRepo failed *)
  match specs with
  | [] => ([], [], false)
  | s :: rest =>
      let n := sp_name s in let src := sp_source s in
      let pre := match m with Force => [LIndexing n src] | Dry => [] end in
      match fp_of w src with
      | None =>
          let '(ops, out, _) := index_repos m w pruned rest inv in (ops, pre ++ out, true)
      | Some fp =>
          match m with
          | Dry =>
              let '(ops, out, e) := index_repos m w pruned rest inv in
              if dry_decision pruned n fp inv then (ops, LWouldIndex n src :: out, e)
              else (ops, LUpToDate n src :: out, e)
          | Force =>
              if needs_index n fp inv then
                let o := OpBuild n src fp in
                let '(ops, out, e) := index_repos m w pruned rest (apply_op inv o) in
                (o :: ops, pre ++ LIndexed n src :: out, e)
              else
                let '(ops, out, e) := index_repos m w pruned rest inv in
                (ops, pre ++ LUpToDate n src :: out, e)
          end
      end
  end.

Record result := mkResult { r_ops : list op; r_out : list line; r_status : N }.   (* status 0 = nil error *)

Definition lock_ops (m : mode) : list op := match m with Force => [OpMkdirAll; OpLockFile] | Dry => [] end.
Definition pass_f (m : mode) : list line := match m with Dry => [LPassF] | Force => [] end.

(** runSync *)
Definition run_sync (m : mode) (tree : node) (w : world_fp) (roots : list (list str)) (inv : inventory) : result :=
  let l := lock_ops m in
  match discover tree roots with
  | Err e => mkResult l [] e
  | Panic e => mkResult l [] e
  | Ok specs =>
      match read_inventory inv with
      | Err e => mkResult l [] e
      | Panic e => mkResult l [] e
      | Ok shards =>
          let acts := plan_prune specs shards in
          let '(rops, rout) := apply_removals m acts in
          let inv1 := apply_ops shards rops in       (* Dry: rops = [] so this is the index on disk *)
          let '(iops, iout, failed) := index_repos m w (map a_file acts) specs inv1 in
          if failed then mkResult (l ++ rops ++ iops) (rout ++ iout) E_INDEX
          else mkResult (l ++ rops ++ iops) (rout ++ iout ++ pass_f m) 0
      end
  end.

(** recordsFromShards / selectRecords: a record is a (name, normalised source) pair *)
Definition rkey := (str * str)%type.
Definition rkey_eqb (a b : rkey) : bool := str_eqb (fst a) (fst b) && str_eqb (snd a) (snd b).
Definition rkey_of (sh : shard) : rkey := (sh_repo sh, normalize_source (sh_source sh)).

Fixpoint dedup_keys (seen : list rkey) (l : list rkey) : list rkey :=
  match l with
  | [] => []
  | k :: r => if existsb (rkey_eqb k) seen then dedup_keys seen r else k :: dedup_keys (k :: seen) r
  end.
Definition records (inv : inventory) : list rkey := dedup_keys [] (map rkey_of inv).

Definition select_one (recs : list rkey) (sel : str) : outcome rkey :=
  let by_name := filter (fun k => str_eqb (fst k) sel) recs in
  let ms := match by_name with
            | [] => let src := normalize_source sel in
                    filter (fun k => negb (str_eqb (snd k) []) && str_eqb (snd k) src) recs
            | _ => by_name
            end in
  match ms with
  | [] => Err E_NOT_FOUND
  | [k] => Ok k
  | _ => Err E_AMBIGUOUS
  end.

Fixpoint select_records (recs : list rkey) (sels : list str) : outcome (list rkey) :=
  match sels with
  | [] => Ok []
  | s :: rest => do k <- select_one recs s; do ks <- select_records recs rest; Ok (k :: ks)
  end.

(** removeRepositories + runRemove *)
Definition remove_actions (selected : list rkey) (inv : inventory) : list action :=
  filter_map (fun sh => if existsb (rkey_eqb (rkey_of sh)) selected
                        then Some (mkAction (sh_file sh) (sh_repo sh) (normalize_source (sh_source sh)) RExplicit)
                        else None) inv.

Definition run_remove (m : mode) (sels : list str) (inv : inventory) : result :=
  let l := lock_ops m in
  match read_inventory inv with
  | Err e => mkResult l [] e
  | Panic e => mkResult l [] e
  | Ok shards =>
      match select_records (records shards) sels with
      | Err e => mkResult l [] e
      | Panic e => mkResult l [] e
      | Ok selected =>
          let '(rops, rout) := apply_removals m (remove_actions selected shards) in
          mkResult (l ++ rops) (rout ++ pass_f m) 0
      end
  end.

Inductive cmd : Type :=
| CSync (roots : list (list str))
| CRemove (sels : list str).

Definition run (m : mode) (tree : node) (w : world_fp) (c : cmd) (inv : inventory) : result :=
  match c with
  | CSync roots => run_sync m tree w roots inv
  | CRemove sels => run_remove m sels inv
  end.

(** what a preview announces / what a forced run performs *)
Definition announced_removals (out : list line) : list fkey :=
  filter_map (fun l => match l with LWouldRemove a => Some (a_file a) | _ => None end) out.
Definition announced_indexing (out : list line) : list str :=
  filter_map (fun l => match l with LWouldIndex n _ => Some n | _ => None end) out.
Definition announced_up_to_date (out : list line) : list str :=
  filter_map (fun l => match l with LUpToDate n _ => Some n | _ => None end) out.
Definition performed_removals (ops : list op) : list fkey :=
  filter_map (fun o => match o with OpRemoveShard f => Some f | _ => None end) ops.
Definition performed_indexing (ops : list op) : list str :=
  filter_map (fun o => match o with OpBuild n _ _ => Some n | _ => None end) ops.
Definition shard_ops (ops : list op) : list op :=
  filter (fun o => match o with OpRemoveShard _ | OpBuild _ _ _ => true | _ => false end) ops.

(** ---- the preview BEFORE the repair (kept for the refutation theorem): IndexGitRepo(DryRun) alone,
    evaluated on the unpruned index *)
Fixpoint index_repos_dry_prefix (w : world_fp) (specs : list spec) (inv : inventory) : list line :=
  match specs with
  | [] => []
  | s :: rest =>
      match fp_of w (sp_source s) with
      | None => index_repos_dry_prefix w rest inv
      | Some fp => (if needs_index (sp_name s) fp inv then LWouldIndex (sp_name s) (sp_source s)
                    else LUpToDate (sp_name s) (sp_source s)) :: index_repos_dry_prefix w rest inv
      end
  end.
Definition run_sync_dry_prefix (tree : node) (w : world_fp) (roots : list (list str)) (inv : inventory) : list line :=
  match discover tree roots, read_inventory inv with
  | Ok specs, Ok shards => map LWouldRemove (plan_prune specs shards) ++ index_repos_dry_prefix w specs shards ++ [LPassF]
  | _, _ => []
  end.

(** ------------------------------------------------------------------ correspondence runner
    One case = the state (tree, fingerprints, inventory read from disk), the command, and what the real
    command did: preview output + error class, forced output + error class, inventory read back afterwards. *)

Definition shard_eqb (a b : shard) : bool :=
  fkey_eqb (sh_file a) (sh_file b) && str_eqb (sh_repo a) (sh_repo b) && str_eqb (sh_source a) (sh_source b)
  && N.eqb (sh_fp a) (sh_fp b) && Bool.eqb (sh_bad a) (sh_bad b).

Definition reason_eqb (a b : reason) : bool :=
  match a, b with
  | RNotSelected, RNotSelected => true
  | RRenamed x, RRenamed y => str_eqb x y
  | RExplicit, RExplicit => true
  | _, _ => false
  end.
Definition action_eqb (a b : action) : bool :=
  fkey_eqb (a_file a) (a_file b) && str_eqb (a_name a) (a_name b) && str_eqb (a_source a) (a_source b)
  && reason_eqb (a_reason a) (a_reason b).
Definition line_eqb (a b : line) : bool :=
  match a, b with
  | LWouldRemove x, LWouldRemove y => action_eqb x y
  | LRemoving x, LRemoving y => action_eqb x y
  | LIndexing n s, LIndexing n' s' => str_eqb n n' && str_eqb s s'
  | LWouldIndex n s, LWouldIndex n' s' => str_eqb n n' && str_eqb s s'
  | LIndexed n s, LIndexed n' s' => str_eqb n n' && str_eqb s s'
  | LUpToDate n s, LUpToDate n' s' => str_eqb n n' && str_eqb s s'
  | LPassF, LPassF => true
  | _, _ => false
  end.

(** multiset equality (the inventory read back is in file-name order, the model's in op order) *)
Fixpoint remove_first {A} (eqb : A -> A -> bool) (x : A) (l : list A) : option (list A) :=
  match l with
  | [] => None
  | y :: r => if eqb x y then Some r else option_map (cons y) (remove_first eqb x r)
  end.
Fixpoint perm_eqb {A} (eqb : A -> A -> bool) (a b : list A) : bool :=
  match a with
  | [] => match b with [] => true | _ => false end
  | x :: a' => match remove_first eqb x b with Some b' => perm_eqb eqb a' b' | None => false end
  end.

Record lscase := mkCase {
  c_tree : node;
  c_fp : world_fp;
  c_inv : inventory;
  c_cmd : cmd;
  c_dry_out : list line;  c_dry_status : N;
  c_force_out : list line; c_force_status : N;
  c_lock : bool;              (* the lock file exists after the forced run *)
  c_inv_after : inventory     (* read back after the forced run *)
}.

Definition ls_ok (c : lscase) : bool :=
  let d := run Dry (c_tree c) (c_fp c) (c_cmd c) (c_inv c) in
  let f := run Force (c_tree c) (c_fp c) (c_cmd c) (c_inv c) in
  list_eqb line_eqb (r_out d) (c_dry_out c) && N.eqb (r_status d) (c_dry_status c)
  && list_eqb line_eqb (r_out f) (c_force_out c) && N.eqb (r_status f) (c_force_status c)
  && Bool.eqb (existsb (fun o => match o with OpLockFile => true | _ => false end) (r_ops f)) (c_lock c)
  && perm_eqb shard_eqb (apply_ops (c_inv c) (r_ops f)) (c_inv_after c).
Definition ls_mismatches (cs : list lscase) : list N := bad_indexes ls_ok cs.
