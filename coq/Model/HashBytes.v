(** Byte-level model of what Options.GetHash feeds into SHA-1 (property C38): the write tokens of
    Model/Incremental.v rendered the way fmt.Appendf renders them.
      raw  -> the bytes of the string            %t -> true / false            %d -> decimal, '-' for negatives
      %q   -> strconv.Quote of a string; of a []string: '[' + the quoted elements separated by one space + ']'
      any other character of the format string is copied.
    strconv.Quote is NOT modelled (it needs the Unicode tables): its output is DQUOTE ++ qbody s ++ DQUOTE for an abstract
    [qbody]; the proofs (Proofs/HashBytes.v) assume about it only that it is injective and that every double quote
    inside the body is preceded by a backslash.
    Executable definitions only. *)
From ZV Require Import Lib.Base Model.HashProg Model.Incremental.
From Coq Require Import String Ascii Decimal.

Definition bytes := list N.
Definition bytes_of_string (s : string) : bytes := map N_of_ascii (list_ascii_of_string s).

Definition fmt_t (b : bool) : bytes := if b then [116; 114; 117; 101]%N else [102; 97; 108; 115; 101]%N.

Fixpoint uint_bytes (u : Decimal.uint) : bytes :=
  match u with
  | Decimal.Nil => []
  | Decimal.D0 u => 48%N :: uint_bytes u
  | Decimal.D1 u => 49%N :: uint_bytes u
  | Decimal.D2 u => 50%N :: uint_bytes u
  | Decimal.D3 u => 51%N :: uint_bytes u
  | Decimal.D4 u => 52%N :: uint_bytes u
  | Decimal.D5 u => 53%N :: uint_bytes u
  | Decimal.D6 u => 54%N :: uint_bytes u
  | Decimal.D7 u => 55%N :: uint_bytes u
  | Decimal.D8 u => 56%N :: uint_bytes u
  | Decimal.D9 u => 57%N :: uint_bytes u
  end.
Definition dec_N (n : N) : bytes := uint_bytes (N.to_uint n).
Definition fmt_d (z : Z) : bytes :=
  match z with
  | Z0 => dec_N 0
  | Zpos p => dec_N (Npos p)
  | Zneg p => 45%N :: dec_N (Npos p)
  end.

Section Quote.
  Variable qbody : str -> bytes.
  Definition quote (s : str) : bytes := 34%N :: qbody s ++ [34%N].
  Definition sp_quote (s : str) : bytes := 32%N :: quote s.
  Definition fmt_q_list (l : list str) : bytes :=
    91%N :: match l with
            | [] => []
            | s :: r => quote s ++ List.concat (map sp_quote r)
            end ++ [93%N].

  Definition fmt_verb (c : ascii) (v : val) : option bytes :=
    match c, v with
    | "t"%char, VBool b => Some (fmt_t b)
    | "d"%char, VInt z => Some (fmt_d z)
    | "q"%char, VStr s => Some (quote s)
    | "q"%char, VStrs l => Some (fmt_q_list l)
    | _, _ => None
    end.

  Fixpoint render (f : list ascii) (args : list val) : option bytes :=
    match f with
    | [] => match args with [] => Some [] | _ => None end
    | "%"%char :: c :: f' =>
        match args with
        | v :: args' =>
            match fmt_verb c v, render f' args' with
            | Some a, Some b => Some (a ++ b)
            | _, _ => None
            end
        | [] => None
        end
    | c :: f' => option_map (cons (N_of_ascii c)) (render f' args)
    end.

  Definition render_tok (t : token) : option bytes :=
    match t with
    | Tok fm args =>
        if String.eqb fm "raw" then match args with [VStr s] => Some s | _ => None end
        else render (list_ascii_of_string fm) args
    end.

  Fixpoint render_all (ts : list token) : option bytes :=
    match ts with
    | [] => Some []
    | t :: r => match render_tok t, render_all r with
                | Some a, Some b => Some (a ++ b)
                | _, _ => None
                end
    end.

  (** the bytes GetHash writes into the hasher; None: a write the model cannot render (type / arity mismatch) *)
  Definition hash_bytes (prog : list hitem) (o : opts) : option bytes := render_all (hash_tokens prog o).
End Quote.

(** ---- correspondence runner for ByteCase (the other case kinds: Model/Incremental.v).
    The model's bytes for the record, with strconv.Quote replaced by the observed table, must be the reference
    bytes; the harness has checked that SHA-1 of the reference bytes is the real GetHash() and that every observed
    quotation has the assumed shape (delimited by double quotes, inner double quotes preceded by a backslash). *)
From ZV Require Generated.HashFields.
Definition qbody_of (quotes : list (str * bytes)) (s : str) : bytes :=
  match find (fun p => str_eqb (fst p) s) quotes with Some (_, b) => b | None => [] end.
Definition c38b_ok (c : c38case) : bool :=
  match c with
  | ByteCase r quotes ref ref_ok shape_ok =>
      ref_ok && shape_ok &&
      match hash_bytes (qbody_of quotes) HashFields.hash_prog (to_opts r) with
      | Some b => list_eqb N.eqb b ref
      | None => false
      end
  | _ => true
  end.
Definition c38_mismatches_all (cs : list c38case) : list N :=
  bad_indexes (fun c => c38b_ok c && negb (existsb (fun _ => true) (c38_mismatches [c]))) cs.
