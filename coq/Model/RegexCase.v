(** query/regexp.go LowerRegexp and the decision of Regexp.setCase("auto") (query/query.go), over the
    regexp AST of Model/Regex.v (which mirrors regexp/syntax.Regexp), and the documented rule they
    implement (doc/query_syntax.md, "Case Sensitivity": in auto mode the search is case-sensitive iff
    the pattern contains upper-case letters).

      func LowerRegexp(r *syntax.Regexp) *syntax.Regexp {
        newRE := *r
        switch r.Op {
        case syntax.OpLiteral, syntax.OpCharClass:   // Rune: the literal / the flat list lo0,hi0,lo1,hi1,...
          newRE.Rune[i] = c + 'a' - 'A'  if 'A' <= c <= 'Z'  else c
        default:                                       // every other node: the copy's Sub = LowerRegexp of each Sub
          newRE.Sub[i] = LowerRegexp(s)
        }
        return &newRE }
      (q *Regexp).setCase("auto"):  q.CaseSensitive = !q.Regexp.Equal(LowerRegexp(q.Regexp))

    Regexp.Equal compares Op, the runes of literals and classes, Min/Max of repeats, the capture index and
    name, the NonGreedy / WasDollar flags and recursively all subexpressions.  LowerRegexp copies every field
    except Rune and Sub, so the comparison of r with LowerRegexp(r) is the comparison of the ASTs [re_eqb]
    (the fields that the AST does not carry - capture index/name, NonGreedy, WasDollar - are equal on both
    sides by construction).  This file contains no proofs. *)
From Coq Require Import List NArith Bool.
From ZV Require Import Model.Regex.
Import ListNotations.
Open Scope N_scope.

Definition upper_rune (c : N) : bool := (65 <=? c) && (c <=? 90).
Definition lower_rune (c : N) : N := if upper_rune c then c + 32 else c.

(** LowerRegexp *)
Fixpoint lower_re (r : re) : re :=
  match r with
  | RLit f rs => RLit f (map lower_rune rs)
  | RClass rg => RClass (map (fun p => (lower_rune (fst p), lower_rune (snd p))) rg)
  | RCapture x => RCapture (lower_re x)
  | RStar x => RStar (lower_re x)
  | RPlus x => RPlus (lower_re x)
  | RQuest x => RQuest (lower_re x)
  | RRepeat mn mx x => RRepeat mn mx (lower_re x)
  | RConcat xs => RConcat (map lower_re xs)
  | RAlt xs => RAlt (map lower_re xs)
  | x => x                                  (* nodes without runes and without subexpressions *)
  end.

(** Regexp.setCase("auto"): CaseSensitive = !r.Equal(LowerRegexp(r)) *)
Definition re_auto (r : re) : bool := negb (re_eqb r (lower_re r)).

(** the documented rule: does the pattern contain an upper-case letter - as a literal rune or as a bound of
    a character-class range - at ANY position of the expression (below *, +, ?, {n,m}, groups, alternatives) *)
Fixpoint has_upper_re (r : re) : bool :=
  match r with
  | RLit _ rs => existsb upper_rune rs
  | RClass rg => existsb (fun p => upper_rune (fst p) || upper_rune (snd p)) rg
  | RCapture x | RStar x | RPlus x | RQuest x | RRepeat _ _ x => has_upper_re x
  | RConcat xs | RAlt xs =>
      (fix go (xs : list re) : bool := match xs with [] => false | x :: xs' => has_upper_re x || go xs' end) xs
  | _ => false
  end.

(** engines of the parser model / of the documented meaning derived from the regexp parser's AST:
    [ast] maps the source of a proper regexp (rx_src) to its syntax tree *)
Definition auto_of_ast {K} (ast : K -> re) (src : K) : bool := re_auto (ast src).
Definition upper_of_ast {K} (ast : K -> re) (src : K) : bool := has_upper_re (ast src).
