(** Model of how index.Builder turns a stream of documents into shards (property C10):
      index/builder.go       Builder.Add (size accounting, flush rule), Builder.flush/Finish, sortDocuments + rank
      index/shard_builder.go postingsBuilder.newSearchableString (trigram posting lists, delta+varint encoded),
                             postingsBuilder.reset (pooled reuse: slots retained with zero-length data,
                             asciiPopulated bookkeeping)
      index/write.go         writePostings: which (ngram, posting data) pairs get written
    Executable definitions only; proofs in Proofs/BuilderFlow.v. *)
From ZV Require Import Lib.Base.

(** * A. Builder.Add / flush: the partition of the document stream into shards *)
Section Partition.
  Context {A : Type}.
  Variable weight : A -> N.      (* len(doc.Name) + len(doc.Content) ; a skipped document counts its name only *)
  Variable shard_max : N.        (* Options.ShardMax *)

  (** state = (finished shards in flush order, b.todo, b.size) *)
  Definition bstate := (list (list A) * list A * N)%type.
  Definition add_doc (st : bstate) (d : A) : bstate :=
    let '(shards, todo, size) := st in
    let todo' := todo ++ [d] in
    let size' := (size + weight d)%N in
    if (shard_max <? size')%N then (shards ++ [todo'], [], 0%N) else (shards, todo', size').
  (** Finish -> flush: an empty todo list is only written when no shard exists yet *)
  Definition finish (st : bstate) : list (list A) :=
    let '(shards, todo, _) := st in
    match todo, shards with
    | [], _ :: _ => shards
    | _, _ => shards ++ [todo]
    end.
  Definition partition (docs : list A) : list (list A) := finish (fold_left add_doc docs ([], [], 0%N)).
End Partition.

(** * B. sortDocuments: order of the documents inside a shard *)
(** rank(): lexicographic comparison of
      skipped, generated, vendored, test, squash(len name), 1-squash(#symbols), squash(len content), 1-squash(#branches), squash(origIdx)
    squashRange is strictly increasing on the sizes that occur, so the float vector is compared as this integer vector
    (descending components negated). *)
Record dkey := mkKey {
  k_skipped : bool; k_generated : bool; k_vendored : bool; k_test : bool;
  k_name_len : N; k_nsyms : N; k_content_len : N; k_nbranches : N }.
Definition b2z (b : bool) : Z := if b then 1%Z else 0%Z.
Definition rank (k : dkey) (orig : nat) : list Z :=
  [b2z (k_skipped k); b2z (k_generated k); b2z (k_vendored k); b2z (k_test k); Z.of_N (k_name_len k);
   (- Z.of_N (k_nsyms k))%Z; Z.of_N (k_content_len k); (- Z.of_N (k_nbranches k))%Z; Z.of_nat orig].
Fixpoint lex_ltb (a b : list Z) : bool :=
  match a, b with
  | x :: a', y :: b' => if (x <? y)%Z then true else if (y <? x)%Z then false else lex_ltb a' b'
  | _, _ => false
  end.

Section Sort.
  Context {A : Type}.
  Variable key : A -> dkey.
  Definition ranked := (list Z * A)%type.
  Fixpoint insert_ranked (x : ranked) (l : list ranked) : list ranked :=
    match l with
    | [] => [x]
    | y :: r => if lex_ltb (fst x) (fst y) then x :: l else y :: insert_ranked x r
    end.
  Fixpoint rank_all (l : list A) (i : nat) : list ranked :=
    match l with
    | [] => []
    | d :: r => (rank (key d) i, d) :: rank_all r (S i)
    end.
  Definition sort_ranked (l : list ranked) : list ranked := fold_right insert_ranked [] l.
  Definition sort_docs (l : list A) : list A := map snd (sort_ranked (rank_all l 0)).
End Sort.

(** what Builder writes: the shards of the partition, each sorted *)
Definition build {A} (weight : A -> N) (key : A -> dkey) (shard_max : N) (docs : list A) : list (list A) :=
  map (sort_docs key) (partition weight shard_max docs).

(** * C. postingsBuilder *)
Record plist := mkPl { pl_data : list N; pl_last : N }.     (* varint bytes, lastOff *)
Record pbuilder := mkPb {
  slots : N -> option plist;      (* asciiPostings array and the postings map, keyed by the canonical ngram *)
  populated : list N;             (* asciiPopulated (as ngrams) *)
  mapkeys : list N;               (* keys of the non-ASCII map, insertion order (Go's order is erased by the sort on write) *)
  rune_offsets : list N;
  rune_count : N;
  plain_ascii : bool;
  end_runes : list N;
  end_byte : N }.

Definition ngram_of (a b c : N) : N := (a * 4398046511104 + b * 2097152 + c)%N.   (* r0<<42 | r1<<21 | r2 *)
Definition ng_r0 (ng : N) : N := (ng / 4398046511104)%N.
Definition ng_r1 (ng : N) : N := ((ng / 2097152) mod 2097152)%N.
Definition ng_r2 (ng : N) : N := (ng mod 2097152)%N.
Definition is_ascii_ng (ng : N) : bool := (ng_r0 ng <? 128)%N && (ng_r1 ng <? 128)%N && (ng_r2 ng <? 128)%N.

Definition fresh_pb : pbuilder := mkPb (fun _ => None) [] [] [] 0 true [] 0.

Definition in_list (k : N) (l : list N) : bool := existsb (N.eqb k) l.

(** postingsBuilder.reset *)
Definition reset_pb (s : pbuilder) : pbuilder :=
  mkPb (fun k => match slots s k with
                 | None => None
                 | Some p => if is_ascii_ng k
                             then (if in_list k (populated s) then Some (mkPl [] 0) else Some p)   (* only populated slots are visited *)
                             else Some (mkPl [] 0)                                                  (* every map entry is visited *)
                 end)
       [] (mapkeys s) [] 0 true [] 0.

(** binary.PutUvarint *)
Fixpoint uvarint_fuel (fuel : nat) (x : N) : list N :=
  match fuel with
  | O => [x]
  | S f => if (x <? 128)%N then [x] else ((x mod 128) + 128)%N :: uvarint_fuel f (x / 128)%N
  end.
Definition uvarint (x : N) : list N := uvarint_fuel 10 x.
Definition two32 : N := 4294967296%N.

(** the posting-list update of newSearchableString for one trigram at rune offset [off] *)
Definition touch (s : pbuilder) (ng off : N) : pbuilder :=
  let ascii := is_ascii_ng ng in
  let cur := slots s ng in
  let p := match cur with Some p => p | None => mkPl [] 0 end in
  let populated' :=
    if ascii then
      match cur with
      | None => populated s ++ [ng]
      | Some q => match pl_data q with [] => populated s ++ [ng] | _ => populated s end
      end
    else populated s in
  let mapkeys' := if ascii then mapkeys s else match cur with None => mapkeys s ++ [ng] | Some _ => mapkeys s end in
  let delta := ((off + two32 - pl_last p) mod two32)%N in          (* uint32 subtraction *)
  let p' := mkPl (pl_data p ++ uvarint delta) off in
  mkPb (fun k => if N.eqb k ng then Some p' else slots s k) populated' mapkeys'
       (rune_offsets s) (rune_count s) (plain_ascii s) (end_runes s) (end_byte s).

(** a document as the decoded rune sequence: (rune, size in bytes) — utf8.DecodeRune is outside the model *)
Definition rdoc := list (N * N).

(** the rune loop. [i] = runeIndex, [bc] = byteCount, (g1, g2) = the two previous runes *)
Fixpoint rune_loop (s : pbuilder) (d : rdoc) (i bc g1 g2 : N) (end_rune : N) : pbuilder * N * N :=
  match d with
  | [] => (s, i, bc)
  | (c, sz) :: r =>
      let s1 := if (c <? 128)%N then s else
                  mkPb (slots s) (populated s) (mapkeys s) (rune_offsets s) (rune_count s) false (end_runes s) (end_byte s) in
      let s2 := if (((rune_count s1 + i) mod 100) =? 0)%N
                then mkPb (slots s1) (populated s1) (mapkeys s1) (rune_offsets s1 ++ [(end_byte s1 + bc)%N]) (rune_count s1)
                          (plain_ascii s1) (end_runes s1) (end_byte s1)
                else s1 in
      let s3 := if (i <? 2)%N then s2 else touch s2 (ngram_of g1 g2 c) (end_rune + i - 2)%N in
      rune_loop s3 r (i + 1)%N (bc + sz)%N g2 c end_rune
  end.

(** postingsBuilder.newSearchableString (sections are not modelled) *)
Definition add_string (s : pbuilder) (d : rdoc) : pbuilder :=
  let '(s1, n, bytes) := rune_loop s d 0 0 0 0 (rune_count s) in
  let rc := (rune_count s1 + n)%N in
  mkPb (slots s1) (populated s1) (mapkeys s1) (rune_offsets s1) rc (plain_ascii s1) (end_runes s1 ++ [rc]) (end_byte s1 + bytes)%N.

Definition add_strings (s : pbuilder) (ds : list rdoc) : pbuilder := fold_left add_string ds s.

(** writePostings: the (ngram, data) pairs collected before sorting *)
Definition data_of (s : pbuilder) (k : N) : list N := match slots s k with Some p => pl_data p | None => [] end.
Definition nonempty (l : list N) : bool := match l with [] => false | _ => true end.
Definition written (s : pbuilder) : list (N * list N) :=
  map (fun k => (k, data_of s k)) (filter (fun k => nonempty (data_of s k)) (populated s))
  ++ map (fun k => (k, data_of s k)) (filter (fun k => nonempty (data_of s k)) (mapkeys s)).

(** everything writePostings emits, up to the order of [written] (it sorts by ngram) *)
Definition pb_scalars (s : pbuilder) := (rune_offsets s, rune_count s, plain_ascii s, end_runes s, end_byte s).

(** sort by ngram, for the correspondence runner *)
Fixpoint ins_ng (x : N * list N) (l : list (N * list N)) : list (N * list N) :=
  match l with
  | [] => [x]
  | y :: r => if (fst x <? fst y)%N then x :: l else y :: ins_ng x r
  end.
Definition sort_ng (l : list (N * list N)) : list (N * list N) := fold_right ins_ng [] l.

(** * correspondence runner *)
Inductive c10case :=
| PartCase (shard_max : N) (weights : list N) (observed : list (list N))
    (* a real Builder run with Parallelism 1: observed = for each shard (in shard-number order) the indexes of its documents, sorted *)
| SortCase (keys : list dkey) (observed_order : list N)
    (* real sortDocuments: observed = original indexes in sorted order *)
| PostCase (shards : list (list rdoc)) (observed : list (list (N * list N) * list N * list N * bool))
    (* ONE pooled postingsBuilder used for consecutive shards with reset() in between: per shard what writePostings
       wrote: sorted (ngram, data), runeOffsets, endRunes, isPlainASCII *).

Fixpoint index_from {A} (l : list A) (i : N) : list (N * A) :=
  match l with [] => [] | x :: r => (i, x) :: index_from r (N.succ i) end.

Definition pair_N_list_eqb (a b : N * list N) : bool := N.eqb (fst a) (fst b) && list_eqb N.eqb (snd a) (snd b).

Fixpoint post_run (s : pbuilder) (shards : list (list rdoc)) : list (list (N * list N) * list N * list N * bool) :=
  match shards with
  | [] => []
  | sh :: r =>
      let s1 := add_strings (reset_pb s) sh in
      (sort_ng (written s1), rune_offsets s1, end_runes s1, plain_ascii s1) :: post_run s1 r
  end.

Definition obs_eqb (a b : list (N * list N) * list N * list N * bool) : bool :=
  let '(w1, ro1, er1, pa1) := a in let '(w2, ro2, er2, pa2) := b in
  list_eqb pair_N_list_eqb w1 w2 && list_eqb N.eqb ro1 ro2 && list_eqb N.eqb er1 er2 && Bool.eqb pa1 pa2.

Definition insert_N (x : N) (l : list N) : list N :=
  (fix ins l := match l with [] => [x] | y :: r => if (x <? y)%N then x :: l else y :: ins r end) l.
Definition sort_N (l : list N) : list N := fold_right insert_N [] l.

Definition c10_ok (c : c10case) : bool :=
  match c with
  | PartCase sm ws obs =>
      list_eqb (list_eqb N.eqb)
        (map (fun sh => sort_N (map fst sh)) (partition (fun p : N * N => snd p) sm (index_from ws 0%N))) obs
  | SortCase keys obs =>
      list_eqb N.eqb (map fst (sort_docs (fun p : N * dkey => snd p) (index_from keys 0%N))) obs
  | PostCase shards obs =>
      (* the first builder of the pool is fresh; reset on a fresh builder is the identity on observables *)
      list_eqb obs_eqb (post_run fresh_pb shards) obs
  end.
Definition c10_mismatches (cs : list c10case) : list N := bad_indexes c10_ok cs.
