(** Model of cmd/zoekt-sourcegraph-indexserver/cleanup.go: cleanup(indexDir, repos, now, shardMerging)
    with getShards, getTombstonedRepos, consistentRepoName, maybeSetTombstone, moveAll, removeAll.

    The index directory is abstract: a shard file is (base name, "compound-" prefix?, mtime, the
    repositories of its effective metadata (id, name, tombstone flag, latest commit date)); a shard
    and its ".meta" sidecar are one unit (IndexFilePaths).  Base names are numbers whose order is the
    lexical order of the real file names.  cleanup takes all its decisions from the three snapshots
    it reads at the start (trash, tombstones, index) and from its arguments, so the model is
    [plan] (the list of file-system actions decided from the snapshot) followed by [apply] of each
    action on the evolving directory.  Go's map iteration order is modelled as first-appearance
    order (the correspondence shows the result does not depend on it on the generated inputs).
    The one decision taken from the live directory is servesOtherRepos (is another repository still
    alive in this compound shard?), used when shardMerging is off: it is the action [TombOrRm], whose
    [apply] inspects the evolving directory.
    Not modelled: failures of rename/remove/chtimes (moveAll's failure fallback), unreadable shards. *)
From ZV Require Import Lib.Base.
Open Scope Z_scope.

Record entry := mkE { e_id : N; e_name : N; e_tomb : bool; e_date : Z }.
Record file := mkF { f_base : N; f_compound : bool; f_mtime : Z; f_repos : list entry }.
Record dir := mkD { d_index : list file; d_trash : list file; d_tmps : nat }.
(** cleanup.go's `shard` struct *)
Record sref := mkS { s_id : N; s_name : N; s_base : N; s_compound : bool; s_mtime : Z }.

Definition memN (x : N) (l : list N) : bool := existsb (N.eqb x) l.

Definition alive_entries (f : file) : list entry := filter (fun e => negb (e_tomb e)) (f_repos f).
Definition srefs_of_file (f : file) : list sref :=
  map (fun e => mkS (e_id e) (e_name e) (f_base f) (f_compound f) (f_mtime f)) (alive_entries f).
(** getShards: alive repositories of every *.zoekt file, in name order; the map id -> []shard is
    represented by the flat list + [group] *)
Definition get_shards (fs : list file) : list sref := flat_map srefs_of_file fs.
Definition ids_of (l : list sref) : list N := nodup N.eq_dec (map s_id l).
Definition group (l : list sref) (id : N) : list sref := filter (fun s => N.eqb (s_id s) id) l.

(** getTombstonedRepos: tombstoned entries of compound files; the latest commit date wins, the
    later file on ties *)
Definition tomb_candidates (fs : list file) (id : N) : list (N * Z) :=
  flat_map (fun f => if f_compound f
                     then map (fun e => (f_base f, e_date e)) (filter (fun e => e_tomb e && N.eqb (e_id e) id) (f_repos f))
                     else []) fs.
Definition tomb_pick (cs : list (N * Z)) : option N :=
  option_map fst (fold_left (fun best c => match best with
                                           | None => Some c
                                           | Some b => if snd c <? snd b then Some b else Some c
                                           end) cs None).
Definition tomb_ids (fs : list file) : list N :=
  nodup N.eq_dec (flat_map (fun f => if f_compound f then map e_id (filter e_tomb (f_repos f)) else []) fs).

(** consistentRepoName *)
Definition consistent (g : list sref) : bool :=
  match g with [] => true | s :: t => forallb (fun x => N.eqb (s_name x) (s_name s)) t end.

Inductive act :=
| RmIndex (b : N) | RmTrash (b : N)          (* removeAll of one shard (+ sidecar) *)
| Tomb (b : N) (id : N) (flag : bool)        (* index.SetTombstone / UnsetTombstone on an index shard *)
| TombOrRm (b : N) (id : N) (to_trash : bool) (* shardMerging off, compound shard: SetTombstone if servesOtherRepos,
                                                else removeAll (to_trash: moveAll's HACK branch, which first
                                                removes the destination in the trash) *)
| Touch (b : N) | TouchTrash (b : N)         (* os.Chtimes(path, now, now) *)
| MvToTrash (b : N) | MvToIndex (b : N)      (* the renames of moveAll for one simple shard *)
| ClearTmp.

Definition day : Z := 86400.

Section Plan.
  Variable d : dir.
  Variable repos : list N.
  Variable now : Z.
  Variable sm : bool.    (* shardMerging *)

  Definition tr := get_shards (d_trash d).
  Definition ix := get_shards (d_index d).

  (** trash: remove old shards and conflicts with the index *)
  Definition trash_old (g : list sref) : bool := existsb (fun s => s_mtime s <? now - day) g.
  Definition trash_drop (id : N) : bool := memN id (ids_of ix) || trash_old (group tr id).
  Definition plan1 : list act :=
    flat_map (fun id =>
      let g := group tr id in
      map (fun s => TouchTrash (s_base s)) (filter (fun s => negb (s_mtime s <? now - day) && (now <? s_mtime s)) g) ++
      (if trash_drop id then map (fun s => RmTrash (s_base s)) g else [])) (ids_of tr).
  Definition trash_keys : list N := filter (fun id => negb (trash_drop id)) (ids_of tr).

  (** tombstones that conflict with neither index nor trash *)
  Definition tomb_keys : list N :=
    filter (fun id => negb (memN id (ids_of ix)) && negb (memN id trash_keys)) (tomb_ids (d_index d)).

  (** same id, different names: tombstone in compound shards (shardMerging), delete the rest *)
  Definition plan3 : list act :=
    flat_map (fun id =>
      let g := group ix id in
      if consistent g then [] else
      map (fun s => Tomb (s_base s) id true) (filter (fun s => sm && s_compound s) g) ++
      map (fun s => if s_compound s then TombOrRm (s_base s) id false else RmIndex (s_base s))
          (filter (fun s => negb (sm && s_compound s)) g)) (ids_of ix).
  (** before the repair `fix: indexserver cleanup: keep compound shards that still serve other repositories
      when shard merging is disabled`: with shardMerging off compound shards were removed outright *)
  Definition plan3_before_fix2 : list act :=
    flat_map (fun id =>
      let g := group ix id in
      if consistent g then [] else
      map (fun s => Tomb (s_base s) id true) (filter (fun s => sm && s_compound s) g) ++
      map (fun s => RmIndex (s_base s)) (filter (fun s => negb (sm && s_compound s)) g)) (ids_of ix).
  Definition keys3 : list N := filter (fun id => consistent (group ix id)) (ids_of ix).

  (** assigned repositories: restore from trash, else remove the tombstone *)
  Definition move_to (to_index : bool) (s : sref) : list act :=
    (if to_index then RmIndex (s_base s) else RmTrash (s_base s)) ::
    (if s_compound s                                  (* "HACK removing compound shard" *)
     then [if to_index then RmTrash (s_base s) else RmIndex (s_base s)]
     else [if to_index then MvToIndex (s_base s) else MvToTrash (s_base s)]).
  Definition plan4 : list act :=
    flat_map (fun id =>
      if memN id trash_keys then flat_map (move_to true) (group tr id)
      else if memN id tomb_keys then
             match tomb_pick (tomb_candidates (d_index d) id) with
             | Some b => [Tomb b id false]
             | None => []
             end
      else []) repos.
  Definition keys4 : list N := filter (fun id => negb (memN id repos)) keys3.

  (** unassigned repositories: touch, tombstone in compound shards (shardMerging), trash the rest
      (after the repair `fix: cleanup: do not delete compound shards of unassigned repos that also
      have simple shards`: one maybeSetTombstone per shard, like the renamed-repository branch) *)
  Definition plan5 : list act :=
    flat_map (fun id =>
      let g := group ix id in
      map (fun s => Touch (s_base s)) g ++
      map (fun s => Tomb (s_base s) id true) (filter (fun s => sm && s_compound s) g) ++
      flat_map (fun s => if s_compound s then [TombOrRm (s_base s) id true] else move_to false s)
               (filter (fun s => negb (sm && s_compound s)) g)) keys4.
  (** before the second repair (see plan3_before_fix2): moveAll's HACK branch deleted the compound shard *)
  Definition plan5_before_fix2 : list act :=
    flat_map (fun id =>
      let g := group ix id in
      map (fun s => Touch (s_base s)) g ++
      map (fun s => Tomb (s_base s) id true) (filter (fun s => sm && s_compound s) g) ++
      flat_map (move_to false) (filter (fun s => negb (sm && s_compound s)) g)) keys4.

  (** before the repair: tombstone only when the repository's ONLY shard is a compound shard,
      otherwise moveAll of all its shards, which deletes compound shards outright *)
  Definition single_compound (g : list sref) : option N :=
    match g with [s] => if s_compound s then Some (s_base s) else None | _ => None end.
  Definition plan5_before_fix : list act :=
    flat_map (fun id =>
      let g := group ix id in
      map (fun s => Touch (s_base s)) g ++
      match (if sm then single_compound g else None) with
      | Some b => [Tomb b id true]
      | None => flat_map (move_to false) g
      end) keys4.

  Definition plan : list act := plan1 ++ plan3 ++ plan4 ++ plan5 ++ [ClearTmp].
  Definition plan_before_fix : list act := plan1 ++ plan3_before_fix2 ++ plan4 ++ plan5_before_fix ++ [ClearTmp].
  Definition plan_before_fix2 : list act := plan1 ++ plan3_before_fix2 ++ plan4 ++ plan5_before_fix2 ++ [ClearTmp].

  (** ---- the file-system actions *)
  Definition rm (b : N) (fs : list file) : list file := filter (fun f => negb (N.eqb (f_base f) b)) fs.
  Definition find_file (b : N) (fs : list file) : option file := find (fun f => N.eqb (f_base f) b) fs.
  Definition set_flag (id : N) (flag : bool) (f : file) : file :=
    mkF (f_base f) (f_compound f) (f_mtime f)
        (map (fun e => if N.eqb (e_id e) id then mkE (e_id e) (e_name e) flag (e_date e) else e) (f_repos f)).
  Definition on_file (b : N) (g : file -> file) (fs : list file) : list file :=
    map (fun f => if N.eqb (f_base f) b then g f else f) fs.
  Definition touch (f : file) : file := mkF (f_base f) (f_compound f) now (f_repos f).
  (** servesOtherRepos(shard b, id): the shard file named b (ReadMetadataPathAlive) has a live repository other than id *)
  Definition others_alive (id : N) (f : file) : bool :=
    existsb (fun e => negb (e_tomb e) && negb (N.eqb (e_id e) id)) (f_repos f).
  Definition serves_others (b id : N) (fs : list file) : bool :=
    existsb (fun f => N.eqb (f_base f) b && others_alive id f) fs.

  Definition apply (x : dir) (a : act) : dir :=
    match a with
    | RmIndex b => mkD (rm b (d_index x)) (d_trash x) (d_tmps x)
    | RmTrash b => mkD (d_index x) (rm b (d_trash x)) (d_tmps x)
    | Tomb b id flag => mkD (on_file b (set_flag id flag) (d_index x)) (d_trash x) (d_tmps x)
    | TombOrRm b id totr =>
        if serves_others b id (d_index x)
        then mkD (on_file b (set_flag id true) (d_index x)) (d_trash x) (d_tmps x)
        else mkD (rm b (d_index x)) (if totr then rm b (d_trash x) else d_trash x) (d_tmps x)
    | Touch b => mkD (on_file b touch (d_index x)) (d_trash x) (d_tmps x)
    | TouchTrash b => mkD (d_index x) (on_file b touch (d_trash x)) (d_tmps x)
    | MvToTrash b => match find_file b (d_index x) with
                     | Some f => mkD (rm b (d_index x)) (d_trash x ++ [f]) (d_tmps x)
                     | None => x
                     end
    | MvToIndex b => match find_file b (d_trash x) with
                     | Some f => mkD (d_index x ++ [f]) (rm b (d_trash x)) (d_tmps x)
                     | None => x
                     end
    | ClearTmp => mkD (d_index x) (d_trash x) 0
    end.

  Definition cleanup : dir := fold_left apply plan d.

  (** ---- moveAll with its failure fallback.  [mvfail to_index b] = an os.Rename of shard file b fails in
      moveAll(indexDir, ...) (to_index) resp. moveAll(trashDir, ...).  moveAll then removes what it already put
      into the destination for this shard, and ALL shards it was asked to move ("failed to move shard, deleting
      all shards"): the ones already moved at their destination, the others at their source, and returns.
      [done] = the shards handled before; compound shards never get renamed (HACK branch) so they cannot fail.
      In the to_trash direction the compound shards of the list are the ones [TombOrRm] decides to remove; the
      destination is only cleared for the shards the loop reached. *)
  Variable mvfail : bool -> N -> bool.
  Definition rm_dst (ti : bool) (s : sref) : act := if ti then RmIndex (s_base s) else RmTrash (s_base s).
  Definition rm_src (ti : bool) (s : sref) : act := if ti then RmTrash (s_base s) else RmIndex (s_base s).
  Definition mv (ti : bool) (s : sref) : act := if ti then MvToIndex (s_base s) else MvToTrash (s_base s).
  (* removeAll(shards...) for a shard the loop has not reached *)
  Definition drop (ti : bool) (id : N) (s : sref) : act :=
    if s_compound s then (if ti then RmTrash (s_base s) else TombOrRm (s_base s) id false) else rm_src ti s.
  Fixpoint moves (ti : bool) (id : N) (done g : list sref) : list act :=
    match g with
    | [] => []
    | s :: r =>
        if s_compound s then
          (if ti then [RmIndex (s_base s); RmTrash (s_base s)] else [TombOrRm (s_base s) id true]) ++ moves ti id done r
        else if mvfail ti (s_base s) then
          rm_dst ti s :: rm_dst ti s :: map (rm_dst ti) done ++ map (drop ti id) (s :: r)
        else rm_dst ti s :: mv ti s :: moves ti id (done ++ [s]) r
    end.
  Definition plan4_f : list act :=
    flat_map (fun id =>
      if memN id trash_keys then moves true id [] (group tr id)
      else if memN id tomb_keys then
             match tomb_pick (tomb_candidates (d_index d) id) with
             | Some b => [Tomb b id false]
             | None => []
             end
      else []) repos.
  Definition plan5_f : list act :=
    flat_map (fun id =>
      let g := group ix id in
      map (fun s => Touch (s_base s)) g ++
      map (fun s => Tomb (s_base s) id true) (filter (fun s => sm && s_compound s) g) ++
      moves false id [] (filter (fun s => negb (sm && s_compound s)) g)) keys4.
  Definition plan_f : list act := plan1 ++ plan3 ++ plan4_f ++ plan5_f ++ [ClearTmp].
  Definition cleanup_f : dir := fold_left apply plan_f d.
  Definition cleanup_before_fix : dir := fold_left apply plan_before_fix d.
  Definition cleanup_before_fix2 : dir := fold_left apply plan_before_fix2 d.
End Plan.

(** ---- correspondence runner *)
Definition entryT := (N * N * bool * Z)%type.
Definition fileT := (N * bool * Z * list entryT)%type.
Definition dirT := (list fileT * list fileT * N)%type.
Definition mk_entry (t : entryT) : entry := let '(i, n, b, dt) := t in mkE i n b dt.
Definition mk_file (t : fileT) : file := let '(b, c, m, es) := t in mkF b c m (map mk_entry es).
Definition mk_dir (t : dirT) : dir := let '(i, tr, n) := t in mkD (map mk_file i) (map mk_file tr) (N.to_nat n).

Definition entry_eqb (a b : entry) : bool :=
  N.eqb (e_id a) (e_id b) && N.eqb (e_name a) (e_name b) && Bool.eqb (e_tomb a) (e_tomb b) && Z.eqb (e_date a) (e_date b).
Definition file_eqb (a b : file) : bool :=
  N.eqb (f_base a) (f_base b) && Bool.eqb (f_compound a) (f_compound b) && Z.eqb (f_mtime a) (f_mtime b)
  && list_eqb entry_eqb (f_repos a) (f_repos b).
(** directories are compared as sets of files (listing order is the file system's business) *)
Definition files_eqb (a b : list file) : bool :=
  Nat.eqb (length a) (length b) && forallb (fun f => existsb (file_eqb f) b) a && forallb (fun f => existsb (file_eqb f) a) b.
Definition dir_eqb (a b : dir) : bool :=
  files_eqb (d_index a) (d_index b) && files_eqb (d_trash a) (d_trash b) && Nat.eqb (d_tmps a) (d_tmps b).

(** (shardMerging, assigned ids, (base names whose rename into the index / into the trash was made to fail during the
    first cleanup), before, after the first cleanup, after a second, fault-free cleanup); now = 0, mtimes are relative
    to now.  The second cleanup starts from the OBSERVED first result. *)
Definition c32case := (bool * list N * (list N * list N) * dirT * dirT * dirT)%type.
Definition c32_ok (c : c32case) : bool :=
  let '(sm, repos, (fi, ft), d0, d1, d2) := c in
  dir_eqb (cleanup_f (mk_dir d0) repos 0 sm (fun ti b => memN b (if ti then fi else ft))) (mk_dir d1) &&
  dir_eqb (cleanup (mk_dir d1) repos 0 sm) (mk_dir d2).
Definition c32_mismatches (cs : list c32case) : list N := bad_indexes c32_ok cs.
