(** Model of search/aggregate.go: collectSender (Send / Done) and newFlushCollectSender — the stage between the
    shards and the gRPC senders of Model/Stream.v. Results are collected (stats added, files appended and ranked)
    until the flush point (FlushWallTime timer, or the final flush), then streamed through unchanged.
    The ranking (index.SortAndTruncateFiles without display limits = SortFiles) is a parameter [rank];
    display limits (deliberate truncation) are outside this model. The flush point is [fp]:
    Some k = the timer fired after k results had been received, None = it never fired before the final flush. *)
From ZV Require Import Lib.Base Model.Stream.
Open Scope Z_scope.

Definition pri_lt (a b : pri) : bool :=          (* a < b on {-Inf} + integers *)
  match a, b with
  | _, None => false
  | None, Some _ => true
  | Some x, Some y => x <? y
  end.

(** collectSender.Send on an existing aggregate *)
Definition collect_add (a r : event) : event :=
  mkev (ev_files a ++ ev_files r) (stats_add (ev_stats a) (ev_stats r))
       (if pri_lt (ev_prio a) (ev_prio r) then ev_prio r else ev_prio a) (ev_maxp r).
Definition collect0 : event := mkev [] stats0 (Some 0) (Some 0).     (* &zoekt.SearchResult{...} *)

Section Rank.
Variable rank : list file -> list file.

(** stopCollectingAndFlush(reason): Done() ranks the files, the FlushReason is overwritten *)
Definition collect_flush (reason : N) (evs : list event) : list event :=
  match evs with
  | [] => []                                                       (* aggregate == nil: nothing to send *)
  | _ => let a := fold_left collect_add evs collect0 in
         [mkev (rank (ev_files a)) (mkstats (st_cnt (ev_stats a)) (st_dur (ev_stats a)) reason) (ev_prio a) (ev_maxp a)]
  end.

Definition flush_collect (fp : option nat) (evs : list event) : list event :=
  match fp with
  | Some k => collect_flush 1 (firstn k evs) ++ skipn k evs      (* FlushReasonTimerExpired = 1 *)
  | None => collect_flush 2 evs                                    (* FlushReasonFinalFlush = 2 *)
  end.

(** shards -> flushCollectSender -> samplingSender -> gRPCChunkSender -> stream *)
Definition deliver_fc (maxsz : N) (fp : option nat) (evs : list event) : list msg :=
  deliver maxsz (flush_collect fp evs).
End Rank.

(** ---- correspondence runner for the collect stage alone: ranking observed up to order (ids sorted) *)
Fixpoint ins_file (f : file) (l : list file) : list file :=
  match l with
  | [] => [f]
  | g :: r => if (fst f <=? fst g)%N then f :: l else g :: ins_file f r
  end.
Definition sort_files (l : list file) : list file := fold_right ins_file [] l.

Definition event_eqb (a b : event) : bool :=
  list_eqb file_eqb (ev_files a) (ev_files b) && stats_eqb (ev_stats a) (ev_stats b)
  && pri_eqb (ev_prio a) (ev_prio b) && pri_eqb (ev_maxp a) (ev_maxp b).
(** case = (flush point, produced results, results forwarded by the real flushCollectSender with the files of
    each forwarded result sorted by id when it is the aggregate) *)
Definition c25fc_case := (option nat * list event * list event)%type.
Definition c25fc_ok (c : c25fc_case) : bool :=
  let '(fp, evs, out) := c in list_eqb event_eqb (flush_collect sort_files fp evs) out.
Definition c25fc_mismatches (cs : list c25fc_case) : list N := bad_indexes c25fc_ok cs.
