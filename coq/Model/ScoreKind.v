(** C29, the parts of the ranking that Model/Score.v took as given features:

    - [score_symbol_kind]: index/contentprovider.go:scoreSymbolKind and ctags.ParseSymbolKind, interpreted
      from the GENERATED tables (per language and kind, the Go-only modifiers `exported` and `_test.go`);
    - [count_atoms]: index/matchtree.go:visitMatchAtoms, the atom count of scoreFile;
    - [tf_extract]: index/score.go:calculateTermFrequency (BM25 term frequencies incl. the low-priority
      division), [bm25_file] / [bm25_line]: scoreFileBM25 / scoreLineBM25 on top of Model/ScoreBM25.v;
    - the extended inputs [xcand]/[xfin] and their translation into the inputs of Model/Score.v.
    Executable model only; proofs are in Proofs/ScoreKind.v. *)
From Coq Require Import QArith Qabs Qround.
From ZV Require Import Lib.Base Generated.ScoreConsts Model.Score Model.ScoreBM25.
Open Scope Q_scope.

(** ---- scoreSymbolKind *)
Definition bytes_eqb (a b : list N) : bool := list_eqb N.eqb a b.

Definition lookupN {A} (k : N) (l : list (N * A)) : option A :=
  match find (fun p => N.eqb (fst p) k) l with Some p => Some (snd p) | None => None end.

(** bytes.HasSuffix *)
Definition has_suffix (s suf : list N) : bool :=
  (length suf <=? length s)%nat && bytes_eqb (skipn (length s - length suf) s) suf.

Definition kmod := (N * N * list N * Q)%type.
Definition klang := (list (list N) * list (N * Q) * list kmod)%type.

(** one modifier statement: `if <cond> { factor += q }` (op 0) / `{ factor *= q }` (op 1);
    cond 0 = the symbol's first rune is upper case (a feature, [exported]), cond 1 = filename suffix *)
Definition apply_mod (exported : bool) (fname : list N) (f : Q) (m : kmod) : Q :=
  let '(op, cond, suf, q) := m in
  let c := match cond with 0%N => exported | _ => has_suffix fname suf end in
  if c then (match op with 0%N => f + q | _ => f * q end) else f.

(** `switch language`: the first case clause that lists the language *)
Definition lang_rule (lang : list N) : option klang :=
  find (fun r : klang => existsb (bytes_eqb lang) (fst (fst r))) c_kindLangs.

Definition generic_factor (kind : N) : Q :=
  match lookupN kind c_kindGeneric with Some q => q | None => c_kindDefault end.

Definition kind_factor (lang fname : list N) (exported : bool) (kind : N) : Q :=
  let f0 := generic_factor kind in
  match lang_rule lang with
  | None => f0
  | Some (_, tbl, mods) =>
      fold_left (apply_mod exported fname) mods (match lookupN kind tbl with Some q => q | None => f0 end)
  end.

Definition score_symbol_kind (lang fname : list N) (exported : bool) (kind : N) : Q :=
  kind_factor lang fname exported kind * c_scoreKindMatch.

(** ctags.ParseSymbolKind: strings.ToLower (ASCII here; the harness generates ASCII kind names), then the
    first matching case, else Other.  Cases written with upper-case letters ("methodAlias", "methodSpec")
    can never match — as in the code. *)
Definition lower_byte (c : N) : N := if (65 <=? c)%N && (c <=? 90)%N then (c + 32)%N else c.
Definition parse_kind (s : list N) : N :=
  let l := map lower_byte s in
  match find (fun p => bytes_eqb (fst p) l) c_parseKind with Some p => snd p | None => c_parseKindDefault end.

(** ---- visitMatchAtoms: the match tree with known[child] recorded at every and/or child *)
Inductive mtree :=
| MAtom                                   (* any tree that is not listed below: visited *)
| MSkip                                   (* notMatchTree, noVisitMatchTree, fileNameMatchTree *)
| MBoost (c : mtree)
| MSymSubstr                              (* symbolSubstrMatchTree: its substrMatchTree is visited *)
| MAnd (ch : list (bool * mtree))
| MAndLine (ch : list (bool * mtree))
| MOr (ch : list (bool * mtree)).

Fixpoint count_atoms (t : mtree) : nat :=
  let kids := fix kids (l : list (bool * mtree)) : nat :=
    match l with
    | [] => O
    | (k, c) :: r => ((if k then count_atoms c else O) + kids r)%nat
    end in
  match t with
  | MAtom | MSymSubstr => 1%nat
  | MSkip => O
  | MBoost c => count_atoms c
  | MAnd ch | MAndLine ch | MOr ch => kids ch
  end.

Fixpoint leaves (t : mtree) : nat :=
  let kids := fix kids (l : list (bool * mtree)) : nat :=
    match l with
    | [] => O
    | (_, c) :: r => (leaves c + kids r)%nat
    end in
  match t with
  | MAtom | MSymSubstr => 1%nat
  | MSkip => O
  | MBoost c => leaves c
  | MAnd ch | MAndLine ch | MOr ch => kids ch
  end.

(** ---- calculateTermFrequency: a candidate is its lower-cased term and whether it counts as important
    (m.fileName || p.matchesSymbol(m)); the map is an association list in first-occurrence order *)
Definition tfcand := (list N * bool)%type.
Definition important_boost : Z := Qfloor c_importantTermBoost.
Definition low_penalty : Z := Qfloor c_lowPriorityFilePenalty.

Fixpoint tf_add (t : list N) (n : Z) (m : list (list N * Z)) : list (list N * Z) :=
  match m with
  | [] => [(t, n)]
  | (t', c) :: r => if bytes_eqb t t' then (t', (c + n)%Z) :: r else (t', c) :: tf_add t n r
  end.
Definition tf_raw (cs : list tfcand) : list (list N * Z) :=
  fold_left (fun m (c : tfcand) => tf_add (fst c) (if snd c then important_boost else 1%Z) m) cs [].
(** Go's int division truncates towards zero *)
Definition tf_extract (cs : list tfcand) (low : bool) : list (list N * Z) :=
  if low then map (fun p => (fst p, Z.quot (snd p) low_penalty)) (tf_raw cs) else tf_raw cs.
Definition tf_lookup (m : list (list N * Z)) (t : list N) : Z :=
  match find (fun p => bytes_eqb (fst p) t) m with Some p => snd p | None => 0%Z end.

(** scoreFileBM25: L = fileLength / (total content length / number of documents), average 0 -> 1 *)
Definition length_ratio (flen total ndocs : Z) : Q :=
  let avg := inject_Z total / inject_Z ndocs in
  inject_Z flen / (if Qeq_bool avg 0 then avg + 1 else avg).
Definition bm25_file (cs : list tfcand) (low : bool) (flen total ndocs : Z) (ws : list xweight) : Q :=
  bm25_score (length_ratio flen total ndocs) (map snd (tf_extract cs low)) (map eff_weight ws).
(** scoreLineBM25: 0 for a filename "line"; L = line length (with terminator) / 100; file priority ignored *)
Definition bm25_line (fname_line : bool) (cs : list tfcand) (llen : Z) (ws : list xweight) : Q :=
  if fname_line then 0
  else bm25_score (inject_Z llen / 100) (map snd (tf_extract cs false)) (map eff_weight ws).

(** ---- extended inputs: what scoreLine / scoreFile take from the index instead of derived numbers *)
Inductive xkind :=
| XNone
| XFile (start_match end_match after_sep : bool)
| XSym (start_match end_match : bool) (info : option (list N * bool))   (* si.Kind, first rune upper *).
Record xcand := { x_sb : bool; x_eb : bool; x_kind : xkind; x_weight : xweight }.
Record xfin := { xf_lang : list N; xf_name : list N; xf_tree : mtree; xf_rank : Z; xf_doc : Z; xf_ndocs : Z;
                 xf_matches : list (list (Z * list xcand)) }.

Definition cand_of_x (lang fname : list N) (c : xcand) : cand :=
  {| c_sb := x_sb c; c_eb := x_eb c;
     c_kind := match x_kind c with
               | XNone => KNone
               | XFile s e i => KFile s e i
               | XSym s e None => KSym s e None
               | XSym s e (Some (k, up)) => KSym s e (Some (score_symbol_kind lang fname up (parse_kind k)))
               end;
     c_weight := eff_weight (x_weight c) |}.
Definition fin_of_x (f : xfin) : fin :=
  {| fi_atoms := count_atoms (xf_tree f); fi_rank := xf_rank f; fi_doc := xf_doc f; fi_ndocs := xf_ndocs f;
     fi_matches := map (map (fun l => (fst l, map (cand_of_x (xf_lang f) (xf_name f)) (snd l)))) (xf_matches f) |}.
Definition score_xfile (dbg : bool) (f : xfin) : list Q * Q * list dtoken := score_file dbg (fin_of_x f).
Definition rank_all_x (dbg : bool) (fs : list (N * N * xfin)) : list (N * Q * list (nat * Q)) :=
  rank_all dbg (map (fun x => let '(i, e, f) := x in (i, e, fin_of_x f)) fs).

(** ---- correspondence runners *)
Definition closeq (tol : Q) (m o : Q) : bool := Qle_bool (Qabs (m - o)) (tol * (1 + Qabs m)).
Definition tol40 : Q := 1 # 1099511627776.   (* 2^-40, relative *)

(* K: (language, filename, first rune upper, si.Kind, observed ParseSymbolKind value, observed scoreSymbolKind) *)
Definition c29kcase := (list N * list N * bool * list N * N * rq)%type.
Definition c29k_ok (c : c29kcase) : bool :=
  let '(lang, fname, up, ks, pk, o) := c in
  N.eqb (parse_kind ks) pk && closeq tol40 (score_symbol_kind lang fname up (parse_kind ks)) (q_of o).
Definition c29k_mismatches (cs : list c29kcase) : list N := bad_indexes c29k_ok cs.

(* A: serialised match tree with known bits, observed atom count of the DebugScore run *)
Inductive rtree := RA | RS | RB (c : rtree) | RY | RAnd (l : list (bool * rtree)) | RAndLine (l : list (bool * rtree)) | ROr (l : list (bool * rtree)).
Fixpoint mk_tree (t : rtree) : mtree :=
  let kids := fix kids (l : list (bool * rtree)) : list (bool * mtree) :=
    match l with [] => [] | (k, c) :: r => (k, mk_tree c) :: kids r end in
  match t with
  | RA => MAtom | RS => MSkip | RB c => MBoost (mk_tree c) | RY => MSymSubstr
  | RAnd l => MAnd (kids l) | RAndLine l => MAndLine (kids l) | ROr l => MOr (kids l)
  end.
Definition c29acase := (rtree * N)%type.
(* observed 1000000 = "no atom(n) in the explanation": the atom score was 0, i.e. the count is 0 or 1 *)
Definition c29a_ok (c : c29acase) : bool :=
  let n := N.of_nat (count_atoms (mk_tree (fst c))) in
  if N.eqb (snd c) 1000000 then (n <=? 1)%N else N.eqb n (snd c).
Definition c29a_mismatches (cs : list c29acase) : list N := bad_indexes c29a_ok cs.

(* T: candidates, low priority, observed term-frequency map (any order) *)
Definition tf_same (m o : list (list N * Z)) : bool :=
  (length m =? length o)%nat && forallb (fun p => Z.eqb (tf_lookup m (fst p)) (snd p) && existsb (fun q => bytes_eqb (fst q) (fst p)) m) o.
(* F: one BM25 file: candidates (term, important, weight), low priority, lengths, observed term frequencies and file
   score; per line match: (filename line, candidates, line length, observed score) *)
Definition c29tline := (bool * list (list N * bool * xweight) * Z * rq)%type.
Definition c29tcase := (list (list N * bool * xweight) * bool * (Z * Z * Z) * list (list N * Z) * rq * list c29tline)%type.
Definition c29t_ok (c : c29tcase) : bool :=
  let '(cs, low, (flen, total, ndocs), otf, osc, ls) := c in
  let tc := map (fun x : list N * bool * xweight => (fst (fst x), snd (fst x))) cs in
  tf_same (tf_extract tc low) otf &&
  closeq tol40 (bm25_file tc low flen total ndocs (map snd cs)) (q_of osc) &&
  forallb (fun l : c29tline =>
             let '(fl, lcs, llen, o) := l in
             closeq tol40 (bm25_line fl (map (fun x : list N * bool * xweight => (fst (fst x), snd (fst x))) lcs) llen (map snd lcs)) (q_of o)) ls.
Definition c29t_mismatches (cs : list c29tcase) : list N := bad_indexes c29t_ok cs.
