(** Model of cmd/zoekt-sourcegraph-indexserver/index_mutex.go: indexMutex.With / indexMutex.Global as an
    interleaving transition system over any number of goroutines.

    Shared state: the RWMutex indexMu (set of read-lock holders, optional write-lock holder), the Mutex
    runningMu (optional holder), the map `running` (set of repository names).
    Every goroutine has a program counter following the statements of With / Global:

      With(name, f):  RLock -> runningMu.Lock; check-and-set running[name]; runningMu.Unlock ->
                      [alreadyRunning: RUnlock (deferred); return false]
                      [otherwise: f(); runningMu.Lock; delete(running, name); runningMu.Unlock; RUnlock; return true]
      Global(f):      Lock -> f() -> Unlock

    One event = one atomic step of one goroutine; the scheduler is arbitrary (any event enabled in the
    current state may come next). sync.RWMutex is modelled by its safety contract only (RLock needs no
    writer, Lock needs no reader and no writer); writer preference only restricts schedules further.
    Goroutine and repository names are numbers. The metrics are not modelled. *)
From ZV Require Import Lib.Base.

Inductive pc :=
| Idle
| WCalled (n : N)                 (* With entered, before indexMu.RLock() *)
| WRLocked (n : N)                (* holds the read lock *)
| WMu1 (n : N) (already : bool)   (* inside runningMu: check-and-set done *)
| WSkip (n : N)                   (* alreadyRunning: about to return false (deferred RUnlock pending) *)
| WReady (n : N)                  (* running[name] set by this goroutine, about to call f *)
| WInF (n : N)                    (* inside f *)
| WDone (n : N)                   (* f returned, deferred delete pending *)
| WMu2 (n : N)                    (* inside runningMu: delete done *)
| WCleaned (n : N)                (* deferred RUnlock pending *)
| WRet (res ran : bool)           (* about to return res; ran = f was executed (ghost) *)
| GCalled
| GLocked                         (* holds the write lock *)
| GInF
| GDone
| GRet.

Inductive ev :=
| ECallWith (t n : N)
| ECallGlobal (t : N)
| ERLock (t : N)
| ERUnlock (t : N)
| ELock (t : N)
| EUnlock (t : N)
| EMuLock (t : N)
| EMuUnlock (t : N)
| EEnter (t : N)      (* f starts *)
| EExit (t : N)       (* f returns *)
| ERet (t : N) (res : bool).

Record state := {
  pcs : N -> pc;
  readers : list N;
  writer : option N;
  mu : option N;
  running : list N
}.

Definition init : state := {| pcs := fun _ => Idle; readers := []; writer := None; mu := None; running := [] |}.

Definition upd (f : N -> pc) (t : N) (p : pc) : N -> pc := fun u => if N.eqb u t then p else f u.
Definition memN (x : N) (l : list N) : bool := existsb (N.eqb x) l.
Definition removeN (x : N) (l : list N) : list N := filter (fun y => negb (N.eqb y x)) l.

Definition set_pc (s : state) (t : N) (p : pc) : state :=
  {| pcs := upd (pcs s) t p; readers := readers s; writer := writer s; mu := mu s; running := running s |}.

Definition step (s : state) (e : ev) : option state :=
  match e with
  | ECallWith t n => match pcs s t with Idle => Some (set_pc s t (WCalled n)) | _ => None end
  | ECallGlobal t => match pcs s t with Idle => Some (set_pc s t GCalled) | _ => None end
  | ERLock t =>
      match pcs s t, writer s with
      | WCalled n, None =>
          Some {| pcs := upd (pcs s) t (WRLocked n); readers := t :: readers s; writer := None; mu := mu s; running := running s |}
      | _, _ => None
      end
  | ERUnlock t =>
      match pcs s t with
      | WSkip n => Some {| pcs := upd (pcs s) t (WRet false false); readers := removeN t (readers s); writer := writer s; mu := mu s; running := running s |}
      | WCleaned n => Some {| pcs := upd (pcs s) t (WRet true true); readers := removeN t (readers s); writer := writer s; mu := mu s; running := running s |}
      | _ => None
      end
  | ELock t =>
      match pcs s t, writer s, readers s with
      | GCalled, None, [] =>
          Some {| pcs := upd (pcs s) t GLocked; readers := []; writer := Some t; mu := mu s; running := running s |}
      | _, _, _ => None
      end
  | EUnlock t =>
      match pcs s t with
      | GDone => Some {| pcs := upd (pcs s) t GRet; readers := readers s; writer := None; mu := mu s; running := running s |}
      | _ => None
      end
  | EMuLock t =>
      match mu s, pcs s t with
      | None, WRLocked n =>
          (* _, alreadyRunning := m.running[repoName]; m.running[repoName] = struct{}{} *)
          let already := memN n (running s) in
          Some {| pcs := upd (pcs s) t (WMu1 n already); readers := readers s; writer := writer s; mu := Some t;
                  running := if already then running s else n :: running s |}
      | None, WDone n =>
          (* delete(m.running, repoName) *)
          Some {| pcs := upd (pcs s) t (WMu2 n); readers := readers s; writer := writer s; mu := Some t;
                  running := removeN n (running s) |}
      | _, _ => None
      end
  | EMuUnlock t =>
      match pcs s t with
      | WMu1 n already =>
          Some {| pcs := upd (pcs s) t (if already then WSkip n else WReady n); readers := readers s; writer := writer s; mu := None; running := running s |}
      | WMu2 n =>
          Some {| pcs := upd (pcs s) t (WCleaned n); readers := readers s; writer := writer s; mu := None; running := running s |}
      | _ => None
      end
  | EEnter t =>
      match pcs s t with
      | WReady n => Some (set_pc s t (WInF n))
      | GLocked => Some (set_pc s t GInF)
      | _ => None
      end
  | EExit t =>
      match pcs s t with
      | WInF n => Some (set_pc s t (WDone n))
      | GInF => Some (set_pc s t GDone)
      | _ => None
      end
  | ERet t res =>
      match pcs s t with
      | WRet r ran => if Bool.eqb r res then Some (set_pc s t Idle) else None
      | GRet => if res then Some (set_pc s t Idle) else None
      | _ => None
      end
  end.

Fixpoint run (s : state) (tr : list ev) : option state :=
  match tr with
  | [] => Some s
  | e :: r => match step s e with Some s' => run s' r | None => None end
  end.

(** a recorded trace is accepted when every event is enabled in turn *)
Definition accepts (tr : list ev) : bool := match run init tr with Some _ => true | None => false end.

(** index of the first event that is not enabled (for diagnostics) *)
Fixpoint first_reject (s : state) (tr : list ev) (i : N) : option N :=
  match tr with
  | [] => None
  | e :: r => match step s e with Some s' => first_reject s' r (N.succ i) | None => Some i end
  end.

(** * correspondence runner: (trace, goroutine ids used, running map empty at the end as observed in Go) *)
Definition c31case := (list ev * list N * bool)%type.

Definition quiescent (s : state) (ts : list N) : bool :=
  forallb (fun t => match pcs s t with Idle => true | _ => false end) ts.
Definition c31_ok (c : c31case) : bool :=
  let '(tr, ts, empty_go) := c in
  match run init tr with
  | Some s =>
      quiescent s ts &&
      Bool.eqb (match running s with [] => true | _ => false end) empty_go &&
      match readers s, writer s, mu s with [], None, None => true | _, _, _ => false end
  | None => false
  end.
Definition c31_mismatches (cs : list c31case) : list N := bad_indexes c31_ok cs.
