(** C36 — model of the web UI's result formatting and of HTML rendering with contextual escaping.

    Part (i)   web/snippets.go:formatResults — fragment slicing (Pre/Match/Post from LineOffset/MatchLength),
               sub-repository file-name trimming, duplicate detection; every Go slice expression is a checked
               operation in the outcome monad ([gslice]: 0 <= lo <= hi <= cap).
    Part (ii)  the escapers html/template applies to plain strings (htmlReplacer with htmlReplacementTable /
               htmlNospaceReplacementTable, jsStrEscaper's replace with jsStrReplacementTable, urlProcessor) as
               byte-level functions, an HTML tokenizer [step]/[run] (a byte-level state machine following
               golang.org/x/net/html's Tokenizer; <script> content is treated like the other raw-text elements),
               pages as trees (literal text, data slots, if, range) and a static flow check [flowS] that verifies
               that every slot sits in a tokenizer state for which its final escaper's output is inert.
    html/template's own contextual analysis is NOT modelled: the page trees are generated from the parse
    trees *after* html/template has inserted its escapers (translator -> Generated/WebPages.v). *)
From Coq Require Import String.
From ZV Require Import Lib.Base Lib.RuneCount.
Open Scope N_scope.

Definition bytes := list N.

(* ------------------------------------------------------------------ (i) formatResults *)

(** Go [buf[lo:hi]] on a byte slice whose backing array (up to cap) holds [buf]; also string slicing (cap = len). *)
Definition gslice (buf : bytes) (lo hi : Z) : outcome bytes :=
  if ((lo <? 0) || (hi <? lo) || (Z.of_nat (length buf) <? hi))%Z%bool then Panic 1
  else Ok (slice buf (Z.to_nat lo) (Z.to_nat hi)).

Record frag := { f_pre : bytes; f_match : bytes; f_post : bytes }.

(** zoekt.LineMatch as far as formatResults reads it. [lm_tail] are the bytes between len(Line) and cap(Line):
    Line is a sub-slice of the file content, so Go's slice expressions are checked against cap, not len. *)
Record linematch := { lm_line : bytes; lm_tail : bytes; lm_num : Z; lm_before : bytes; lm_after : bytes;
                      lm_frags : list (Z * Z) (* LineOffset, MatchLength *) }.

Fixpoint format_frags (line tail : bytes) (last_end : Z) (fs : list (Z * Z)) : outcome (list frag) :=
  match fs with
  | [] => Ok []
  | (l, n) :: rest =>
      let e := (l + n)%Z in
      do pre <- gslice (line ++ tail) last_end l;
      do mt <- gslice (line ++ tail) l e;
      do post <- (match rest with
                  | [] => gslice line e (Z.of_nat (length line))      (* m.Line[e:] *)
                  | _ => Ok []
                  end);
      do r <- format_frags line tail e rest;
      Ok ({| f_pre := pre; f_match := mt; f_post := post |} :: r)
  end.

Definition format_line (m : linematch) : outcome (list frag) :=
  format_frags (lm_line m) (lm_tail m) 0 (lm_frags m).

Record filematch := { fm_name : bytes; fm_repo : bytes; fm_subname : bytes; fm_subpath : bytes;
                      fm_checksum : bytes; fm_branches : list bytes; fm_version : bytes;
                      fm_lines : list linematch }.

Record omatch := { om_num : Z; om_before : bytes; om_after : bytes; om_frags : list frag }.
Record ofile := { o_name : bytes; o_repo : bytes; o_resultid : bytes; o_dup : bytes;
                  o_urlrepo : bytes; o_urlpath : bytes; o_urlbranch : bytes; o_urlversion : bytes;
                  o_matches : list omatch }.

Definition beqb (a b : bytes) : bool := list_eqb N.eqb a b.

Fixpoint lookup (k : bytes) (m : list (bytes * bytes)) : option bytes :=
  match m with
  | [] => None
  | (k', v) :: r => if beqb k k' then Some v else lookup k r
  end.

(** strings.TrimPrefix *)
Definition trim_prefix (p s : bytes) : bytes := if prefixb p s then skipn (length p) s else s.

(** the path handed to getURL for a file of a sub-repository (web/snippets.go, repaired code):
    strings.TrimPrefix(strings.TrimPrefix(f.FileName, f.SubRepositoryPath), "/") *)
Definition subrepo_path (name subpath : bytes) : outcome bytes :=
  Ok (trim_prefix [47] (trim_prefix subpath name)).

(** the code before the repair: fMatch.FileName[len(f.SubRepositoryPath):] — panics when the path is longer
    than the name. Kept for the _refuted theorem that documents the finding. *)
Definition subrepo_path_old (name subpath : bytes) : outcome bytes :=
  do s <- gslice name (Z.of_nat (length subpath)) (Z.of_nat (length name));
  Ok (trim_prefix [47] s).

Fixpoint format_lines (ms : list linematch) : outcome (list omatch) :=
  match ms with
  | [] => Ok []
  | m :: r =>
      do fs <- format_line m;
      do rest <- format_lines r;
      Ok ({| om_num := lm_num m; om_before := lm_before m; om_after := lm_after m; om_frags := fs |} :: rest)
  end.

Section Format.
Variable subpath_fn : bytes -> bytes -> outcome bytes.

Definition format_file (seen : list (bytes * bytes)) (f : filematch) : outcome (ofile * list (bytes * bytes)) :=
  let rid := fm_repo f ++ [58] ++ fm_name f in
  let '(dup, seen') := match lookup (fm_checksum f) seen with
                       | Some d => (d, seen)
                       | None => ([], (fm_checksum f, rid) :: seen)
                       end in
  do up <- (match fm_subname f with
            | [] => Ok (fm_repo f, fm_name f)
            | _ => do fn <- subpath_fn (fm_name f) (fm_subpath f); Ok (fm_subname f, fn)
            end);
  do ms <- format_lines (fm_lines f);
  Ok ({| o_name := fm_name f; o_repo := fm_repo f; o_resultid := rid; o_dup := dup;
         o_urlrepo := fst up; o_urlpath := snd up;
         o_urlbranch := hd [] (fm_branches f); o_urlversion := fm_version f;
         o_matches := ms |}, seen').

Fixpoint format_files (seen : list (bytes * bytes)) (fs : list filematch) : outcome (list ofile) :=
  match fs with
  | [] => Ok []
  | f :: r =>
      do x <- format_file seen f;
      do rest <- format_files (snd x) r;
      Ok (fst x :: rest)
  end.
End Format.

Definition format_results_fixed (fs : list filematch) : outcome (list ofile) := format_files subrepo_path [] fs.
Definition format_results_old (fs : list filematch) : outcome (list ofile) := format_files subrepo_path_old [] fs.
(** the code of the current tree *)
Definition format_results := format_results_fixed.

(* ------------------------------------------------------------------ (ii) escapers *)

Definition str (s : string) : bytes := map (fun a => N.of_nat (Ascii.nat_of_ascii a)) (list_ascii_of_string s).
Arguments str s%string.

Definition hexd (n : N) : N := if n <? 10 then 48 + n else 87 + n.
Definition hex2 (n : N) : bytes := [hexd (n / 16); hexd (n mod 16)].

(** htmlReplacementTable (html/template/html.go), applied by htmlReplacer(s, table, badRunes = true): every
    entry is ASCII and bytes >= 0x80 are copied, so the function is byte-wise. *)
Definition html_tab (b : N) : bytes :=
  if b =? 0 then [239; 191; 189]
  else if b =? 34 then str "&#34;"
  else if b =? 38 then str "&amp;"
  else if b =? 39 then str "&#39;"
  else if b =? 43 then str "&#43;"
  else if b =? 60 then str "&lt;"
  else if b =? 62 then str "&gt;"
  else [b].
Definition esc_html (s : bytes) : bytes := flat_map html_tab s.

(** htmlNospaceReplacementTable *)
Definition nospace_tab (b : N) : bytes :=
  if b =? 0 then str "&#xfffd;"
  else if b =? 9 then str "&#9;"
  else if b =? 10 then str "&#10;"
  else if b =? 11 then str "&#11;"
  else if b =? 12 then str "&#12;"
  else if b =? 13 then str "&#13;"
  else if b =? 32 then str "&#32;"
  else if b =? 34 then str "&#34;"
  else if b =? 38 then str "&amp;"
  else if b =? 39 then str "&#39;"
  else if b =? 43 then str "&#43;"
  else if b =? 60 then str "&lt;"
  else if b =? 61 then str "&#61;"
  else if b =? 62 then str "&gt;"
  else if b =? 96 then str "&#96;"
  else [b].


(** htmlReplacer(s, htmlNospaceReplacementTable, badRunes = false): runes are decoded as utf8.DecodeRuneInString
    does; U+FDD0..U+FDEF and U+FFF0..U+FFFF (which includes RuneError for every invalid byte) become &#x….; *)
Fixpoint nospace_go (l : bytes) (skip : nat) : bytes :=
  match l with
  | [] => []
  | b :: r =>
      match skip with
      | S k => nospace_tab b ++ nospace_go r k
      | O =>
          let w := rune_width b r in
          if (128 <=? b) && Nat.eqb w 1 then str "&#xfffd;" ++ nospace_go r 0
          else match r with
               | b1 :: b2 :: r2 =>
                   if (b =? 239) && (b1 =? 183) && (144 <=? b2) && (b2 <=? 175) then
                     str "&#xfd" ++ hex2 (b2 + 64) ++ [59] ++ nospace_go r2 0      (* U+FDD0 + (b2 - 0x90) *)
                   else if (b =? 239) && (b1 =? 191) && (176 <=? b2) && (b2 <=? 191) then
                     str "&#xff" ++ hex2 (b2 + 64) ++ [59] ++ nospace_go r2 0      (* U+FFF0 + (b2 - 0xB0) *)
                   else nospace_tab b ++ nospace_go r (w - 1)
               | _ => nospace_tab b ++ nospace_go r (w - 1)
               end
      end
  end.

(** htmlNospaceEscaper: the empty string becomes the failsafe "ZgotmplZ" *)
Definition esc_nospace (s : bytes) : bytes :=
  match s with [] => str "ZgotmplZ" | _ => nospace_go s 0 end.

(** lowUnicodeReplacementTable + jsStrReplacementTable (html/template/js.go): every control byte below 0x20 is escaped *)
Definition jsstr_tab (b : N) : bytes :=
  if b =? 9 then str "\t"
  else if b =? 10 then str "\n"
  else if b =? 12 then str "\f"
  else if b =? 13 then str "\r"
  else if b <? 32 then str "\u00" ++ hex2 b
  else if b =? 34 then str "\u0022"
  else if b =? 96 then str "\u0060"
  else if b =? 38 then str "\u0026"
  else if b =? 39 then str "\u0027"
  else if b =? 43 then str "\u002b"
  else if b =? 47 then str "\/"
  else if b =? 60 then str "\u003c"
  else if b =? 62 then str "\u003e"
  else if b =? 92 then str "\\"
  else [b].

(** jsStrEscaper on a plain string = replace(s, jsStrReplacementTable): the table plus U+2028 / U+2029 *)
Fixpoint esc_jsstr (l : bytes) : bytes :=
  match l with
  | [] => []
  | b :: r =>
      match r with
      | b1 :: b2 :: r2 =>
          if (b =? 226) && (b1 =? 128) && ((b2 =? 168) || (b2 =? 169)) then
            str "\u202" ++ [if b2 =? 168 then 56 else 57] ++ esc_jsstr r2
          else jsstr_tab b ++ esc_jsstr r
      | _ => jsstr_tab b ++ esc_jsstr r
      end
  end.

(** jsValEscaper on an int: the decimal rendering padded with spaces. The model applies esc_jsstr (the identity
    on decimal renderings); validated on ints only — the single jsval slot of the pages (.Last.Num) is an int. *)
Definition esc_jsval (s : bytes) : bytes := [32] ++ esc_jsstr s ++ [32].

(** urlEscaper (urlProcessor(norm = false)): everything but unreserved characters is %xx-encoded *)
Definition is_alnum (c : N) : bool :=
  ((48 <=? c) && (c <=? 57)) || ((65 <=? c) && (c <=? 90)) || ((97 <=? c) && (c <=? 122)).
Definition url_tab (b : N) : bytes :=
  if is_alnum b || (b =? 45) || (b =? 46) || (b =? 95) || (b =? 126) then [b] else 37 :: hex2 b.
Definition esc_urlquery (s : bytes) : bytes := flat_map url_tab s.

Inductive esc_kind := KHtml | KNospace | KJsStr | KJsVal | KUnknown.

Definition esc (k : esc_kind) (s : bytes) : bytes :=
  match k with
  | KHtml => esc_html s
  | KNospace => esc_nospace s
  | KJsStr => esc_jsstr s
  | KJsVal => esc_jsval s
  | KUnknown => s            (* no escaper recognised: the value is written as it is *)
  end.

(* ------------------------------------------------------------------ (ii) tokenizer *)

Inductive mode :=
| MText | MLt | MEndOpen
| MTagName | MBeforeAttr | MAttrName | MAfterAttrName | MBeforeVal | MValDQ | MValSQ | MValUnq
| MBang0 | MBang1 | MBogus | MComment (d : nat) (beg : bool) | MCommentBang
| MRaw (p : nat)       (* raw text / RCDATA of element [nm]: 0 idle, 1 after "<", 2 + k after "</" + k name bytes *)
| MPlain.

Record state := { md : mode; closing : bool; nm : bytes }.
Definition mk (m : mode) (c : bool) (n : bytes) : state := {| md := m; closing := c; nm := n |}.
Definition set_md (st : state) (m : mode) : state := mk m (closing st) (nm st).
Definition st_text : state := mk MText false [].

Inductive ev := ETag (close : bool) (name : bytes) | EAttr | EAttrChar (c : N) | ETagEnd.

Definition is_ws (c : N) : bool := (c =? 32) || (c =? 10) || (c =? 13) || (c =? 9) || (c =? 12).
Definition is_upper (c : N) : bool := (65 <=? c) && (c <=? 90).
Definition is_letter (c : N) : bool := is_upper c || ((97 <=? c) && (c <=? 122)).
Definition lower (c : N) : N := if is_upper c then c + 32 else c.

Definition raw_names : list bytes :=
  map str ["iframe"; "noembed"; "noframes"; "noscript"; "plaintext"; "script"; "style"; "textarea"; "title"; "xmp"]%string.
Definition is_rawname (n : bytes) : bool := existsb (beqb n) raw_names.

Definition end_tag (st : state) : state * list ev :=
  (if negb (closing st) && is_rawname (nm st)
   then (if beqb (nm st) (str "plaintext") then mk MPlain false (nm st) else mk (MRaw 0) false (nm st))
   else st_text, [ETagEnd]).

Definition before_attr (st : state) (c : N) : state * list ev :=
  if is_ws c || (c =? 47) then (set_md st MBeforeAttr, [])
  else if c =? 62 then end_tag st
  else (set_md st MAttrName, [EAttr; EAttrChar (lower c)]).

Definition raw_restart (st : state) (c : N) : state * list ev :=
  (set_md st (MRaw (if c =? 60 then 1 else 0)), []).

Definition step (st : state) (c : N) : state * list ev :=
  match md st with
  | MText => if c =? 60 then (set_md st MLt, []) else (st, [])
  | MLt =>
      if is_letter c then (mk MTagName false [lower c], [])
      else if c =? 47 then (set_md st MEndOpen, [])
      else if c =? 33 then (set_md st MBang0, [])
      else if c =? 63 then (set_md st MBogus, [])
      else if c =? 60 then (set_md st MLt, [])
      else (set_md st MText, [])
  | MEndOpen =>
      if c =? 62 then (st_text, [])
      else if is_letter c then (mk MTagName true [lower c], [])
      else (set_md st MBogus, [])
  | MTagName =>
      if is_ws c || (c =? 47) then (set_md st MBeforeAttr, [ETag (closing st) (nm st)])
      else if c =? 62 then let '(s, e) := end_tag st in (s, ETag (closing st) (nm st) :: e)
      else (mk MTagName (closing st) (nm st ++ [lower c]), [])
  | MBeforeAttr => before_attr st c
  | MAttrName =>
      if is_ws c then (set_md st MAfterAttrName, [])
      else if c =? 47 then (set_md st MBeforeAttr, [])
      else if c =? 61 then (set_md st MBeforeVal, [])
      else if c =? 62 then end_tag st
      else (st, [EAttrChar (lower c)])
  | MAfterAttrName =>
      if is_ws c then (st, [])
      else if c =? 47 then (set_md st MBeforeAttr, [])
      else if c =? 61 then (set_md st MBeforeVal, [])
      else if c =? 62 then end_tag st
      else (set_md st MAttrName, [EAttr; EAttrChar (lower c)])
  | MBeforeVal =>
      if is_ws c then (st, [])
      else if c =? 62 then end_tag st
      else if c =? 34 then (set_md st MValDQ, [])
      else if c =? 39 then (set_md st MValSQ, [])
      else (set_md st MValUnq, [])
  | MValDQ => if c =? 34 then (set_md st MBeforeAttr, []) else (st, [])
  | MValSQ => if c =? 39 then (set_md st MBeforeAttr, []) else (st, [])
  | MValUnq =>
      if is_ws c then (set_md st MBeforeAttr, [])
      else if c =? 62 then end_tag st
      else (st, [])
  | MBang0 => if c =? 45 then (set_md st MBang1, []) else if c =? 62 then (st_text, []) else (set_md st MBogus, [])
  | MBang1 => if c =? 45 then (set_md st (MComment 0 true), []) else if c =? 62 then (st_text, []) else (set_md st MBogus, [])
  | MBogus => if c =? 62 then (st_text, []) else (st, [])
  | MComment d beg =>
      if c =? 45 then (set_md st (MComment (Nat.min 2 (S d)) beg), [])
      else if c =? 62 then (if (2 <=? d)%nat || beg then (st_text, []) else (set_md st (MComment 0 false), []))
      else if c =? 33 then (if (2 <=? d)%nat then (set_md st MCommentBang, []) else (set_md st (MComment 0 false), []))
      else (set_md st (MComment 0 false), [])
  | MCommentBang =>
      if c =? 62 then (st_text, [])
      else if c =? 45 then (set_md st (MComment 1 false), [])
      else (set_md st (MComment 0 false), [])
  | MRaw p =>
      match p with
      | O => if c =? 60 then (set_md st (MRaw 1), []) else (st, [])
      | S O => if c =? 47 then (set_md st (MRaw 2), []) else raw_restart st c
      | S (S k) =>
          match nth_error (nm st) k with
          | Some x => if lower c =? x then (set_md st (MRaw (S (S (S k)))), []) else raw_restart st c
          | None =>
              if is_ws c || (c =? 47) || (c =? 62) then
                let '(s, e) := before_attr (mk MBeforeAttr true (nm st)) c in (s, ETag true (nm st) :: e)
              else raw_restart st c
          end
      end
  | MPlain => (st, [])
  end.

Fixpoint run (st : state) (bs : bytes) : state * list ev :=
  match bs with
  | [] => (st, [])
  | c :: r => let '(s1, e1) := step st c in let '(s2, e2) := run s1 r in (s2, e1 ++ e2)
  end.

(** skeleton of a document: the completed tags with their (lower-cased, de-duplicated) attribute names;
    end tags carry no attributes (as golang.org/x/net/html reports them). *)
Record tag := { t_close : bool; t_name : bytes; t_attrs : list bytes }.

Fixpoint dedup (seen : list bytes) (l : list bytes) : list bytes :=
  match l with
  | [] => []
  | x :: r => if existsb (beqb x) seen then dedup seen r else x :: dedup (x :: seen) r
  end.

Definition finish_tag (cur : bool * bytes * list bytes) : tag :=
  let '(c, n, attrs) := cur in
  {| t_close := c; t_name := n; t_attrs := if c then [] else dedup [] (rev (map (@rev N) attrs)) |}.

Fixpoint assemble (cur : option (bool * bytes * list bytes)) (evs : list ev) : list tag :=
  match evs with
  | [] => []
  | ETag c n :: r => assemble (Some (c, n, [])) r
  | EAttr :: r => assemble (option_map (fun '(c, n, a) => (c, n, [] :: a)) cur) r
  | EAttrChar ch :: r =>
      assemble (option_map (fun '(c, n, a) => (c, n, match a with [] => [[ch]] | x :: a' => (ch :: x) :: a' end)) cur) r
  | ETagEnd :: r =>
      match cur with
      | Some x => finish_tag x :: assemble None r
      | None => assemble None r
      end
  end.

Definition tags (bs : bytes) : list tag := assemble None (snd (run st_text bs)).

(* ------------------------------------------------------------------ (ii) pages *)

Inductive page :=
| PNil
| PLit (b : bytes)
| PSlot (k : esc_kind)
| PSeq (p q : page)
| PIf (t e : page)
| PRange (body els : page).

(** the dynamic part of an execution: the outcomes of the if/range conditions (a number per executed if: 0 = else;
    per executed range: the number of iterations) and the (pre-filtered) data value of every executed slot *)
Definition env := (list nat * list bytes)%type.

Definition pop {A} (d : A) (l : list A) : A * list A := match l with [] => (d, []) | x :: r => (x, r) end.

Fixpoint iter_render (f : env -> bytes * env) (n : nat) (e : env) : bytes * env :=
  match n with
  | O => ([], e)
  | S m => let '(o1, e1) := f e in let '(o2, e2) := iter_render f m e1 in (o1 ++ o2, e2)
  end.

Fixpoint render (p : page) (e : env) : bytes * env :=
  match p with
  | PNil => ([], e)
  | PLit b => (b, e)
  | PSlot k => let '(v, ds) := pop [] (snd e) in (esc k v, (fst e, ds))
  | PSeq p q => let '(o1, e1) := render p e in let '(o2, e2) := render q e1 in (o1 ++ o2, e2)
  | PIf t f => let '(c, cs) := pop O (fst e) in
               match c with O => render f (cs, snd e) | S _ => render t (cs, snd e) end
  | PRange b f => let '(c, cs) := pop O (fst e) in
                  match c with O => render f (cs, snd e) | S _ => iter_render (render b) c (cs, snd e) end
  end.

(** in which tokenizer states the output of an escaper is inert, and the state afterwards *)
Definition is_rcdata (n : bytes) : bool := beqb n (str "title") || beqb n (str "textarea").
Definition is_script (n : bytes) : bool := beqb n (str "script").
Definition slot_next (k : esc_kind) (st : state) : option state :=
  match k, md st with
  | KHtml, MText => Some st
  | KHtml, MValDQ => Some st
  | KHtml, MValSQ => Some st
  | KHtml, MRaw O => if is_rcdata (nm st) then Some st else None   (* RCDATA (title, textarea): no '<' is produced *)
  | KNospace, MBeforeVal => Some (set_md st MValUnq)
  | KNospace, MValUnq => Some st
  | KJsStr, MRaw O => if is_script (nm st) then Some st else None
  | KJsStr, MValDQ => Some st
  | KJsStr, MValSQ => Some st
  | KJsVal, MRaw O => if is_script (nm st) then Some st else None
  | _, _ => None
  end.

Definition mode_eq_dec (a b : mode) : {a = b} + {a <> b}.
Proof. decide equality; try apply Nat.eq_dec; apply Bool.bool_dec. Defined.
Definition state_eq_dec (a b : state) : {a = b} + {a <> b}.
Proof. decide equality; [apply (list_eq_dec N.eq_dec) | apply Bool.bool_dec | apply mode_eq_dec]. Defined.

Fixpoint map_opt {A B} (f : A -> option B) (l : list A) : option (list B) :=
  match l with
  | [] => Some []
  | x :: r => match f x, map_opt f r with Some y, Some ys => Some (y :: ys) | _, _ => None end
  end.

Definition subset (a b : list state) : bool := forallb (fun s => if in_dec state_eq_dec s b then true else false) a.

(** static check: from every state of [S], where can the tokenizer be after the page fragment, given that every
    slot must be inert; None = some slot is not provably inert / a range body does not return to its states *)
Fixpoint flowS (S : list state) (p : page) : option (list state) :=
  match p with
  | PNil => Some S
  | PLit b => Some (nodup state_eq_dec (map (fun s => fst (run s b)) S))
  | PSlot k => option_map (nodup state_eq_dec) (map_opt (slot_next k) S)
  | PSeq p q => match flowS S p with Some S1 => flowS S1 q | None => None end
  | PIf t f => match flowS S t, flowS S f with
               | Some S1, Some S2 => Some (nodup state_eq_dec (S1 ++ S2))
               | _, _ => None
               end
  | PRange b f => match flowS S b, flowS S f with
                  | Some S1, Some S2 => if subset S1 S then Some (nodup state_eq_dec (S ++ S2)) else None
                  | _, _ => None
                  end
  end.

Definition page_ok (p : page) : bool := match flowS [st_text] p with Some _ => true | None => false end.

(* ------------------------------------------------------------------ correspondence runners *)

(** formatResults: inputs + observed outcome. Observed: None = panic; Some files, per file
    (resultid, dup, urlrepo, urlpath, urlbranch, matches: (num, before, after, frags (pre, match, post))). *)
Definition in_line := (bytes * bytes * Z * bytes * bytes * list (Z * Z))%type.
Definition in_file := (bytes * bytes * bytes * bytes * bytes * list bytes * bytes * list in_line)%type.
Definition out_match := (Z * bytes * bytes * list (bytes * bytes * bytes))%type.
Definition out_file := (bytes * bytes * bytes * bytes * bytes * list out_match)%type.

Definition mk_line (x : in_line) : linematch :=
  let '(l, t, n, b, a, fs) := x in
  {| lm_line := l; lm_tail := t; lm_num := n; lm_before := b; lm_after := a; lm_frags := fs |}.
Definition mk_file (x : in_file) : filematch :=
  let '(name, repo, subname, subpath, ck, brs, ver, ls) := x in
  {| fm_name := name; fm_repo := repo; fm_subname := subname; fm_subpath := subpath; fm_checksum := ck;
     fm_branches := brs; fm_version := ver; fm_lines := map mk_line ls |}.

Definition frag_eqb (f : frag) (o : bytes * bytes * bytes) : bool :=
  let '(a, b, c) := o in beqb (f_pre f) a && beqb (f_match f) b && beqb (f_post f) c.
Fixpoint list_eqb2 {A B} (eqb : A -> B -> bool) (a : list A) (b : list B) : bool :=
  match a, b with
  | [], [] => true
  | x :: a', y :: b' => eqb x y && list_eqb2 eqb a' b'
  | _, _ => false
  end.
Definition match_eqb (m : omatch) (o : out_match) : bool :=
  let '(n, b, a, fs) := o in
  Z.eqb (om_num m) n && beqb (om_before m) b && beqb (om_after m) a && list_eqb2 frag_eqb (om_frags m) fs.
Definition file_eqb (f : ofile) (o : out_file) : bool :=
  let '(rid, dup, ur, up, ub, ms) := o in
  beqb (o_resultid f) rid && beqb (o_dup f) dup && beqb (o_urlrepo f) ur && beqb (o_urlpath f) up &&
  beqb (o_urlbranch f) ub && list_eqb2 match_eqb (o_matches f) ms.

Inductive c36case :=
| CFormat (files : list in_file) (observed : option (list out_file))
| CEsc (k : N) (s : bytes) (rendered : bytes)          (* 0 html text, 1 html dq attr, 2 nospace, 3 jsstr, 4 jsval(int), 5 urlquery in dq attr *)
| CTags (doc : bytes) (skeleton : list (bool * bytes * list bytes)).

Definition tag_eqb (t : tag) (o : bool * bytes * list bytes) : bool :=
  let '(c, n, a) := o in Bool.eqb (t_close t) c && beqb (t_name t) n && list_eqb beqb (t_attrs t) a.

Definition c36_ok (c : c36case) : bool :=
  match c with
  | CFormat files obs =>
      match format_results (map mk_file files), obs with
      | Ok fs, Some o => list_eqb2 file_eqb fs o
      | Panic _, None => true
      | _, _ => false
      end
  | CEsc k s r =>
      beqb r (if k =? 0 then esc_html s else if k =? 1 then esc_html s else if k =? 2 then esc_nospace s
              else if k =? 3 then esc_jsstr s else if k =? 4 then esc_jsval s else esc_html (esc_urlquery s))
  | CTags doc sk => list_eqb2 tag_eqb (tags doc) sk
  end.
Definition c36_mismatches (cs : list c36case) : list N := bad_indexes c36_ok cs.
