(** Concrete instance of the reference evaluator (documents with a file name, content, branches,
    language and a repository index; substring matching by search; the content regexp engine as a
    table) and the correspondence runner of C05.  The instance serves two purposes: it shows that the
    hypotheses of the C05 theorems ([atoms_ok], [langs_closed], [live]) are satisfiable by the
    intended semantics, and it is compared case by case with the Go reference evaluator that the
    harness uses as the property oracle. *)
From ZV Require Import Lib.Base Model.Query.

Record cdoc := {
  cd_repo : nat;
  cd_name : str;
  cd_content : str;
  cd_branch0 : str;               (* every indexed document is on at least one branch *)
  cd_branches : list str;
  cd_lang : str;
}.
Definition cd_all_branches (d : cdoc) : list str := cd_branch0 d :: cd_branches d.

Definition lower (c : N) : N := if (N.leb 65 c && N.leb c 90)%bool then (c + 32)%N else c.
Definition contains (p t : str) : bool := match index_sub p t with Some _ => true | None => false end.

Section Std.
  (** content/file-name regexp engine: regexp, caseSensitive, subject *)
  Variable rx_match : rx -> bool -> str -> bool.

  Definition cd_text (nm : bool) (d : cdoc) : str := if nm then cd_name d else cd_content d.

  Definition std_substr (p : str) (cs nm : bool) (d : cdoc) : bool :=
    if cs then contains p (cd_text nm d) else contains (map lower p) (map lower (cd_text nm d)).
  Definition std_regexp (re : rx) (cs nm : bool) (d : cdoc) : bool :=
    N.eqb (rx_op re) OpEmptyMatch || rx_match re cs (cd_text nm d).
  Definition std_branch (p : str) (ex : bool) (d : cdoc) : bool :=
    existsb (fun b => if ex then str_eqb b p else contains p b) (cd_all_branches d).

  (** document-level atoms; the repository-level ones are placeholders that [shard_atoms] overrides *)
  Definition std_atoms0 : atoms cdoc :=
    {| a_substr := std_substr; a_regexp := std_regexp;
       a_symbol := fun _ _ => false; a_case := fun _ _ => false;
       a_lang := fun l d => str_eqb l (cd_lang d);
       a_filename := fun n d => str_eqb n (cd_name d);
       a_branch := std_branch;
       a_onbranch := fun b d => existsb (str_eqb b) (cd_all_branches d);
       a_repo_re := fun _ _ => false; a_repo_name := fun _ _ => false; a_repo_id := fun _ _ => false;
       a_repo_meta := fun _ _ _ => false; a_repo_rc := fun _ => 0%N |}.

  (** Symbol is opaque to the rewrites; the oracle uses "expression matches and the content has even
      length" as an arbitrary fixed function of (expression, document) *)
  Definition std_atoms : atoms cdoc :=
    {| a_substr := std_substr; a_regexp := std_regexp;
       a_symbol := fun x d => eval std_atoms0 x d && Nat.even (length (cd_content d));
       a_case := fun _ _ => false;
       a_lang := fun l d => str_eqb l (cd_lang d);
       a_filename := fun n d => str_eqb n (cd_name d);
       a_branch := std_branch;
       a_onbranch := fun b d => existsb (str_eqb b) (cd_all_branches d);
       a_repo_re := fun _ _ => false; a_repo_name := fun _ _ => false; a_repo_id := fun _ _ => false;
       a_repo_meta := fun _ _ _ => false; a_repo_rc := fun _ => 0%N |}.
End Std.

(** ------------------------------------------------------------------ correspondence runner *)

Fixpoint table_lookup (t : list (str * str * bool)) (re s : str) : bool :=
  match t with
  | [] => false
  | (re', s', b) :: r => if str_eqb re' re && str_eqb s' s then b else table_lookup r re s
  end.

Definition mk_repo (t : bool * N * str * list (str * str) * list (str * str)) : repo :=
  let '(tomb, id, name, rc, meta) := t in
  {| r_tomb := tomb; r_id := id; r_name := name; r_rawconfig := rc; r_meta := meta |}.

(** One case = the rewrite that was run on the implementation, its input tree and the tree the
    implementation returned. *)
Inductive c05case : Type :=
| CSimplify (q out : Q)                      (* query.Simplify *)
| CExpand (q out : Q)                        (* query.Map(q, query.ExpandFileContent) *)
| CShard (repos : list (bool * N * str * list (str * str) * list (str * str))) (langs : list str)
         (retab : list (str * str * bool)) (q out : Q)      (* indexData.simplify *)
| CEvalConst (q out : Q)                     (* query.evalConstants *)
| CFlatten (q out : Q) (changed : bool)      (* query.flatten (one round) *)
| CStrip (q out : Q)                         (* query.stripCaseScopes *)
| CRef (repos : list (bool * N * str * list (str * str) * list (str * str))) (langs : list str)
       (retab : list (str * str * bool)) (rxtab : list (str * bool * str * bool))
       (q : Q) (docs : list (nat * str * str * str * list str * str)) (sel : list bool).
                                             (* the Go reference evaluator on a corpus *)

Fixpoint rxtab_lookup (t : list (str * bool * str * bool)) (re : rx) (cs : bool) (s : str) : bool :=
  match t with
  | [] => false
  | (re', cs', s', b) :: r =>
      if str_eqb re' (rx_src re) && Bool.eqb cs' cs && str_eqb s' s then b else rxtab_lookup r re cs s
  end.
Definition mk_doc (t : nat * str * str * str * list str * str) : cdoc :=
  let '(r, n, c, b0, bs, l) := t in
  {| cd_repo := r; cd_name := n; cd_content := c; cd_branch0 := b0; cd_branches := bs; cd_lang := l |}.
Definition ref_eval (repos : list repo) (langs : list str) (retab : list (str * str * bool))
           (rxtab : list (str * bool * str * bool)) (q : Q) (d : cdoc) : bool :=
  eval (shard_atoms (table_lookup retab) (std_atoms (rxtab_lookup rxtab))
                    {| sh_repos := repos; sh_langs := langs |} cd_repo) q d.

Definition c05_ok (c : c05case) : bool :=
  match c with
  | CSimplify q out => q_eqb (Simplify q) out
  | CExpand q out => q_eqb (qmap ExpandFileContent q) out
  | CShard repos langs retab q out =>
      q_eqb (shard_simplify (table_lookup retab) {| sh_repos := map mk_repo repos; sh_langs := langs |} q) out
  | CEvalConst q out => q_eqb (evalConstants q) out
  | CFlatten q out chg => let (o, c) := flatten q in q_eqb o out && Bool.eqb c chg
  | CStrip q out => q_eqb (stripCaseScopes q) out
  | CRef repos langs retab rxtab q docs sel =>
      list_eqb Bool.eqb (map (fun t => ref_eval (map mk_repo repos) langs retab rxtab q (mk_doc t)) docs) sel
  end.
Definition c05_mismatches (cs : list c05case) : list N := bad_indexes c05_ok cs.
