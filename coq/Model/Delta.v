(** Model of delta index builds (C13): gitindex/index.go prepareDeltaBuild / prepareNormalBuild (+ RepoWalker.CollectFiles
    merging by (path, blob)), index/builder.go Finish (IsDelta: FileTombstones added to every older shard, branch versions
    updated) and the visibility rule of index/eval.go (a document of a shard is skipped when its path is in the shard's
    FileTombstones; branch filter = bit of the branch in the document's mask).

    Abstractions (trusted, exercised by the correspondence):
      * a commit of branch i is its tree [tree] = association list path -> blob (first binding wins); paths and blobs are
        numbers (the harness numbers the generated paths / contents);
      * go-git's DiffTree (DetectRenames = false) = "the set of paths whose blob differs between the two trees"
        (file mode changes, symlinks, submodules, .sourcegraph/ignore are not generated);
      * an index is a stack of LAYERS, one per build that still has shards on disk: the documents of all shards written by
        that build (a document = path, blob, set of branches) and the FileTombstones those shards carry (the harness
        checks that all shards of one build carry the same tombstones);
      * [run_step] (fixed list of branches and options): a requested delta build falls back to a full build when there is
        no index yet.  The general decision (branch list / index options changed, shard-count threshold) is modelled in
        Model/DeltaDecide.v on top of this file. *)
From ZV Require Import Lib.Base.

Definition path := N.
Definition blob := N.
Definition tree := list (path * blob).
Definition snap := list tree.              (* one tree per indexed branch *)

Fixpoint lookup (t : tree) (p : path) : option blob :=
  match t with
  | [] => None
  | (q, b) :: r => if N.eqb q p then Some b else lookup r p
  end.
Definition tree_of (s : snap) (b : nat) : tree := nth b s [].

Definition memN (x : N) (l : list N) : bool := existsb (N.eqb x) l.
Definition memb (x : nat) (l : list nat) : bool := existsb (Nat.eqb x) l.
Fixpoint nodupN (l : list N) : list N :=
  match l with [] => [] | x :: r => if memN x r then nodupN r else x :: nodupN r end.
Definition opt_eqb (a b : option N) : bool :=
  match a, b with None, None => true | Some x, Some y => N.eqb x y | _, _ => false end.

Record doc := mkDoc { d_path : path; d_blob : blob; d_mask : list nat }.
Record layer := mkLayer { l_docs : list doc; l_tombs : list path }.
Record istate := mkState { st_stack : list layer; st_last : snap }.

(** every path bound in some branch's tree *)
Definition all_paths (nb : nat) (s : snap) : list path :=
  nodupN (flat_map (fun b => map fst (tree_of s b)) (seq 0 nb)).
(** the distinct blobs at path p over all branches: the file keys (p, blob) *)
Definition blobs_at (nb : nat) (s : snap) (p : path) : list blob :=
  nodupN (flat_map (fun b => match lookup (tree_of s b) p with Some bl => [bl] | None => [] end) (seq 0 nb)).

(** documents of one build: for every candidate path and every file key (p, bl) the branches whose CURRENT tree has bl at
    p and for which [cond] says the key is (re)added; keys with no branch are not added *)
Definition key_mask (nb : nat) (cur : snap) (cond : nat -> path -> bool) (p : path) (bl : blob) : list nat :=
  filter (fun b => opt_eqb (lookup (tree_of cur b) p) (Some bl) && cond b p) (seq 0 nb).
Definition gen_docs (nb : nat) (cur : snap) (cands : list path) (cond : nat -> path -> bool) : list doc :=
  flat_map (fun p => flat_map (fun bl => match key_mask nb cur cond p bl with [] => [] | m => [mkDoc p bl m] end)
                              (blobs_at nb cur p)) cands.

(** prepareNormalBuild: every file of every branch *)
Definition full_docs (nb : nat) (cur : snap) : list doc := gen_docs nb cur (all_paths nb cur) (fun _ _ => true).

(** prepareDeltaBuild *)
Definition changed_in (last cur : snap) (b : nat) (p : path) : bool :=
  negb (opt_eqb (lookup (tree_of last b) p) (lookup (tree_of cur b) p)).
Definition is_some (o : option N) : bool := match o with Some _ => true | None => false end.
Definition delta_cands (nb : nat) (last cur : snap) : list path := nodupN (all_paths nb last ++ all_paths nb cur).
(** changedOrDeletedPaths: modified or deleted in some branch since that branch's last indexed commit *)
Definition delta_changed (nb : nat) (last cur : snap) : list path :=
  filter (fun p => existsb (fun b => is_some (lookup (tree_of last b) p) && changed_in last cur b p) (seq 0 nb))
         (delta_cands nb last cur).
(** a key gets branch b if the path changed in b (newFile side) or the path is in changedOrDeletedPaths (all branches'
    current versions are re-added) *)
Definition delta_docs (nb : nat) (last cur : snap) : list doc :=
  gen_docs nb cur (delta_cands nb last cur) (fun b p => changed_in last cur b p || memN p (delta_changed nb last cur)).

Definition add_tombs (c : list path) (l : layer) : layer := mkLayer (l_docs l) (nodupN (l_tombs l ++ c)).

Inductive kind := Full | Delta.

Definition full_build (nb : nat) (cur : snap) : istate := mkState [mkLayer (full_docs nb cur) []] cur.
Definition delta_build (nb : nat) (st : istate) (cur : snap) : istate :=
  let c := delta_changed nb (st_last st) cur in
  let d := delta_docs nb (st_last st) cur in
  mkState (map (add_tombs c) (st_stack st) ++ (match d with [] => [] | _ => [mkLayer d []] end)) cur.

Definition run_step (nb : nat) (st : istate) (r : snap * kind) : istate :=
  match snd r, st_stack st with
  | Full, _ | Delta, [] => full_build nb (fst r)
  | Delta, _ :: _ => delta_build nb st (fst r)
  end.
Definition init_state : istate := mkState [] [].
Definition run_all (nb : nat) (runs : list (snap * kind)) : istate := fold_left (run_step nb) runs init_state.

(** what a search restricted to branch b finds at path p: the blobs of the documents, in stack order *)
Definition view_layer (b : nat) (p : path) (l : layer) : list blob :=
  if memN p (l_tombs l) then []
  else map d_blob (filter (fun d => N.eqb (d_path d) p && memb b (d_mask d)) (l_docs l)).
Definition view (stack : list layer) (b : nat) (p : path) : list blob := flat_map (view_layer b p) stack.
(** what the branch's head commit has at p *)
Definition head_view (s : snap) (b : nat) (p : path) : list blob :=
  match lookup (tree_of s b) p with Some bl => [bl] | None => [] end.

(** ---- correspondence: comparing a stack of the model with an observed one (the runner over whole histories, which also
    compares the delta / normal build decision, is in Model/DeltaDecide.v).
    Observed layer = (documents as (path, blob, sorted branch positions), sorted FileTombstones). *)
Definition odoc := (N * N * list nat)%type.
Definition olayer := (list odoc * list N)%type.

Definition odoc_eqb (a b : odoc) : bool :=
  match a, b with (p1, b1, m1), (p2, b2, m2) => N.eqb p1 p2 && N.eqb b1 b2 && list_eqb Nat.eqb m1 m2 end.
Definition subset_by {A} (eqb : A -> A -> bool) (l m : list A) : bool := forallb (fun x => existsb (eqb x) m) l.
Definition seteq_by {A} (eqb : A -> A -> bool) (l m : list A) : bool :=
  Nat.eqb (length l) (length m) && subset_by eqb l m && subset_by eqb m l.
Definition layer_matches (l : layer) (o : olayer) : bool :=
  seteq_by odoc_eqb (map (fun d => (d_path d, d_blob d, d_mask d)) (l_docs l)) (fst o) &&
  seteq_by N.eqb (l_tombs l) (snd o).
Fixpoint stack_matches (s : list layer) (o : list olayer) : bool :=
  match s, o with
  | [], [] => true
  | l :: s', x :: o' => layer_matches l x && stack_matches s' o'
  | _, _ => false
  end.

(** NOT the code: prepareDeltaBuild without the "for b, currentTree := range branchToCurrentTree" re-adding of every
    branch's current version of a modified/deleted path (only the changed branch's new file is added).  Used only to
    state that the re-adding is necessary (Props/C13.v, C13_without_readd_refuted) — the planned mutant of DESIGN.md. *)
Definition delta_build_no_readd (nb : nat) (st : istate) (cur : snap) : istate :=
  let c := delta_changed nb (st_last st) cur in
  let d := gen_docs nb cur (delta_cands nb (st_last st) cur) (fun b p => changed_in (st_last st) cur b p) in
  mkState (map (add_tombs c) (st_stack st) ++ (match d with [] => [] | _ => [mkLayer d []] end)) cur.

(** The code BEFORE the repair `fix: gitindex: delta builds treat a file replaced by a submodule as a deletion ...`:
    prepareDeltaBuild used object.Change.Files, which returns (nil, nil) as soon as ONE side of a change is not a file
    (a submodule entry / gitlink), so such changes were skipped altogether.  In this model a gitlink is simply absent from
    the tree (it is never indexed); [ign b p] marks the changes of branch b that involve a gitlink at p.  Used only in
    Props/C13.v (C13_before_fix_refuted). *)
Definition delta_build_ignoring (ign : nat -> path -> bool) (nb : nat) (st : istate) (cur : snap) : istate :=
  let last := st_last st in
  let chg := fun b p => changed_in last cur b p && negb (ign b p) in
  let c := filter (fun p => existsb (fun b => is_some (lookup (tree_of last b) p) && chg b p) (seq 0 nb)) (delta_cands nb last cur) in
  let d := gen_docs nb cur (delta_cands nb last cur) (fun b p => chg b p || memN p c) in
  mkState (map (add_tombs c) (st_stack st) ++ (match d with [] => [] | _ => [mkLayer d []] end)) cur.

(** The code BEFORE the repair `fix: Builder.Finish removes a left-over .meta at the name of a new shard ...` (b31ad3a), in a
    directory where a ".meta" sidecar WITHOUT shard waits at the next shard number (left by a run killed between removing a
    shard and its sidecar): the new layer of a delta build is read through that sidecar, i.e. it starts with the stale
    FileTombstones [t] instead of none.  [delta_build] is [delta_build_adopting []].  Used only in Props/C13.v
    (C13_orphan_sidecar_before_fix_refuted). *)
Definition delta_build_adopting (t : list path) (nb : nat) (st : istate) (cur : snap) : istate :=
  let c := delta_changed nb (st_last st) cur in
  let d := delta_docs nb (st_last st) cur in
  mkState (map (add_tombs c) (st_stack st) ++ (match d with [] => [] | _ => [mkLayer d t] end)) cur.
