(** C36 — model of the web UI's RESPONSE CLASSES: which Content-Type ends up on the wire for every route and response
    mode of web.Server, and whether a user agent interprets the body as markup.

    Part (iv-a)  net/http's content sniffer [detect] = http.DetectContentType (net/http/sniff.go): whitespace skipping, the
                 html signatures (case-insensitive letters, tag-terminating byte), masked / exact signatures, the mp4 box
                 walk and the text fallback. The signature TABLE is not copied: it is regenerated from
                 $GOROOT/src/net/http/sniff.go by the translator (Generated/WebRoutes.v:sniff_sigs).
    Part (iv-b)  net/http's server side [wire_ct]: a handler that leaves Content-Type unset gets the sniffed type of the first
                 chunk of the body (no Content-Type for an empty body); X-Content-Type-Options does not stop the SERVER from
                 sniffing.
    Part (iv-c)  the user agent [browser_markup] — an explicit ASSUMPTION about software outside /repo, see below.
    Part (iv-d)  the response modes of web.Server ([rmode], [mode_ct], [mode_nosniff], [mode_class]) and the classification of the
                 response sinks the translator finds in the handlers' source ([sink_class]). *)
From Coq Require Import String.
From ZV Require Import Lib.Base Model.Web.
Open Scope N_scope.

(* ------------------------------------------------------------------ (iv-a) http.DetectContentType *)

Inductive sniffsig :=
| SHtml (pat : bytes)                                        (* htmlSig *)
| SMasked (mask pat : bytes) (skipws : bool) (ct : bytes)    (* maskedSig *)
| SExact (pat : bytes) (ct : bytes)                          (* exactSig *)
| SMp4                                                       (* mp4Sig *)
| SText                                                      (* textSig *)
| SUnknownSig (what : string).                               (* anything the translator does not understand *)

Definition sniff_len : nat := 512.

Definition is_ws (b : N) : bool := (b =? 9) || (b =? 10) || (b =? 12) || (b =? 13) || (b =? 32).
Definition is_tt (b : N) : bool := (b =? 32) || (b =? 62).

Fixpoint skip_ws (d : bytes) : bytes :=
  match d with
  | b :: r => if is_ws b then skip_ws r else d
  | [] => []
  end.

(** htmlSig.match on data[firstNonWS:] *)
Fixpoint html_match (pat d : bytes) : bool :=
  match pat with
  | [] => match d with b :: _ => is_tt b | [] => false end
  | p :: pr =>
      match d with
      | [] => false
      | b :: dr =>
          let db := if (65 <=? p) && (p <=? 90) then N.land b 223 else b in
          (p =? db) && html_match pr dr
      end
  end.

(** maskedSig.match (after the optional whitespace skip; len(pat) = len(mask) is checked by the caller) *)
Fixpoint masked_match (mask pat d : bytes) : bool :=
  match pat, mask with
  | [], _ => true
  | p :: pr, m :: mr =>
      match d with
      | [] => false
      | b :: dr => (N.land b m =? p) && masked_match mr pr dr
      end
  | _ :: _, [] => false
  end.

Fixpoint prefixb (p d : bytes) : bool :=
  match p with
  | [] => true
  | x :: pr => match d with y :: dr => (x =? y) && prefixb pr dr | [] => false end
  end.

Definition be32 (d : bytes) : N :=
  match d with
  | a :: b :: c :: e :: _ => ((a * 256 + b) * 256 + c) * 256 + e
  | _ => 0
  end.

(** the loop of mp4Sig.match: [rest] = data[st:boxSize], st = 8, 12, 16, … *)
Fixpoint mp4_loop (fuel : nat) (st : N) (rest : bytes) : bool :=
  match fuel with
  | O => false
  | S f =>
      match rest with
      | [] => false
      | _ => if negb (st =? 12) && prefixb (str "mp4") rest then true
             else mp4_loop f (st + 4) (skipn 4 rest)
      end
  end.

Definition mp4_match (d : bytes) : bool :=
  let n := N.of_nat (length d) in
  let box := be32 d in
  if n <? 12 then false
  else if (n <? box) || negb (box mod 4 =? 0) then false
  else if negb (beqb (slice d 4 8) (str "ftyp")) then false
  else mp4_loop (length d) 8 (slice d 8 (N.to_nat box)).

Definition text_byte_binary (b : N) : bool :=
  (b <=? 8) || (b =? 11) || ((14 <=? b) && (b <=? 26)) || ((28 <=? b) && (b <=? 31)).

Definition ct_html : bytes := str "text/html; charset=utf-8".
Definition ct_text : bytes := str "text/plain; charset=utf-8".
Definition ct_octet : bytes := str "application/octet-stream".
Definition ct_json : bytes := str "application/json".

(** sniffSig.match: [d] = the (truncated) data, [dw] = data[firstNonWS:] *)
Definition sig_match (s : sniffsig) (d dw : bytes) : option bytes :=
  match s with
  | SHtml pat => if html_match pat dw then Some ct_html else None
  | SMasked mask pat skipws ct =>
      if negb (Nat.eqb (length pat) (length mask)) then None
      else if masked_match mask pat (if skipws then dw else d) then Some ct else None
  | SExact pat ct => if prefixb pat d then Some ct else None
  | SMp4 => if mp4_match d then Some (str "video/mp4") else None
  | SText => if existsb text_byte_binary dw then None else Some ct_text
  | SUnknownSig _ => Some (str "?unknown-signature")
  end.

Fixpoint first_sig (sigs : list sniffsig) (d dw : bytes) : bytes :=
  match sigs with
  | [] => ct_octet
  | s :: r => match sig_match s d dw with Some ct => ct | None => first_sig r d dw end
  end.

Definition detect (sigs : list sniffsig) (body : bytes) : bytes :=
  let d := firstn sniff_len body in first_sig sigs d (skip_ws d).

(* ------------------------------------------------------------------ media types *)

Definition mt_end (b : N) : bool := (b =? 59) || (b =? 32) || (b =? 9).     (* ';' ' ' '\t' *)
Fixpoint mt_of (ct : bytes) : bytes :=
  match ct with
  | [] => []
  | b :: r => if mt_end b then [] else lower b :: mt_of r
  end.

Definition markup_types : list bytes :=
  [str "text/html"; str "application/xhtml+xml"; str "text/xml"; str "application/xml"; str "image/svg+xml"].
Definition markup_mt (mt : bytes) : bool := existsb (beqb mt) markup_types.
Definition markup_ct (ct : bytes) : bool := markup_mt (mt_of ct).

(* ------------------------------------------------------------------ (iv-b) the server side of net/http *)

(** Content-Type on the wire: what the handler set, else (non-empty body) what the server sniffs from the first chunk.
    (The handlers of web.Server write their body with one Write, so the first chunk is a prefix of at least 512 bytes
    of the body or the whole body.) *)
Definition wire_ct (sigs : list sniffsig) (explicit : option bytes) (body : bytes) : option bytes :=
  match explicit with
  | Some c => Some c
  | None => match body with [] => None | _ => Some (detect sigs body) end
  end.

(* ------------------------------------------------------------------ (iv-c) the user agent: ASSUMPTION, stated as a definition *)

(** BROWSER ASSUMPTION. A user agent decides how to interpret a response body from the response headers:
    (B1) a Content-Type whose media type is a markup type ([markup_types]) => the body is parsed as markup;
    (B2) text/plain with X-Content-Type-Options: nosniff => the body is shown as text, whatever it contains;
    (B3) text/plain without nosniff, or no Content-Type at all => the agent may sniff the body (mimesniff.spec.whatwg.org —
         net/http's table implements the same algorithm and is what we use) and parses it as markup if the sniffer says so;
    (B4) any other declared type (application/json, images, octet-stream, …) is never parsed as markup.
    This is about software outside /repo; it is an assumption of every theorem that mentions [browser_markup]. *)
Definition browser_markup (sigs : list sniffsig) (wire : option bytes) (nosniff : bool) (body : bytes) : bool :=
  match wire with
  | None => markup_ct (detect sigs body)
  | Some ct =>
      if markup_ct ct then true
      else if beqb (mt_of ct) (str "text/plain") && negb nosniff then markup_ct (detect sigs body)
      else false
  end.

(** what the user agent makes of a response whose handler set [explicit] / [nosniff] and wrote [body] *)
Definition served_as_markup (sigs : list sniffsig) (explicit : option bytes) (nosniff : bool) (body : bytes) : bool :=
  browser_markup sigs (wire_ct sigs explicit body) nosniff body.

(** the first byte the sniffer looks at *)
Definition first_nonws (body : bytes) : option N :=
  match skip_ws (firstn sniff_len body) with b :: _ => Some b | [] => None end.

(** side condition on a signature table (checked by computation on the generated one): every signature that yields
    a markup type only matches data whose first non-whitespace byte is '<' *)
Definition sig_markup_needs_lt (s : sniffsig) : bool :=
  match s with
  | SHtml (p :: _) => p =? 60
  | SHtml [] => false
  | SMasked (m :: _) (p :: _) true ct => negb (markup_ct ct) || ((m =? 255) && (p =? 60))
  | SMasked _ _ _ ct => negb (markup_ct ct)
  | SExact _ ct => negb (markup_ct ct)
  | SMp4 | SText => true
  | SUnknownSig _ => false
  end.

(* ------------------------------------------------------------------ (iv-d) response classes, modes, sinks *)

Inductive rclass := RHtmlTemplate | RPlainText | RJson | RStatic | REmpty | RUnknown.
Definition rclass_eqb (a b : rclass) : bool :=
  match a, b with
  | RHtmlTemplate, RHtmlTemplate | RPlainText, RPlainText | RJson, RJson | RStatic, RStatic | REmpty, REmpty | RUnknown, RUnknown => true
  | _, _ => false
  end.

(** the response modes of web.Server (and of the JSON API mounted under /api/) *)
Inductive rmode :=
| MResults | MRepoList | MSearchJson | MSearchBox | MAbout | MRobots | MPrintHtml | MPrintRaw
| MError            (* http.Error, from every handler *)
| MHealthz | MReadyzOk
| MApi.             (* /api/search, /api/list: results and jsonError alike *)

Definition all_modes : list rmode :=
  [MResults; MRepoList; MSearchJson; MSearchBox; MAbout; MRobots; MPrintHtml; MPrintRaw; MError; MHealthz; MReadyzOk; MApi].

Definition mode_of_N (n : N) : option rmode := nth_error all_modes (N.to_nat n).

(** the Content-Type the handler sets itself (None: left to net/http) *)
Definition mode_ct (m : rmode) : option bytes :=
  match m with
  | MResults | MRepoList | MSearchBox | MAbout | MRobots | MPrintHtml | MReadyzOk => None
  | MPrintRaw | MError => Some ct_text
  | MSearchJson | MHealthz | MApi => Some ct_json
  end.
Definition mode_nosniff (m : rmode) : bool :=
  match m with MPrintRaw | MError => true | _ => false end.
Definition mode_class (m : rmode) : rclass :=
  match m with
  | MResults | MRepoList | MSearchBox | MAbout | MPrintHtml => RHtmlTemplate
  | MRobots => RStatic
  | MPrintRaw | MError => RPlainText
  | MSearchJson | MHealthz | MApi => RJson
  | MReadyzOk => REmpty
  end.
(** the page (Generated/WebPages.v) an html-template / static mode renders *)
Definition mode_page (m : rmode) : option string :=
  match m with
  | MResults => Some "results" | MRepoList => Some "repolist" | MSearchBox => Some "search" | MAbout => Some "about"
  | MPrintHtml => Some "print" | MRobots => Some "robots"
  | _ => None
  end%string.

(** DECLARED output classes: route pattern -> the response modes it may answer with. A route the translator finds in the
    mux registrations that is missing here, or a response sink in a handler that is none of the route's modes, breaks
    an obligation of Props/C36.v. *)
Definition declared : list (string * list rmode) :=
  [ ("/robots.txt", [MRobots; MError]);
    ("/search", [MResults; MRepoList; MSearchJson; MError]);
    ("/", [MSearchBox; MError]);
    ("/about", [MAbout; MError]);
    ("/print", [MPrintHtml; MPrintRaw; MError]);
    ("/api/search", [MApi]);
    ("/api/list", [MApi]);
    ("/healthz", [MHealthz; MError]);
    ("/readyz", [MReadyzOk; MError]) ]%string.

Definition modes_of (pat : string) : list rmode :=
  match find (fun d => String.eqb (fst d) pat) declared with Some d => snd d | None => [] end.

(** response sinks as the translator reads them off the handlers' source (go/ast + go/types) *)
Inductive bodysrc :=
| BTemplate (names : list string)    (* buf.Bytes() of a buffer filled by html/template executions of these templates *)
| BData (expr : string)              (* any other byte/str value *)
| BLiteral.                          (* a constant *)
Inductive sinkkind :=
| KWrite (b : bodysrc)               (* w.Write(…) *)
| KError                             (* http.Error(w, …): sets text/plain; charset=utf-8 and nosniff itself *)
| KJsonEnc                           (* json.NewEncoder(w) *)
| KStatus                            (* w.WriteHeader(…) only *)
| KOther (what : string).            (* w handed to anything else *)
Record rsink := { rs_route : string; rs_func : string; rs_kind : sinkkind;
                  rs_hdrs : list (string * string * string) (* op, canonical key, literal value or "?" — header operations
                                                               that dominate the sink, in program order *) }.

(** the header a handler has set when control reaches the sink *)
Fixpoint hdr_get (key : string) (hs : list (string * string * string)) (cur : option string) : option string :=
  match hs with
  | [] => cur
  | (op, k, v) :: r =>
      if String.eqb k key then hdr_get key r (if String.eqb op "Del" then None else Some v) else hdr_get key r cur
  end.
Definition sink_ct (s : rsink) : option bytes := option_map str (hdr_get "Content-Type" (rs_hdrs s) None).
Definition sink_nosniff (s : rsink) : bool :=
  match hdr_get "X-Content-Type-Options" (rs_hdrs s) None with Some v => String.eqb v "nosniff" | None => false end.

Definition sink_mt_is (s : rsink) (mt : string) : bool :=
  match sink_ct s with Some ct => beqb (mt_of ct) (str mt) | None => false end.

(** the class of a sink. [page_names]: the html templates with a generated page tree; [static_names]: those without slots *)
Definition sink_class (page_names static_names : list string) (s : rsink) : rclass :=
  let known n := existsb (String.eqb n) page_names in
  let static n := existsb (String.eqb n) static_names in
  match rs_kind s with
  | KError => RPlainText
  | KStatus => REmpty
  | KJsonEnc => if sink_mt_is s "application/json" then RJson else RUnknown
  | KWrite (BTemplate ns) =>
      if negb (forallb known ns) || match ns with [] => true | _ => false end then RUnknown
      else match sink_ct s with
           | None => if forallb static ns then RStatic else RHtmlTemplate
           | Some ct => if beqb (mt_of ct) (str "text/html") then RHtmlTemplate else RUnknown
           end
  | KWrite (BData _) =>
      if sink_mt_is s "text/plain" && sink_nosniff s then RPlainText
      else if sink_mt_is s "application/json" then RJson
      else RUnknown               (* data written with the content type left to sniffing (or any other type): no class *)
  | KWrite BLiteral => RStatic
  | KOther _ => RUnknown
  end.

(** does the sink implement mode [m] of its route: same class, same headers, and for pages the same template *)
Definition opt_beqb (a b : option bytes) : bool :=
  match a, b with Some x, Some y => beqb x y | None, None => true | _, _ => false end.
Definition sink_is_mode (page_names static_names : list string) (s : rsink) (m : rmode) : bool :=
  match rs_kind s with
  | KStatus => true                 (* a status line only, no body: compatible with every mode; it IS the REmpty mode *)
  | k =>
      rclass_eqb (sink_class page_names static_names s) (mode_class m) &&
      match k with
      | KError => match m with MError => true | _ => false end
      | KWrite (BTemplate ns) =>
          opt_beqb (sink_ct s) (mode_ct m) &&
          match mode_page m with Some p => existsb (String.eqb p) ns | None => false end
      | _ => opt_beqb (sink_ct s) (mode_ct m) && Bool.eqb (sink_nosniff s) (mode_nosniff m)
      end
  end.

(** a page without data slots: its output depends on nothing taken from the index or the request *)
Fixpoint page_static (p : page) : bool :=
  match p with
  | PNil | PLit _ => true
  | PSlot _ => false
  | PSeq a b | PIf a b | PRange a b => page_static a && page_static b
  end.

Record route := { rt_pat : string; rt_handler : string; rt_guard : string }.

Definition route_declared (r : route) : bool := existsb (fun d => String.eqb (fst d) (rt_pat r)) declared.
Definition sink_classified (page_names static_names : list string) (s : rsink) : bool :=
  existsb (sink_is_mode page_names static_names s) (modes_of (rs_route s)).
(** every declared mode is really there in the source (the model's header table is not invented) *)
Definition mode_in_source (page_names static_names : list string) (sinks : list rsink) (d : string * list rmode) : bool :=
  forallb (fun m => existsb (fun s => String.eqb (rs_route s) (fst d) && sink_is_mode page_names static_names s m) sinks) (snd d).

(* ------------------------------------------------------------------ correspondence cases *)

Inductive c36rcase :=
| CResp (m : N) (explicit : option bytes) (nosniff : bool) (wire : option bytes) (body_prefix : bytes)
| CSniff (body : bytes) (ct : bytes).

Definition c36r_ok (sigs : list sniffsig) (c : c36rcase) : bool :=
  match c with
  | CResp n explicit nosniff wire body =>
      match mode_of_N n with
      | None => false
      | Some m =>
          opt_beqb explicit (mode_ct m) && Bool.eqb nosniff (mode_nosniff m) && opt_beqb wire (wire_ct sigs explicit body)
      end
  | CSniff body ct => beqb (detect sigs body) ct
  end.
