(** C36 — the template FUNCTIONS of the web UI (web/server.go: Funcmap = Inc, More, AddLineNumbers, HumanUnit, LimitPre,
    LimitPost, TrimTrailingNewline) in the outcome monad: every Go index / slice expression is a checked operation
    ([sslice]), Go [int]/[int64] arithmetic wraps ([wrap64]), fmt.Sprintf's %d / %s are [dec_Z] / the raw bytes.
    html/template turns a panic of a template function into an execution error: /search then answers 418 with the
    template error instead of the page ("rendering never fails for any search result").
    The set of registered functions with their signatures and every call site in web/templates.go is NOT copied here:
    Generated/WebFuncs.v is regenerated from source at every run (go/ast + go/types + the template parse trees). *)
From Coq Require Import String.
From ZV Require Import Lib.Base Model.Web.
Local Open Scope Z_scope.

Inductive fty := TyInt | TyInt64 | TyStr | TyBool | TyLines | TyUnknown.
Inductive fval := VInt (z : Z) | VStr (s : bytes) | VBool (b : bool) | VLines (l : list (Z * bytes)).

Definition fty_eqb (a b : fty) : bool :=
  match a, b with
  | TyInt, TyInt | TyInt64, TyInt64 | TyStr, TyStr | TyBool, TyBool | TyLines, TyLines => true
  | _, _ => false
  end.

Definition int64_min : Z := - 2 ^ 63.
Definition int64_max : Z := 2 ^ 63 - 1.
Definition in_int64 (z : Z) : bool := (int64_min <=? z) && (z <=? int64_max).
(** Go's silent two's-complement wrap-around of int / int64 (both 64 bit on the platforms zoekt-webserver runs on) *)
Definition wrap64 (z : Z) : Z := (z + 2 ^ 63) mod 2 ^ 64 - 2 ^ 63.

Definition has_type (v : fval) (t : fty) : bool :=
  match v, t with
  | VInt z, TyInt | VInt z, TyInt64 => in_int64 z
  | VStr _, TyStr | VBool _, TyBool | VLines _, TyLines => true
  | _, _ => false
  end.

(* ------------------------------------------------------------------ fmt.Sprintf("%d") *)
Fixpoint dec_fuel (fuel : nat) (n : N) (acc : bytes) : bytes :=
  match fuel with
  | O => acc
  | S f => let acc' := (48 + n mod 10)%N :: acc in
           if (n / 10 =? 0)%N then acc' else dec_fuel f (n / 10)%N acc'
  end.
(** the number of binary digits bounds the number of decimal digits: exact for every N *)
Definition dec_N (n : N) : bytes := dec_fuel (S (N.size_nat n)) n [].
Definition dec_Z (z : Z) : bytes := if z <? 0 then 45%N :: dec_N (Z.to_N (- z)) else dec_N (Z.to_N z).

(* ------------------------------------------------------------------ string slicing *)
Definition blen (s : bytes) : Z := Z.of_nat (length s).
(** Go [s[lo:hi]] on a string: run-time panic unless 0 <= lo <= hi <= len(s) *)
Definition sslice (s : bytes) (lo hi : Z) : outcome bytes :=
  if (lo <? 0) || (hi <? lo) || (blen s <? hi) then Panic 1
  else Ok (slice s (Z.to_nat lo) (Z.to_nat hi)).
(** Go [s[i]] *)
Definition sindex (s : bytes) (i : Z) : outcome N :=
  if (i <? 0) || (blen s <=? i) then Panic 2
  else match nth_error s (Z.to_nat i) with Some b => Ok b | None => Panic 2 end.

Definition skipped_open : bytes := str "...(".
Definition skipped_close : bytes := str " bytes skipped)...".
Definition skipped (n : Z) : bytes := skipped_open ++ dec_Z n ++ skipped_close.

(* ------------------------------------------------------------------ the functions (web/server.go) *)

(** "Inc": func(orig int) int { return orig + 1 } *)
Definition f_inc (orig : Z) : Z := wrap64 (orig + 1).
(** "More": func(orig int) int { return orig * 3 } *)
Definition f_more (orig : Z) : Z := wrap64 (orig * 3).

(** "HumanUnit": func(orig int64) string *)
Definition f_human_unit (orig : Z) : bytes :=
  if 10 * 2 ^ 30 <? orig then dec_Z (Z.quot orig (2 ^ 30)) ++ str "G"
  else if 10 * 2 ^ 20 <? orig then dec_Z (Z.quot orig (2 ^ 20)) ++ str "M"
  else if 10 * 2 ^ 10 <? orig then dec_Z (Z.quot orig (2 ^ 10)) ++ str "K"
  else dec_Z orig.

(** "LimitPre": if len(pre) < limit { return pre }
               return fmt.Sprintf("...(%d bytes skipped)...%s", len(pre)-limit, pre[len(pre)-limit:]) *)
Definition f_limit_pre (limit : Z) (pre : bytes) : outcome bytes :=
  let n := blen pre in
  if n <? limit then Ok pre
  else let cut := n - limit in   (* Go wraps when this overflows (limit < n - MaxInt64): negative, panics below just the same *)
       do suf <- sslice pre cut n;
       Ok (skipped cut ++ suf).

(** "LimitPost": if len(post) < limit { return post }
                return fmt.Sprintf("%s...(%d bytes skipped)...", post[:limit], len(post)-limit) *)
Definition f_limit_post (limit : Z) (post : bytes) : outcome bytes :=
  let n := blen post in
  if n <? limit then Ok post
  else do p <- sslice post 0 limit;   (* evaluated first (Sprintf's arguments left to right): 0 <= limit <= n beyond *)
       Ok (p ++ skipped (n - limit)).

(** "TrimTrailingNewline": strings.TrimSuffix(s, "\n") *)
Definition f_trim_nl (s : bytes) : bytes :=
  match rev s with
  | 10%N :: r => rev r
  | _ => s
  end.

(** strings.Split(s, "\n") *)
Fixpoint split_nl (s cur : bytes) : list bytes :=
  match s with
  | [] => [rev cur]
  | c :: r => if (c =? 10)%N then rev cur :: split_nl r [] else split_nl r (c :: cur)
  end.

(** AddLineNumbers(content, lineNum, isBefore): the loop over strings.Split's result ([range]: no index expression) *)
Fixpoint add_lines (lines : list bytes) (i total line_num : Z) (before : bool) : list (Z * bytes) :=
  match lines with
  | [] => []
  | l :: r =>
      let rest := add_lines r (i + 1) total line_num before in
      if (i =? total - 1) && (match l with [] => true | _ => false end) then rest
      else let num := if before then wrap64 (wrap64 (line_num - total) + i) else wrap64 (wrap64 (line_num + i) + 1) in
           (num, l) :: rest
  end.
Definition f_add_line_numbers (content : bytes) (line_num : Z) (before : bool) : list (Z * bytes) :=
  match content with
  | [] => []
  | _ => let lines := split_nl content [] in add_lines lines 0 (Z.of_nat (length lines)) line_num before
  end.

(* ------------------------------------------------------------------ the registry *)
Local Open Scope string_scope.

(** the signature the model has for a registered name: parameter types, result type *)
Definition func_sig (name : string) : option (list fty * fty) :=
  if String.eqb name "Inc" then Some ([TyInt], TyInt)
  else if String.eqb name "More" then Some ([TyInt], TyInt)
  else if String.eqb name "AddLineNumbers" then Some ([TyStr; TyInt; TyBool], TyLines)
  else if String.eqb name "HumanUnit" then Some ([TyInt64], TyStr)
  else if String.eqb name "LimitPre" then Some ([TyInt; TyStr], TyStr)
  else if String.eqb name "LimitPost" then Some ([TyInt; TyStr], TyStr)
  else if String.eqb name "TrimTrailingNewline" then Some ([TyStr], TyStr)
  else None.

(** calling a registered function; [None]: no model for that name, or arguments of the wrong number / kind (text/template
    answers those with an execution ERROR before the call) *)
Definition apply_func (name : string) (args : list fval) : option (outcome fval) :=
  if String.eqb name "Inc" then match args with [VInt z] => Some (Ok (VInt (f_inc z))) | _ => None end
  else if String.eqb name "More" then match args with [VInt z] => Some (Ok (VInt (f_more z))) | _ => None end
  else if String.eqb name "AddLineNumbers" then
    match args with [VStr c; VInt n; VBool b] => Some (Ok (VLines (f_add_line_numbers c n b))) | _ => None end
  else if String.eqb name "HumanUnit" then match args with [VInt z] => Some (Ok (VStr (f_human_unit z))) | _ => None end
  else if String.eqb name "LimitPre" then
    match args with [VInt l; VStr s] => Some (do r <- f_limit_pre l s; Ok (VStr r)) | _ => None end
  else if String.eqb name "LimitPost" then
    match args with [VInt l; VStr s] => Some (do r <- f_limit_post l s; Ok (VStr r)) | _ => None end
  else if String.eqb name "TrimTrailingNewline" then match args with [VStr s] => Some (Ok (VStr (f_trim_nl s))) | _ => None end
  else None.

Fixpoint well_typed (args : list fval) (tys : list fty) : bool :=
  match args, tys with
  | [], [] => true
  | v :: a, t :: r => has_type v t && well_typed a r
  | _, _ => false
  end.

(** functions whose first parameter is a length limit: called with a negative limit they DO panic (see
    [limit_pre_negative_refuted]); the templates pass literal constants, which the generated call-site table records *)
Definition has_limit (name : string) : bool := String.eqb name "LimitPre" || String.eqb name "LimitPost".

Definition args_ok (name : string) (args : list fval) : bool :=
  match func_sig name with
  | None => false
  | Some (tys, _) =>
      well_typed args tys &&
      (if has_limit name then match args with VInt l :: _ => (0 <=? l)%Z | _ => false end else true)
  end.

(* ------------------------------------------------------------------ call sites (Generated/WebFuncs.v) *)
(** an argument of a call in a template: a literal, or anything computed from the data / another call's result *)
Inductive carg := AConst (z : Z) | AStrLit (s : string) | ABoolLit (b : bool) | AData.
Record fsite := { fs_tmpl : string; fs_func : string; fs_args : list carg }.
Record fdecl := { fd_name : string; fd_params : list fty; fd_results : list fty }.

Definition carg_ok (a : carg) (t : fty) : bool :=
  match a, t with
  | AData, _ => true
  | AConst z, TyInt | AConst z, TyInt64 => in_int64 z
  | AStrLit _, TyStr | ABoolLit _, TyBool => true
  | _, _ => false
  end.
Fixpoint cargs_ok (args : list carg) (tys : list fty) : bool :=
  match args, tys with
  | [], [] => true
  | a :: r, t :: ts => carg_ok a t && cargs_ok r ts
  | _, _ => false
  end.
(** a call site is fine when the function has a model, literals have the parameter's kind, and a limit is a literal >= 0 *)
Definition site_ok (s : fsite) : bool :=
  match func_sig (fs_func s) with
  | None => false
  | Some (tys, _) =>
      cargs_ok (fs_args s) tys &&
      (if has_limit (fs_func s) then match fs_args s with AConst l :: _ => (0 <=? l)%Z | _ => false end else true)
  end.

Definition ftys_eqb (a b : list fty) : bool := list_eqb fty_eqb a b.
(** a registered function is fine when the model has that name with exactly that signature *)
Definition decl_ok (d : fdecl) : bool :=
  match func_sig (fd_name d) with
  | None => false
  | Some (tys, r) => ftys_eqb (fd_params d) tys && ftys_eqb (fd_results d) [r]
  end.

(** a value instantiates a call-site argument *)
Definition inst1 (a : carg) (v : fval) : bool :=
  match a, v with
  | AData, _ => true
  | AConst z, VInt z' => (z =? z')%Z
  | AStrLit s, VStr b => beqb (str s) b
  | ABoolLit b, VBool b' => Bool.eqb b b'
  | _, _ => false
  end.
Fixpoint inst (args : list carg) (vs : list fval) : bool :=
  match args, vs with
  | [], [] => true
  | a :: r, v :: w => inst1 a v && inst r w
  | _, _ => false
  end.

(* ------------------------------------------------------------------ correspondence *)
Local Open Scope Z_scope.
Definition lines_eqb (a b : list (Z * bytes)) : bool :=
  list_eqb (fun x y => (fst x =? fst y) && beqb (snd x) (snd y)) a b.
Definition fval_eqb (a b : fval) : bool :=
  match a, b with
  | VInt x, VInt y => x =? y
  | VStr x, VStr y => beqb x y
  | VBool x, VBool y => Bool.eqb x y
  | VLines x, VLines y => lines_eqb x y
  | _, _ => false
  end.

(** one observed call of the real Funcmap entry (through reflection, with recover()): [None] = it panicked *)
Definition c36f_ok (name : string) (args : list fval) (obs : option fval) : bool :=
  match apply_func name args, obs with
  | Some (Ok v), Some o => fval_eqb v o
  | Some (Panic _), None => true
  | _, _ => false
  end.
