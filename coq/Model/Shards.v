(** C18 — model of the sharded searcher's shard pre-selection and query rewrite
    (search/shards.go selectRepoSet / doSelectRepoSet), of the type:repo pre-evaluation
    (search/eval.go typeRepoSearcher.eval) and of the List aggregation (shardedSearcher.List).

    Per-shard search is the reference meaning of a query on the documents of the shard ([eval]); that the
    index evaluates queries like that is C01's subject, validated here by the correspondence only.
    Content atoms are opaque per-document predicates.  Names, ids, branch names are identifiers (N);
    [HEAD] is the identifier of the branch name "HEAD".  query.Simplify (constant folding after the rewrite)
    is meaning-preserving (C05) and not modelled: the rewritten query is kept unsimplified.
    Tombstones are out of scope here (C17): all repositories are live, every repository of a shard is in
    rankedShard.repos unless the shard's repository list is unknown (repos == nil). *)
From ZV Require Import Lib.Base.

Definition HEAD : N := 1%N.

Record repo := { r_name : N; r_id : N; r_branches : list N; r_meta : N }.
Record doc := { d_id : N; d_branches : list N }.
Record shard := { sh_known : bool;                  (* rankedShard.repos != nil *)
                  sh_parts : list (repo * list doc) }.
Definition sh_repos (s : shard) : list repo := map fst (sh_parts s).

Definition memN (k : N) (l : list N) : bool := existsb (N.eqb k) l.

(** queries: top level = conjunction of children (query.And, or a single query wrapped by selectRepoSet) *)
Inductive Q :=
| QConst (b : bool)
| QRepoPred (p : repo -> bool)            (* RepoSet, RepoIDs, Repo, Meta: a predicate on the repository *)
| QBranchesRepos (l : list (N * list N))  (* [(branch, repo ids)] *)
| QBranchExact (b : N)                    (* query.Branch{Pattern: b, Exact: true} *)
| QOther (p : repo -> doc -> bool)        (* content atoms and everything else *)
| QAnd2 (a b : Q) | QOr2 (a b : Q) | QNot (a : Q)
| QTypeRepo (c : Q).                      (* query.Type{Type: TypeRepo} *)

(** document d of repository r is on branch b (index: branchIDs[repo][b] & fileBranchMasks[doc]) *)
Definition in_branch (r : repo) (d : doc) (b : N) : bool := memN b (r_branches r) && memN b (d_branches d).

(** names for which [names] answers true stand for the result of the type:repo pre-evaluation; for a
    per-shard search of an already expanded query no QTypeRepo is left and [tr] is irrelevant *)
Fixpoint eval (tr : Q -> repo -> bool) (q : Q) (r : repo) (d : doc) : bool :=
  match q with
  | QConst b => b
  | QRepoPred p => p r
  | QBranchesRepos l => existsb (fun bi => memN (r_id r) (snd bi) && in_branch r d (fst bi)) l
  | QBranchExact b =>
      if N.eqb b HEAD
      then match r_branches r with b0 :: _ => memN b0 (d_branches d) | [] => false end  (* mask 1 = first branch *)
      else in_branch r d b
  | QOther p => p r d
  | QAnd2 a b => eval tr a r d && eval tr b r d
  | QOr2 a b => eval tr a r d || eval tr b r d
  | QNot a => negb (eval tr a r d)
  | QTypeRepo c => tr c r
  end.
Definition no_tr : Q -> repo -> bool := fun _ _ => false.

Definition eval_top (tr : Q -> repo -> bool) (cs : list Q) (r : repo) (d : doc) : bool :=
  forallb (fun c => eval tr c r d) cs.

(** per-shard search: ids of the matching documents, in shard order *)
Definition search_shard (cs : list Q) (s : shard) : list N :=
  flat_map (fun rd => map d_id (filter (eval_top no_tr cs (fst rd)) (snd rd))) (sh_parts s).

(** -- selectRepoSet ---------------------------------------------------------------------------- *)
Definition child_pred (c : Q) : option (repo -> bool) :=
  match c with
  | QRepoPred p => Some p
  | QBranchesRepos l => Some (fun r => existsb (fun bi => memN (r_id r) (snd bi)) l)
  | _ => None
  end.

Definition first_is_head (r : repo) : bool :=
  match r_branches r with b0 :: _ => N.eqb b0 HEAD | [] => false end.

(** [guard] = the repaired code: a single-entry BranchesRepos on "HEAD" is only replaced by Branch{HEAD,Exact}
    when in every selected repository the first branch is the one named HEAD; [guard = false] is the code
    before the repair. *)
Definition rewrite_child (guard : bool) (filtered : list shard) (c : Q) : option Q :=
  match c with
  | QRepoPred _ => Some (QConst true)
  | QBranchesRepos [(b, _)] =>
      if guard && N.eqb b HEAD && negb (forallb (fun s => forallb first_is_head (sh_repos s)) filtered)
      then None else Some (QBranchExact b)
  | _ => None
  end.

Fixpoint do_select (guard : bool) (shards : list shard) (pre post : list Q) : list shard * list Q :=
  match post with
  | [] => (shards, pre)
  | c :: rest =>
      match child_pred c with
      | None => do_select guard shards (pre ++ [c]) rest
      | Some p =>
          let filtered := filter (fun s => negb (sh_known s) || existsb p (sh_repos s)) shards in
          let filtered_all := forallb (fun s => sh_known s && forallb p (sh_repos s)) filtered in
          match filtered with
          | [] => (filtered, pre ++ post)
          | _ =>
              if negb filtered_all then (filtered, pre ++ post)
              else match rewrite_child guard filtered c with
                   | Some c' => (filtered, pre ++ c' :: rest)
                   | None => (filtered, pre ++ post)
                   end
          end
      end
  end.

(** The two loops AS CODED (search/shards.go).  [has_repos] = the closure returned by hasReposForPredicate:
      any = false; all = true; for _, repo := range repos { b := pred(repo); any = any || b; all = all && b }; return any, all
    — every repository of the shard is looked at, no early exit.  [select_loop] = the loop over the shards:
      if s.repos == nil { filtered = append(filtered, s); filteredAll = false }
      else if any, all := hasRepos(s.repos); any { filtered = append(filtered, s); filteredAll = filteredAll && all }.
    [do_select_coded] is [do_select] with (filtered, filteredAll) computed by these loops; it is what the runner and the
    theorems' [select] execute; Proofs/Shards.v shows that the loops compute the closed forms used in [do_select]
    ([has_repos_spec]: (existsb p, forallb p); [select_loop_spec]). *)
Definition has_repos (p : repo -> bool) (repos : list repo) : bool * bool :=
  fold_left (fun st r => let b := p r in (fst st || b, snd st && b)) repos (false, true).

Definition select_loop (p : repo -> bool) (shards : list shard) : list shard * bool :=
  fold_left (fun st s =>
               if negb (sh_known s) then (fst st ++ [s], false)
               else let '(any, all) := has_repos p (sh_repos s) in
                    if any then (fst st ++ [s], snd st && all) else st)
            shards ([], true).

Fixpoint do_select_coded (guard : bool) (shards : list shard) (pre post : list Q) : list shard * list Q :=
  match post with
  | [] => (shards, pre)
  | c :: rest =>
      match child_pred c with
      | None => do_select_coded guard shards (pre ++ [c]) rest
      | Some p =>
          let '(filtered, filtered_all) := select_loop p shards in
          match filtered with
          | [] => (filtered, pre ++ post)
          | _ =>
              if negb filtered_all then (filtered, pre ++ post)
              else match rewrite_child guard filtered c with
                   | Some c' => (filtered, pre ++ c' :: rest)
                   | None => (filtered, pre ++ post)
                   end
          end
      end
  end.

Definition select_gen (guard : bool) (shards : list shard) (cs : list Q) : list shard * list Q :=
  do_select_coded guard shards [] cs.
Definition select := select_gen true.
Definition select_unfixed := select_gen false.

(** the sharded search: union (in shard order) of the per-shard answers of the selected shards to the
    rewritten query *)
Definition sharded_search_gen (guard : bool) (shards : list shard) (cs : list Q) : list N :=
  let '(sel, cs') := select_gen guard shards cs in flat_map (search_shard cs') sel.
Definition sharded_search := sharded_search_gen true.

(** reference: every shard on its own with the original query *)
Definition union_search (shards : list shard) (cs : list Q) : list N := flat_map (search_shard cs) shards.

(** -- List ------------------------------------------------------------------------------------- *)
(** per-shard List: the repositories with a matching document (every repository has a document), with
    per-shard statistics (Documents, Shards = 1) *)
Record lentry := { le_name : N; le_id : N; le_docs : N; le_shards : N }.
Definition list_shard (cs : list Q) (s : shard) : list lentry :=
  flat_map (fun rd => if existsb (eval_top no_tr cs (fst rd)) (snd rd)
                      then [ {| le_name := r_name (fst rd); le_id := r_id (fst rd);
                                le_docs := N.of_nat (length (snd rd)); le_shards := 1 |} ]
                      else []) (sh_parts s).

(** uniq[r.Repository.Name]: first entry wins, statistics are added *)
Fixpoint agg_add (e : lentry) (acc : list lentry) : list lentry :=
  match acc with
  | [] => [e]
  | x :: r => if N.eqb (le_name x) (le_name e)
              then {| le_name := le_name x; le_id := le_id x; le_docs := (le_docs x + le_docs e)%N;
                      le_shards := (le_shards x + le_shards e)%N |} :: r
              else x :: agg_add e r
  end.
Definition agg_list (es : list lentry) : list lentry := fold_left (fun acc e => agg_add e acc) es [].

Definition sharded_list_gen (guard : bool) (shards : list shard) (cs : list Q) : list lentry :=
  let '(sel, cs') := select_gen guard shards cs in agg_list (flat_map (list_shard cs') sel).
Definition sharded_list := sharded_list_gen true.
Definition union_list (shards : list shard) (cs : list Q) : list lentry := agg_list (flat_map (list_shard cs) shards).

(** -- type:repo -------------------------------------------------------------------------------- *)
(** typeRepoSearcher.eval: bottom-up (query.Map), every (type:repo c) becomes the RepoSet of the names
    listed for the (already expanded) child *)
Fixpoint expand (shards : list shard) (q : Q) : Q :=
  match q with
  | QAnd2 a b => QAnd2 (expand shards a) (expand shards b)
  | QOr2 a b => QOr2 (expand shards a) (expand shards b)
  | QNot a => QNot (expand shards a)
  | QTypeRepo c =>
      let names := map le_name (sharded_list shards [expand shards c]) in
      QRepoPred (fun r => memN (r_name r) names)
  | _ => q
  end.

(** A per-request memo of evaluated type:repo children keyed by [key child] — NOT what the tree does (typeRepoSearcher.eval
    lists every atom's own child: [expand]); modelled to state when such sharing is sound (Proofs/ShardsMemo.v: the key must
    identify only children with the same meaning; query.Q.String() is not such a key).  The traversal order is query.Map's
    (children first, left to right); the key is computed from the already expanded child. *)
Section Memo.
  Context {K : Type} (keqb : K -> K -> bool) (key : Q -> K).
  Fixpoint memo_find (k : K) (m : list (K * Q)) : option Q :=
    match m with
    | [] => None
    | (k', rs) :: r => if keqb k k' then Some rs else memo_find k r
    end.
  Definition tr_set (shards : list shard) (c : Q) : Q :=
    let names := map le_name (sharded_list shards [c]) in QRepoPred (fun r => memN (r_name r) names).
  Fixpoint expand_memo (shards : list shard) (q : Q) (m : list (K * Q)) : Q * list (K * Q) :=
    match q with
    | QAnd2 a b => let '(a', m1) := expand_memo shards a m in let '(b', m2) := expand_memo shards b m1 in (QAnd2 a' b', m2)
    | QOr2 a b => let '(a', m1) := expand_memo shards a m in let '(b', m2) := expand_memo shards b m1 in (QOr2 a' b', m2)
    | QNot a => let '(a', m1) := expand_memo shards a m in (QNot a', m1)
    | QTypeRepo c =>
        let '(c', m1) := expand_memo shards c m in
        match memo_find (key c') m1 with
        | Some rs => (rs, m1)
        | None => let rs := tr_set shards c' in (rs, (key c', rs) :: m1)
        end
    | _ => (q, m)
    end.
End Memo.

(** reference meaning of type:repo: the document's repository (by name) has, in some shard, a document
    matching the child *)
Fixpoint tr_ref (fuel : nat) (shards : list shard) (c : Q) (r : repo) : bool :=
  match fuel with
  | O => false
  | S f =>
      existsb (fun s => existsb (fun rd => N.eqb (r_name (fst rd)) (r_name r) &&
                                           existsb (eval (tr_ref f shards) c (fst rd)) (snd rd)) (sh_parts s)) shards
  end.
Fixpoint depth (q : Q) : nat :=
  match q with
  | QAnd2 a b | QOr2 a b => Nat.max (depth a) (depth b)
  | QNot a => depth a
  | QTypeRepo c => S (depth c)
  | _ => 0
  end.

(** -- FileMatch.Branches ------------------------------------------------------------------------ *)
(** indexData.gatherBranches: the branches reported for a matching file are (mask of the branch atoms that
    "contributed" to the match) or, when there is none, all branches of the file; in the order of the repository's
    branch list.  Which branch atoms are in the match tree depends on the shard: d.simplify turns repository
    predicates into constants (all live repositories of the shard match => TRUE, none => FALSE; a BranchesRepos
    listing no repository of the shard => FALSE) and query.Simplify folds the constants — (or branch:b TRUE)
    becomes TRUE and loses the branch atom.  [simp_sh] models both as far as constants go. *)
Fixpoint simp_sh (s : shard) (q : Q) : Q :=
  match q with
  | QRepoPred p => if forallb p (sh_repos s) then QConst true
                   else if existsb p (sh_repos s) then q else QConst false
  | QBranchesRepos l => if existsb (fun r => existsb (fun bi => memN (r_id r) (snd bi)) l) (sh_repos s) then q else QConst false
  | QAnd2 a b =>
      match simp_sh s a, simp_sh s b with
      | QConst false, _ => QConst false
      | _, QConst false => QConst false
      | QConst true, b' => b'
      | a', QConst true => a'
      | a', b' => QAnd2 a' b'
      end
  | QOr2 a b =>
      match simp_sh s a, simp_sh s b with
      | QConst true, _ => QConst true
      | _, QConst true => QConst true
      | QConst false, b' => b'
      | a', QConst false => a'
      | a', b' => QOr2 a' b'
      end
  | QNot a => match simp_sh s a with QConst b => QConst (negb b) | a' => QNot a' end
  | _ => q
  end.

(** the branches contributed by the branch atoms visited by visitMatchAtoms for a document: and/or nodes are
    entered when known to match (an or-node evaluates all its children), not-nodes never; an atom contributes
    fileMask & its per-repository mask (Branch{HEAD}: mask 1 = the first branch) *)
Fixpoint bcontrib (q : Q) (r : repo) (d : doc) : list N :=
  match q with
  | QBranchExact b =>
      if N.eqb b HEAD
      then match r_branches r with b0 :: _ => if memN b0 (d_branches d) then [b0] else [] | [] => [] end
      else if in_branch r d b then [b] else []
  | QBranchesRepos l => flat_map (fun bi => if memN (r_id r) (snd bi) && in_branch r d (fst bi) then [fst bi] else []) l
  | QAnd2 a b => if eval no_tr a r d && eval no_tr b r d then bcontrib a r d ++ bcontrib b r d else []
  | QOr2 a b => bcontrib a r d ++ bcontrib b r d
  | _ => []
  end.

Definition file_branches (cs : list Q) (s : shard) (r : repo) (d : doc) : list N :=
  let m := flat_map (fun c => bcontrib (simp_sh s c) r d) cs in
  filter (fun b => memN b (d_branches d) && match m with [] => true | _ => memN b m end) (r_branches r).

(** per-shard search with the reported branches *)
Definition search_shard_br (cs : list Q) (s : shard) : list (N * list N) :=
  flat_map (fun rd => map (fun d => (d_id d, file_branches cs s (fst rd) d))
                          (filter (eval_top no_tr cs (fst rd)) (snd rd))) (sh_parts s).
Definition sharded_search_br_gen (guard : bool) (shards : list shard) (cs : list Q) : list (N * list N) :=
  let '(sel, cs') := select_gen guard shards cs in flat_map (search_shard_br cs') sel.
Definition sharded_search_br := sharded_search_br_gen true.

(** ---- correspondence runner ------------------------------------------------------------------ *)
(** query terms of the cases: predicates are given extensionally *)
Inductive cq :=
| CConst (b : bool)
| CNames (l : list N)          (* RepoSet / Repo regexp: the matching repository names *)
| CIds (l : list N)            (* RepoIDs *)
| CMeta (v : N)                (* Meta k:v : repositories whose metadata value id is v *)
| CBranchesRepos (l : list (N * list N))
| CBranch (b : N)
| CDocs (l : list N)           (* content atom: the matching document ids *)
| CAnd (a b : cq) | COr (a b : cq) | CNot (a : cq)
| CTypeRepo (c : cq).
Fixpoint of_cq (c : cq) : Q :=
  match c with
  | CConst b => QConst b
  | CNames l => QRepoPred (fun r => memN (r_name r) l)
  | CIds l => QRepoPred (fun r => memN (r_id r) l)
  | CMeta v => QRepoPred (fun r => N.eqb (r_meta r) v)
  | CBranchesRepos l => QBranchesRepos l
  | CBranch b => QBranchExact b
  | CDocs l => QOther (fun _ d => memN (d_id d) l)
  | CAnd a b => QAnd2 (of_cq a) (of_cq b)
  | COr a b => QOr2 (of_cq a) (of_cq b)
  | CNot a => QNot (of_cq a)
  | CTypeRepo c => QTypeRepo (of_cq c)
  end.

Definition c18repo := (N * N * list N * N)%type.   (* name id branches meta *)
Definition c18doc := (N * list N)%type.
Definition c18shard := (bool * list (c18repo * list c18doc))%type.
Definition mk_shard (s : c18shard) : shard :=
  {| sh_known := fst s;
     sh_parts := map (fun rd => let '(n, i, bs, m) := fst rd in
                                ({| r_name := n; r_id := i; r_branches := bs; r_meta := m |},
                                 map (fun d : c18doc => {| d_id := fst d; d_branches := snd d |}) (snd rd))) (snd s) |}.

Fixpoint insN (x : N) (l : list N) : list N :=
  match l with [] => [x] | y :: r => if N.leb x y then x :: l else y :: insN x r end.
Definition sortN (l : list N) : list N := fold_right insN [] l.

Definition le_row (e : lentry) : N * N * N * N := (le_name e, le_id e, le_docs e, le_shards e).
Fixpoint ins_row (x : N * N * N * N) (l : list (N * N * N * N)) : list (N * N * N * N) :=
  match l with
  | [] => [x]
  | y :: r => let '(xn, _, _, _) := x in let '(yn, _, _, _) := y in if N.leb xn yn then x :: l else y :: ins_row x r
  end.
Definition sort_rows (l : list (N * N * N * N)) := fold_right ins_row [] l.
Definition row4_eqb (a b : N * N * N * N) : bool :=
  let '(a1, a2, a3, a4) := a in let '(b1, b2, b3, b4) := b in
  N.eqb a1 b1 && N.eqb a2 b2 && N.eqb a3 b3 && N.eqb a4 b4.

(** a case: shards, top-level children, observed Search file ids (sorted), observed List rows
    (name, id, Stats.Documents, Stats.Shards) sorted by name, observed FileMatch.Branches per file.  The type:repo nodes are expanded first, as
    typeRepoSearcher does, then the sharded searcher runs. *)
Fixpoint ins_fb (x : N * list N) (l : list (N * list N)) : list (N * list N) :=
  match l with [] => [x] | y :: r => if N.leb (fst x) (fst y) then x :: l else y :: ins_fb x r end.
Definition sort_fb (l : list (N * list N)) := fold_right ins_fb [] l.
Definition fb_eqb (a b : N * list N) : bool := N.eqb (fst a) (fst b) && list_eqb N.eqb (snd a) (snd b).

(** [obr]: observed (file id, FileMatch.Branches as branch ids in the order reported) sorted by file id *)
Definition c18case := (list c18shard * list cq * list N * list (N * N * N * N) * list (N * list N))%type.
Definition c18_ok (c : c18case) : bool :=
  let '(shs, cs, ofiles, olist, obr) := c in
  let shards := map mk_shard shs in
  let qs := map (fun c => expand shards (of_cq c)) cs in
  list_eqb N.eqb (sortN (sharded_search shards qs)) ofiles &&
  list_eqb row4_eqb (sort_rows (map le_row (sharded_list shards qs))) olist &&
  list_eqb fb_eqb (sort_fb (sharded_search_br shards qs)) obr.
Definition c18_mismatches (cs : list c18case) : list N := bad_indexes c18_ok cs.
