(** C24 - the generic wire model instantiated with the tables the translator generated from /repo's
    current sources, the named exclusions, and the correspondence runner. *)
From ZV Require Import Lib.Base Lib.WireTypes Model.Wire Generated.ProtoFields.
From Coq Require Import String.

(** Go fields that are deliberately not on the wire. Every entry is named here and nowhere else:
    - SearchOptions.SpanContext: tracing context, propagated out of band;
    - SearchResult.RepoURLs / LineFragments: passed to SearchResultFromProto by the client as
      separate arguments (they are not fields of SearchResponse). *)
Definition c24_exclusions : list (string * list string) :=
  [("zoekt.SearchOptions", ["SpanContext"]);
   ("zoekt.SearchResult", ["RepoURLs"; "LineFragments"])]%string.

(** Q kinds without a wire representation, by name:
    - caseQ, caseScopeQ, orOperator, token: parse-time-only nodes of query.Parse (unexported;
      never part of a parsed query); gobRegexp: the gob encoding helper of Regexp (unexported);
    (Meta was listed here until the repair 5377a6c "QToProto handles *query.Meta" landed.) *)
Definition c24_qkind_exclusions : list string :=
  ["query.caseQ"; "query.caseScopeQ"; "query.gobRegexp"; "query.orOperator"; "query.token"
  ]%string.

(** XFromProto(nil) of a getter-only function = XFromProto of the message with every field unset
    (protobuf-go getters return the zero value on a nil receiver).  The table is computed from the
    generated tables by iterating "convert the all-unset message" [nil_depth] times, each round
    using the previous round for nested unset sub-messages; [r0] is the regexp oracle's answer for
    the empty pattern, the only pattern an unset message contains.  That the result is a fixpoint
    (the entry for n IS the model's conversion of n's all-unset message) is theorem
    C24_unset_message_is_empty_message. *)
Definition nil_depth : nat := 6.
Fixpoint gen_nilfrom (k : nat) (r0 : option (list N)) : list (string * outcome val) :=
  match k with
  | O => []
  | S k' =>
      let E := Env pf_tables pf_qto pf_qfrom pf_qto_default_panics pf_qfrom_nil_safe pf_qfrom_default_panics
                   c24_exclusions (fun _ => r0) (gen_nilfrom k' r0) pf_rawconfig_from_nil_safe in
      map (fun nt => (fst nt, apply E (CRec false false (fst nt)) (zero_rec (t_to (snd nt))))) pf_tables
  end.

Definition gen_env (re_norm : list N -> option (list N)) : env :=
  Env pf_tables pf_qto pf_qfrom pf_qto_default_panics pf_qfrom_nil_safe pf_qfrom_default_panics
      c24_exclusions re_norm (gen_nilfrom nil_depth (re_norm [])) pf_rawconfig_from_nil_safe.

(** every Q kind of package query is handled by QToProto or is a named exclusion *)
Definition qkinds_covered : bool :=
  forallb (fun k => mem k c24_qkind_exclusions ||
                    match lookup k pf_qto with Some _ => true | None => false end) pf_qkinds_all.

(** the streamer used by the handler correspondence: an in-process searcher over one tiny shard;
    every query it is given succeeds *)
Definition ok_streamer (q opts : val) : outcome val := Ok VNil.
Definition ok_stream (q opts : val) : outcome val := Ok (VL []).
Definition ok_lister (q opts : val) : outcome val :=
  match lookup "zoekt.RepoList" pf_tables with Some t => Ok (zero_rec (t_from t)) | None => Ok VNil end.

Definition c24_case_ok (c : wcase) : bool :=
  match c with
  | WConv cv inp obs retab => out_eqb (apply (gen_env (re_norm_of retab)) cv inp) obs
  | WDom ct cf v retab => dom_b (gen_env (re_norm_of retab)) ct cf v
  | WHandlerA h req q opts retab =>
      out_eqb (handle_args (gen_env (re_norm_of retab)) handler_defaults_nil_opts h req) (Ok (VL [q; opts]))
  | WNilQPayload pk obs retab =>
      match lookup pk pf_qfrom with
      | Some (_, c) => out_eqb (apply (gen_env (re_norm_of retab)) c VNil) obs
      | None => false
      end
  | WNilFrom n obs retab => out_eqb (nil_from (gen_env (re_norm_of retab)) n) obs
  | WHandler h req cls retab =>
      (out_class (handle (gen_env (re_norm_of retab)) ok_streamer ok_stream ok_lister
                         handler_defaults_nil_opts h req) =? cls)%N
  | WHandlerR h req sres resp retab =>
      out_eqb (handle (gen_env (re_norm_of retab)) (fun _ _ => Ok sres) (fun _ _ => Ok sres) (fun _ _ => Ok sres)
                      handler_defaults_nil_opts h req) (Ok resp)
  end.

Definition c24_mismatches (l : list wcase) : list N := bad_indexes c24_case_ok l.
