(** C35 — executable model of the filesystem-operation programs of
      cmd/zoekt-merge-index/main.go:merge      (open inputs, index.Merge -> builderWriteAll to <dst>.tmp,
                                                delete inputs + sidecars, rename <dst>.tmp -> <dst>)
      index/merge.go:Explode / explode          (open, write one simple shard per live repo under <name>.tmp,
                                                remove compound + sidecar, rename each, deferred tmp cleanup)
      index/merge.go:builderWriteAll            (MkdirAll, CreateTemp, chmod/write/close, Rename)
    Since the C35 "stale .meta" repair both drivers also remove a pre-existing <dst>.meta right before the
    publishing rename(s) (os.Remove, IsNotExist ignored); the programs take [fixed : bool] so that the code
    before that repair ([fixed = false]) stays available for the `_before_fix_refuted` theorems.
    over a small filesystem with per-operation Done|Failed (natural failures from the state + failures
    injected by an arbitrary plan) and a log of the state before every operation (crash = any logged state).

    Abstractions (see props/C35/NOTES.md): a shard file is its repository metadata list (id, priority,
    tombstone); documents are not modelled here (C16 does that); sha1 in the compound name is injective
    (the name carries the list of live repo ids); a directory is a non-empty directory. *)
From ZV Require Import Lib.Base.

Record rmeta := { rm_id : N; rm_prio : N; rm_tomb : bool }.

(** names of *.zoekt files *)
Inductive zname :=
| ZSimple (r : N)            (* <repo r>_v16.00000.zoekt            (Options.shardNameVersion) *)
| ZCompound (l : list N)     (* compound-<sha1 of l>_v17.00000.zoekt (index.Merge)             *)
| ZOther (n : N).            (* any other *.zoekt name *)

Inductive path :=
| PZ (z : zname)             (* the shard itself: the only kind of name a searcher loads (glob *.zoekt) *)
| PMeta (z : zname)          (* z ++ ".meta" sidecar *)
| PTmp (z : zname)           (* z ++ ".tmp" *)
| PTemp (z : zname).         (* z ++ ".tmp.<random>.tmp" made by os.CreateTemp in builderWriteAll *)

Inductive content :=
| CShard (rs : list rmeta)   (* well-formed shard with this repo metadata section *)
| CMeta (rs : list rmeta)    (* well-formed sidecar *)
| CGarbage.                  (* anything else (non-empty): corrupt, partially written *)
Inductive node := File (c : content) | Dir.

Definition fs := path -> option node.

Definition zname_eq_dec : forall a b : zname, {a = b} + {a <> b}.
Proof. decide equality; try apply N.eq_dec. apply (list_eq_dec N.eq_dec). Defined.
Definition path_eq_dec : forall a b : path, {a = b} + {a <> b}.
Proof. decide equality; apply zname_eq_dec. Defined.

Definition upd (s : fs) (p : path) (v : option node) : fs :=
  fun q => if path_eq_dec q p then v else s q.

(** ---- what a searcher sees.  parseMetadata: sidecar (if present and readable) replaces the shard's repo list *)
Definition eff (s : fs) (z : zname) : option (list rmeta) :=
  match s (PZ z) with
  | Some (File (CShard rs)) =>
      match s (PMeta z) with
      | None => Some rs
      | Some (File (CMeta rs')) => Some rs'
      | Some _ => None
      end
  | _ => None
  end.
Definition alive (rs : list rmeta) : list rmeta := filter (fun r => negb (rm_tomb r)) rs.
Definition live (rs : list rmeta) : list N := map rm_id (alive rs).
Definition vis (s : fs) (z : zname) : list N :=
  match eff s z with Some rs => live rs | None => [] end.
(** no repository is visible in two shards *)
Definition no_dup (s : fs) : Prop :=
  forall z1 z2 r, In r (vis s z1) -> In r (vis s z2) -> z1 = z2.

(** ---- operations *)
Inductive op :=
| OOpen (p : path)
| OMkdirAll
| OCreateTemp (p : path)
| OWrite (p : path)          (* f.Chmod + ShardBuilder.Write + f.Stat + f.Close on the temp file *)
| ORename (p q : path)
| ORemove (p : path).
Definition op_eq_dec : forall a b : op, {a = b} + {a <> b}.
Proof. decide equality; apply path_eq_dec. Defined.

Definition is_file (s : fs) (p : path) : bool :=
  match s p with Some (File _) => true | _ => false end.

(** natural semantics: [Some s'] = Done with new state, [None] = Failed (state unchanged) *)
Definition step (s : fs) (o : op) (c : content) : option fs :=
  match o with
  | OOpen p => match s p with Some _ => Some s | None => None end
  | OMkdirAll => Some s
  | OCreateTemp p => Some (upd s p (Some (File CGarbage)))
  | OWrite p => Some (upd s p (Some (File c)))
  | ORename p q =>
      if is_file s p then
        match s q with
        | Some Dir => None
        | _ => Some (upd (upd s q (s p)) p None)
        end
      else None
  | ORemove p => if is_file s p then Some (upd s p None) else None
  end.

(** ---- the world: current state + log (newest first) of (operation, done?, state before it) *)
Record world := { w_fs : fs; w_log : list (op * bool * fs) }.
Definition M (A : Type) := world -> A * world.
Definition ret {A} (a : A) : M A := fun w => (a, w).
Definition bind {A B} (m : M A) (f : A -> M B) : M B := fun w => let (a, w') := m w in f a w'.
Notation "'doM' x <- a ;; b" := (bind a (fun x => b)) (at level 200, x name, a at level 100, b at level 200, right associativity).
Definition get_fs : M fs := fun w => (w_fs w, w).

Fixpoint occ (o : op) (l : list (op * bool * fs)) : nat :=
  match l with
  | [] => 0
  | (o', _, _) :: r => (if op_eq_dec o' o then 1 else 0) + occ o r
  end.

Inductive res :=
| ROk (z : option zname)     (* nil error; merge: Some dst = the returned path, None = the empty string *)
| RErr.

Definition shuffle := list zname -> list zname.

Section Driver.
  (** [plan o k = true]: the k-th (0-based) execution of operation [o] is made to fail *)
  Variable plan : op -> nat -> bool.
  (** Go map iteration order in Explode (rename loop, deferred cleanup loop) *)
  Variable shuf_rename shuf_cleanup : shuffle.
  (** ... and in Explode's loop removing stale sidecars at the destination names (a third `range exploded`) *)
  Variable shuf_stale : shuffle.

  Definition exec (o : op) (c : content) : M bool := fun w =>
    let r := if plan o (occ o (w_log w)) then None else step (w_fs w) o c in
    match r with
    | Some s' => (true, {| w_fs := s'; w_log := (o, true, w_fs w) :: w_log w |})
    | None => (false, {| w_fs := w_fs w; w_log := (o, false, w_fs w) :: w_log w |})
    end.

  (** `if err := os.Remove(p); err != nil && !os.IsNotExist(err) { return err }`: the operation is always
      attempted (and logged); a missing file is not an error, an injected failure or a directory in the way is *)
  Definition exec_remove_stale (p : path) : M bool := fun w =>
    let o := ORemove p in
    if plan o (occ o (w_log w)) then (false, {| w_fs := w_fs w; w_log := (o, false, w_fs w) :: w_log w |})
    else match step (w_fs w) o CGarbage with
         | Some s' => (true, {| w_fs := s'; w_log := (o, true, w_fs w) :: w_log w |})
         | None => (match w_fs w p with None => true | Some _ => false end,
                    {| w_fs := w_fs w; w_log := (o, false, w_fs w) :: w_log w |})
         end.

  (** index/merge.go:builderWriteAll(fn = z.tmp, content) *)
  Definition builder_write_all (z : zname) (c : content) : M bool :=
    doM ok <- exec OMkdirAll CGarbage ;;
    if negb ok then ret false else
    doM ok <- exec (OCreateTemp (PTemp z)) CGarbage ;;
    if negb ok then ret false else
    doM ok <- exec (OWrite (PTemp z)) c ;;
    if negb ok then ret false else
    exec (ORename (PTemp z) (PTmp z)) CGarbage.

  (** index.IndexFilePaths (os.Stat, not a fault point): the shard and its sidecar, those that exist *)
  Definition index_file_paths (s : fs) (z : zname) : list path :=
    (match s (PZ z) with Some _ => [PZ z] | None => [] end) ++
    (match s (PMeta z) with Some _ => [PMeta z] | None => [] end).

  (** remove every path, stop at the first failure *)
  Fixpoint remove_all (ps : list path) : M bool :=
    match ps with
    | [] => ret true
    | p :: r => doM ok <- exec (ORemove p) CGarbage ;; if negb ok then ret false else remove_all r
    end.

  (** remove every path, ignoring failures (Explode's deferred cleanup) *)
  Fixpoint remove_best_effort (ps : list path) : M unit :=
    match ps with
    | [] => ret tt
    | p :: r => doM _ <- exec (ORemove p) CGarbage ;; remove_best_effort r
    end.

  (** ---------------- cmd/zoekt-merge-index: merge *)
  Inductive opened := Opened | OpenFailed | MapFailed.

  (** the loop over names: os.Open, then index.NewIndexFile (mmap: fails on a directory) *)
  Fixpoint open_all (names : list zname) : M opened :=
    match names with
    | [] => ret Opened
    | z :: rest =>
        doM ok <- exec (OOpen (PZ z)) CGarbage ;;
        if negb ok then ret OpenFailed else
        doM s <- get_fs ;;
        match s (PZ z) with
        | Some Dir => ret MapFailed
        | _ => open_all rest
        end
    end.

  (** NewSearcher on every input; a shard without repositories is ErrEmptyShard *)
  Fixpoint parse_all (s : fs) (names : list zname) : option (list (list rmeta)) :=
    match names with
    | [] => Some []
    | z :: rest =>
        match eff s z with
        | Some (r :: rs) => option_map (cons (r :: rs)) (parse_all s rest)
        | _ => None
        end
    end.

  Definition shard_prio (rs : list rmeta) : N := match rs with r :: _ => rm_prio r | [] => 0%N end.
  (** sort.Slice by descending priority of the first repo (stable insertion; the harness uses distinct priorities) *)
  Fixpoint ins_prio (x : list rmeta) (l : list (list rmeta)) : list (list rmeta) :=
    match l with
    | [] => [x]
    | y :: r => if (shard_prio y <? shard_prio x)%N then x :: l else y :: ins_prio x r
    end.
  Definition sort_prio (l : list (list rmeta)) : list (list rmeta) := fold_right ins_prio [] l.

  Definition merged_repos (shards : list (list rmeta)) : list rmeta := flat_map alive (sort_prio shards).
  Definition merge_dst_of (shards : list (list rmeta)) : zname := ZCompound (map rm_id (merged_repos shards)).
  (** the destination name as a function of the initial state (None when an input does not parse) *)
  Definition merge_dst (s : fs) (names : list zname) : option zname :=
    option_map merge_dst_of (parse_all s names).

  Fixpoint delete_inputs (names : list zname) : M bool :=
    match names with
    | [] => ret true
    | z :: rest =>
        doM s <- get_fs ;;
        doM ok <- remove_all (index_file_paths s z) ;;
        if negb ok then ret false else delete_inputs rest
    end.

  (** result of [merge] when os.Open of an input fails.  main.go: `return "", err` (before the C35 fix: `return "", nil`) *)
  Definition merge_open_failed : res := RErr.

  Definition merge_prog_gen (fixed : bool) (names : list zname) : M res :=
    doM o <- open_all names ;;
    match o with
    | OpenFailed => ret merge_open_failed
    | MapFailed => ret RErr
    | Opened =>
        doM s <- get_fs ;;
        match parse_all s names with
        | None => ret RErr
        | Some [] => ret RErr                       (* "need 1 or more indexData to merge" *)
        | Some shards =>
            let dst := merge_dst_of shards in
            doM ok <- builder_write_all dst (CShard (merged_repos shards)) ;;
            if negb ok then ret RErr else
            doM ok <- delete_inputs names ;;
            if negb ok then ret RErr else
            (* "stale .meta" repair: os.Remove(dstName + ".meta"), IsNotExist ignored *)
            doM ok <- (if fixed then exec_remove_stale (PMeta dst) else ret true) ;;
            if negb ok then ret RErr else
            doM ok <- exec (ORename (PTmp dst) (PZ dst)) CGarbage ;;
            if negb ok then ret RErr else ret (ROk (Some dst))
        end
    end.

  Definition merge_prog := merge_prog_gen true.
  Definition merge_prog_before_fix := merge_prog_gen false.

  (** ---------------- index.Explode *)
  (** explode's loop: one builderWriteAll per live repo; returns the tmp names registered so far
      (the failing one included, as in `shardNames[shardNameTmp] = shardName` before the write) *)
  Fixpoint write_simple (rs : list rmeta) (acc : list zname) : M (bool * list zname) :=
    match rs with
    | [] => ret (true, acc)
    | r :: rest =>
        let z := ZSimple (rm_id r) in
        let acc' := if in_dec zname_eq_dec z acc then acc else acc ++ [z] in
        doM ok <- builder_write_all z (CShard [r]) ;;
        if negb ok then ret (false, acc') else write_simple rest acc'
    end.

  (** the loop `for _, dstFn := range exploded { os.Remove(dstFn + ".meta") ... return err }` *)
  Fixpoint remove_stale_all (zs : list zname) : M bool :=
    match zs with
    | [] => ret true
    | z :: r => doM ok <- exec_remove_stale (PMeta z) ;; if negb ok then ret false else remove_stale_all r
    end.

  Fixpoint rename_best_effort (zs : list zname) : M bool :=
    match zs with
    | [] => ret true
    | z :: r =>
        doM ok <- exec (ORename (PTmp z) (PZ z)) CGarbage ;;
        doM ok' <- rename_best_effort r ;;
        ret (ok && ok')
    end.

  (** result of Explode when some rename failed.  merge.go: `return renameErr` (before the C35 fix: only logged, `return nil`) *)
  Definition explode_rename_failed : res := RErr.

  Definition explode_prog_gen (fixed : bool) (c : zname) : M res :=
    doM ok <- exec (OOpen (PZ c)) CGarbage ;;
    if negb ok then ret RErr else
    doM s <- get_fs ;;
    match s (PZ c) with
    | Some Dir => ret RErr
    | _ =>
      match eff s c with
      | None => ret RErr
      | Some rs =>
          (* Some [] is ErrEmptyShard: nothing to write, the input is removed *)
          doM wr <- write_simple (alive rs) [] ;;
          let '(ok, tmps) := wr in
          if negb ok then (doM _ <- remove_best_effort (map PTmp (shuf_cleanup tmps)) ;; ret RErr) else
          doM s1 <- get_fs ;;
          doM ok <- remove_all (index_file_paths s1 c) ;;
          if negb ok then (doM _ <- remove_best_effort (map PTmp (shuf_cleanup tmps)) ;; ret RErr) else
          (* "stale .meta" repair *)
          doM ok <- (if fixed then remove_stale_all (shuf_stale tmps) else ret true) ;;
          if negb ok then (doM _ <- remove_best_effort (map PTmp (shuf_cleanup tmps)) ;; ret RErr) else
          doM ok <- rename_best_effort (shuf_rename tmps) ;;
          doM _ <- remove_best_effort (map PTmp (shuf_cleanup tmps)) ;;
          ret (if ok then ROk None else explode_rename_failed)
      end
    end.

  Definition explode_prog := explode_prog_gen true.
  Definition explode_prog_before_fix := explode_prog_gen false.

  Definition init_world (s : fs) : world := {| w_fs := s; w_log := [] |}.
  Definition run_merge (s : fs) (names : list zname) : res * world := merge_prog names (init_world s).
  Definition run_explode (s : fs) (c : zname) : res * world := explode_prog c (init_world s).
  Definition run_merge_before_fix (s : fs) (names : list zname) : res * world := merge_prog_before_fix names (init_world s).
  Definition run_explode_before_fix (s : fs) (c : zname) : res * world := explode_prog_before_fix c (init_world s).

  (** every state a crash can leave behind: the state before each operation, and the final one *)
  Definition crash_states (w : world) : list fs := w_fs w :: map snd (w_log w).
End Driver.

(** ======================= correspondence runner ======================= *)

Definition mkfs (l : list (path * node)) : fs :=
  fun p => match find (fun e => if path_eq_dec (fst e) p then true else false) l with
           | Some e => Some (snd e) | None => None end.

Definition plan_of (faults : list (op * nat)) : op -> nat -> bool :=
  fun o k => existsb (fun f => (if op_eq_dec (fst f) o then true else false) && Nat.eqb (snd f) k) faults.

(** observed order first, the rest in program order *)
Definition shuf_by (obs : list zname) : shuffle :=
  fun l => filter (fun z => if in_dec zname_eq_dec z l then true else false) obs ++
           filter (fun z => if in_dec zname_eq_dec z obs then false else true) l.

(** state before the k-th execution of [o] (log is newest first) *)
Fixpoint state_before (o : op) (k : nat) (log_oldest_first : list (op * bool * fs)) : option fs :=
  match log_oldest_first with
  | [] => None
  | (o', _, s) :: r =>
      if op_eq_dec o' o then match k with 0 => Some s | S k' => state_before o k' r end
      else state_before o k r
  end.

Definition node_kind (s : fs) (p : path) : N :=
  match s p with None => 0 | Some (File _) => 1 | Some Dir => 2 end%N.
Definition rmeta_eqb (a b : rmeta) : bool :=
  N.eqb (rm_id a) (rm_id b) && N.eqb (rm_prio a) (rm_prio b) && Bool.eqb (rm_tomb a) (rm_tomb b).
Definition oeff_eqb (a b : option (list rmeta)) : bool :=
  match a, b with
  | None, None => true
  | Some x, Some y => list_eqb rmeta_eqb x y
  | _, _ => false
  end.

(** observation of one *.zoekt name: kind of the shard path, kind of the sidecar path, effective metadata
    as read by index.ReadMetadataPath (None = does not load) *)
Definition obs := (zname * N * N * option (list rmeta))%type.
Definition obs_ok (s : fs) (o : obs) : bool :=
  let '(z, k1, k2, e) := o in
  N.eqb (node_kind s (PZ z)) k1 && N.eqb (node_kind s (PMeta z)) k2 &&
  (* a shard whose repo list is empty does not load (ErrEmptyShard) *)
  oeff_eqb (match eff s z with Some [] => None | x => x end) e.

(** result codes: 0 = nil error & empty path, 1 = nil error & path, 2 = error, 3 = killed (result not observed) *)
Definition res_ok (r : res) (code : N) (dst : option zname) : bool :=
  match r, code with
  | ROk None, 0%N => true
  | ROk (Some z), 1%N => match dst with Some z' => if zname_eq_dec z z' then true else false | None => false end
  | RErr, 2%N => true
  | _, _ => false
  end.

(** case = (mode (0 merge | 1 explode), initial files, names, faults, kill point, observed map order of the
            rename loop, observed map order of the stale-sidecar loop, result code, returned path,
            observations of the final / killed state) *)
Definition c35case :=
  (N * list (path * node) * list zname * list (op * nat) * option (op * nat) * list zname * list zname *
   N * option zname * list obs)%type.

Definition c35_ok (c : c35case) : bool :=
  let '(mode, init, names, faults, kill, order, order_stale, code, dst, observations) := c in
  let s0 := mkfs init in
  let '(r, w) :=
    match mode with
    | 0%N => run_merge (plan_of faults) s0 names
    | _ => run_explode (plan_of faults) (shuf_by order) (shuf_by order) (shuf_by order_stale) s0 (hd (ZOther 0) names)
    end in
  match kill with
  | None => res_ok r code dst && forallb (obs_ok (w_fs w)) observations
  | Some (o, k) =>
      match state_before o k (rev (w_log w)) with
      | Some s => forallb (obs_ok s) observations
      | None => false
      end
  end.
Definition c35_mismatches (cs : list c35case) : list N := bad_indexes c35_ok cs.
