(** C09 — correspondence runner: compares the model (Model/Format.v, Model/Btree.v) with what the harness
    (harness/overlay/index/zz_verif_c09_test.go) observed on the implementation. *)
From ZV Require Import Lib.Base Lib.Varint Generated.FormatConsts Model.Format Model.Btree Model.DocCheck Model.FormatMeta.
Open Scope N_scope.

Record doc_out := mkDocOut {
  do_name : list N; do_content : list N; do_mask : N; do_secs : list (N * N); do_newlines : list N;
  do_subrepo : N; do_repo : N }.

Record obs := mkObs {
  ob_docs : list doc_out;
  ob_fileEndSymbol : list N;
  ob_runeDocSections : list (N * N);
  ob_fileEndRunes : list N; ob_nameEndRunes : list N;
  ob_runeOffsets : list (N * N); ob_nameRuneOffsets : list (N * N);
  ob_ngrams : list (N * (N * N)); ob_namengrams : list (N * (N * N));   (* probe ngram -> btreeIndex.Get *)
  ob_syms : list (list N * list N * list N) }.

Inductive c09case :=
| CShard (next : bool) (repos : list (list (list N) * list doc_in)) (o : opaque) (file : list N) (ob : obs)
         (plain : bool)      (* IndexMetadata.PlainASCII as the reader parsed it from the JSON metadata *)
| CBtree (bucket v : nat) (keys probes : list N) (outs : list (N * N)) (last : Z)
| CCodec (kind : N) (xs enc dec : list N)
| CSeq (sizeMax max : N) (docs : list (list N * bool)) (verdicts : list N).

Definition pair_eqb (a b : N * N) : bool := (fst a =? fst b) && (snd a =? snd b).
Definition pairs_eqb := list_eqb pair_eqb.
Definition triple_eqb (a b : list N * list N * list N) : bool :=
  bytes_eqb (fst (fst a)) (fst (fst b)) && bytes_eqb (snd (fst a)) (snd (fst b)) && bytes_eqb (snd a) (snd b).

Definition doc_out_eqb (a b : doc_out) : bool :=
  bytes_eqb (do_name a) (do_name b) && bytes_eqb (do_content a) (do_content b) && (do_mask a =? do_mask b)
  && pairs_eqb (do_secs a) (do_secs b) && bytes_eqb (do_newlines a) (do_newlines b)
  && (do_subrepo a =? do_subrepo b) && (do_repo a =? do_repo b).

Fixpoint seqN (start : N) (len : nat) : list N :=
  match len with O => [] | S k => start :: seqN (start + 1) k end.

Fixpoint omap {A B} (f : A -> outcome B) (l : list A) : outcome (list B) :=
  match l with
  | [] => Ok []
  | x :: r => do y <- f x; do ys <- omap f r; Ok (y :: ys)
  end.

(** the reader's view of document i — what Search(Whole)/List/merge read *)
Definition doc_view (d : idata) (i : N) : outcome doc_out :=
  do name <- file_name d i;
  do content <- read_contents d i;
  do mask <- nth_chk (i_masks d) i;
  do secs <- read_doc_sections d i;
  do nls <- read_newlines d i;
  do sr <- nth_chk (i_subRepos d) i;
  do rp <- nth_chk (i_repos d) i;
  Ok (mkDocOut name content mask secs nls sr rp).

Definition sym_views (d : idata) : outcome (list (list N * list N * list N)) :=
  omap (fun i => do s <- sym_data d i; match s with Some x => Ok x | None => Panic P_INDEX end)
       (seqN 0 (N.to_nat (nlen (i_symMeta d) / 16))).

Definition gets (f : ifile) (bsz v : nat) (sec pidx : N * N) (probes : list (N * (N * N))) : outcome (list (N * (N * N))) :=
  do text <- blob_of f sec;
  let bt := new_btree_index bsz v text sec pidx in
  Ok (map (fun p => (fst p, btree_get f bt (fst p))) probes).

Definition ngp_eqb (a b : N * (N * N)) : bool := (fst a =? fst b) && pair_eqb (snd a) (snd b).

(** model reader on the implementation's bytes == implementation's view *)
Definition check_read (f : ifile) (d : idata) (ob : obs) : bool :=
    match omap (doc_view d) (seqN 0 (length (i_masks d))), sym_views d,
          gets f btreeBucketSize btreeV (i_ngramSec d) (i_postingIndex d) (ob_ngrams ob),
          gets f btreeBucketSize btreeV (i_nameNgramSec d) (i_namePostingIndex d) (ob_namengrams ob) with
    | Ok docs, Ok syms, Ok g1, Ok g2 =>
      list_eqb doc_out_eqb docs (ob_docs ob)
      && bytes_eqb (i_fileEndSymbol d) (ob_fileEndSymbol ob)
      && pairs_eqb (i_runeDocSections d) (ob_runeDocSections ob)
      && bytes_eqb (i_fileEndRunes d) (ob_fileEndRunes ob)
      && bytes_eqb (i_nameEndRunes d) (ob_nameEndRunes ob)
      && pairs_eqb (i_runeOffsets d) (ob_runeOffsets ob)
      && pairs_eqb (i_nameRuneOffsets d) (ob_nameRuneOffsets ob)
      && list_eqb ngp_eqb g1 (ob_ngrams ob)
      && list_eqb ngp_eqb g2 (ob_namengrams ob)
      && list_eqb triple_eqb syms (ob_syms ob)
    | _, _, _, _ => false
    end.

(** every posting list that Get finds decodes to the offsets the builder recorded (model-internal read-back) *)
Definition check_postings (f : ifile) (ps : pstate) (sec pidx : N * N) : bool :=
  match blob_of f sec with
  | Ok text =>
    let bt := new_btree_index btreeBucketSize btreeV text sec pidx in
    forallb (fun p =>
      let s := btree_get f bt (fst p) in
      match file_read f (fst s) (snd s) with
      | Ok blob => match deltas_dec (length blob) W32 blob 0 with
                   | Ok offs => bytes_eqb offs (rev (snd p))
                   | _ => false
                   end
      | _ => false
      end) (ps_post ps)
  | _ => false
  end.

Definition check_case (c : c09case) : bool :=
  match c with
  | CShard next repos o file ob plain =>
    let b := add_repos repos 0 b_empty in
    let f := mem_file file in
    bytes_eqb (write_shard next b o) file
    && Bool.eqb plain (meta_plain_ascii b)
    && match load_shard f next with
       | Ok d => check_read f d ob
                 && check_postings f (b_cp b) (i_ngramSec d) (i_postingIndex d)
                 && check_postings f (b_np b) (i_nameNgramSec d) (i_namePostingIndex d)
       | _ => false
       end
  | CBtree bucket v keys probes outs last =>
    let t := bt_build bucket v keys in
    pairs_eqb (map (fun p => let '(a, b) := find t p in (N.of_nat a, N.of_nat b)) probes) outs
    && (last_bucket_index t =? last)%Z
  | CCodec kind xs enc dec =>
    if kind =? 0 then bytes_eqb (to_sized_deltas xs) enc
                      && match from_sized_deltas enc with Ok l => bytes_eqb l dec | _ => false end
    else if kind =? 1 then bytes_eqb (to_sized_deltas16 xs) enc
                      && match from_sized_deltas16 enc with Ok l => bytes_eqb l dec | _ => false end
    else bytes_eqb (marshal_doc_sections (pair_up xs)) enc
         && match unmarshal_doc_sections enc with Ok l => bytes_eqb (flatten_secs l) dec | _ => false end
  | CSeq sizeMax max docs verdicts => bytes_eqb (check_seq [] sizeMax max docs) verdicts
  end.

Definition c09_mismatches (cs : list c09case) : list N := bad_indexes check_case cs.
