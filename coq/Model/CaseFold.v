(** Case mapping / case folding of the Go toolchain, as functions over the generated table
    Generated/UnicodeTables.v (rows (r, unicode.ToLower r, unicode.SimpleFold r) for every rune where one
    of the two differs from r; identity elsewhere).  Used by C08 (model of the substring path vs the
    regexp path) and as the [orbit] argument of Model/Regex.v in C27/C28 runs. *)
From Coq Require Import List NArith Bool.
From ZV Require Import Generated.UnicodeTables.
Import ListNotations.
Open Scope N_scope.

Fixpoint utab_find (l : list (N * N * N)) (c : N) : option (N * N) :=
  match l with
  | [] => None
  | (r, lo, sf) :: l' => if r =? c then Some (lo, sf) else utab_find l' c
  end.

(** unicode.ToLower *)
Definition tolower (c : N) : N := match utab_find utab c with Some (lo, _) => lo | None => c end.
(** unicode.SimpleFold *)
Definition fold_next (c : N) : N := match utab_find utab c with Some (_, sf) => sf | None => c end.

(** the other members of the SimpleFold cycle through [c] (cycles have at most 4 members:
    checked by [fold_cycles_closed] in Proofs/CaseFold.v) *)
Definition orbit (c : N) : list N :=
  let a := fold_next c in
  if a =? c then [] else
  let b := fold_next a in
  if b =? c then [a] else
  let d := fold_next b in
  if d =? c then [a; b] else
  let e := fold_next d in
  if e =? c then [a; b; d] else [a; b; d; e].

Definition in_orbitb (c c' : N) : bool := (c =? c') || existsb (N.eqb c') (orbit c).

Definition utab_runes : list N := map (fun x => fst (fst x)) utab.
