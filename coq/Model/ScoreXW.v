(** The binary64 special values at the two places where the scorer USES a boost weight, made explicit, so that
    Model/Score.v's treatment of NaN and -Inf weights ("effective weight 0") is a theorem (Proofs/ScoreXW.v) and not
    a modelling decision.

      index/eval.go   setScoreWeight:  if scoreWeight > maxBoostWeight { scoreWeight = maxBoostWeight }
      index/score.go  scoreLine:       if !epsilonEqualsOne(w) { score = score * w };  if score > bestScore.score { ... }
      index/score.go  boostScore:      if m.scoreWeight > maxScoreWeight { maxScoreWeight = m.scoreWeight }   (from 1.0)

    A score before the weight is a finite rational; the weight after the cap is a rational <= the cap, NaN or -Inf. *)
From Coq Require Import QArith Qabs.
From ZV Require Import Lib.Base Generated.ScoreConsts Model.Score.
Open Scope Q_scope.

(** the cap, on binary64 values: `w > max` is false for NaN and -Inf *)
Definition cap_weight (w : xweight) : xweight :=
  match w with
  | XPosInf => XFin c_maxBoostWeight
  | XFin q => if Qltb c_maxBoostWeight q then XFin c_maxBoostWeight else XFin q
  | XNaN => XNaN
  | XNegInf => XNegInf
  end.

(** value of `score * w` for a finite score: IEEE 754 multiplication restricted to what can occur *)
Inductive xval := VNaN | VPosInf | VNegInf | VFin (q : Q).
Definition xmul (s : Q) (w : xweight) : xval :=
  match w with
  | XNaN => VNaN
  | XFin q => VFin (s * q)
  | XPosInf => if Qeq_bool s 0 then VNaN else if Qltb 0 s then VPosInf else VNegInf
  | XNegInf => if Qeq_bool s 0 then VNaN else if Qltb 0 s then VNegInf else VPosInf
  end.

(** `v > best` for a finite best: false for NaN *)
Definition xgt (v : xval) (best : Q) : bool :=
  match v with
  | VNaN | VNegInf => false
  | VPosInf => true
  | VFin q => Qltb best q
  end.

(** epsilonEqualsOne: `w == 1 || math.Abs(w-1) < 1e-9`, false for NaN and +-Inf *)
Definition x_eps_one (w : xweight) : bool :=
  match w with
  | XFin q => eps_one q
  | _ => false
  end.

(** scoreLine's use of a candidate: does it replace the running best, and with which (finite) score *)
Definition x_candidate_wins (s : Q) (w : xweight) (best : Q) : bool :=
  let w' := cap_weight w in
  if x_eps_one w' then Qltb best s else xgt (xmul s w') best.

(** boostScore's running maximum (starts at 1): does the weight replace it *)
Definition x_weight_raises_max (w : xweight) (m : Q) : bool :=
  match cap_weight w with
  | XFin q => Qltb m q
  | XPosInf => true
  | _ => false
  end.
