(** C19 — the correspondence runner over BOTH models: the watcher/loader/store cases of Model/Watcher.v ([XW]) and the
    ownership cases of Model/ResultOwn.v ([XOwn], harness/overlay/search/zz_verif_c19own_test.go).

    XOwn type_bytes type_strings raw after srch strm:
      type_bytes / type_strings = the []byte / string components of the COMPILED type zoekt.SearchResult (reflection);
      raw   = the fields that were views of shard memory in the result of the raw index searchers,
      after = the same after the real copyFiles ran on that result,
      srch / strm = the fields of the result of shardedSearcher.Search / StreamSearch that changed when the shard
                    memory was overwritten or unmapped after the search.
    The model: the translator's type table has exactly the fields reflection finds; only []byte fields are views; what
    stays a view is the raw set minus the fields copyFiles' (generated) program copies. *)
From Coq Require Import String.
From ZV Require Import Lib.Base Model.Watcher Model.ResultOwn Generated.ResultFields.

Inductive c19xcase :=
| XW (c : c19case)
| XOwn (type_bytes type_strings raw after srch strm : list string).

Definition own_ok (type_bytes type_strings raw after srch strm : list string) : bool :=
  let copied := copied_paths copy_root copy_prog in
  let expect := filter (fun p => negb (mem_path p copied)) raw in
  same_set_p type_bytes (bytes_paths result_ty) &&
  same_set_p type_strings (string_paths result_ty) &&
  subset_p raw (bytes_paths result_ty) &&
  same_set_p after expect && same_set_p srch expect && same_set_p strm expect.

Definition c19x_ok (c : c19xcase) : bool :=
  match c with
  | XW c => c19_ok c
  | XOwn tb ts raw after srch strm => own_ok tb ts raw after srch strm
  end.
Definition c19x_mismatches (cs : list c19xcase) : list N := bad_indexes c19x_ok cs.
