(** Model of index/tombstones.go (SetTombstone / UnsetTombstone -> setTombstone,
    JsonMarshalRepoMetaTemp), of the sidecar precedence in index/read.go:parseMetadata and of the
    hiding of tombstoned repositories / file paths in index/eval.go (indexData.Search,
    indexData.List, simplifyMultiRepo + the constant folding of query.Simplify that List's
    "is it a constant?" test depends on).

    Abstractions (trusted, exercised by the correspondence): a repository's metadata is
    (id, name, tombstone flag, file-tombstone set, opaque digest of everything else); JSON
    marshal/unmarshal of the sidecar is the identity on that projection; a document is (index of
    its repository, file name, set of words); a query is a boolean combination of arbitrary
    predicates on the repository name and on the document.  Tenant filtering, ranking, limits are
    out of scope here (C23, C29, C21). *)
From ZV Require Import Lib.Base.

Record repo := mkRepo { r_id : N; r_name : N; r_tomb : bool; r_ftombs : list N; r_meta : list (N * N); r_other : N }.
(** what a repository-level query atom may look at (Repo/RepoRegexp/RepoSet: the name, RepoIDs: the id,
    Meta: the Metadata map as (field, value) pairs) — by construction NOT the tombstone flag nor the
    file tombstones *)
Record rkey := mkKey { k_id : N; k_name : N; k_meta : list (N * N) }.
Definition key_of (r : repo) : rkey := mkKey (r_id r) (r_name r) (r_meta r).
Record doc := mkDoc { d_repo : nat; d_file : N; d_words : list N }.
Record shard := mkShard { sh_repos : list repo; sh_docs : list doc }.

(** the two (three) files of one shard in the index directory:
    fs_shard = None: the shard file is missing / unreadable;
    fs_meta  = None: no sidecar ".meta" or an empty one (len(blob) == 0 falls back to the shard);
    fs_tmps  = number of "*.tmp" files left in the directory. *)
Record fs := mkFs { fs_shard : option shard; fs_meta : option (list repo); fs_tmps : nat }.

Inductive fault := NoFault | CreateTempFails | RenameFails.

Definition set_tomb (r : repo) (b : bool) : repo :=
  mkRepo (r_id r) (r_name r) b (r_ftombs r) (r_meta r) (r_other r).

(** parseMetadata: sidecar takes precedence over the embedded repoMetaData section *)
Definition effective (f : fs) : option (list repo) :=
  match fs_shard f with
  | None => None
  | Some sh => Some (match fs_meta f with Some m => m | None => sh_repos sh end)
  end.

Definition flip (id : N) (b : bool) (rs : list repo) : list repo :=
  map (fun r => if N.eqb (r_id r) id then set_tomb r b else r) rs.

(** setTombstone shardPath repoID tombstone.  Result: new file system and the returned error
    (Ok tt = nil).  Error codes: 1 = ReadMetadataPath failed, 2 = JsonMarshalRepoMetaTemp failed,
    3 = rename failed. *)
Definition set_tombstone (f : fs) (id : N) (b : bool) (ft : fault) : fs * outcome unit :=
  match effective f with
  | None => (f, Err 1)
  | Some rs =>
      let rs' := flip id b rs in
      match ft with
      | CreateTempFails => (f, Err 2)
      | RenameFails => (f, Err 3)      (* temp written, rename fails, temp removed, `return err` *)
      | NoFault => (mkFs (fs_shard f) (Some rs') (fs_tmps f), Ok tt)
      end
  end.

(** The function as it was before the repair `fix: setTombstone: return the rename error`
    (kept only to state what was wrong: Props/C17.v, C17_success_effective_before_fix_refuted). *)
Definition set_tombstone_before_fix (f : fs) (id : N) (b : bool) (ft : fault) : fs * outcome unit :=
  match effective f with
  | None => (f, Err 1)
  | Some rs =>
      match ft with
      | CreateTempFails => (f, Err 2)
      | RenameFails => (f, Ok tt)      (* temp written, rename fails, temp removed, `return nil` *)
      | NoFault => (mkFs (fs_shard f) (Some (flip id b rs)) (fs_tmps f), Ok tt)
      end
  end.

(** ---- loading and searching *)
Record view := mkView { v_repos : list repo; v_docs : list doc }.

Definition load (f : fs) : option view :=
  match fs_shard f, effective f with
  | Some sh, Some rs => Some (mkView rs (sh_docs sh))
  | _, _ => None
  end.

Inductive query :=
| QConst (b : bool)
| QRepo (p : rkey -> bool)       (* repository-level atom: Repo, RepoRegexp, RepoSet (name), RepoIDs (id), Meta (metadata) *)
| QDoc (p : doc -> bool)         (* predicate on the document: Substring, Regexp, ... *)
| QAnd (a b : query) | QOr (a b : query) | QNot (a : query).

Fixpoint eval (q : query) (r : repo) (d : doc) : bool :=
  match q with
  | QConst b => b
  | QRepo p => p (key_of r)
  | QDoc p => p d
  | QAnd a b => eval a r d && eval b r d
  | QOr a b => eval a r d || eval b r d
  | QNot a => negb (eval a r d)
  end.

Definition alive (rs : list repo) : list repo := filter (fun r => negb (r_tomb r)) rs.

(** simplifyMultiRepo *)
Definition simp_repo (rs : list repo) (p : rkey -> bool) : query :=
  let al := alive rs in
  let count := length (filter (fun r => p (key_of r)) al) in
  if count =? length al then QConst true
  else if 0 <? count then QRepo p else QConst false.

(** query.Simplify's evalConstants on binary And/Or/Not *)
Definition fold_and (a b : query) : query :=
  match a, b with
  | QConst false, _ => QConst false
  | _, QConst false => QConst false
  | QConst true, _ => b
  | _, QConst true => a
  | _, _ => QAnd a b
  end.
Definition fold_or (a b : query) : query :=
  match a, b with
  | QConst true, _ => QConst true
  | _, QConst true => QConst true
  | QConst false, _ => b
  | _, QConst false => a
  | _, _ => QOr a b
  end.
Definition fold_not (a : query) : query :=
  match a with QConst b => QConst (negb b) | _ => QNot a end.

(** indexData.simplify = query.Map (repo atoms -> simplifyMultiRepo) then query.Simplify *)
Fixpoint simplify (rs : list repo) (q : query) : query :=
  match q with
  | QConst b => QConst b
  | QRepo p => simp_repo rs p
  | QDoc p => QDoc p
  | QAnd a b => fold_and (simplify rs a) (simplify rs b)
  | QOr a b => fold_or (simplify rs a) (simplify rs b)
  | QNot a => fold_not (simplify rs a)
  end.

Definition memN (x : N) (l : list N) : bool := existsb (N.eqb x) l.

(** the skip tests of the document loop of indexData.Search *)
Definition visible (rs : list repo) (d : doc) : option repo :=
  match nth_error rs (d_repo d) with
  | None => None                                    (* index out of range: Go would panic; excluded by wf *)
  | Some r => if r_tomb r then None else if memN (d_file d) (r_ftombs r) then None else Some r
  end.

(** result = the matching documents (positions in the shard), in document order *)
Fixpoint search_from (rs : list repo) (q : query) (ds : list doc) (i : N) : list (N * repo * doc) :=
  match ds with
  | [] => []
  | d :: t =>
      match visible rs d with
      | Some r => if eval q r d then (i, r, d) :: search_from rs q t (N.succ i) else search_from rs q t (N.succ i)
      | None => search_from rs q t (N.succ i)
      end
  end.

Definition search (v : view) (q : query) : list (N * repo * doc) :=
  match simplify (v_repos v) q with
  | QConst false => []
  | q' => search_from (v_repos v) q' (v_docs v) 0
  end.

(** the document loop under SearchOptions.ShardRepoMaxMatchCount = [lim] (index/eval.go, skip loop): guard order
    repository tombstone, file tombstone ([visible]; the tenant guard between them is C23's subject, Model/TenantLoop.v),
    then "skip documents over ShardRepoMaxMatchCount": [lim > 0 && repoMatchCount >= lim && repoID == lastRepoID];
    an accepted document of another repository than [last] resets the count; a file match adds its number of
    line / chunk matches [wt i] (an input: any function).  [last]/[rmc] = lastRepoID / repoMatchCount. *)
Fixpoint search_from_lim (rs : list repo) (q : query) (lim : N) (wt : N -> N) (ds : list doc) (i : N)
         (last : nat) (rmc : N) : list (N * repo * doc) :=
  match ds with
  | [] => []
  | d :: t =>
      match visible rs d with
      | None => search_from_lim rs q lim wt t (N.succ i) last rmc
      | Some r =>
          if (0 <? lim)%N && ((lim <=? rmc)%N && Nat.eqb (d_repo d) last)
          then search_from_lim rs q lim wt t (N.succ i) last rmc
          else
            let rmc0 := if Nat.eqb last (d_repo d) then rmc else 0%N in
            if eval q r d then (i, r, d) :: search_from_lim rs q lim wt t (N.succ i) (d_repo d) (rmc0 + wt i)%N
            else search_from_lim rs q lim wt t (N.succ i) (d_repo d) rmc0
      end
  end.

Definition search_lim (v : view) (q : query) (lim : N) (wt : N -> N) : list (N * repo * doc) :=
  match simplify (v_repos v) q with
  | QConst false => []
  | q' => search_from_lim (v_repos v) q' lim wt (v_docs v) 0 0%nat 0%N
  end.

(** indexData.List: constant true lists every alive repository, constant false none, otherwise the
    alive repositories whose NAME occurs among the search results *)
Definition list_repos (v : view) (q : query) : list repo :=
  match simplify (v_repos v) q with
  | QConst true => alive (v_repos v)
  | QConst false => []
  | q' => let found := map (fun x => r_name (snd (fst x))) (search_from (v_repos v) q' (v_docs v) 0) in
          filter (fun r => memN (r_name r) found) (alive (v_repos v))
  end.

(** well-formed shard directory: every document points to a repository, and the sidecar (if any)
    lists as many repositories as the shard *)
Definition wf (f : fs) : Prop :=
  match fs_shard f with
  | None => True
  | Some sh =>
      Forall (fun d => d_repo d < length (sh_repos sh)) (sh_docs sh) /\
      match fs_meta f with Some m => length m = length (sh_repos sh) | None => True end
  end.

(** ---- correspondence runner *)
Inductive cquery :=
| CConst (b : bool) | CRepoSet (names : list N) | CRepoIDs (ids : list N)
| CRepoRe (pre : N) (nums : list N)      (* query.Repo / query.RepoRegexp with the regexp ^repo-(?:a|b)$ etc., see [name_re] *)
| CMeta (field : N) (vals : list N)      (* query.Meta{Field, ^(?:v1|v2)$} *)
| CFile (n : N) | CWord (w : N)
| CAnd (a b : cquery) | COr (a b : cquery) | CNot (a : cquery).

(** repository names in the harness: "repo-<k>" is coded 2k, "renamed-<k>" 2k+1.  The regexps used are
    pre = 1: ^repo-, pre = 2: ^renamed-, otherwise "-"; followed by (?:n1|n2|..)$ when nums is non-empty *)
Definition name_re (pre : N) (nums : list N) (n : N) : bool :=
  match pre with 1%N => N.even n | 2%N => N.odd n | _ => true end &&
  match nums with [] => true | _ => memN (N.div n 2) nums end.

Fixpoint denote (c : cquery) : query :=
  match c with
  | CConst b => QConst b
  | CRepoSet ns => QRepo (fun k => memN (k_name k) ns)
  | CRepoIDs ids => QRepo (fun k => memN (k_id k) ids)
  | CRepoRe pre nums => QRepo (fun k => name_re pre nums (k_name k))
  | CMeta f vs => QRepo (fun k => existsb (fun fv => N.eqb (fst fv) f && memN (snd fv) vs) (k_meta k))
  | CFile n => QDoc (fun d => N.eqb (d_file d) n)
  | CWord w => QDoc (fun d => memN w (d_words d))
  | CAnd a b => QAnd (denote a) (denote b)
  | COr a b => QOr (denote a) (denote b)
  | CNot a => QNot (denote a)
  end.

Definition repoT := (N * N * bool * list N * list (N * N) * N)%type.
Definition docT := (N * N * list N)%type.
Definition mk_repo (t : repoT) : repo := let '(i, n, b, ft, m, o) := t in mkRepo i n b ft m o.
Definition mk_doc (t : docT) : doc := let '(r, f, w) := t in mkDoc (N.to_nat r) f w.

Definition repo_eqb (a b : repo) : bool :=
  N.eqb (r_id a) (r_id b) && N.eqb (r_name a) (r_name b) && Bool.eqb (r_tomb a) (r_tomb b)
  && list_eqb N.eqb (r_ftombs a) (r_ftombs b)
  && list_eqb (fun x y => N.eqb (fst x) (fst y) && N.eqb (snd x) (snd y)) (r_meta a) (r_meta b)
  && N.eqb (r_other a) (r_other b).

(** observation after an operation: error?, reloaded metadata (None = unreadable), tmp files left,
    and for some queries the positions of the documents found and the ids of the repositories listed *)
Definition qobs := (cquery * list N * list N * (N * list (N * N) * list N))%type.
(** ... * (ShardRepoMaxMatchCount, [(position, #matches of its file match in the unlimited search)], positions found by
    the limited search IN RESULT ORDER) *)
Fixpoint wt_of (l : list (N * N)) (i : N) : N :=
  match l with [] => 1%N | (k, v) :: t => if N.eqb k i then v else wt_of t i end.
Definition opT := (N * bool * N * (bool * option (list repoT) * N * list qobs))%type.
Definition c17case := (option (list repoT * list docT) * option (list repoT) * list qobs * list opT)%type.

Definition fault_of (n : N) : fault :=
  match n with 0%N => NoFault | 1%N => CreateTempFails | _ => RenameFails end.

Definition qobs_ok (f : fs) (o : qobs) : bool :=
  let '(c, found, listed, (lim, wts, found_lim)) := o in
  match load f with
  | None => false
  | Some v =>
      list_eqb N.eqb (map (fun x => fst (fst x)) (search v (denote c))) found &&
      list_eqb N.eqb (map r_id (list_repos v (denote c))) listed &&
      list_eqb N.eqb (map (fun x => fst (fst x)) (search_lim v (denote c) lim (wt_of wts))) found_lim
  end.

Definition obs_ok (f : fs) (err : bool) (reload : option (list repoT)) (tmps : N) (qs : list qobs) : bool :=
  match effective f, reload with
  | None, None => true
  | Some rs, Some rs' => list_eqb repo_eqb rs (map mk_repo rs')
  | _, _ => false
  end && N.eqb (N.of_nat (fs_tmps f)) tmps && forallb (qobs_ok f) qs.

Fixpoint run_ops (f : fs) (ops : list opT) : bool :=
  match ops with
  | [] => true
  | (id, b, ft, (err, reload, tmps, qs)) :: t =>
      let '(f', res) := set_tombstone f id b (fault_of ft) in
      Bool.eqb (negb (is_ok res)) err && obs_ok f' err reload tmps qs && run_ops f' t
  end.

Definition c17_ok (c : c17case) : bool :=
  let '(sh, meta, qs0, ops) := c in
  let f := mkFs (option_map (fun p => mkShard (map mk_repo (fst p)) (map mk_doc (snd p))) sh)
                (option_map (map mk_repo) meta) 0 in
  forallb (qobs_ok f) qs0 && run_ops f ops.
Definition c17_mismatches (cs : list c17case) : list N := bad_indexes c17_ok cs.
