(** Model of internal/json/json.go: the control flow of jsonSearch and jsonList between the JSON decoder
    (encoding/json, trusted: it yields an error or a value of the args struct) and the searcher.
    Pointer fields that the handlers dereference are options; a dereference is only ever made under the
    guard that the Go code has ([Opts == nil] -> default, [RepoIDs != nil] -> conjunction), so the places
    where the handler itself could panic are the calls to Parse and to the searcher.  No proofs here. *)
From ZV Require Import Lib.Base Model.Query.
Open Scope N_scope.

Record search_args := { sa_q : str; sa_repoids : option (list N); sa_has_opts : bool; sa_maxdocs : N; sa_shardmax : N }.
Record list_args := { la_q : str }.

Section Handlers.
  Variable parseq : str -> outcome Q.                 (* query.Parse *)
  Variable search : Q -> bool -> outcome N.           (* Searcher.Search (estimate?) : ShardFilesConsidered / error *)
  Variable listq : Q -> outcome unit.                 (* Searcher.List *)

  (** CalculateDefaultSearchLimits: a pre-flight Search when MaxDocDisplayCount is set and ShardMaxMatchCount is not *)
  Definition default_limits (q : Q) (maxdocs shardmax : N) : outcome unit :=
    if (maxdocs =? 0) || negb (shardmax =? 0) then Ok tt
    else do numdocs <- search q true;
         (* numdocs > 10000: (5*max)/(numdocs/1000) - the divisor is >= 10, no division by zero *)
         if 10000 <? numdocs then (if numdocs / 1000 =? 0 then Panic 20 else Ok tt) else Ok tt.

  (** HTTP status of jsonSearch; [dec] = None when the body does not decode *)
  Definition json_search (is_post : bool) (dec : option search_args) : outcome N :=
    if negb is_post then Ok 405 else
    match dec with
    | None => Ok 400
    | Some a =>
        if is_nil (sa_q a) then Ok 400 else
        let maxdocs := if sa_has_opts a then sa_maxdocs a else 0 in      (* Opts == nil -> &SearchOptions{} *)
        let shardmax := if sa_has_opts a then sa_shardmax a else 0 in
        match parseq (sa_q a) with
        | Panic w => Panic w
        | Err _ => Ok 400
        | Ok q =>
            let q' := match sa_repoids a with Some ids => QAnd [q; QRepoIDs ids] | None => q end in
            match default_limits q' maxdocs shardmax with
            | Panic w => Panic w
            | Err _ => Ok 500
            | Ok _ => match search q' false with Panic w => Panic w | Err _ => Ok 500 | Ok _ => Ok 200 end
            end
        end
    end.

  Definition json_list (is_post : bool) (dec : option list_args) : outcome N :=
    if negb is_post then Ok 405 else
    match dec with
    | None => Ok 400
    | Some a =>
        match parseq (la_q a) with
        | Panic w => Panic w
        | Err _ => Ok 400
        | Ok q => match listq q with Panic w => Panic w | Err _ => Ok 500 | Ok _ => Ok 200 end
        end
    end.
End Handlers.

(** ---- correspondence runner: the engines are replaced by the classes the harness observed *)
(** case = (is list?, POST?, decoded?, Q empty?, has RepoIDs, has Opts, MaxDocDisplayCount, ShardMaxMatchCount,
            Parse class 0 ok / 1 error, searcher class 0 ok / 1 error, observed HTTP status) *)
Definition jcase := (bool * bool * bool * bool * bool * bool * N * N * N * N * N)%type.

Definition jcase_ok (c : jcase) : bool :=
  let '(is_list, post, decoded, qempty, hasids, hasopts, maxdocs, shardmax, pclass, sclass, status) := c in
  let parseq := fun _ : str => if pclass =? 0 then Ok (QConst true) else Err 1 in
  let search := fun (_ : Q) (_ : bool) => if sclass =? 0 then Ok 0 else Err 1 in
  let listq := fun _ : Q => if sclass =? 0 then Ok tt else Err 1 in
  let qv := if qempty then [] else [97] in
  let r := if is_list
           then json_list parseq listq post (if decoded then Some {| la_q := qv |} else None)
           else json_search parseq search post
                  (if decoded then Some {| sa_q := qv; sa_repoids := if hasids then Some [] else None;
                                           sa_has_opts := hasopts; sa_maxdocs := maxdocs; sa_shardmax := shardmax |}
                   else None) in
  match r with Ok s => N.eqb s status | _ => false end.

Definition json_mismatches (cs : list jcase) : list N := bad_indexes jcase_ok cs.
