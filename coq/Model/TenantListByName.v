(** C23 — a VARIANT of indexData.List that is not the code of /repo (it is the red team's seeded change, kept as a
    model because it explains why the per-repository check in List is needed): tenant.HasAccess is applied on the
    constant path only; for every other query the entries are filtered by the NAMES of the repositories that the
    (tenant-safe) Search found.  Everything else is [rlist] of Model/Tenant.v. *)
From ZV Require Import Lib.Base Model.Tenant.

Definition list_entries_by_name (strict : bool) (c : tctx) (s : shard) (lsimp : option bool) (inc : repo -> bool) : shard :=
  filter (fun rd => negb (r_tomb (fst rd)) &&
                    match lsimp with Some _ => has_access strict c (r_tenant (fst rd)) | None => true end &&
                    inc (fst rd)) s.

Definition rlist_by_name (strict : bool) (c : tctx) (s : shard) (lsimp : option bool) (scan : bool)
           (m : repo -> doc -> bool) (field : lfield) : lresult :=
  match lsimp with
  | Some false => empty_lresult
  | _ =>
      let es := list_entries_by_name strict c s lsimp (list_include strict c s lsimp scan m) in
      let in_repos (r : repo) := match field with FRepos => true | FReposMap => N.eqb (r_id r) 0 end in
      let repos := map (fun rd => r_name (fst rd)) (filter (fun rd => in_repos (fst rd)) es) in
      let rmap := fold_left (fun acc rd => if in_repos (fst rd) then acc else set_add (r_id (fst rd)) acc) es [] in
      {| lr_repos := repos; lr_map := rmap;
         lr_docs := fold_left (fun n rd => (n + N.of_nat (length (snd rd)))%N) es 0%N;
         lr_nrepos := N.of_nat (length repos + length rmap) |}
  end.
