(** L6 — a tiny file system for the index directory of ONE repository, as seen by the builder
    (index/builder.go) and by the loader (search/watcher.go DirectoryWatcher.scan + index/read.go
    parseMetadata).  Used by C12.

    Names.  The directory entries that matter are, per shard slot s (regular shard number n of the
    repository, or the compound shard the repository lives in):
      Shard s     <prefix>_v16.<n>.zoekt            / compound-<h>_v17.00000.zoekt
      Meta s      <shard>.meta                      (sidecar; takes precedence over the embedded repo metadata)
      TmpShard s  <shard>.<random>.tmp              (os.CreateTemp pattern of writeShard)
      TmpMeta s   <shard>.meta.<random>.tmp         (os.CreateTemp pattern of JsonMarshalRepoMetaTemp)
    The loader globs "*.zoekt" only, so TmpShard/TmpMeta are never looked at ([is_tmp]).

    Contents are abstract: Partial (created / partly written) or Data g with g = GOld (what the
    previous index holds in that slot) or GNew (what the running build produces for that slot).
    Content never moves between slots (renames are tmp -> final of the same slot), so the slot is
    not part of the content. *)
From ZV Require Import Lib.Base.

Inductive slot := SComp | SReg (n : nat).
Inductive name := Shard (s : slot) | Meta (s : slot) | TmpShard (s : slot) | TmpMeta (s : slot).
Inductive gen := GOld | GNew.
Inductive content := Partial | Data (g : gen).

Definition slot_eqb (a b : slot) : bool :=
  match a, b with
  | SComp, SComp => true
  | SReg x, SReg y => Nat.eqb x y
  | _, _ => false
  end.
Definition name_eqb (a b : name) : bool :=
  match a, b with
  | Shard x, Shard y | Meta x, Meta y | TmpShard x, TmpShard y | TmpMeta x, TmpMeta y => slot_eqb x y
  | _, _ => false
  end.
Definition gen_eqb (a b : gen) : bool := match a, b with GOld, GOld | GNew, GNew => true | _, _ => false end.
Definition content_eqb (a b : content) : bool :=
  match a, b with Partial, Partial => true | Data x, Data y => gen_eqb x y | _, _ => false end.

Definition is_tmp (x : name) : bool := match x with TmpShard _ | TmpMeta _ => true | _ => false end.
(** the temp name CreateTemp derives from a final name *)
Definition tmp_of (x : name) : name :=
  match x with Shard s => TmpShard s | Meta s => TmpMeta s | other => other end.

Definition fs := name -> option content.
Definition upd (f : fs) (x : name) (c : option content) : fs := fun y => if name_eqb y x then c else f y.

(** File-system mutations performed by the builder.  [OWrite t c]: the handle of the temp file t is written
    (Chmod / Write / Close are *os.File methods; the state of t becomes c). *)
Inductive op :=
| OMkdirAll
| OCreateTmp (t : name)
| OWrite (t : name) (c : content)
| ORename (a b : name)
| ORemove (a : name).
(** an executed operation with its result: true = Done, false = Failed (no effect) *)
Definition xop := (op * bool)%type.

Definition apply_op (f : fs) (o : xop) : fs :=
  match o with
  | (_, false) => f
  | (OMkdirAll, true) => f
  | (OCreateTmp t, true) => upd f t (Some Partial)
  | (OWrite t c, true) => match f t with Some _ => upd f t (Some c) | None => f end
  | (ORename a b, true) => match f a with Some c => upd (upd f a None) b (Some c) | None => f end
  | (ORemove a, true) => upd f a None
  end.
Definition apply_ops (l : list xop) (f : fs) : fs := fold_left apply_op l f.

(** operations that can only touch names the loader never looks at *)
Definition tmp_only (o : xop) : bool :=
  match fst o with
  | OMkdirAll => true
  | OCreateTmp t => is_tmp t
  | OWrite t _ => is_tmp t
  | ORename a b => is_tmp a && is_tmp b
  | ORemove a => is_tmp a
  end.

(** What a searcher that loads the directory sees for slot s: the shard file (if there is a "*.zoekt" for the slot)
    together with the sidecar that overrides its repository metadata.  A sidecar without shard is never read. *)
Definition view := slot -> option (content * option content).
Definition visible (f : fs) : view :=
  fun s => match f (Shard s) with None => None | Some c => Some (c, f (Meta s)) end.
Definition view_eq (v w : view) : Prop := forall s, v s = w s.

(** ---- executable helpers for the correspondence runner *)
Definition content_code (c : content) : N := match c with Partial => 0 | Data GOld => 1 | Data GNew => 2 end.
Definition ocontent_code (c : option content) : N := match c with None => 0 | Some Partial => 3 | Some (Data GOld) => 1 | Some (Data GNew) => 2 end.
(** slots present, as (slot number: 0 = compound, n+1 = regular n; shard code; sidecar code) *)
Definition view_row (f : fs) (code : N) (s : slot) : list (N * N * N) :=
  match visible f s with None => [] | Some (c, m) => [(code, content_code c, ocontent_code m)] end.
Definition view_codes (bound : nat) (f : fs) : list (N * N * N) :=
  view_row f 0 SComp ++ flat_map (fun n => view_row f (N.of_nat (S n)) (SReg n)) (seq 0 bound).

Definition op_eqb (a b : op) : bool :=
  match a, b with
  | OMkdirAll, OMkdirAll => true
  | OCreateTmp x, OCreateTmp y => name_eqb x y
  | OWrite x c, OWrite y d => name_eqb x y && content_eqb c d
  | ORename x1 x2, ORename y1 y2 => name_eqb x1 y1 && name_eqb x2 y2
  | ORemove x, ORemove y => name_eqb x y
  | _, _ => false
  end.
Definition xop_eqb (a b : xop) : bool := op_eqb (fst a) (fst b) && Bool.eqb (snd a) (snd b).
