(** Model of the search core of /repo/index (C01):
      eval.go        indexData.simplify, indexData.Search (document loop), regexpToMatchTreeRecursive
      matchtree.go   newMatchTree, newSubstringMatchTree, regexpToWordMatchTree, pruneMatchTree, all node kinds with
                     nextDoc / prepare / matches (cost staging), wordMatchTree, andLineMatchTree
      indexdata.go   iterateNgrams, findSelectiveNgrams, minFrequencyNgramOffsets
      matchiter.go   ngramDocIterator (nextDoc / prepare / candidates), candidateMatch.matchContent
      hititer.go     hit iterators, at the level of the sorted position lists they denote
    and of the reference evaluator [eval] ("check every atom by scanning the whole name / content").

    Level of the model.  Texts are lists of runes (code points, [N]): documents are valid UTF-8, and on valid UTF-8 the
    byte-level operations of the code (bytes.Index, bytes.Equal at a rune boundary, rune<->byte offset conversion) coincide
    with the rune-level ones used here; this is trusted and exercised by the correspondence with multi-byte runes.
    The regexp engine is external: [re_match rid text].  Unicode tables are external: [tolower], [orbit] (SimpleFold orbit).
    Posting lists are the sorted lists of global rune positions (their byte coding is C09).  The [known] cache of
    evalMatchTree is not represented: evaluation is pure and monotone in the cost (lemma run3_mono), so the cache is
    transparent.  The galloping search of nextFileIndex is modelled by a linear scan.  uint32 arithmetic is unbounded. *)
From ZV Require Import Lib.Base.

(* ------------------------------------------------------------------ corpus *)
Record repo := { r_name : list N; r_id : N; r_tomb : bool; r_ftombs : list (list N);
                 r_branches : list (list N); r_rawmask : N }.
Record doc := { d_name : list N; d_content : list N; d_mask : N; d_repo : nat; d_lang : N }.
Record corpus := { c_repos : list repo; c_docs : list doc; c_langs : list (list N * N) }.

Definition dflt_repo : repo := {| r_name := []; r_id := 0; r_tomb := true; r_ftombs := []; r_branches := []; r_rawmask := 0 |}.
Definition dflt_doc : doc := {| d_name := []; d_content := []; d_mask := 0; d_repo := 0; d_lang := 0 |}.
Definition repo_of (c : corpus) (d : doc) : repo := nth (d_repo d) (c_repos c) dflt_repo.
Definition doc_at (c : corpus) (k : nat) : doc := nth k (c_docs c) dflt_doc.

Definition runes_eqb := list_eqb N.eqb.
Fixpoint mem_runes (x : list N) (l : list (list N)) : bool :=
  match l with [] => false | y :: r => runes_eqb x y || mem_runes x r end.
Fixpoint memN (x : N) (l : list N) : bool := match l with [] => false | y :: r => N.eqb x y || memN x r end.
Fixpoint mem_nat (x : nat) (l : list nat) : bool := match l with [] => false | y :: r => Nat.eqb x y || mem_nat x r end.

(** live = not hidden by a repository tombstone or a file tombstone (eval.go:222-238) *)
Definition live (c : corpus) (d : doc) : bool :=
  let r := repo_of c d in negb (r_tomb r) && negb (mem_runes (d_name d) (r_ftombs r)).

(* ------------------------------------------------------------------ regexp syntax (regexp/syntax.Regexp, as far as
   regexpToMatchTreeRecursive and regexpToWordMatchTree look at it) *)
Inductive rx :=
| RLit (s : list N) (fold : bool)
| RCapture (r : rx)
| RPlus (r : rx)
| RRepeat (mn : nat) (r : rx)
| RConcat (rs : list rx)
| RAlt (rs : list rx)
| RStarAnyNotNL
| RWordB
| ROther.

(* ------------------------------------------------------------------ queries (query.Q) *)
Inductive Q :=
| QSubstr (p : list N) (cs fn ct : bool)
| QRegexp (rid : N) (r : rx) (topfold : bool) (cs fn ct : bool)
| QAnd (l : list Q)
| QOr (l : list Q)
| QNot (q : Q)
| QConst (b : bool)
| QBranch (p : list N) (exact : bool)
| QRepoTbl (want : list bool)            (* Repo, RepoRegexp, Meta: the regexp engine's verdict per repository *)
| QRepoSet (names : list (list N))
| QRepoIDs (ids : list N)
| QRawConfig (m : N)
| QBranchesRepos (l : list (list N * list N))
| QLang (name : list N)
| QFileNameSet (names : list (list N))
| QTypeFileName (q : Q)
| QBoost (q : Q).

(* ------------------------------------------------------------------ text primitives *)
Definition utf8_len (r : N) : nat :=
  if (r <? 128)%N then 1 else if (r <? 2048)%N then 2 else if (r <? 65536)%N then 3 else 4.
Definition byte_len (s : list N) : nat := fold_right (fun r a => utf8_len r + a) 0 s.

Fixpoint is_sub (p t : list N) : bool :=       (* exact substring *)
  prefixb p t || match t with [] => false | _ :: t' => is_sub p t' end.

Definition is_word_rune (c : N) : bool :=        (* bits.go characterClass; every byte of a multi-byte rune is >= 0x80 *)
  ((97 <=? c) && (c <=? 122) || (65 <=? c) && (c <=? 90) || (48 <=? c) && (c <=? 57) || (c =? 95))%N.

Definition count_nl (l : list N) : nat := length (filter (N.eqb 10) l).
Definition line_of (t : list N) (o : nat) : nat := count_nl (firstn o t).

Section Engine.
Variable re_match : N -> list N -> bool.   (* external regexp engine: compiled pattern id, text |-> has a match *)
Variable tolower : N -> N.                 (* unicode.ToLower *)
Variable orbit : N -> list N.              (* unicode.SimpleFold orbit of a rune (contains the rune) *)

(** candidateMatch.matchContent at rune level: the window of |p| runes at rune offset o equals p
    (case-sensitive) or equals it after lower-casing both sides (caseFoldingEqualsRunes with toLower(pattern)). *)
Definition occurs_at (cs : bool) (p t : list N) (o : nat) : bool :=
  let w := firstn (length p) (skipn o t) in
  (length w =? length p) &&
  (if cs then runes_eqb p w else runes_eqb (map tolower p) (map tolower w)).
Definition occ_offsets (cs : bool) (p t : list N) : list nat := filter (occurs_at cs p t) (seq 0 (S (length t))).
Definition contains (cs : bool) (p t : list N) : bool := existsb (occurs_at cs p t) (seq 0 (S (length t))).

(** reference semantics of the regexp \bLIT\b (Go: ASCII word boundary): an occurrence whose both ends are at a
    transition between a word and a non-word character (text boundaries count as non-word) *)
Definition rune_at (t : list N) (i : nat) : option N := nth_error t i.
Definition wordc (o : option N) : bool := match o with Some c => is_word_rune c | None => false end.
Definition boundary_at (t : list N) (i : nat) : bool :=
  negb (Bool.eqb (match i with 0 => false | S j => wordc (rune_at t j) end) (wordc (rune_at t i))).
Definition word_occurs_at (w t : list N) (o : nat) : bool :=
  occurs_at true w t o && boundary_at t o && boundary_at t (o + length w).
Definition word_ref (w t : list N) : bool := existsb (word_occurs_at w t) (seq 0 (S (length t))).

(** wordMatchTree.matches (matchtree.go:847): bytes.Index loop; after every occurrence, accepted or not, the scan
    resumes behind it (offset += idx + len(word)). fuel = |t| + 1. *)
Fixpoint index_from (w t : list N) (o : nat) (fuel : nat) : option nat :=
  match fuel with
  | 0 => None
  | S f => if occurs_at true w t o then Some o else if length t <=? o then None else index_from w t (S o) f
  end.
Fixpoint word_scan (w t : list N) (off : nat) (fuel : nat) : list nat :=
  match fuel with
  | 0 => []
  | S f =>
      match index_from w t off (S (length t)) with
      | None => []
      | Some s =>
          let e := s + length w in
          let sb := (s <? length t) && (match s with 0 => true | S j => negb (wordc (rune_at t j)) end) in
          let eb := (0 <? e) && ((e =? length t) || negb (wordc (rune_at t e))) in
          let rest := if length w =? 0 then [] else word_scan w t e f in   (* an empty word would loop forever in Go; unreachable (OpLiteral is never empty) *)
          if sb && eb then s :: rest else rest
      end
  end.
Definition word_found (w t : list N) : bool :=
  match word_scan w t 0 (S (length t)) with [] => false | _ => true end.

(* ------------------------------------------------------------------ reference evaluator (the oracle of C01) *)
Definition branch_bit (r : repo) (name : list N) : N :=     (* d.branchIDs[repo][name], 0 if absent *)
  (fix go (l : list (list N)) (i : N) : N :=
     match l with [] => 0%N | b :: rest => if runes_eqb b name then N.shiftl 1 i else go rest (N.succ i) end)
    (r_branches r) 0%N.
Definition branch_match_mask (r : repo) (p : list N) (exact : bool) : N :=
  (fix go (l : list (list N)) (i : N) : N :=
     match l with
     | [] => 0%N
     | b :: rest => N.lor (if (if exact then runes_eqb b p else is_sub p b) then N.shiftl 1 i else 0%N) (go rest (N.succ i))
     end) (r_branches r) 0%N.
Definition HEAD : list N := [72; 69; 65; 68]%N.
Definition lang_code (c : corpus) (name : list N) : option N :=
  (fix go (l : list (list N * N)) := match l with [] => None | (n, code) :: r => if runes_eqb n name then Some code else go r end) (c_langs c).

Definition text_sel (fn ct : bool) (f : list N -> bool) (d : doc) : bool :=
  if Bool.eqb fn ct then f (d_name d) || f (d_content d)
  else if fn then f (d_name d) else f (d_content d).

Fixpoint eval (c : corpus) (q : Q) (d : doc) : bool :=
  match q with
  | QSubstr p cs fn ct => text_sel fn ct (contains cs p) d
  | QRegexp rid _ _ _ fn ct => text_sel fn ct (re_match rid) d
  | QAnd l => forallb (fun q' => eval c q' d) l
  | QOr l => existsb (fun q' => eval c q' d) l
  | QNot q' => negb (eval c q' d)
  | QConst b => b
  | QBranch p exact =>
      if runes_eqb p HEAD then N.testbit (d_mask d) 0
      else negb (N.land (branch_match_mask (repo_of c d) p exact) (d_mask d) =? 0)%N
  | QRepoTbl want => nth (d_repo d) want false
  | QRepoSet names => mem_runes (r_name (repo_of c d)) names
  | QRepoIDs ids => memN (r_id (repo_of c d)) ids
  | QRawConfig m => (N.land m (r_rawmask (repo_of c d)) =? m)%N
  | QBranchesRepos l =>
      existsb (fun br => memN (r_id (repo_of c d)) (snd br) &&
                         negb (N.land (branch_bit (repo_of c d) (fst br)) (d_mask d) =? 0)%N) l
  | QLang name => match lang_code c name with Some code => (d_lang d =? code)%N | None => false end
  | QFileNameSet names => mem_runes (d_name d) names
  | QTypeFileName q' => eval c q' d
  | QBoost q' => eval c q' d
  end.

Definition all_ids (c : corpus) : list nat := seq 0 (length (c_docs c)).
(** THE SPECIFICATION: the ids, in document order, of the live documents on which the query holds *)
Definition spec_search (c : corpus) (q : Q) : list nat :=
  filter (fun k => live c (doc_at c k) && eval c q (doc_at c k)) (all_ids c).

(* ------------------------------------------------------------------ the index (what the builder writes, denotationally) *)
Definition texts (c : corpus) (fn : bool) : list (list N) :=
  map (fun d => if fn then d_name d else d_content d) (c_docs c).
Fixpoint ends_from (base : nat) (ts : list (list N)) : list nat :=     (* fileEndRunes / fileNameEndRunes *)
  match ts with [] => [] | t :: r => (base + length t) :: ends_from (base + length t) r end.
Definition ends_of (ts : list (list N)) : list nat := ends_from 0 ts.
Definition start_of (ends : list nat) (k : nat) : nat := match k with 0 => 0 | S j => nth j ends 0 end.

Definition tri := (N * N * N)%type.
Definition tri_eqb (a b : tri) : bool :=
  let '(a1, a2, a3) := a in let '(b1, b2, b3) := b in N.eqb a1 b1 && N.eqb a2 b2 && N.eqb a3 b3.
(** trigram windows of one text, with their rune offsets (postingsBuilder.newSearchableString: no window crosses a text) *)
Fixpoint windows (t : list N) (o : nat) : list (nat * tri) :=
  match t with
  | a :: ((b :: c :: _) as t') => (o, (a, b, c)) :: windows t' (S o)
  | _ => []
  end.
Fixpoint all_tris_from (base : nat) (ts : list (list N)) : list (nat * tri) :=
  match ts with
  | [] => []
  | t :: r => map (fun w => (base + fst w, snd w)) (windows t 0) ++ all_tris_from (base + length t) r
  end.
Definition all_tris (ts : list (list N)) : list (nat * tri) := all_tris_from 0 ts.

(** trigramHitIterator: case-sensitive = the posting list of g; otherwise the merge of the posting lists of all case
    variants of g (generateCaseNgrams = product of the SimpleFold orbits): the positions whose trigram is a variant *)
Definition tri_match (cs : bool) (g t : tri) : bool :=
  if cs then tri_eqb g t
  else let '(g1, g2, g3) := g in let '(t1, t2, t3) := t in memN t1 (orbit g1) && memN t2 (orbit g2) && memN t3 (orbit g3).
Definition post (tris : list (nat * tri)) (cs : bool) (g : tri) : list nat :=
  map fst (filter (fun w => tri_match cs g (snd w)) tris).
(** distanceHitIterator: hits of i1 whose partner at +dist is a hit of i2 *)
Definition dist_hits (d : nat) (l1 l2 : list nat) : list nat := filter (fun p => mem_nat (p + d) l2) l1.

(* ------------------------------------------------------------------ trigram selection (indexdata.go) *)
Definition ngram_val (g : tri) : N := let '(a, b, c) := g in (N.shiftl a 42 + N.shiftl b 21 + c)%N.
Definition pat_tris (p : list N) : list (nat * tri) := windows p 0.
Definition off_le (a b : nat * tri) : bool :=        (* runeNgramOff.Compare <= 0 *)
  let va := ngram_val (snd a) in let vb := ngram_val (snd b) in
  if (va =? vb)%N then fst a <=? fst b else (va <? vb)%N.
Fixpoint ins_off (x : nat * tri) (l : list (nat * tri)) : list (nat * tri) :=
  match l with [] => [x] | y :: r => if off_le x y then x :: l else y :: ins_off x r end.
Definition sort_offs (l : list (nat * tri)) : list (nat * tri) := fold_right ins_off [] l.

(** minFrequencyNgramOffsets: positions (in the sorted slice) of the two least frequent trigrams *)
Definition INFREQ : N := 4294967295%N.
Fixpoint min2 (fs : list N) (i : nat) (st : nat * nat * N * N) : nat * nat :=
  match fs with
  | [] => let '(i0, i1, _, _) := st in (i0, i1)
  | x :: r =>
      let '(i0, i1, m0, m1) := st in
      if (x <=? m0)%N then min2 r (S i) (i, i0, x, m0)
      else if (x <=? m1)%N then min2 r (S i) (i0, i, m0, x)
      else min2 r (S i) st
  end.
(** findSelectiveNgrams on rune indexes: (index of first, index of last) *)
Definition select_idx (offs : list (nat * tri)) (freqs : list N) : nat * nat :=
  let '(p0, p1) := min2 freqs 0 (0, 0, INFREQ, INFREQ) in
  let x0 := fst (nth p0 offs (0, (0, 0, 0)%N)) in
  let x1 := fst (nth p1 offs (0, (0, 0, 0)%N)) in
  let '(f, l) := if l_gt x0 x1 then (x1, x0) else (x0, x1) in
  if l - f <? 3 then
    let f' := l - 3 in                                   (* max(last.index-ngramSize, 0) *)
    let l' := Nat.min (f' + 3) (length offs - 1) in
    (f', l')
  else (f, l)
where "'l_gt' a b" := (b <? a) (only parsing).
