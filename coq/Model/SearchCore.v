(** Model of the search core of /repo/index (C01):
      eval.go        indexData.simplify, indexData.Search (document loop), regexpToMatchTreeRecursive
      matchtree.go   newMatchTree, newSubstringMatchTree, regexpToWordMatchTree, pruneMatchTree, all node kinds with
                     nextDoc / prepare / matches (cost staging), wordMatchTree, andLineMatchTree
      indexdata.go   iterateNgrams, findSelectiveNgrams, minFrequencyNgramOffsets
      matchiter.go   ngramDocIterator (nextDoc / prepare / candidates), candidateMatch.matchContent
      hititer.go     hit iterators, at the level of the sorted position lists they denote
    and of the reference evaluator [eval] ("check every atom by scanning the whole name / content").

    Level of the model.  Texts are lists of runes (code points, [N]): documents are valid UTF-8, and on valid UTF-8 the
    byte-level operations of the code (bytes.Index, bytes.Equal at a rune boundary, rune<->byte offset conversion) coincide
    with the rune-level ones used here; this is trusted and exercised by the correspondence with multi-byte runes.
    The regexp engine is external: [re_match rid text].  Unicode tables are external: [tolower], [orbit] (SimpleFold orbit).
    Posting lists are the sorted lists of global rune positions (their byte coding is C09).  The [known] cache of
    evalMatchTree is not represented: evaluation is pure and monotone in the cost (lemma run3_mono), so the cache is
    transparent.  The galloping search of nextFileIndex is modelled by a linear scan.  uint32 arithmetic is unbounded. *)
From ZV Require Import Lib.Base.

(* ------------------------------------------------------------------ corpus *)
Record repo := { r_name : list N; r_id : N; r_tomb : bool; r_ftombs : list (list N);
                 r_branches : list (list N); r_rawmask : N }.
Record doc := { d_name : list N; d_content : list N; d_mask : N; d_repo : nat; d_lang : N;
                d_secs : list (nat * nat) }.   (* symbol sections (Document.Symbols) as [start, end) RUNE offsets into the content *)
Record corpus := { c_repos : list repo; c_docs : list doc; c_langs : list (list N * N) }.

Definition dflt_repo : repo := {| r_name := []; r_id := 0; r_tomb := true; r_ftombs := []; r_branches := []; r_rawmask := 0 |}.
Definition dflt_doc : doc := {| d_name := []; d_content := []; d_mask := 0; d_repo := 0; d_lang := 0; d_secs := [] |}.
Definition repo_of (c : corpus) (d : doc) : repo := nth (d_repo d) (c_repos c) dflt_repo.
Definition doc_at (c : corpus) (k : nat) : doc := nth k (c_docs c) dflt_doc.

Definition runes_eqb := list_eqb N.eqb.
Fixpoint mem_runes (x : list N) (l : list (list N)) : bool :=
  match l with [] => false | y :: r => runes_eqb x y || mem_runes x r end.
Fixpoint memN (x : N) (l : list N) : bool := match l with [] => false | y :: r => N.eqb x y || memN x r end.
Fixpoint mem_nat (x : nat) (l : list nat) : bool := match l with [] => false | y :: r => Nat.eqb x y || mem_nat x r end.

(** live = not hidden by a repository tombstone or a file tombstone (eval.go:222-238) *)
Definition live (c : corpus) (d : doc) : bool :=
  let r := repo_of c d in negb (r_tomb r) && negb (mem_runes (d_name d) (r_ftombs r)).

(* ------------------------------------------------------------------ regexp syntax (regexp/syntax.Regexp, as far as
   regexpToMatchTreeRecursive and regexpToWordMatchTree look at it) *)
Inductive rx :=
| RLit (s : list N) (fold : bool)
| RCapture (r : rx)
| RPlus (r : rx)
| RRepeat (mn : nat) (r : rx)
| RConcat (rs : list rx)
| RAlt (rs : list rx)
| RStarAnyNotNL
| RWordB
| ROther.

(* ------------------------------------------------------------------ queries (query.Q) *)
Inductive Q :=
| QSubstr (p : list N) (cs fn ct : bool)
| QRegexp (rid : N) (r : rx) (topfold : bool) (cs fn ct : bool)
| QAnd (l : list Q)
| QOr (l : list Q)
| QNot (q : Q)
| QConst (b : bool)
| QBranch (p : list N) (exact : bool)
| QRepoTbl (want : list bool)            (* Repo, RepoRegexp, Meta: the regexp engine's verdict per repository *)
| QRepoSet (names : list (list N))
| QRepoIDs (ids : list N)
| QRawConfig (m : N)
| QBranchesRepos (l : list (list N * list N))
| QLang (name : list N)
| QFileNameSet (names : list (list N))
| QTypeFileName (q : Q)
| QTypeOther (q : Q)                      (* type:filematch / type:repo: no restriction inside a shard *)
| QBoost (q : Q)
| QSymSubstr (p : list N) (cs : bool)                     (* Symbol{Substring} (content) *)
| QSymRegexp (rid : N) (r : rx) (topfold : bool) (cs : bool).   (* Symbol{Regexp} *)

(* ------------------------------------------------------------------ text primitives *)
Definition utf8_len (r : N) : nat :=
  if (r <? 128)%N then 1 else if (r <? 2048)%N then 2 else if (r <? 65536)%N then 3 else 4.
Definition byte_len (s : list N) : nat := fold_right (fun r a => utf8_len r + a) 0 s.

Fixpoint is_sub (p t : list N) : bool :=       (* exact substring *)
  prefixb p t || match t with [] => false | _ :: t' => is_sub p t' end.

Definition is_word_rune (c : N) : bool :=        (* bits.go characterClass; every byte of a multi-byte rune is >= 0x80 *)
  ((97 <=? c) && (c <=? 122) || (65 <=? c) && (c <=? 90) || (48 <=? c) && (c <=? 57) || (c =? 95))%N.

Definition count_nl (l : list N) : nat := length (filter (N.eqb 10) l).
Definition line_of (t : list N) (o : nat) : nat := count_nl (firstn o t).

Section Engine.
Variable re_match : N -> list N -> bool.   (* external regexp engine: compiled pattern id, text |-> has a match *)
Variable tolower : N -> N.                 (* unicode.ToLower *)
Variable orbit : N -> list N.              (* unicode.SimpleFold orbit of a rune (contains the rune) *)

(** candidateMatch.matchContent at rune level: the window of |p| runes at rune offset o equals p
    (case-sensitive) or equals it after lower-casing both sides (caseFoldingEqualsRunes with toLower(pattern)). *)
Definition occurs_at (cs : bool) (p t : list N) (o : nat) : bool :=
  let w := firstn (length p) (skipn o t) in
  (length w =? length p) &&
  (if cs then runes_eqb p w else runes_eqb (map tolower p) (map tolower w)).
Definition occ_offsets (cs : bool) (p t : list N) : list nat := filter (occurs_at cs p t) (seq 0 (S (length t))).
Definition contains (cs : bool) (p t : list N) : bool := existsb (occurs_at cs p t) (seq 0 (S (length t))).

(** the text of a symbol section *)
Definition slice (t : list N) (sec : nat * nat) : list N := firstn (snd sec - fst sec) (skipn (fst sec) t).
(** what the builder guarantees (ShardBuilder.Add: sorted, "sections overlap", "section goes past end of content") *)
Fixpoint secs_ok (len : nat) (secs : list (nat * nat)) : Prop :=
  match secs with
  | [] => True
  | (s, e) :: r => s <= e /\ e <= len /\ Forall (fun x => e <= fst x) r /\ secs_ok len r
  end.
Fixpoint secs_okb (len : nat) (secs : list (nat * nat)) : bool :=
  match secs with
  | [] => true
  | (s, e) :: r => (s <=? e) && (e <=? len) && forallb (fun x => e <=? fst x) r && secs_okb len r
  end.
(** symbolSubstrMatchTree.prepare: the two-pointer walk over the document's sections and the (ascending) candidate
    offsets; a candidate survives when it starts inside the current section and ends within it *)
Fixpoint sym_trim (n : nat) (secs : list (nat * nat)) (cur : list nat) : list nat :=
  match secs with
  | [] => []
  | (s, e) :: secs' =>
      (fix go (cur : list nat) : list nat :=
         match cur with
         | [] => []
         | o :: cur' =>
             if e <=? o then sym_trim n secs' cur            (* start >= sections[secIdx].End: secIdx++ *)
             else if o <? s then go cur'                     (* start < sections[secIdx].Start: drop the candidate *)
             else if o + n <=? e then o :: go cur' else go cur'
         end) cur
  end.

(** reference semantics of the regexp \bLIT\b (Go: ASCII word boundary): an occurrence whose both ends are at a
    transition between a word and a non-word character (text boundaries count as non-word) *)
Definition rune_at (t : list N) (i : nat) : option N := nth_error t i.
Definition wordc (o : option N) : bool := match o with Some c => is_word_rune c | None => false end.
Definition boundary_at (t : list N) (i : nat) : bool :=
  negb (Bool.eqb (match i with 0 => false | S j => wordc (rune_at t j) end) (wordc (rune_at t i))).
Definition word_occurs_at (w t : list N) (o : nat) : bool :=
  occurs_at true w t o && boundary_at t o && boundary_at t (o + length w).
Definition word_ref (w t : list N) : bool := existsb (word_occurs_at w t) (seq 0 (S (length t))).

(** wordMatchTree.matches (matchtree.go:847, after the fix commits 260937d / d7a2c44): bytes.Index loop; an occurrence
    is accepted when both ends are word/non-word transitions; after an accepted occurrence the scan resumes behind it,
    after a rejected one at its second byte. fuel = |t| + 1 (every round advances the offset; the word is not empty). *)
Fixpoint index_from (w t : list N) (o : nat) (fuel : nat) : option nat :=
  match fuel with
  | 0 => None
  | S f => if occurs_at true w t o then Some o else if length t <=? o then None else index_from w t (S o) f
  end.
Fixpoint word_scan (w t : list N) (off : nat) (fuel : nat) : list nat :=
  match fuel with
  | 0 => []
  | S f =>
      match index_from w t off (S (length t)) with
      | None => []
      | Some s =>
          let e := s + length w in
          if boundary_at t s && boundary_at t e then s :: word_scan w t e f
          else word_scan w t (S s) f
      end
  end.
Definition word_found (w t : list N) : bool :=
  match word_scan w t 0 (S (length t)) with [] => false | _ => true end.

(* ------------------------------------------------------------------ reference evaluator (the oracle of C01) *)
Definition branch_bit (r : repo) (name : list N) : N :=     (* d.branchIDs[repo][name], 0 if absent *)
  (fix go (l : list (list N)) (i : N) : N :=
     match l with [] => 0%N | b :: rest => if runes_eqb b name then N.shiftl 1 i else go rest (N.succ i) end)
    (r_branches r) 0%N.
Definition branch_match_mask (r : repo) (p : list N) (exact : bool) : N :=
  (fix go (l : list (list N)) (i : N) : N :=
     match l with
     | [] => 0%N
     | b :: rest => N.lor (if (if exact then runes_eqb b p else is_sub p b) then N.shiftl 1 i else 0%N) (go rest (N.succ i))
     end) (r_branches r) 0%N.
Definition HEAD : list N := [72; 69; 65; 68]%N.
Definition lang_code (c : corpus) (name : list N) : option N :=
  (fix go (l : list (list N * N)) := match l with [] => None | (n, code) :: r => if runes_eqb n name then Some code else go r end) (c_langs c).

Definition text_sel (fn ct : bool) (f : list N -> bool) (d : doc) : bool :=
  if Bool.eqb fn ct then f (d_name d) || f (d_content d)
  else if fn then f (d_name d) else f (d_content d).

Fixpoint eval (c : corpus) (q : Q) (d : doc) : bool :=
  match q with
  | QSubstr p cs fn ct => text_sel fn ct (contains cs p) d
  | QRegexp rid _ _ _ fn ct => text_sel fn ct (re_match rid) d
  | QAnd l => forallb (fun q' => eval c q' d) l
  | QOr l => existsb (fun q' => eval c q' d) l
  | QNot q' => negb (eval c q' d)
  | QConst b => b
  | QBranch p exact =>
      if (match p with [] => negb exact | _ => false end) then true     (* branch:"" = no restriction (evalConstants) *)
      else if runes_eqb p HEAD then N.testbit (d_mask d) 0
      else negb (N.land (branch_match_mask (repo_of c d) p exact) (d_mask d) =? 0)%N
  | QRepoTbl want => nth (d_repo d) want false
  | QRepoSet names => mem_runes (r_name (repo_of c d)) names
  | QRepoIDs ids => memN (r_id (repo_of c d)) ids
  | QRawConfig m => (N.land m (r_rawmask (repo_of c d)) =? m)%N
  | QBranchesRepos l =>
      existsb (fun br => memN (r_id (repo_of c d)) (snd br) &&
                         negb (N.land (branch_bit (repo_of c d) (fst br)) (d_mask d) =? 0)%N) l
  | QLang name => match lang_code c name with Some code => (d_lang d =? code)%N | None => false end
  | QFileNameSet names => mem_runes (d_name d) names
  | QTypeFileName q' => eval c q' d
  | QTypeOther q' => eval c q' d
  | QBoost q' => eval c q' d
  (* Symbol{expr}: expr matches the text of one symbol section *)
  | QSymSubstr p cs => existsb (fun sec => contains cs p (slice (d_content d) sec)) (d_secs d)
  | QSymRegexp rid _ _ _ => existsb (fun sec => re_match rid (slice (d_content d) sec)) (d_secs d)
  end.

Definition all_ids (c : corpus) : list nat := seq 0 (length (c_docs c)).
(** THE SPECIFICATION: the ids, in document order, of the live documents on which the query holds *)
Definition spec_search (c : corpus) (q : Q) : list nat :=
  filter (fun k => live c (doc_at c k) && eval c q (doc_at c k)) (all_ids c).

(* ------------------------------------------------------------------ the index (what the builder writes, denotationally) *)
Definition texts (c : corpus) (fn : bool) : list (list N) :=
  map (fun d => if fn then d_name d else d_content d) (c_docs c).
Fixpoint ends_from (base : nat) (ts : list (list N)) : list nat :=     (* fileEndRunes / fileNameEndRunes *)
  match ts with [] => [] | t :: r => (base + length t) :: ends_from (base + length t) r end.
Definition ends_of (ts : list (list N)) : list nat := ends_from 0 ts.
Definition start_of (ends : list nat) (k : nat) : nat := match k with 0 => 0 | S j => nth j ends 0 end.

Definition tri := (N * N * N)%type.
Definition tri_eqb (a b : tri) : bool :=
  let '(a1, a2, a3) := a in let '(b1, b2, b3) := b in N.eqb a1 b1 && N.eqb a2 b2 && N.eqb a3 b3.
(** trigram windows of one text, with their rune offsets (postingsBuilder.newSearchableString: no window crosses a text) *)
Fixpoint windows (t : list N) (o : nat) : list (nat * tri) :=
  match t with
  | a :: ((b :: c :: _) as t') => (o, (a, b, c)) :: windows t' (S o)
  | _ => []
  end.
Fixpoint all_tris_from (base : nat) (ts : list (list N)) : list (nat * tri) :=
  match ts with
  | [] => []
  | t :: r => map (fun w => (base + fst w, snd w)) (windows t 0) ++ all_tris_from (base + length t) r
  end.
Definition all_tris (ts : list (list N)) : list (nat * tri) := all_tris_from 0 ts.

(** trigramHitIterator: case-sensitive = the posting list of g; otherwise the merge of the posting lists of all case
    variants of g (generateCaseNgrams = product of the SimpleFold orbits): the positions whose trigram is a variant *)
Definition tri_match (cs : bool) (g t : tri) : bool :=
  if cs then tri_eqb g t
  else let '(g1, g2, g3) := g in let '(t1, t2, t3) := t in memN t1 (orbit g1) && memN t2 (orbit g2) && memN t3 (orbit g3).
Definition post (tris : list (nat * tri)) (cs : bool) (g : tri) : list nat :=
  map fst (filter (fun w => tri_match cs g (snd w)) tris).
(** distanceHitIterator: hits of i1 whose partner at +dist is a hit of i2 *)
Definition dist_hits (d : nat) (l1 l2 : list nat) : list nat := filter (fun p => mem_nat (p + d) l2) l1.

(* ------------------------------------------------------------------ trigram selection (indexdata.go) *)
Definition ngram_val (g : tri) : N := let '(a, b, c) := g in (N.shiftl a 42 + N.shiftl b 21 + c)%N.
Definition pat_tris (p : list N) : list (nat * tri) := windows p 0.
Definition off_le (a b : nat * tri) : bool :=        (* runeNgramOff.Compare <= 0 *)
  let va := ngram_val (snd a) in let vb := ngram_val (snd b) in
  if (va =? vb)%N then fst a <=? fst b else (va <? vb)%N.
Fixpoint ins_off (x : nat * tri) (l : list (nat * tri)) : list (nat * tri) :=
  match l with [] => [x] | y :: r => if off_le x y then x :: l else y :: ins_off x r end.
Definition sort_offs (l : list (nat * tri)) : list (nat * tri) := fold_right ins_off [] l.

(** minFrequencyNgramOffsets: positions (in the sorted slice) of the two least frequent trigrams *)
Definition INFREQ : N := 4294967295%N.
Fixpoint min2 (fs : list N) (i : nat) (st : nat * nat * N * N) : nat * nat :=
  match fs with
  | [] => let '(i0, i1, _, _) := st in (i0, i1)
  | x :: r =>
      let '(i0, i1, m0, m1) := st in
      if (x <=? m0)%N then min2 r (S i) (i, i0, x, m0)
      else if (x <=? m1)%N then min2 r (S i) (i0, i, m0, x)
      else min2 r (S i) st
  end.
(** findSelectiveNgrams on rune indexes: (index of first, index of last) *)
Definition dflt_off : nat * tri := (0, (0, 0, 0)%N).
Definition select_idx (offs : list (nat * tri)) (freqs : list N) : nat * nat :=
  let '(p0, p1) := min2 freqs 0 (0, 0, INFREQ, INFREQ) in
  let x0 := fst (nth p0 offs dflt_off) in
  let x1 := fst (nth p1 offs dflt_off) in
  let f := Nat.min x0 x1 in
  let l := Nat.max x0 x1 in
  if l - f <? 3 then
    let f' := l - 3 in                                   (* max(last.index-ngramSize, 0) *)
    let l' := Nat.min (f' + 3) (length offs - 1) in
    (f', l')
  else (f, l).
Definition nth_tri (p : list N) (i : nat) : tri := snd (nth i (pat_tris p) dflt_off).

(* ------------------------------------------------------------------ match trees *)
Record sleaf := { sl_pat : list N; sl_cs : bool; sl_fn : bool; sl_dead : bool;
                  sl_a : nat;            (* ngramDocIterator.leftPad  = index of the first selected trigram *)
                  sl_rpad : nat;         (* ngramDocIterator.rightPad = |pattern| - leftPad *)
                  sl_dist : nat;         (* distanceHitIterator.distance (0 = a single trigram iterator) *)
                  sl_hits : list nat;    (* what the hit iterator still holds *)
                  sl_cur : list nat }.   (* substrMatchTree.current: candidate rune offsets in the prepared document *)
Inductive scan_kind :=
| SKall                                   (* bruteForceMatchTree *)
| SKre (rid : N) (fn : bool)              (* regexpMatchTree *)
| SKword (w : list N) (fn : bool)         (* wordMatchTree *)
| SKlit (p : list N) (cs fn : bool)       (* regexpMatchTree over an OpLiteral of < 3 runes (newSubstringMatchTree) *)
| SKsymsub (p : list N) (cs : bool)       (* symbolSubstrMatchTree (>= 3 runes) / symbolRegexpMatchTree over a short literal *)
| SKsymre (rid : N).                      (* symbolRegexpMatchTree: the engine on the text of every section *)
Inductive mt :=
| MTand (cs : list mt)
| MTor (cs : list mt)
| MTandLine (cs : list mt)
| MTnot (c : mt)
| MTwrap (c : mt)                          (* noVisitMatchTree / fileNameMatchTree / boostMatchTree *)
| MTsubstr (s : sleaf)
| MTscan (k : scan_kind) (cur : option nat)
| MTdocp (p : nat -> bool) (cur : option nat)   (* docMatchTree / branchQueryMatchTree: predicate on the document id *)
| MTnone.

Inductive st3 := Higher | Found | NoneM.       (* matchesRequiresHigherCost / matchesFound / matchesNone *)
Definition pred3 (b : bool) : st3 := if b then Found else NoneM.

Section Index.
Variable c : corpus.
Variable freq : bool -> bool -> tri -> N.   (* fileName, caseSensitive, trigram |-> summed size of the posting lists consulted *)

Definition ndocs : nat := length (c_docs c).
Definition ix_ends (fn : bool) : list nat := ends_of (texts c fn).
Definition ix_tris (fn : bool) : list (nat * tri) := all_tris (texts c fn).
Definition text_of (fn : bool) (k : nat) : list N := nth k (texts c fn) [].

(** newSubstringMatchTree + iterateNgrams *)
Definition new_substr (p : list N) (cs fn : bool) : mt :=
  if length p <? 3 then MTscan (SKlit p cs fn) None else
  let offs := sort_offs (pat_tris p) in
  let fs := map (fun e => freq fn cs (snd e)) offs in
  if existsb (N.eqb 0) fs then
    MTsubstr {| sl_pat := p; sl_cs := cs; sl_fn := fn; sl_dead := true; sl_a := 0; sl_rpad := 0; sl_dist := 0; sl_hits := []; sl_cur := [] |}
  else
    let '(a, b) := select_idx offs fs in
    let tris := ix_tris fn in
    let hits := if a =? b then post tris cs (nth_tri p b)
                else dist_hits (b - a) (post tris cs (nth_tri p a)) (post tris cs (nth_tri p b)) in
    MTsubstr {| sl_pat := p; sl_cs := cs; sl_fn := fn; sl_dead := false; sl_a := a; sl_rpad := length p - a; sl_dist := b - a;
                sl_hits := hits; sl_cur := [] |}.

Definition is_brute (t : mt) : bool := match t with MTscan SKall _ => true | _ => false end.
Definition brute : mt := MTscan SKall None.

(** regexpToMatchTreeRecursive: (tree, isEqual, singleLine) *)
Fixpoint distill (cs fn : bool) (r : rx) : mt * bool * bool :=
  match r with
  | RLit s fold =>
      if 3 <=? byte_len s then (new_substr s (negb fold && cs) fn, true, negb (memN 10 s))
      else (brute, false, false)
  | RCapture r' => distill cs fn r'
  | RPlus r' => distill cs fn r'
  | RRepeat mn r' =>
      if mn =? 1 then distill cs fn r'
      else if 1 <? mn then let '(m, _, sl) := distill cs fn r' in (m, false, sl)
      else (brute, false, false)
  | RConcat rs =>
      let subs := map (distill cs fn) rs in
      let qs := map (fun x => fst (fst x)) subs in
      let isEq := forallb (fun x => snd (fst x)) subs in
      let sl := forallb (fun x => snd x) subs in
      let isEq := if 1 <? length qs then false else isEq in
      let newQs := filter (fun q => negb (is_brute q)) qs in
      match newQs with
      | [q] => (q, isEq, sl)
      | [] => (brute, isEq, sl)
      | _ => if sl then (MTandLine newQs, isEq, sl) else (MTand newQs, isEq, sl)
      end
  | RAlt rs =>
      let subs := map (distill cs fn) rs in
      let qs := map (fun x => fst (fst x)) subs in
      let isEq := forallb (fun x => snd (fst x)) subs in
      match find is_brute qs with
      | Some q => (q, isEq, false)
      | None => match qs with [] => (MTnone, isEq, false) | _ => (MTor qs, isEq, false) end
      end
  | RStarAnyNotNL => (brute, false, true)
  | RWordB => (brute, false, false)
  | ROther => (brute, false, false)
  end.

(** regexpToWordMatchTree *)
Definition word_of (r : rx) (topfold cs : bool) : option (list N) :=
  if cs && negb topfold then
    match r with
    | RConcat [RWordB; RLit w false; RWordB] => Some w      (* a literal with its own FoldCase flag is left to the engine (cae2348) *)
    | _ => None
    end
  else None.

Definition repo_idx (k : nat) : nat := d_repo (doc_at c k).
Definition repo_at (i : nat) : repo := nth i (c_repos c) dflt_repo.

(** newMatchTree (after ExpandFileContent: exactly one of fn / ct is set on text atoms) *)
Fixpoint build (q : Q) : mt :=
  match q with
  | QSubstr p cs fn _ => new_substr p cs fn
  | QRegexp rid r topfold cs fn _ =>
      let '(sub, isEq, _) := distill cs fn r in
      if isEq then sub else
      let tr := match word_of r topfold cs with
                | Some w => MTscan (SKword w fn) None
                | None => MTscan (SKre rid fn) None
                end in
      MTand [tr; MTwrap sub]
  | QAnd l => MTand (map build l)
  | QOr l => MTor (map build l)
  | QNot q' => MTnot (build q')
  | QConst b => if b then brute else MTnone
  | QBranch p exact =>
      let masks := map (fun r => if runes_eqb p HEAD then 1%N else branch_match_mask r p exact) (c_repos c) in
      MTdocp (fun k => negb (N.land (nth (repo_idx k) masks 0%N) (d_mask (doc_at c k)) =? 0)%N) None
  | QRepoTbl want => MTdocp (fun k => nth (repo_idx k) want false) None
  | QRepoSet names =>
      let want := map (fun r => mem_runes (r_name r) names) (c_repos c) in
      MTdocp (fun k => nth (repo_idx k) want false) None
  | QRepoIDs ids =>
      let want := map (fun r => memN (r_id r) ids) (c_repos c) in
      MTdocp (fun k => nth (repo_idx k) want false) None
  | QRawConfig m => MTdocp (fun k => (N.land m (r_rawmask (repo_at (repo_idx k))) =? m)%N) None
  | QBranchesRepos l =>
      let want := map (fun r => fold_left (fun mask br => if memN (r_id r) (snd br) then N.lor mask (branch_bit r (fst br)) else mask) l 0%N)
                      (c_repos c) in
      MTdocp (fun k => negb (N.land (d_mask (doc_at c k)) (nth (repo_idx k) want 0%N) =? 0)%N) None
  | QLang name =>
      match lang_code c name with
      | None => MTnone
      | Some code => MTdocp (fun k => (d_lang (doc_at c k) =? code)%N) None
      end
  | QFileNameSet names => MTdocp (fun k => mem_runes (d_name (doc_at c k)) names) None
  | QTypeFileName q' => MTwrap (build q')
  | QTypeOther q' => build q'
  | QBoost q' => MTwrap (build q')
  (* newMatchTree, case query.Symbol.  The symbol nodes are represented by their verdict per document (a scan leaf): the docIterator
     they borrow from the wrapped tree (substr leaf / distilled tree) is abstracted to "every document"; that the borrowed
     iterator never skips a matching document is C01_docit_lower_bound for the wrapped tree plus the prefilter clause of re_okb. *)
  | QSymSubstr p cs => MTscan (SKsymsub p cs) None
  | QSymRegexp rid r topfold cs =>
      let '(sub, isEq, _) := distill cs false r in
      match isEq, sub with
      | true, MTsubstr s => MTscan (SKsymsub (sl_pat s) (sl_cs s)) None     (* the distilled tree is a single substrMatchTree *)
      | _, _ => MTscan (SKsymre rid) None        (* the expression's own regexp on the sections (after the repair of the Symbol case) *)
      end
  end.

(** pruneMatchTree: None = the tree cannot match any document *)
Fixpoint prune (t : mt) : option mt :=
  match t with
  | MTsubstr s => if sl_dead s then None else Some t
  | MTand cs =>
      option_map MTand
      ((fix go (l : list mt) : option (list mt) :=
         match l with
         | [] => Some []
         | x :: r => match prune x with
                     | None => None
                     | Some x' => match go r with None => None | Some r' => Some (x' :: r') end
                     end
         end) cs)
  | MTandLine cs =>
      option_map MTandLine
      ((fix go (l : list mt) : option (list mt) :=
         match l with
         | [] => Some []
         | x :: r => match prune x with
                     | None => None
                     | Some x' => match go r with None => None | Some r' => Some (x' :: r') end
                     end
         end) cs)
  | MTor cs =>
      match (fix go (l : list mt) : list mt :=
               match l with
               | [] => []
               | x :: r => match prune x with None => go r | Some x' => x' :: go r end
               end) cs with
      | [] => None
      | [x] => Some x
      | l => Some (MTor l)
      end
  | MTwrap c' => option_map MTwrap (prune c')
  | MTnot c' => match prune c' with None => Some brute | Some c'' => Some (MTnot c'') end
  | _ => Some t
  end.

(* ------------------------------------------------------------------ docIterator: nextDoc / prepare *)
Definition cursor_next (cur : option nat) : nat := match cur with None => 0 | Some d => S d end.
(** first j in [i, n) with p j, else n (= "MaxUint32": every value >= ndocs ends the search loop) *)
Definition first_from (p : nat -> bool) (i n : nat) : nat :=
  match find p (seq i (n - i)) with Some j => j | None => n end.
(** nextFileIndex: smallest j with ends[j] > off (linear; ends is sorted) *)
Fixpoint find_end (off : nat) (es : list nat) (j : nat) : nat :=
  match es with [] => j | e :: r => if e <=? off then find_end off r (S j) else j end.

Fixpoint nextDoc (t : mt) : nat :=
  match t with
  | MTand cs => fold_right (fun x m => Nat.max (nextDoc x) m) 0 cs
  | MTandLine cs => fold_right (fun x m => Nat.max (nextDoc x) m) 0 cs
  | MTor cs => fold_right (fun x m => Nat.min (nextDoc x) m) ndocs cs
  | MTnot _ => 0
  | MTwrap c' => nextDoc c'
  | MTsubstr s =>
      if sl_dead s then ndocs else
      match sl_hits s with
      | [] => ndocs
      | p :: _ => find_end p (ix_ends (sl_fn s)) 0
      end
  | MTscan _ cur => cursor_next cur
  | MTdocp p cur => first_from p (cursor_next cur) ndocs
  | MTnone => ndocs
  end.

Fixpoint drop_while (f : nat -> bool) (l : list nat) : list nat :=
  match l with [] => [] | x :: r => if f x then drop_while f r else l end.
Fixpoint take_while (f : nat -> bool) (l : list nat) : list nat :=
  match l with [] => [] | x :: r => if f x then x :: take_while f r else [] end.

(** ngramDocIterator.prepare followed by candidates() (substrMatchTree.prepare) *)
Definition sleaf_prepare (k : nat) (s : sleaf) : sleaf :=
  if sl_dead s then s else
  let ends := ix_ends (sl_fn s) in
  let start := start_of ends k in
  let fend := nth k ends 0 in
  let h1 := if 0 <? start then drop_while (fun p => p <=? start + sl_a s - 1) (sl_hits s) else sl_hits s in
  let mine := take_while (fun p => p <? fend) h1 in
  let rest := drop_while (fun p => p <? fend) h1 in
  let ok := filter (fun p => (sl_a s + start <=? p) && (p + sl_rpad s <=? fend)) mine in
  {| sl_pat := sl_pat s; sl_cs := sl_cs s; sl_fn := sl_fn s; sl_dead := false; sl_a := sl_a s; sl_rpad := sl_rpad s; sl_dist := sl_dist s;
     sl_hits := rest; sl_cur := map (fun p => p - start - sl_a s) ok |}.

Fixpoint prepare (k : nat) (t : mt) : mt :=
  match t with
  | MTand cs => MTand (map (prepare k) cs)
  | MTandLine cs => MTandLine (map (prepare k) cs)
  | MTor cs => MTor (map (prepare k) cs)
  | MTnot c' => MTnot (prepare k c')
  | MTwrap c' => MTwrap (prepare k c')
  | MTsubstr s => MTsubstr (sleaf_prepare k s)
  | MTscan sk _ => MTscan sk (Some k)
  | MTdocp p _ => MTdocp p (Some k)
  | MTnone => MTnone
  end.

(* ------------------------------------------------------------------ matches (cost-staged, three-valued) *)
Definition verified (k : nat) (s : sleaf) : list nat :=         (* substrMatchTree.matches: prune current by matchContent *)
  filter (occurs_at (sl_cs s) (sl_pat s) (text_of (sl_fn s) k)) (sl_cur s).
Definition scan_holds (sk : scan_kind) (k : nat) : bool :=
  match sk with
  | SKall => true
  | SKre rid fn => re_match rid (text_of fn k)
  | SKword w fn => word_found w (text_of fn k)
  | SKlit p cs fn => contains cs p (text_of fn k)
  | SKsymsub p cs =>
      let t := text_of false k in
      let secs := d_secs (doc_at c k) in
      if length p <? 3 then existsb (fun sec => contains cs p (slice t sec)) secs     (* literal regexp on each section *)
      else match sym_trim (length p) secs (occ_offsets cs p t) with [] => false | _ => true end
  | SKsymre rid => existsb (fun sec => re_match rid (slice (text_of false k) sec)) (d_secs (doc_at c k))
  end.
Definition and3 (l : list st3) : st3 :=
  if existsb (fun s => match s with NoneM => true | _ => false end) l then NoneM
  else if existsb (fun s => match s with Higher => true | _ => false end) l then Higher else Found.
Definition or3 (l : list st3) : st3 :=
  if existsb (fun s => match s with Higher => true | _ => false end) l then Higher
  else if existsb (fun s => match s with Found => true | _ => false end) l then Found else NoneM.
Definition not3 (s : st3) : st3 := match s with Higher => Higher | Found => NoneM | NoneM => Found end.

(** the same-line test of andLineMatchTree.matches, at the level of what it computes: all children are content
    substring atoms and some line holds a verified candidate of each; any other child shape => Found *)
Definition content_sleaf (t : mt) : option sleaf :=
  match t with MTsubstr s => if sl_fn s then None else Some s | _ => None end.
Definition same_line (k : nat) (cs : list mt) : bool :=
  if forallb (fun x => match content_sleaf x with Some _ => true | None => false end) cs then
    let t := text_of false k in
    let vs := map (fun x => match content_sleaf x with Some s => verified k s | None => [] end) cs in
    match vs with
    | [] => true
    | v0 :: _ => existsb (fun o0 => forallb (fun v => existsb (fun o => line_of t o =? line_of t o0) v) vs) v0
    end
  else true.

Fixpoint run3 (cost : nat) (k : nat) (t : mt) : st3 :=
  match t with
  | MTand cs => and3 (map (run3 cost k) cs)
  | MTandLine cs =>
      match and3 (map (run3 cost k) cs) with
      | Found => pred3 (same_line k cs)
      | s => s
      end
  | MTor cs => or3 (map (run3 cost k) cs)
  | MTnot c' => not3 (run3 cost k c')
  | MTwrap c' => run3 cost k c'
  | MTsubstr s =>
      match sl_cur s with
      | [] => NoneM
      | _ => if cost <? (if sl_fn s then 1 else 2) then Higher
             else pred3 (match verified k s with [] => false | _ => true end)
      end
  | MTscan SKall _ => Found
  | MTscan sk _ => if cost <? 3 then Higher else pred3 (scan_holds sk k)
  | MTdocp p _ => pred3 (p k)
  | MTnone => NoneM
  end.

(** the cost loop of Search (eval.go:276-289): reject as soon as some cost level says None; a tree still undecided
    at costMax is a log.Panicf in Go (unreachable: lemma run3_max_decides), modelled as reject *)
Definition accept (k : nat) (t : mt) : bool :=
  forallb (fun cost => match run3 cost k t with NoneM => false | _ => true end) [0; 1; 2; 3] &&
  match run3 3 k t with Higher => false | _ => true end.

(* ------------------------------------------------------------------ the document loop of indexData.Search (no limits) *)
Definition live_at (k : nat) : bool := live c (doc_at c k).
Fixpoint loop (fuel : nat) (t : mt) (last : option nat) : list nat :=
  match fuel with
  | 0 => []
  | S f =>
      let nd1 := Nat.max (nextDoc t) (cursor_next last) in
      let nd := first_from live_at nd1 ndocs in
      if ndocs <=? nd then [] else
      let t' := prepare nd t in
      if accept nd t' then nd :: loop f t' (Some nd) else loop f t' (Some nd)
  end.

(* ------------------------------------------------------------------ indexData.simplify + query.Simplify (constants) *)
Definition multi_repo (q : Q) (pred : nat -> repo -> bool) : Q :=      (* simplifyMultiRepo *)
  let idx := combine (seq 0 (length (c_repos c))) (c_repos c) in
  let alive := length (filter (fun ir => negb (r_tomb (snd ir))) idx) in
  let count := length (filter (fun ir => negb (r_tomb (snd ir)) && pred (fst ir) (snd ir)) idx) in
  if count =? alive then QConst true else if 0 <? count then q else QConst false.
Definition simp_atom (q : Q) : Q :=
  match q with
  | QRepoTbl want => multi_repo q (fun i _ => nth i want false)
  | QRepoSet names => multi_repo q (fun _ r => mem_runes (r_name r) names)
  | QRepoIDs ids => multi_repo q (fun _ r => memN (r_id r) ids)
  | QRawConfig m => multi_repo q (fun _ r => (N.land m (r_rawmask r) =? m)%N)
  | QBranchesRepos l =>
      if existsb (fun r => existsb (fun br => memN (r_id r) (snd br)) l) (c_repos c) then q else QConst false
  | QLang name => match lang_code c name with None => QConst false | Some _ => q end
  | _ => q
  end.
Definition is_const (q : Q) : option bool := match q with QConst b => Some b | _ => None end.
(** query.Map(in, atom folding) followed by evalConstants; the flattening of Simplify only changes the shape.
    An empty RepoIDs / RepoSet needs no clause of its own: simplifyMultiRepo runs FIRST and folds it - to FALSE (no repository
    matches), or to TRUE when every repository of the shard is tombstoned (count = alive = 0), as the code does. *)
Fixpoint simp (q : Q) : Q :=
  match q with
  | QAnd l =>
      let l' := map simp l in
      if existsb (fun x => match is_const x with Some false => true | _ => false end) l' then QConst false
      else match filter (fun x => match is_const x with Some true => false | _ => true end) l' with
           | [] => QConst true
           | r => QAnd r
           end
  | QOr l =>
      let l' := map simp l in
      if existsb (fun x => match is_const x with Some true => true | _ => false end) l' then QConst true
      else match filter (fun x => match is_const x with Some false => false | _ => true end) l' with
           | [] => QConst false
           | r => QOr r
           end
  | QNot q' => match simp q' with QConst b => QConst (negb b) | s => QNot s end
  | QTypeFileName q' => match simp q' with QConst b => QConst b | s => QTypeFileName s end
  | QTypeOther q' => match simp q' with QConst b => QConst b | s => QTypeOther s end
  | QBoost q' => match simp q' with QConst b => QConst b | s => QBoost s end
  | QSubstr [] _ _ _ => QConst true
  | QBranch [] false => QConst true
  | QFileNameSet [] => QConst false
  | _ => match simp_atom q with
         | QBranchesRepos l => if forallb (fun br => match snd br with [] => true | _ => false end) l then QConst false else QBranchesRepos l
         | s => s
         end
  end.

(** query.Map(q, ExpandFileContent) *)
Fixpoint expand (q : Q) : Q :=
  match q with
  | QSubstr p cs fn ct => if Bool.eqb fn ct then QOr [QSubstr p cs true false; QSubstr p cs false true] else q
  | QRegexp rid r tf cs fn ct =>
      if Bool.eqb fn ct then QOr [QRegexp rid r tf cs true false; QRegexp rid r tf cs false true] else q
  | QAnd l => QAnd (map expand l)
  | QOr l => QOr (map expand l)
  | QNot q' => QNot (expand q')
  | QTypeFileName q' => QTypeFileName (expand q')
  | QTypeOther q' => QTypeOther (expand q')
  | QBoost q' => QBoost (expand q')
  | _ => q
  end.

(** indexData.Search without limits: ids of the returned files, in order *)
Definition search (q : Q) : list nat :=
  match simp q with
  | QConst false => []
  | q1 =>
      match prune (build (expand q1)) with
      | None => []
      | Some t => loop (S ndocs) t None
      end
  end.

End Index.
End Engine.

(* ------------------------------------------------------------------ the obligation on the external regexp engine, executable *)
(** For every regexp atom that reaches newMatchTree and every document: if the engine finds a match then the tree
    distilled from the regexp's literals holds (equivalence when the distillation claims isEqual), and on \bLIT\b
    the engine's verdict is the reference word-boundary semantics.  The distilled tree is evaluated by the mechanism
    itself on a fresh state (= its semantics, lemma accept_sem).  Theorem C01_search_exact_partial assumes exactly this
    boolean; the correspondence run evaluates it on every generated case. *)
Section Obligation.
Variable re_match : N -> list N -> bool.
Variable tolower : N -> N.
Variable orbit : N -> list N.
Variable c : corpus.
Variable freq : bool -> bool -> tri -> N.
Fixpoint re_okb (q : Q) : bool :=
  match q with
  | QRegexp rid r tf cs fn _ =>
      let '(sub, isEq, _) := distill orbit c freq cs fn r in
      forallb (fun k =>
        let txt := text_of c fn k in
        let holds := accept re_match tolower c k (prepare c k sub) in
        if isEq then Bool.eqb holds (re_match rid txt)
        else implb (re_match rid txt) holds &&
             match word_of r tf cs with
             | Some w => (0 <? length w) && Bool.eqb (re_match rid txt) (word_ref tolower w txt)
             | None => true
             end) (seq 0 (ndocs c))
  | QSymRegexp rid r tf cs =>
      (* per section: where the distillation is an exact single literal the engine agrees with literal containment on the
         section text; and (prefilter borrowed as docIterator) a section match implies that the distilled tree holds *)
      let '(sub, isEq, _) := distill orbit c freq cs false r in
      forallb (fun k =>
        let txt := text_of c false k in
        let holds := accept re_match tolower c k (prepare c k sub) in
        secs_okb (length txt) (d_secs (doc_at c k)) &&
        forallb (fun sec =>
          implb (re_match rid (slice txt sec)) holds &&
          match isEq, sub with
          | true, MTsubstr s => Bool.eqb (contains tolower (sl_cs s) (sl_pat s) (slice txt sec)) (re_match rid (slice txt sec))
          | _, _ => true
          end) (d_secs (doc_at c k))) (seq 0 (ndocs c))
  | QSymSubstr _ _ =>
      (* the sections are sorted, non-overlapping and inside the content (ShardBuilder.Add rejects anything else) *)
      forallb (fun k => secs_okb (length (text_of c false k)) (d_secs (doc_at c k))) (seq 0 (ndocs c))
  | QAnd l => forallb re_okb l
  | QOr l => forallb re_okb l
  | QNot q' => re_okb q'
  | QTypeFileName q' => re_okb q'
  | QTypeOther q' => re_okb q'
  | QBoost q' => re_okb q'
  | _ => true
  end.
End Obligation.

(* ------------------------------------------------------------------ correspondence runner *)
From Coq Require Strings.String Strings.Ascii.
(** texts are shipped as Coq string literals (UTF-8 bytes) and decoded here (runner only) *)
Fixpoint utf8_dec (l : list N) : list N :=
  match l with
  | [] => []
  | b :: r =>
      if (b <? 128)%N then b :: utf8_dec r
      else if (b <? 224)%N then
        match r with c1 :: r' => ((b - 192) * 64 + (c1 - 128))%N :: utf8_dec r' | _ => [65533%N] end
      else if (b <? 240)%N then
        match r with c1 :: c2 :: r' => ((b - 224) * 4096 + (c1 - 128) * 64 + (c2 - 128))%N :: utf8_dec r' | _ => [65533%N] end
      else
        match r with
        | c1 :: c2 :: c3 :: r' => ((b - 240) * 262144 + (c1 - 128) * 4096 + (c2 - 128) * 64 + (c3 - 128))%N :: utf8_dec r'
        | _ => [65533%N]
        end
  end.
Definition R (s : String.string) : list N := utf8_dec (map Ascii.N_of_ascii (String.list_ascii_of_string s)).

(** The external parts are instantiated by tables recorded by the harness from the real code:
    folds  : (rune, unicode.ToLower rune, SimpleFold orbit) for every rune of the case that has case variants
    retbl  : (pattern id, verdict of the regexp engine on (name, content) of every document) for every regexp atom *)
Definition tbl_lower (folds : list (N * N * list N)) (r : N) : N :=
  match find (fun e => N.eqb (fst (fst e)) r) folds with Some e => snd (fst e) | None => r end.
Definition tbl_orbit (folds : list (N * N * list N)) (r : N) : list N :=
  match find (fun e => N.eqb (fst (fst e)) r) folds with Some e => snd e | None => [r] end.
Definition tbl_re0 (docs : list doc) (tb : list (N * list (bool * bool))) (rid : N) (t : list N) : option bool :=
  match find (fun e => N.eqb (fst e) rid) tb with
  | Some e =>
      match find (fun x => runes_eqb (d_name (fst x)) t || runes_eqb (d_content (fst x)) t) (combine docs (snd e)) with
      | Some x => Some (if runes_eqb (d_name (fst x)) t then fst (snd x) else snd (snd x))
      | None => None
      end
  | None => None
  end.
(** symtbl : (pattern id, per document the engine's verdict on the text of each symbol section) *)
Definition tbl_sym (docs : list doc) (tb : list (N * list (list bool))) (rid : N) (t : list N) : option bool :=
  match find (fun e => N.eqb (fst e) rid) tb with
  | Some e =>
      let rows := flat_map (fun dv => map (fun sv => (slice (d_content (fst dv)) (fst sv), snd sv))
                                          (combine (d_secs (fst dv)) (snd dv))) (combine docs (snd e)) in
      option_map snd (find (fun x => runes_eqb (fst x) t) rows)
  | None => None
  end.
Definition tbl_re_sym (docs : list doc) (tb : list (N * list (bool * bool))) (stb : list (N * list (list bool))) (rid : N) (t : list N) : bool :=
  match tbl_re0 docs tb rid t with
  | Some b => b
  | None => match tbl_sym docs stb rid t with Some b => b | None => false end
  end.
(** without symbol atoms (as used by the C21 runner) *)
Definition tbl_re (docs : list doc) (tb : list (N * list (bool * bool))) (rid : N) (t : list N) : bool :=
  tbl_re_sym docs tb [] rid t.
(** frequencies: the number of postings consulted (the real code uses the byte size of the compressed lists; the
    selection it drives is irrelevant for the result -- theorem substring_candidates_exact -- but must be 0 exactly
    for absent trigrams) *)
Definition count_freq (orbit : N -> list N) (c : corpus) (fn cs : bool) (g : tri) : N :=
  N.of_nat (length (post orbit (all_tris (texts c fn)) cs g)).

(** the real frequencies: byte size of the delta-varint coded posting list of each trigram consulted (btreeIndex.Get(g).sz);
    case-insensitive: summed over the case variants (generateCaseNgrams = product of the SimpleFold orbits) *)
Fixpoint varlen_fuel (fuel : nat) (x : nat) : nat :=
  match fuel with 0 => 1 | S f => if x <? 128 then 1 else S (varlen_fuel f (x / 128)) end.
Definition varlen (x : nat) : nat := varlen_fuel 10 x.
Fixpoint blob_size (last : nat) (l : list nat) : nat :=
  match l with [] => 0 | p :: r => varlen (p - last) + blob_size p r end.
Definition variants (orbit : N -> list N) (g : tri) : list tri :=
  let '(a, b, c) := g in
  flat_map (fun x => flat_map (fun y => map (fun z => (x, y, z)) (orbit c)) (orbit b)) (orbit a).
Definition real_freq (orbit : N -> list N) (c : corpus) (fn cs : bool) (g : tri) : N :=
  let tris := all_tris (texts c fn) in
  let size g' := blob_size 0 (post orbit tris true g') in
  N.of_nat (if cs then size g else fold_right (fun v a => size v + a) 0 (variants orbit g)).

(** the substring atoms of a tree in order: (leftPad, rightPad, distance, freq=0) -- compared with the implementation's
    ngramDocIterator / distanceHitIterator fields, this ties iterateNgrams / findSelectiveNgrams exactly *)
Fixpoint leaves (t : mt) : list (nat * nat * nat * bool) :=
  match t with
  | MTand cs => flat_map leaves cs
  | MTor cs => flat_map leaves cs
  | MTandLine cs => flat_map leaves cs
  | MTnot c' => leaves c'
  | MTwrap c' => leaves c'
  | MTsubstr s => [(sl_a s, sl_rpad s, sl_dist s, sl_dead s)]
  | _ => []
  end.

Definition repo_row := (list N * N * bool * list (list N) * list (list N) * N)%type.
Definition doc_row := (list N * list N * N * nat * N)%type.                          (* documents without symbol sections (C21 runner) *)
Definition sdoc_row := (list N * list N * N * nat * N * list (nat * nat))%type.    (* ... with their symbol sections (rune offsets) *)
Definition mk_repo (r : repo_row) : repo :=
  let '(nm, id, tomb, ft, br, raw) := r in
  {| r_name := nm; r_id := id; r_tomb := tomb; r_ftombs := ft; r_branches := br; r_rawmask := raw |}.
Definition mk_doc (d : doc_row) : doc :=
  let '(nm, ct, mask, rp, lang) := d in
  {| d_name := nm; d_content := ct; d_mask := mask; d_repo := rp; d_lang := lang; d_secs := [] |}.
Definition mk_sdoc (d : sdoc_row) : doc :=
  let '(nm, ct, mask, rp, lang, secs) := d in
  {| d_name := nm; d_content := ct; d_mask := mask; d_repo := rp; d_lang := lang; d_secs := secs |}.

Definition c01case := (list repo_row * list sdoc_row * list (list N * N) * list (N * N * list N) *
                       list (N * list (bool * bool)) * Q * list (nat * list N) *
                       option (list (nat * nat * nat * bool)) *        (* observed substring leaves of the unpruned tree (None: no tree built) *)
                       list (N * list (list bool)))%type.              (* engine verdicts on the section texts, per symbol regexp atom *)
Definition c01_model (cs : c01case) : list nat * list nat :=
  let '(repos, docs, langs, folds, retbl, q, _, _, symtbl) := cs in
  let c := {| c_repos := map mk_repo repos; c_docs := map mk_sdoc docs; c_langs := langs |} in
  let tl := tbl_lower folds in let ob := tbl_orbit folds in let re := tbl_re_sym (c_docs c) retbl symtbl in
  (search re tl ob c (real_freq ob c) q, spec_search re tl c q).
Definition row_eqb (a b : nat * list N) : bool := Nat.eqb (fst a) (fst b) && runes_eqb (snd a) (snd b).
(** 0 = model mechanism, model specification and implementation agree; 1 = the mechanism differs from the
    implementation (model not faithful); 2 = mechanism = implementation but the specification differs (the property
    fails on this input, reproduced by the model); 3 = the hypothesis of the theorem (regexp prefilter obligation) is
    violated on this input: the engine matches a text on which the distilled literal tree does not hold;
    4 = the trigram selection (leftPad / rightPad / distance / freq=0 per substring atom) differs from the implementation's *)
Definition c01_leaves (cs : c01case) : bool :=
  let '(repos, docs, langs, folds, retbl, q, _, obs, _) := cs in
  let c := {| c_repos := map mk_repo repos; c_docs := map mk_sdoc docs; c_langs := langs |} in
  let ob := tbl_orbit folds in
  match obs with
  | None => true
  | Some l =>
      let leaf_eqb (a b : nat * nat * nat * bool) :=
        let '(a1, a2, a3, a4) := a in let '(b1, b2, b3, b4) := b in
        if a4 || b4 then Bool.eqb a4 b4 else Nat.eqb a1 b1 && Nat.eqb a2 b2 && Nat.eqb a3 b3 in
      list_eqb leaf_eqb (leaves (build ob c (real_freq ob c) (expand (simp c q)))) l
  end.
Definition c01_hyp (cs : c01case) : bool :=
  let '(repos, docs, langs, folds, retbl, q, _, _, symtbl) := cs in
  let c := {| c_repos := map mk_repo repos; c_docs := map mk_sdoc docs; c_langs := langs |} in
  let tl := tbl_lower folds in let ob := tbl_orbit folds in let re := tbl_re_sym (c_docs c) retbl symtbl in
  re_okb re tl ob c (real_freq ob c) (expand (simp c q)) &&
  forallb (fun d => secs_okb (length (d_content d)) (d_secs d)) (c_docs c).
Definition c01_verdict (cs : c01case) : N :=
  let '(_, docs, _, _, _, _, observed, _, _) := cs in
  let '(mech, spec) := c01_model cs in
  if negb (c01_hyp cs) then 3%N else
  if negb (c01_leaves cs) then 4%N else
  let row k := let d := nth k (map mk_sdoc docs) dflt_doc in (d_repo d, d_name d) in
  if negb (list_eqb row_eqb (map row mech) observed) then 1%N
  else if negb (list_eqb row_eqb (map row spec) observed) then 2%N else 0%N.
Definition c01_mismatches (cs : list c01case) : list N := bad_indexes (fun x => N.eqb (c01_verdict x) 0) cs.
Definition c01_mech_mismatches (cs : list c01case) : list N := bad_indexes (fun x => negb (N.eqb (c01_verdict x) 1)) cs.
Definition c01_hyp_mismatches (cs : list c01case) : list N := bad_indexes (fun x => negb (N.eqb (c01_verdict x) 3)) cs.
Definition c01_leaf_mismatches (cs : list c01case) : list N := bad_indexes (fun x => negb (N.eqb (c01_verdict x) 4)) cs.
