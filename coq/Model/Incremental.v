(** Model of incremental-indexing decisions (property C38):
      index/builder.go : Options.HashOptions / GetHash, Options.IndexState, IncrementalSkipIndexing,
                         Builder.newShardBuilder (what a build records in the shard's repository metadata)
      api.go           : Repository.MergeMutable
    Executable definitions only; proofs are in Proofs/Incremental.v.

    Option values are generic (field name -> value). What GetHash feeds into the hasher is computed by running the
    "hash program" [hash_prog] that the translator reads from GetHash()/HashOptions() on every run
    (Generated/HashFields.v; types in Model/HashProg.v): the ORDERED list of write tokens (format string + the
    values written), slices element by element in slice order, maps entry by entry in key order.
    The hash itself is abstract: a function [H] from that token list to a hash value; the theorems assume it
    injective (SHA-1 collision-freeness + unambiguity of the concatenated formatted writes). *)
From ZV Require Import Lib.Base Model.HashProg.
From Coq Require Import String.

Definition str := list N.
Definition str_eqb : str -> str -> bool := list_eqb N.eqb.

(** Values of index.Options fields. *)
Inductive val :=
| VInt (z : Z)                        (* int, uint64 *)
| VBool (b : bool)
| VStr (s : str)
| VStrs (l : list str)                (* []string ; nil and empty are not distinguished (%q prints both as []) *)
| VMap (l : list (str * N)).          (* ctags.LanguageMap, sorted by key; nil and empty not distinguished *)

Definition pair_eqb {A B} (ea : A -> A -> bool) (eb : B -> B -> bool) (x y : A * B) : bool :=
  ea (fst x) (fst y) && eb (snd x) (snd y).

Definition val_eqb (a b : val) : bool :=
  match a, b with
  | VInt x, VInt y => Z.eqb x y
  | VBool x, VBool y => Bool.eqb x y
  | VStr x, VStr y => str_eqb x y
  | VStrs x, VStrs y => list_eqb str_eqb x y
  | VMap x, VMap y => list_eqb (pair_eqb str_eqb N.eqb) x y
  | _, _ => false
  end.

Definition opts := list (string * val).
Fixpoint get (o : opts) (f : string) : option val :=
  match o with
  | [] => None
  | (k, v) :: r => if String.eqb k f then Some v else get r f
  end.
Fixpoint set (o : opts) (f : string) (v : val) : opts :=
  match o with
  | [] => [(f, v)]
  | (k, w) :: r => if String.eqb k f then (k, v) :: r else (k, w) :: set r f v
  end.

Definition oval_eqb (a b : option val) : bool :=
  match a, b with
  | Some x, Some y => val_eqb x y
  | None, None => true
  | _, _ => false
  end.

(** The value of a field as GetHash sees it. [defaults] = the `if o.F == 0 { o.F = d }` table of SetDefaults
    (generated); [normed] = the fields for which GetHash treats 0 like that default. *)
Definition norm (normed : list string) (defaults : list (string * Z)) (f : string) (v : val) : val :=
  if existsb (String.eqb f) normed then
    match v with
    | VInt 0 => match find (fun p => String.eqb (fst p) f) defaults with
                | Some (_, d) => VInt d
                | None => v
                end
    | _ => v
    end
  else v.

(** One write into the hasher: the format string and the values formatted by it. *)
Inductive token := Tok (fmt : string) (args : list val).
Definition token_eqb (a b : token) : bool :=
  match a, b with Tok f x, Tok g y => String.eqb f g && list_eqb val_eqb x y end.

(** Does the `if` guarding a write let it happen for field value [v]? (ill-typed values: the write happens) *)
Definition guard_holds (g : hguard) (v : val) : bool :=
  match g, v with
  | GIntNotZeroNotConst d, VInt z => negb (Z.eqb z 0) && negb (Z.eqb z d)
  | GStrNonEmpty, VStr [] => false
  | GLenPositive, VMap [] => false
  | _, _ => true
  end.

(** The writes for value [v]: FValue = one write of the value (a slice: all elements in slice order, as %q prints
    them); FSortedEntries = one write per map entry in key order ([VMap] lists are kept sorted by key: a Go map has
    no order of its own, so this is its canonical form). FUnknown: the translator could not tell what is written. *)
Definition value_tokens (form : hform) (fm : string) (v : val) : list token :=
  match form, v with
  | FUnknown _, _ => []
  | FSortedEntries, VMap l => map (fun kn => Tok fm [VStr (fst kn); VInt (Z.of_N (snd kn))]) l
  | _, _ => [Tok fm [v]]
  end.

Definition item_tokens (it : hitem) (o : opts) : list token :=
  match get o (hi_field it) with
  | None => [Tok (hi_fmt it) []]
  | Some v => if guard_holds (hi_guard it) v then value_tokens (hi_form it) (hi_fmt it) v else []
  end.

(** What GetHash writes into the hasher for options [o], in order. *)
Definition hash_tokens (prog : list hitem) (o : opts) : list token :=
  List.concat (map (fun it => item_tokens it o) prog).

(** Fields whose zero value GetHash treats like the SetDefaults default: a write guarded by
    `h.f != 0 && h.f != d` where d is the SetDefaults default of the field (0 and d are both hashed by omission). *)
Definition normed_of (defaults : list (string * Z)) (prog : list hitem) : list string :=
  map hi_field (filter (fun it => match hi_guard it, find (fun p => String.eqb (fst p) (hi_field it)) defaults with
                                  | GIntNotZeroNotConst d, Some (_, d') => Z.eqb d d'
                                  | _, _ => false
                                  end) prog).

(** ---- the proof obligation on the generated program (checked by vm_compute in Props/C38.v):
    every item writes the field value itself under a guard whose "off" values all mean the same effective value, and
    the tokens of different items cannot be confused (items sharing a format string are all unconditional). *)
Definition in_strs (f : string) (l : list string) : bool := existsb (String.eqb f) l.
Definition always_item (it : hitem) : bool :=
  match hi_guard it, hi_form it with GNone, FValue => true | _, _ => false end.
Definition item_ok (normed : list string) (defaults : list (string * Z)) (it : hitem) : bool :=
  match hi_form it, hi_guard it with
  | FUnknown _, _ => false
  | _, GUnknown _ => false
  | FValue, GIntNotZeroNotConst d =>
      in_strs (hi_field it) normed &&
      match find (fun p => String.eqb (fst p) (hi_field it)) defaults with Some (_, d') => Z.eqb d d' | None => false end
  | FValue, GLenPositive => false
  | FValue, _ => negb (in_strs (hi_field it) normed)
  | FSortedEntries, GNone => negb (in_strs (hi_field it) normed)
  | FSortedEntries, GLenPositive => negb (in_strs (hi_field it) normed)
  | FSortedEntries, _ => false
  end.
Definition same_fmt (it j : hitem) : bool := String.eqb (hi_fmt j) (hi_fmt it).
Definition group_ok (prog : list hitem) (it : hitem) : bool :=
  let g := filter (same_fmt it) prog in
  Nat.leb (List.length g) 1 || forallb always_item g.
Definition prog_ok (normed : list string) (defaults : list (string * Z)) (prog : list hitem) (unrecognised : list string) : bool :=
  match unrecognised with [] => true | _ => false end &&
  forallb (item_ok normed defaults) prog && forallb (group_ok prog) prog.

(** zoekt.Repository, the part IndexState / MergeMutable look at. Slices and maps keep Go's nil/non-nil
    distinction where the code is sensitive to it (reflect.DeepEqual on Branches, `r.RawConfig == nil`). *)
Record repo (hashT : Type) := mkRepo {
  r_id : N;
  r_name : str;
  r_branches : option (list (str * str));      (* None = nil slice ; (name, version) *)
  r_rawconfig : option (list (str * str));     (* None = nil map *)
  r_url : str;
  r_commit_tmpl : str;
  r_file_tmpl : str;
  r_line_tmpl : str;
  r_hash : hashT;                              (* IndexOptions *)
  r_tombstone : bool
}.
Arguments mkRepo {hashT}. Arguments r_id {hashT}. Arguments r_name {hashT}. Arguments r_branches {hashT}.
Arguments r_rawconfig {hashT}. Arguments r_url {hashT}. Arguments r_commit_tmpl {hashT}.
Arguments r_file_tmpl {hashT}. Arguments r_line_tmpl {hashT}. Arguments r_hash {hashT}. Arguments r_tombstone {hashT}.

(** What findShard + ReadMetadataPathAlive deliver. *)
Inductive disk (hashT : Type) :=
| DNoShard                                        (* findShard returned "" *)
| DNotExist                                       (* os.IsNotExist(err) *)
| DReadErr                                        (* any other read error *)
| DShard (fmt feat : N) (repos : list (repo hashT)).
Arguments DNoShard {hashT}. Arguments DNotExist {hashT}. Arguments DReadErr {hashT}. Arguments DShard {hashT}.

Inductive istate := SMissing | SCorrupt | SVersion | SOption | SMeta | SContent | SEqual.
Definition istate_code (s : istate) : N :=
  match s with SMissing => 0 | SCorrupt => 1 | SVersion => 2 | SOption => 3 | SMeta => 4 | SContent => 5 | SEqual => 6 end.

Definition branch_eqb : (str * str) -> (str * str) -> bool := pair_eqb str_eqb str_eqb.
(** reflect.DeepEqual on []RepositoryBranch: nil and empty-but-non-nil differ *)
Definition branches_deep_eqb (a b : option (list (str * str))) : bool :=
  match a, b with
  | None, None => true
  | Some x, Some y => list_eqb branch_eqb x y
  | _, _ => false
  end.

Fixpoint lookup (m : list (str * str)) (k : str) : option str :=
  match m with
  | [] => None
  | (k', v) :: r => if str_eqb k' k then Some v else lookup r k
  end.
Fixpoint map_set (m : list (str * str)) (k v : str) : list (str * str) :=
  match m with
  | [] => [(k, v)]
  | (k', w) :: r => if str_eqb k' k then (k', v) :: r else (k', w) :: map_set r k v
  end.

Definition k_name : str := [110; 97; 109; 101]%N.   (* "name" *)
Definition k_id : str := [105; 100]%N.               (* "id" *)

(** One iteration of `for k, v := range x.RawConfig` of MergeMutable on (mutated, r.RawConfig). *)
Definition merge_rc_step (acc : bool * option (list (str * str))) (kv : str * str) : bool * option (list (str * str)) :=
  let '(mut, rc) := acc in
  let '(k, v) := kv in
  if str_eqb k k_name || str_eqb k k_id then acc else
  let '(mut1, m) := match rc with None => (true, []) | Some m => (mut, m) end in
  (* Go: r.RawConfig[k] != v ; a missing key reads as "" *)
  let cur := match lookup m k with Some w => w | None => [] end in
  if str_eqb cur v then (mut1, Some m) else (true, Some (map_set m k v)).

(** Repository.MergeMutable: None = error (immutable field differs); Some (mutated, r') *)
Definition merge_mutable {hashT} (r x : repo hashT) : option (bool * repo hashT) :=
  if negb (N.eqb (r_id r) (r_id x)) then None else
  if negb (str_eqb (r_name r) (r_name x)) then None else
  if negb (branches_deep_eqb (r_branches r) (r_branches x)) then None else
  let '(m0, rc) := fold_left merge_rc_step (match r_rawconfig x with None => [] | Some l => l end) (false, r_rawconfig r) in
  let m1 := m0 || negb (str_eqb (r_url r) (r_url x)) in
  let m2 := m1 || negb (str_eqb (r_commit_tmpl r) (r_commit_tmpl x)) in
  let m3 := m2 || negb (str_eqb (r_file_tmpl r) (r_file_tmpl x)) in
  let m4 := m3 || negb (str_eqb (r_line_tmpl r) (r_line_tmpl x)) in
  Some (m4, mkRepo (r_id r) (r_name r) (r_branches r) rc (r_url x) (r_commit_tmpl x) (r_file_tmpl x) (r_line_tmpl x)
                   (r_hash r) (r_tombstone r)).

Definition version_mismatch (read_versions : list (N * N)) (fmt feat : N) : bool :=
  existsb (fun v => N.eqb (fst v) fmt && negb (N.eqb (snd v) feat)) read_versions.

Section WithHash.
  Variable hashT : Type.
  Variable heqb : hashT -> hashT -> bool.
  Variable read_versions : list (N * N).

  (** Options.IndexState after findShard; [reqhash] = o.GetHash(), [desc] = o.RepositoryDescription *)
  Definition index_state_with (reqhash : hashT) (d : disk hashT) (desc : repo hashT) : istate :=
    match d with
    | DNoShard => SMissing
    | DNotExist => SMissing
    | DReadErr => SCorrupt
    | DShard fmt feat repos =>
        if version_mismatch read_versions fmt feat then SVersion else
        match find (fun c => str_eqb (r_name c) (r_name desc)) (filter (fun c => negb (r_tombstone c)) repos) with
        | None => SCorrupt
        | Some r =>
            if negb (heqb (r_hash r) reqhash) then SOption else
            if negb (branches_deep_eqb (r_branches r) (r_branches desc)) then SContent else
            match merge_mutable r desc with
            | None => SContent
            | Some (true, _) => SMeta
            | Some (false, _) => SEqual
            end
        end
    end.

  Definition skip_indexing (reqhash : hashT) (d : disk hashT) (desc : repo hashT) : bool :=
    match index_state_with reqhash d desc with SEqual => true | _ => false end.
End WithHash.

(** ---- the hash as a function of the options *)
Section WithH.
  Variable hashT : Type.
  Variable H : list token -> hashT.
  Variable prog : list hitem.

  Definition get_hash (o : opts) : hashT := H (hash_tokens prog o).

  (** The repository record a (non-delta, simple-shard) build with options [o] and description [desc] leaves in
      shard 0: newShardBuilder copies the description and sets IndexOptions := GetHash(). *)
  Definition build_record (o : opts) (desc : repo hashT) : repo hashT :=
    mkRepo (r_id desc) (r_name desc) (r_branches desc) (r_rawconfig desc) (r_url desc) (r_commit_tmpl desc)
           (r_file_tmpl desc) (r_line_tmpl desc) (get_hash o) false.
  Definition build_disk (fmt feat : N) (o : opts) (desc : repo hashT) : disk hashT :=
    DShard fmt feat [build_record o desc].
End WithH.

(** The hashed part of index.Options as a typed record, and its generic form. *)
Record hopts := mkHopts {
  ho_ctags_path : str; ho_ctags_must_succeed : bool; ho_size_max : Z; ho_large_files : list str;
  ho_disable_ctags : bool; ho_trigram_max : Z; ho_scip_ctags_path : str; ho_language_map : list (str * N)
}.
Definition to_opts (r : hopts) : opts :=
  [("CTagsPath"%string, VStr (ho_ctags_path r)); ("CTagsMustSucceed"%string, VBool (ho_ctags_must_succeed r));
   ("SizeMax"%string, VInt (ho_size_max r)); ("LargeFiles"%string, VStrs (ho_large_files r));
   ("DisableCTags"%string, VBool (ho_disable_ctags r)); ("TrigramMax"%string, VInt (ho_trigram_max r));
   ("ScipCTagsPath"%string, VStr (ho_scip_ctags_path r)); ("LanguageMap"%string, VMap (ho_language_map r))].

(** ---- correspondence runner.
    Hash values are interned by the harness (equal hex strings <-> equal numbers). *)
Definition crepo := repo N.
Inductive c38case :=
| StateCase (d : disk N) (reqhash : N) (desc : crepo) (observed_state : N)
    (* real IndexState on a real index dir: disk = what ReadMetadataPathAlive returned *)
| HashCase (o1 o2 : opts) (go_hashes_equal : bool)
    (* GetHash of two option sets: equal hashes <-> equal model token lists *)
| MergeCase (r x : crepo) (observed : option (bool * crepo))
    (* Repository.MergeMutable *)
| BuildCase (o : opts) (desc : crepo) (stored : crepo) (stored_hash_is_gethash : bool)
    (* a real build: the record read back from shard 0 is build_record (hash compared on the Go side) *)
| ByteCase (r : hopts) (quotes : list (str * list N)) (ref : list N) (ref_sha1_is_gethash quote_shape_ok : bool).
    (* the BYTES GetHash hashes (checked by Model/HashBytes.v: c38_mismatches_all): [ref] = the bytes a reference
       encoder on the Go side (strconv only, no fmt) produces for the option record, whose SHA-1 the harness compared
       with the real GetHash(); [quotes] = strconv.Quote of every string occurring, without the surrounding quotes *)

Definition ostr_list_eqb (a b : option (list (str * str))) : bool :=
  match a, b with
  | None, None => true
  | Some x, Some y => list_eqb (pair_eqb str_eqb str_eqb) x y
  | _, _ => false
  end.

(* maps are compared as sorted association lists; the harness emits keys sorted and the model keeps
   insertion order for new keys, so normalise by sorting is avoided: compare as sets *)
Definition map_subset (a b : list (str * str)) : bool :=
  forallb (fun kv => match lookup b (fst kv) with Some w => str_eqb w (snd kv) | None => false end) a.
Definition omap_eqb (a b : option (list (str * str))) : bool :=
  match a, b with
  | None, None => true
  | Some x, Some y => map_subset x y && map_subset y x
  | _, _ => false
  end.

Definition crepo_eqb (with_hash : bool) (a b : crepo) : bool :=
  N.eqb (r_id a) (r_id b) && str_eqb (r_name a) (r_name b) && branches_deep_eqb (r_branches a) (r_branches b)
  && omap_eqb (r_rawconfig a) (r_rawconfig b) && str_eqb (r_url a) (r_url b)
  && str_eqb (r_commit_tmpl a) (r_commit_tmpl b) && str_eqb (r_file_tmpl a) (r_file_tmpl b)
  && str_eqb (r_line_tmpl a) (r_line_tmpl b) && (negb with_hash || N.eqb (r_hash a) (r_hash b))
  && Bool.eqb (r_tombstone a) (r_tombstone b).

Section Runner.
  Variables (prog : list hitem) (read_versions : list (N * N)).

  Definition c38_ok (c : c38case) : bool :=
    match c with
    | StateCase d h desc obs => N.eqb (istate_code (index_state_with N N.eqb read_versions h d desc)) obs
    | HashCase o1 o2 eq =>
        Bool.eqb (list_eqb token_eqb (hash_tokens prog o1) (hash_tokens prog o2)) eq
    | MergeCase r x obs =>
        match merge_mutable r x, obs with
        | None, None => true
        | Some (m, r'), Some (m', r'') => Bool.eqb m m' && crepo_eqb true r' r''
        | _, _ => false
        end
    | BuildCase o desc stored hash_ok =>
        hash_ok && crepo_eqb false (build_record N (fun _ => 0%N) prog o desc) stored
    | ByteCase _ _ _ _ _ => true   (* checked by Model/HashBytes.v *)
    end.
  Definition c38_mismatches_with (cs : list c38case) : list N := bad_indexes c38_ok cs.
End Runner.

(** ---- instantiation with the lists generated from the checked tree *)
From ZV Require Generated.HashFields.
Definition normed_fields : list string := normed_of HashFields.int_defaults HashFields.hash_prog.
Definition c38_mismatches : list c38case -> list N :=
  c38_mismatches_with HashFields.hash_prog HashFields.read_versions.
