(** C09 — executable model of index/btree.go: the ngram B+-tree that is rebuilt at load time from the ngramText
    section (insert in file order, freeze), find, and btreeIndex.Get / getBucket / getPostingList.
    Leaves do not store keys (only their size and the key to push up on a split), exactly as in the Go code. *)
From ZV Require Import Lib.Base Lib.Varint Model.Format.
Open Scope N_scope.

Inductive node :=
| Leaf (bucketSize : nat) (splitKey : N)
| Inner (keys : list N) (children : list node).

Fixpoint list_max (l : list nat) : nat := match l with [] => 0%nat | x :: r => Nat.max x (list_max r) end.
Fixpoint list_sum (l : list nat) : nat := match l with [] => 0%nat | x :: r => (x + list_sum r)%nat end.

Fixpoint height (n : node) : nat :=
  match n with
  | Leaf _ _ => 0%nat
  | Inner _ cs => S (list_max (map height cs))
  end.

(** number of leaves / total size of the leaves, in visit order (what freeze accumulates) *)
Fixpoint nleaves (n : node) : nat :=
  match n with
  | Leaf _ _ => 1%nat
  | Inner _ cs => list_sum (map nleaves cs)
  end.
Fixpoint nsizes (n : node) : nat :=
  match n with
  | Leaf bs _ => bs
  | Inner _ cs => list_sum (map nsizes cs)
  end.

(** leaf.maybeSplit / innerNode.maybeSplit *)
Definition maybe_split (bsz v : nat) (n : node) : option (node * node * N) :=
  match n with
  | Leaf bs sk => if (bs <? bsz)%nat then None else Some (Leaf (bsz / 2) 0, Leaf (bsz / 2) 0, sk)
  | Inner keys cs =>
    if (length cs <? 2 * v)%nat then None
    else Some (Inner (firstn (v - 1) keys) (firstn v cs), Inner (skipn v keys) (skipn v cs), nth (v - 1) keys 0)
  end.

(** for i, k := range keys { if ng < k { insertAt(i) } }; insertAt(len(children)-1) *)
Fixpoint slot (ng : N) (keys : list N) (nchildren i : nat) : nat :=
  match keys with
  | [] => (nchildren - 1)%nat
  | k :: r => if ng <? k then i else slot ng r nchildren (S i)
  end.

Fixpoint upd {A} (i : nat) (f : A -> A) (l : list A) : list A :=
  match l, i with
  | [], _ => []
  | x :: r, O => f x :: r
  | x :: r, S j => x :: upd j f r
  end.

(** node.insert; fuel >= height + 1 *)
Fixpoint insert_f (fuel bsz v : nat) (ng : N) (n : node) : node :=
  match fuel with
  | O => n
  | S f =>
    match n with
    | Leaf bs sk => Leaf (S bs) (if Nat.eqb (S bs) (bsz / 2 + 1) then ng else sk)
    | Inner keys cs =>
      let i := slot ng keys (length cs) 0 in
      match nth_error cs i with
      | None => n
      | Some c =>
        match maybe_split bsz v c with
        | Some (l, r, k) =>
          let keys' := firstn i keys ++ k :: skipn i keys in
          let cs' := firstn i cs ++ l :: r :: skipn (S i) cs in
          let i' := if ng <? k then i else S i in
          Inner keys' (upd i' (insert_f f bsz v ng) cs')
        | None => Inner keys (upd i (insert_f f bsz v ng) cs)
        end
      end
    end
  end.

(** btree.insert: split the root first when it is full *)
Definition bt_insert (bsz v : nat) (root : node) (ng : N) : node :=
  let root' := match maybe_split bsz v root with
               | Some (l, r, k) => Inner [k] [l; r]
               | None => root
               end in
  insert_f (S (height root')) bsz v ng root'.

Definition bt_build (bsz v : nat) (keys : list N) : node := fold_left (bt_insert bsz v) keys (Leaf 0 0).

(** innerNode.find: for i, k := range keys { if ng < k { return children[i].find } }; children[len-1].find.
    [r] pairs every child with (its find result, its leaf count, its total size). *)
Fixpoint find_go (ng : N) (ks : list N) (l : list ((nat * nat) * (nat * nat))) : nat * nat :=
  match l with
  | [] => (0%nat, 0%nat)
  | [(fc, _)] => fc
  | (fc, (nl, ns)) :: r =>
    match ks with
    | k :: ks' => if ng <? k then fc
                  else let '(a, b) := find_go ng ks' r in ((nl + a)%nat, (ns + b)%nat)
    | [] => let '(a, b) := find_go ng [] r in ((nl + a)%nat, (ns + b)%nat)
    end
  end.

(** btree.find after freeze: (bucketIndex, postingIndexOffset) of the leaf reached = number / total size of the
    leaves visited before it *)
Fixpoint find (n : node) (ng : N) : nat * nat :=
  match n with
  | Leaf _ _ => (0%nat, 0%nat)
  | Inner keys cs => find_go ng keys (map (fun c => (find c ng, (nleaves c, nsizes c))) cs)
  end.

Definition last_bucket_index (root : node) : Z := (Z.of_nat (nleaves root) - 1)%Z.

(** sort.Search *)
Fixpoint bsearch_loop (fuel i j : nat) (f : nat -> bool) : nat :=
  match fuel with
  | O => i
  | S k => if (i <? j)%nat
           then let h := Nat.div2 (i + j) in
                if f h then bsearch_loop k i h f else bsearch_loop k (S h) j f
           else i
  end.
Definition bsearch (n : nat) (f : nat -> bool) : nat := bsearch_loop n 0 n f.

(** the loaded index: tree + the two sections it points into *)
Record btindex := mkBt { bt_root : node; bt_bsz : nat; bt_ngramSec : N * N; bt_postingIndex : N * N }.

(** newBtreeIndex *)
Definition new_btree_index (bsz v : nat) (ngramText : list N) (ngramSec postingIndex : N * N) : btindex :=
  mkBt (bt_build bsz v (words 8 ngramText)) bsz ngramSec postingIndex.

(** getBucket (uint32 arithmetic) *)
Definition get_bucket (b : btindex) (bucketIndex : nat) : N * N :=
  let sz := (N.of_nat (bt_bsz b / 2) * 8) mod W32 in
  let off := (fst (bt_ngramSec b) + N.of_nat bucketIndex * sz) mod W32 in
  if (Z.of_nat bucketIndex =? last_bucket_index (bt_root b))%Z
  then (off, (fst (bt_ngramSec b) + snd (bt_ngramSec b) + W32 - off) mod W32)
  else (off, sz).

(** getPostingList *)
Definition get_posting_list (f : ifile) (b : btindex) (ngramIndex : nat) : N * N :=
  let rel := (N.of_nat ngramIndex * 4) mod W32 in
  let '(pioff, pisz) := bt_postingIndex b in
  if (rel + 8) mod W32 <=? pisz then
    match file_read f ((pioff + rel) mod W32) 8 with
    | Ok o => let s := be_get (firstn 4 o) in let e := be_get (skipn 4 o) in (s, (e + W32 - s) mod W32)
    | _ => (0, 0)
    end
  else
    match file_read f ((pioff + rel) mod W32) 4 with
    | Ok o => let s := be_get o in (s, (pioff + W32 - s) mod W32)
    | _ => (0, 0)
    end.

(** btreeIndex.Get: the simpleSection (off, sz) of ng's posting list, (0,0) when absent *)
Definition btree_get (f : ifile) (b : btindex) (ng : N) : N * N :=
  let '(bi, po) := find (bt_root b) ng in
  let '(off, sz) := get_bucket b bi in
  match file_read f off sz with
  | Ok bucket =>
    let n := (length bucket / 8)%nat in
    let gram (i : nat) := be_get (firstn 8 (skipn (i * 8) bucket)) in
    let x := bsearch n (fun i => ng <=? gram i) in
    if (n <=? x)%nat || negb (gram x =? ng) then (0, 0) else get_posting_list f b (po + x)
  | _ => (0, 0)
  end.
