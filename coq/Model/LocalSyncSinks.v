(** C33: the file-system-mutating calls of cmd/zoekt-local-sync the op alphabet of Model/LocalSync.v was written from.
    Generated/LocalSyncSinks.v is regenerated from the checked tree on every run (go/ast, see
    harness/overlay/cmd/zoekt-local-sync/zz_verif_c33gen_test.go); Props/C33.v compares it with this table, so a new or
    differently guarded mutation in the package (or a build call in front of indexGitRepo's DryRun gate) breaks the
    check until the model is reviewed.

      op of the model            sink                                          reached without -f?
      OpMkdirAll, OpLockFile     acquireDirectoryLock: os.MkdirAll, os.OpenFile   no: callers guard with config.force / *force
      OpRemoveShard              removeShard: os.Remove (shard + .meta sidecar)   no: applyRemovals calls it after `if dryRun {..; continue}`,
                                                                                  dryRun = !config.force / !*force
      OpBuild                    indexRepositories: gitindex.IndexGitRepo         called in both modes with DryRun: !config.force;
                                                                                  indexGitRepo returns at `if opts.DryRun` before any
                                                                                  building call ([expected_gate]) *)
From Coq Require Import String List.
Import ListNotations.
Local Open Scope string_scope.

Definition expected_sinks : list (string * string * string) := [
  ("acquireDirectoryLock", "os.MkdirAll", "");
  ("acquireDirectoryLock", "os.OpenFile", "");
  ("indexRepositories", "gitindex.IndexGitRepo", "");
  ("removeShard", "os.Remove", "") ].

Definition expected_sink_calls : list (string * string * string * string) := [
  ("applyRemovals", "removeShard", "!(dryRun)", "");
  ("execute", "runSync", "", "");
  ("execute", "runRemove", "", "");
  ("execute", "runSync", "", "");
  ("main", "execute", "", "");
  ("removeRepositories", "applyRemovals", "", "dryRun");
  ("runRemove", "acquireDirectoryLock", "*force", "");
  ("runRemove", "removeRepositories", "", "!*force");
  ("runSync", "acquireDirectoryLock", "config.force", "");
  ("runSync", "applyRemovals", "", "!config.force");
  ("runSync", "indexRepositories", "", "DryRun: !config.force") ].

Definition expected_gate : bool * list string := (true, []).
