(** Model of the file-system program of one index build of one repository:
    index/builder.go  Builder.flush/buildShard/writeShard (temp shards), Builder.Finish (delta sidecars via
    JsonMarshalRepoMetaTemp, the rename loop over the artifact map, the toDelete loop with SetTombstone for
    compound shards) — on the tiny file system of Model/FsOps.v.

    What is modelled
      * the build parameters [build]: full or delta; number of old regular shards and which of them have a
        ".meta" sidecar; number of new shards; whether the repository lives in a compound shard (only looked at
        when there is no regular shard: Options.FindAllShards), whether that compound shard has a sidecar;
        Options.ShardMerging;
      * phase W (everything before the rename loop): ANY list of operations that touch temp names only
        ([tmp_only]); [write_phase] is the sequential instance (Parallelism = 1).  Shards built in parallel, partial
        writes, failing writes and the removal of temps after an error are all instances;
      * phase R: `for tmp, final := range artifactPaths { os.Rename }` in ANY order [ro] (Go map iteration), each
        rename may fail ([rf]); a failed rename sets buildError and leaves [final] in toDelete;
      * phase D: `for p := range toDelete` in ANY order [dl]: os.Remove (may fail: [df]) or, with ShardMerging, for a
        compound shard SetTombstone = CreateTemp + write + Rename of its sidecar ([tf]: CreateTemp / write / Rename
        fails), nothing for the compound shard's ".meta";
      * Finish's result: buildError after the loops ([finish_err]; [delete_err_fold true] is the code before the
        repair `fix: Builder.Finish keeps the first error`, where `b.buildError = err` after SetTombstone overwrote
        earlier errors).
    Trusted / not modelled: reads (Stat, ReadMetadataPathAlive) never fail; IndexFilePaths' Stat error path;
    delta error returns for inconsistent metadata (branch set / option hash / compound) — they happen before any
    visible name is touched. *)
From ZV Require Import Lib.Base Model.FsOps.

Record build := mkBuild {
  b_delta : bool;          (* Options.IsDelta *)
  b_nold : nat;            (* regular shards 0..nold-1 of the previous index *)
  b_oldmeta : list nat;    (* which of them have a ".meta" sidecar *)
  b_nnew : nat;            (* shards produced by this build *)
  b_comp : bool;           (* the repository is alive in a compound shard *)
  b_compmeta : bool;       (* that compound shard already has a ".meta" *)
  b_merging : bool         (* Options.ShardMerging *)
}.

Definition memn (n : nat) (l : list nat) : bool := existsb (Nat.eqb n) l.
Definition memname (x : name) (l : list name) : bool := existsb (name_eqb x) l.

(** the directory before the build *)
Definition fs0 (b : build) : fs := fun x =>
  match x with
  | Shard (SReg n) => if n <? b_nold b then Some (Data GOld) else None
  | Meta (SReg n) => if (n <? b_nold b) && memn n (b_oldmeta b) then Some (Data GOld) else None
  | Shard SComp => if b_comp b then Some (Data GOld) else None
  | Meta SComp => if b_comp b && b_compmeta b then Some (Data GOld) else None
  | _ => None
  end.

(** NewBuilder: delta shards are numbered after the existing ones *)
Definition first_new (b : build) : nat := if b_delta b then b_nold b else 0.
(** final names of artifactPaths: the new shards, plus (delta) one sidecar per old shard *)
Definition artifacts (b : build) : list name :=
  map (fun n => Shard (SReg n)) (seq (first_new b) (b_nnew b)) ++
  (if b_delta b then map (fun n => Meta (SReg n)) (seq 0 (b_nold b)) else []).

(** IndexFilePaths of every shard FindAllShards returns *)
Definition old_files (b : build) : list name :=
  if 0 <? b_nold b
  then flat_map (fun n => Shard (SReg n) :: (if memn n (b_oldmeta b) then [Meta (SReg n)] else [])) (seq 0 (b_nold b))
  else if b_comp b then Shard SComp :: (if b_compmeta b then [Meta SComp] else []) else [].
Definition todel0 (b : build) : list name := if b_delta b then [] else old_files b.

(** ---- phase R *)
Definition rename_ops (ro : list name) (rf : name -> bool) : list xop :=
  map (fun a => (ORename (tmp_of a) a, negb (rf a))) ro.
(** toDelete after the loop: `delete(toDelete, final)` for every rename that succeeded *)
Definition todel_after (b : build) (ro : list name) (rf : name -> bool) : list name :=
  filter (fun x => negb (existsb (fun a => name_eqb x a && negb (rf a)) ro)) (todel0 b).

(** ---- phase D *)
Inductive tfault := TNone | TCreate | TWrite | TRename.
Definition tomb_ops (tf : tfault) : list xop * bool :=
  let t := TmpMeta SComp in
  match tf with
  | TCreate => ([(OCreateTmp t, false)], true)
  | TWrite => ([(OCreateTmp t, true); (OWrite t Partial, false); (ORemove t, true)], true)
  | TRename => ([(OCreateTmp t, true); (OWrite t (Data GNew), true); (ORename t (Meta SComp), false); (ORemove t, true)], true)
  | TNone => ([(OCreateTmp t, true); (OWrite t (Data GNew), true); (ORename t (Meta SComp), true)], false)
  end.
Definition is_comp_name (x : name) : bool := match x with Shard SComp | Meta SComp => true | _ => false end.
Definition is_tomb_step (b : build) (p : name) : bool := b_merging b && name_eqb p (Shard SComp).
(** one iteration of the toDelete loop: operations and "this iteration produced an error" *)
Definition del_step (b : build) (df : name -> bool) (tf : tfault) (p : name) : list xop * bool :=
  if b_merging b && is_comp_name p
  then (if name_eqb p (Shard SComp) then tomb_ops tf else ([], false))
  else ([(ORemove p, negb (df p))], df p).
Definition delete_ops (b : build) (dl : list name) (df : name -> bool) (tf : tfault) : list xop :=
  flat_map (fun p => fst (del_step b df tf p)) dl.
(** buildError through the loop.  overwrite = true: `b.buildError = err` after SetTombstone (before the repair);
    overwrite = false: `if err != nil { b.buildError = err }` (current code). *)
Definition delete_err_fold (overwrite : bool) (b : build) (dl : list name) (df : name -> bool) (tf : tfault)
           (err0 : bool) : bool :=
  fold_left (fun e p => let ep := snd (del_step b df tf p) in
                        if overwrite && is_tomb_step b p then ep else e || ep) dl err0.

(** After the rename loop: `if b.buildError != nil { return b.buildError }` — when a rename failed the toDelete loop is
    skipped altogether (repair `fix: Builder.Finish keeps the old shards when a new shard could not be renamed into
    place`): the old file of a name whose rename failed is still in toDelete, removing it would leave the repository
    (partly) unindexed.  [skip = false] is the code before that repair. *)
Definition finish_ops_gen (skip : bool) (b : build) (ro dl : list name) (rf df : name -> bool) (tf : tfault) : list xop :=
  rename_ops ro rf ++ (if skip && existsb rf ro then [] else delete_ops b dl df tf).
Definition finish_err_gen (skip overwrite : bool) (b : build) (ro dl : list name) (rf df : name -> bool) (tf : tfault) : bool :=
  if skip && existsb rf ro then true else delete_err_fold overwrite b dl df tf (existsb rf ro).

Definition finish_ops : build -> list name -> list name -> (name -> bool) -> (name -> bool) -> tfault -> list xop :=
  finish_ops_gen true.
Definition finish_err : build -> list name -> list name -> (name -> bool) -> (name -> bool) -> tfault -> bool :=
  finish_err_gen true false.
(** the code before the two repairs (d380a28: guarded assignment after SetTombstone; and the skip above) *)
Definition finish_ops_before_fix := finish_ops_gen false.
Definition finish_err_before_fix := finish_err_gen false true.
(** between the two repairs: guarded assignment, no skip *)
Definition finish_err_noskip := finish_err_gen false false.

(** ---- orphan sidecars.  A run killed between removing a shard and removing its ".meta" (Finish's toDelete loop in map
    order, zoekt-merge-index, the indexserver's cleanup) leaves a sidecar WITHOUT shard.  Nothing reads it, but a later
    build that writes a shard under that name would have it adopted: [fs0o b orph] = the directory before the build with
    such sidecars at the slots [orph] (only slots >= b_nold: below, shard and sidecar are described by [fs0]).  Finish
    (repair `fix: Builder.Finish removes a left-over .meta ...`) removes, before the rename loop, the sidecar of every new
    shard's name at which no shard exists ([is_new_slot]); [po] = the order (map iteration), [pf] = which removals fail
    (a failure sets buildError: the toDelete loop is skipped like after a failed rename). *)
Definition fs0o (b : build) (orph : list nat) : fs := fun x =>
  match x with
  | Meta (SReg n) => if (b_nold b <=? n) && memn n orph then Some (Data GOld) else fs0 b x
  | _ => fs0 b x
  end.
Definition is_new_slot (b : build) (n : nat) : bool := (b_nold b <=? n) && memname (Shard (SReg n)) (artifacts b).
Definition orphan_ops (po : list nat) (pf : nat -> bool) : list xop :=
  map (fun n => (ORemove (Meta (SReg n)), negb (pf n))) po.
Definition finish_ops_o (b : build) (po : list nat) (pf : nat -> bool) (ro dl : list name) (rf df : name -> bool) (tf : tfault) : list xop :=
  orphan_ops po pf ++ rename_ops ro rf ++ (if existsb pf po || existsb rf ro then [] else delete_ops b dl df tf).
(** the part after the orphan removal; [e0] = a removal failed *)
Definition finish_tail (b : build) (e0 : bool) (ro dl : list name) (rf df : name -> bool) (tf : tfault) : list xop :=
  rename_ops ro rf ++ (if e0 || existsb rf ro then [] else delete_ops b dl df tf).
Definition finish_err_o (b : build) (po : list nat) (pf : nat -> bool) (ro dl : list name) (rf df : name -> bool) (tf : tfault) : bool :=
  if existsb pf po || existsb rf ro then true else delete_err_fold false b dl df tf false.
(** the code before that repair: nothing is removed before the rename loop *)
Definition finish_ops_o_before_fix (b : build) (ro dl : list name) (rf df : name -> bool) (tf : tfault) : list xop :=
  finish_ops b ro dl rf df tf.

(** ---- phase W, sequential instance *)
Definition write_shard (s : slot) : list xop :=
  [(OMkdirAll, true); (OCreateTmp (TmpShard s), true); (OWrite (TmpShard s) Partial, true); (OWrite (TmpShard s) (Data GNew), true)].
Definition write_meta (s : slot) : list xop :=
  [(OCreateTmp (TmpMeta s), true); (OWrite (TmpMeta s) Partial, true); (OWrite (TmpMeta s) (Data GNew), true)].
Definition write_phase (b : build) : list xop :=
  flat_map (fun n => write_shard (SReg n)) (seq (first_new b) (b_nnew b)) ++
  (if b_delta b then flat_map (fun n => write_meta (SReg n)) (seq 0 (b_nold b)) else []).
(** what the rename loop relies on: every artifact's temp file is complete *)
Definition tmps_ready (b : build) (f : fs) : Prop := forall a, In a (artifacts b) -> f (tmp_of a) = Some (Data GNew).

(** ---- the two legitimate views *)
Definition view_old (b : build) : view := visible (fs0 b).
Definition view_new (b : build) : view := fun s =>
  match s with
  | SReg n =>
      if b_delta b
      then (if n <? b_nold b then Some (Data GOld, Some (Data GNew))
            else if n <? b_nold b + b_nnew b then Some (Data GNew, None) else None)
      else (if n <? b_nnew b then Some (Data GNew, None) else None)
  | SComp =>
      if b_delta b || (0 <? b_nold b) || negb (b_comp b) then view_old b SComp
      else if b_merging b then Some (Data GOld, Some (Data GNew)) else None
  end.

(** well-formed builds: a full build always writes shard 0 (flush with no documents still builds shard 0);
    a delta build needs an existing regular index (otherwise gitindex falls back / Finish returns an error). *)
Definition build_wf (b : build) : Prop :=
  (b_delta b = false -> 1 <= b_nnew b) /\ (b_delta b = true -> 1 <= b_nold b).

(** ---- correspondence runner.
    case = (build, executed operations as logged by the fsinstrument shim (+ the write of every temp file it cannot
    see), killed?, Finish returned an error?, the loader's view as (slot code, shard code, sidecar code) rows) *)
Definition c12case := (build * list nat * list xop * bool * bool * list (N * N * N))%type.

Fixpoint span_tmp (l : list xop) : list xop * list xop :=
  match l with
  | [] => ([], [])
  | o :: r => if tmp_only o then let '(a, c) := span_tmp r in (o :: a, c) else ([], l)
  end.
(** the leading removals of sidecars at new shards' names where no shard exists *)
Fixpoint span_orph (b : build) (l : list xop) : list xop * list xop :=
  match l with
  | (ORemove (Meta (SReg n)), r) :: rest =>
      if is_new_slot b n then let '(a, c) := span_orph b rest in ((ORemove (Meta (SReg n)), r) :: a, c) else ([], l)
  | _ => ([], l)
  end.
Definition obs_po (p : list xop) : list nat :=
  flat_map (fun o => match fst o with ORemove (Meta (SReg n)) => [n] | _ => [] end) p.
Definition obs_pf (p : list xop) (n : nat) : bool :=
  existsb (fun o => match o with (ORemove (Meta (SReg m)), false) => Nat.eqb m n | _ => false end) p.
Fixpoint nodupn (l : list nat) : bool := match l with [] => true | x :: r => negb (memn x r) && nodupn r end.
Definition subsetn (l m : list nat) : bool := forallb (fun x => memn x m) l.
Definition permn (l m : list nat) : bool := nodupn l && nodupn m && subsetn l m && subsetn m l.
Definition is_remove (o : xop) : bool := match fst o with ORemove _ => true | _ => false end.

Definition obs_ro (rd : list xop) : list name :=
  flat_map (fun o => match fst o with ORename _ b => if is_tmp b || name_eqb b (Meta SComp) then [] else [b] | _ => [] end) rd.
Definition obs_rf (rd : list xop) (x : name) : bool :=
  existsb (fun o => match o with (ORename _ b, false) => name_eqb b x | _ => false end) rd.
Definition obs_do (rd : list xop) : list name :=
  flat_map (fun o => match fst o with
                     | ORemove p => if is_tmp p then [] else [p]
                     | OCreateTmp t => if name_eqb t (TmpMeta SComp) then [Shard SComp] else []
                     | _ => [] end) rd.
Definition obs_df (rd : list xop) (x : name) : bool :=
  existsb (fun o => match o with (ORemove p, false) => name_eqb p x | _ => false end) rd.
Definition obs_tf (rd : list xop) : tfault :=
  if existsb (fun o => match o with (OCreateTmp t, false) => name_eqb t (TmpMeta SComp) | _ => false end) rd then TCreate
  else if existsb (fun o => match o with (OWrite t _, false) => name_eqb t (TmpMeta SComp) | _ => false end) rd then TWrite
  else if existsb (fun o => match o with (ORename t _, false) => name_eqb t (TmpMeta SComp) | _ => false end) rd then TRename
  else TNone.

Fixpoint nodupb (l : list name) : bool :=
  match l with [] => true | x :: r => negb (memname x r) && nodupb r end.
Definition subsetb (l m : list name) : bool := forallb (fun x => memname x m) l.
Definition perm_eqb (l m : list name) : bool := nodupb l && nodupb m && subsetb l m && subsetb m l.
Definition complete_order (obs all : list name) : list name := obs ++ filter (fun x => negb (memname x obs)) all.
Definition view_bound (b : build) : nat := b_nold b + b_nnew b + 2.
Definition rows_eqb (a b : list (N * N * N)) : bool :=
  list_eqb (fun x y => match x, y with (a1, a2, a3), (b1, b2, b3) => N.eqb a1 b1 && N.eqb a2 b2 && N.eqb a3 b3 end) a b.

Definition c12_ok (c : c12case) : bool :=
  let '(b, orph, obs, killed, err, vw) := c in
  let '(w, rd0) := span_tmp obs in
  let '(p, rd) := span_orph b rd0 in
  let po := obs_po p in let pf := obs_pf p in
  let exp := filter (is_new_slot b) orph in
  let e0 := existsb pf po in
  let w_ok := forallb (fun o => snd o || is_remove o) w in
  let view_ok := rows_eqb (view_codes (view_bound b) (apply_ops obs (fs0o b orph))) vw in
  let rf := obs_rf rd in let df := obs_df rd in let tf := obs_tf rd in
  let ro := obs_ro rd in let dl := obs_do rd in
  let ready := forallb (fun a => existsb (xop_eqb (OCreateTmp (tmp_of a), true)) w &&
                                 existsb (xop_eqb (OWrite (tmp_of a) (Data GNew), true)) w) (artifacts b) in
  view_ok &&
  if negb w_ok then
    (* an operation of phase W failed: nothing is installed; Finish reports the error *)
    match rd0 with [] => killed || err | _ => false end
  else if killed then
    let ro' := complete_order ro (artifacts b) in
    let td := todel_after b ro' rf in
    (* the compound shard's sidecar is in toDelete but its iteration performs no operation *)
    let dl' := complete_order dl td in
    nodupn po && subsetn po exp && list_eqb xop_eqb p (orphan_ops po pf) &&
    (match rd with [] => true | _ => permn po exp end) &&
    nodupb ro && subsetb ro (artifacts b) &&
    nodupb dl && subsetb dl td &&
    (match dl with [] => true | _ => Nat.eqb (length ro) (length (artifacts b)) end) &&
    (match rd0 with [] => true | _ => ready end) &&
    list_eqb xop_eqb rd (firstn (length rd) (finish_tail b e0 ro' dl' rf df tf))
  else
    let td := todel_after b ro rf in
    let dl' := complete_order dl td in
    ready && permn po exp && list_eqb xop_eqb p (orphan_ops po pf) &&
    perm_eqb ro (artifacts b) && perm_eqb dl' td &&
    list_eqb xop_eqb rd (finish_tail b e0 ro dl' rf df tf) &&
    Bool.eqb err (finish_err_o b po pf ro dl' rf df tf).

Definition c12_mismatches (cs : list c12case) : list N := bad_indexes c12_ok cs.

(** ---- order of the file-system call sites in the source, as the translator lists them
    (translator/finishops -> Generated/FinishSites.v).  Each entry: function, call, context (enclosing
    range loops / if / error-guard, innermost last). *)
Require Import Coq.Strings.String.
Open Scope string_scope.
Definition expected_sites : list (string * string * string) := [
  ("Finish", "return", "if");                      (* finishCalled *)
  (* Finish: an error of phase W removes the temps and returns *)
  ("Finish", "os.Remove", "iferr/range");
  ("Finish", "return", "iferr");
  (* delta: one sidecar temp per old shard *)
  ("Finish", "JsonMarshalRepoMetaTemp", "if/range");
  ("Finish", "return", "if");                      (* nothing to install *)
  (* a left-over sidecar at a new shard's name where no shard exists is removed first ([orphan_ops]) *)
  ("Finish", "os.Remove", "range/if");
  ("Finish", "buildError=", "range/if/iferr");
  (* non-delta: IndexFilePaths error (not modelled: Stat never fails) *)
  ("Finish", "buildError=", "if/range/iferr");
  (* phase R, then (unless a rename failed: [finish_ops_gen true]) phase D — this order is what
     [finish_ops] = rename_ops ++ (if a rename failed then [] else delete_ops) encodes *)
  ("Finish", "os.Rename", "range");
  ("Finish", "buildError=", "range/iferr");
  ("Finish", "return", "iferr");                   (* a rename failed: the toDelete loop is skipped *)
  ("Finish", "SetTombstone", "range/if");
  ("Finish", "buildError=", "range/if/iferr");     (* guarded: [delete_err_fold false] *)
  ("Finish", "os.Remove", "range");
  ("Finish", "buildError=", "range/iferr");
  (* writeShard: everything happens on the CreateTemp handle ([write_shard]) *)
  ("writeShard", "os.MkdirAll", "");
  ("writeShard", "os.CreateTemp", "");
  ("writeShard", "f.Chmod", "if");
  ("writeShard", "f.Close", "defer");
  ("writeShard", "ib.Write", "");
  ("writeShard", "f.Close", "");
  (* JsonMarshalRepoMetaTemp ([write_meta]; the temp is removed on error) *)
  ("JsonMarshalRepoMetaTemp", "os.CreateTemp", "");
  ("JsonMarshalRepoMetaTemp", "f.Close", "defer/func");
  ("JsonMarshalRepoMetaTemp", "os.Remove", "defer/func/iferr");
  ("JsonMarshalRepoMetaTemp", "f.Chmod", "");
  ("JsonMarshalRepoMetaTemp", "f.Write", "");
  (* setTombstone ([tomb_ops]) *)
  ("setTombstone", "JsonMarshalRepoMetaTemp", "");
  ("setTombstone", "os.Rename", "");
  ("setTombstone", "os.Remove", "iferr")
].
Close Scope string_scope.

