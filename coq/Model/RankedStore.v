(** Model of the memory behind `shardedSearcher.ranked` (search/shards.go): Go slices are (address, length)
    headers into a store of backing arrays, so that ALIASING is explicit.  getLoaded hands the current header to
    a search (Search / StreamSearch / List iterate over it for as long as they run); replace publishes a new list.

    [publish_cow] is what replace does: `ranked := make([]*rankedShard, 0, len(s.shards))`, append, sort,
    `s.ranked.Store(ranked)` — a FRESH backing array per publication (copy-on-write).
    [publish_reuse] is the allocation-saving variant replace does NOT use: refill the backing array of the
    previously published list when its capacity suffices (`ranked = ranked[:0]; append ...`).  It is in the model
    only to show what the theorem [held_snapshot_immutable] excludes (see the `_refuted` Example in Props/C19.v).

    Reads are checked (option): an address outside the store or a length beyond the array's capacity is None,
    no default hides it. *)
From ZV Require Import Lib.Base.

Record shdr := mkSl { sl_addr : nat; sl_len : nat }.

Section Store.
  Context {A : Type}.

  (** store[addr] = backing array; its length is the array's capacity (arrays are never resized) *)
  Definition store := list (list A).

  (** what iterating over a held slice header sees NOW *)
  Definition read (h : store) (s : shdr) : option (list A) :=
    match nth_error h (sl_addr s) with
    | Some arr => if sl_len s <=? length arr then Some (firstn (sl_len s) arr) else None
    | None => None
    end.

  Record ranked_state := mkRS {
    rs_store : store;
    rs_ranked : shdr             (* the header stored in the atomic.Value `ranked` *)
  }.
  (** before the first replace `ranked` holds no list: getLoaded returns a nil slice (address 0 = the empty array) *)
  Definition rs_init : ranked_state := mkRS [[]] (mkSl 0 0).

  (** getLoaded: the header, not a copy of the elements ("Shared so do not mutate") *)
  Definition get_loaded (st : ranked_state) : shdr := rs_ranked st.

  Definition publish_cow (st : ranked_state) (v : list A) : ranked_state :=
    mkRS (rs_store st ++ [v]) (mkSl (length (rs_store st)) (length v)).

  Fixpoint set_nth {B} (n : nat) (x : B) (l : list B) : list B :=
    match l, n with
    | [], _ => []
    | _ :: r, O => x :: r
    | y :: r, S n' => y :: set_nth n' x r
    end.

  (** in-place reuse: the first [length v] cells are overwritten, the cells behind keep their old (stale) values *)
  Definition publish_reuse (st : ranked_state) (v : list A) : ranked_state :=
    let a := sl_addr (rs_ranked st) in
    match nth_error (rs_store st) a with
    | Some arr =>
        if length v <=? length arr
        then mkRS (set_nth a (v ++ skipn (length v) arr) (rs_store st)) (mkSl a (length v))
        else publish_cow st v
    | None => publish_cow st v
    end.

  Definition publish_all (st : ranked_state) (vs : list (list A)) : ranked_state := fold_left publish_cow vs st.

  (** all (header handed out by getLoaded, value published) pairs of a sequence of publications *)
  Fixpoint pub_trace (st : ranked_state) (vs : list (list A)) : list (shdr * list A) :=
    match vs with
    | [] => []
    | v :: r => let st' := publish_cow st v in (get_loaded st', v) :: pub_trace st' r
    end.
End Store.
Arguments store : clear implicits.
Arguments ranked_state : clear implicits.
