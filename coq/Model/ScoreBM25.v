(** Model of the BM25 pieces of index/score.go over exact rationals: tfScore, the sum over the term
    frequencies (scoreLineBM25 / scoreFileBM25) and boostScore.  k and b come from
    Generated/ScoreConsts.v.  Term-frequency extraction (calculateTermFrequency), scoreFileBM25 and scoreLineBM25 are in
    Model/ScoreKind.v. *)
From Coq Require Import QArith Qabs.
From ZV Require Import Lib.Base Generated.ScoreConsts Model.Score.
Open Scope Q_scope.

Definition tf_score (L : Q) (f : Z) : Q :=
  ((c_bm25_k + 1) * inject_Z f) / (c_bm25_k * (1 - c_bm25_b + c_bm25_b * L) + inject_Z f).

Definition bm25_sum (L : Q) (tfs : list Z) : Q := fold_left (fun s f => s + tf_score L f) tfs 0.

(** boostScore: the maximum weight above 1 multiplies the score unless it is within epsilon of 1 *)
Definition max_weight (ws : list Q) : Q := fold_left (fun m w => if Qltb m w then w else m) ws 1.
Definition boost_score (s : Q) (ws : list Q) : Q :=
  let m := max_weight ws in if eps_one m then s else s * m.

Definition bm25_score (L : Q) (tfs : list Z) (ws : list Q) : Q := boost_score (bm25_sum L tfs) ws.

(** correspondence sample: (L, f, observed tfScore(k, b, L, f)) *)
Definition tfsample := (rq * Z * rq)%type.
Definition tf_ok (s : tfsample) : bool :=
  let '(l, f, o) := s in
  let m := tf_score (q_of l) f in
  Qle_bool (Qabs (m - q_of o)) ((1 # 1099511627776) * (1 + Qabs m)).   (* 2^-40 relative *)

(** the C29 correspondence case: a ranking case of the default scorer plus tfScore samples *)
Definition c29bcase := (c29case * list tfsample)%type.
Definition cand_kind_in_range (c : cand) : bool :=
  match c_kind c with
  | KSym _ _ (Some q) => Qle_bool 0 q && Qle_bool q (c_maxKindFactor * c_scoreKindMatch)
  | _ => true
  end.
Definition case_kinds_ok (c : c29case) : bool :=
  forallb (fun f : rfin => let '(_, _, _, ms) := f in
             forallb (forallb (fun l : Z * list rcand => forallb (fun rc => cand_kind_in_range (mk_cand rc)) (snd l))) ms)
          (fst (fst c)).
Definition c29b_ok (c : c29bcase) : bool := c29_ok (fst c) && case_kinds_ok (fst c) && forallb tf_ok (snd c).
Definition c29b_mismatches (cs : list c29bcase) : list N := bad_indexes c29b_ok cs.
