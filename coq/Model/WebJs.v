(** C36 — JavaScript string literals: the lexer's view of the text between two quotes (ECMAScript 2019 lexical grammar,
    plus the HTML layer's view of a script element: a '<' could start "</script" or "<!--", so the scanner is
    conservative and rejects every '<'). Used to state the integrity of html/template's jsStrEscaper (Model/Web.v:esc_jsstr). *)
From Coq Require Import String.
From ZV Require Import Lib.Base Model.Web.
Open Scope N_scope.

(** [js_lit q s]: s is the text right after an opening quote [q]; the result is the text right after the closing
    quote, or None when the literal is broken (line terminator, unterminated, a '<'). A backslash escapes the next
    character (\n, <, \/, \\ …: after the two bytes "\u" the hex digits are ordinary characters; a backslash in front of a
    line terminator would be a line continuation — never produced, rejected here). *)
Fixpoint js_lit (q : N) (s : bytes) : option bytes :=
  match s with
  | [] => None
  | b :: r =>
      if b =? q then Some r
      else if (b =? 10) || (b =? 13) || (b =? 60) then None
      else if b =? 92 then
        match r with
        | [] => None
        | c :: r' => if (c =? 10) || (c =? 13) then None else js_lit q r'
        end
      else js_lit q r
  end.

(** a byte that neither ends nor breaks a literal quoted with [q] *)
Definition js_plain (q b : N) : bool := negb ((b =? q) || (b =? 10) || (b =? 13) || (b =? 60) || (b =? 92)).

(** a text made of plain bytes and complete escape pairs *)
Fixpoint js_units (q : N) (l : bytes) : bool :=
  match l with
  | [] => true
  | b :: r =>
      if b =? 92 then
        match r with
        | [] => false
        | c :: r' => negb ((c =? 10) || (c =? 13)) && js_units q r'
        end
      else js_plain q b && js_units q r
  end.
