(** Model of index/ctags.go: tagsToSections.Convert, overlaps, newLinesIndices, and of the
    symbol-section acceptance test of ShardBuilder.Add (index/shard_builder.go).
    Offsets are uint32 in Go; the model uses nat and the theorems assume |content| < 2^32
    (the builder never passes larger documents: SizeMax). *)
From ZV Require Import Lib.Base.

Record entry := { e_line : Z; e_name : list N; e_meta : N }.   (* e_meta: opaque tag of Kind/Parent/ParentKind *)
Record section := { s_start : nat; s_end : nat }.

(** newLinesIndices: offsets of every '\n' plus a final entry |content| when the last line is unterminated *)
Fixpoint nls_aux (l : list N) (off : nat) (pending : bool) : list nat :=
  match l with
  | [] => if pending then [off] else []
  | c :: r => if N.eqb c 10 then off :: nls_aux r (S off) false else nls_aux r (S off) true
  end.
Definition newlines_indices (content : list N) : list nat := nls_aux content 0 false.

(** overlaps: backward scan; Some i = insertion index, None = -1 (overlap) *)
Fixpoint overlaps_rev (rs : list section) (n : nat) (st en : nat) : option nat :=
  match rs with
  | [] => Some 0
  | s :: rs' =>
      if s_end s <=? st then Some n
      else if en <=? s_start s then overlaps_rev rs' (n - 1) st en
      else None
  end.
Definition overlaps (l : list section) (st en : nat) : option nat :=
  overlaps_rev (rev l) (length l) st en.

Definition line_bounds (nls : list nat) (line : Z) : option (nat * nat) :=
  if (line <=? 0)%Z then None else
  let idx := Z.to_nat (line - 1) in
  match nth_error nls idx with
  | None => None
  | Some e =>
      let lo := match idx with
                | 0 => 0
                | S k => match nth_error nls k with Some x => S x | None => 0 end
                end in
      Some (lo, e)
  end.

Definition conv_step (content : list N) (nls : list nat) (acc : list (section * entry)) (t : entry)
  : list (section * entry) :=
  match line_bounds nls (e_line t) with
  | None => acc
  | Some (lo, e) =>
      match index_sub (e_name t) (slice content lo e) with
      | None => acc
      | Some io =>
          let st := lo + io in
          let en := st + length (e_name t) in
          match overlaps (map fst acc) st en with
          | None => acc
          | Some i => insert_at i ({| s_start := st; s_end := en |}, t) acc
          end
      end
  end.

Definition convert (content : list N) (tags : list entry) : list (section * entry) :=
  fold_left (conv_step content (newlines_indices content)) tags [].

(** ShardBuilder.Add: sort.Sort(symbolSlice) by Start, then reject overlap / past-the-end.
    The sort is modelled as a stable insertion sort on Start. *)
Fixpoint ins_sorted (x : section) (l : list section) : list section :=
  match l with
  | [] => [x]
  | y :: r => if s_start x <? s_start y then x :: l else y :: ins_sorted x r
  end.
Definition sort_secs (l : list section) : list section := fold_right ins_sorted [] (rev l).

Fixpoint chain_ok (last_end : nat) (l : list section) : bool :=
  match l with
  | [] => true
  | s :: r => (last_end <=? s_start s) && chain_ok (s_end s) r
  end.
Definition add_accepts (content_len : nat) (secs : list section) : bool :=
  let s := sort_secs secs in
  match s with
  | [] => true
  | x :: r => chain_ok (s_end x) r && (s_end (last s x) <=? content_len)
  end.

(** ---- correspondence runner: a case is (content, tags, observed output of the Go Convert as
    (start, end, name, meta) list, observed result of ShardBuilder.Add's acceptance) *)
Definition c37case := (list N * list (Z * list N * N) * list (N * N * list N * N) * bool)%type.

Definition mk_entry (t : Z * list N * N) : entry :=
  let '(l, n, m) := t in {| e_line := l; e_name := n; e_meta := m |}.
Definition out_row (p : section * entry) : N * N * list N * N :=
  (N.of_nat (s_start (fst p)), N.of_nat (s_end (fst p)), e_name (snd p), e_meta (snd p)).
Definition row_eqb (a b : N * N * list N * N) : bool :=
  let '(a1, a2, a3, a4) := a in let '(b1, b2, b3, b4) := b in
  N.eqb a1 b1 && N.eqb a2 b2 && list_eqb N.eqb a3 b3 && N.eqb a4 b4.
Definition c37_ok (c : c37case) : bool :=
  let '(content, tags, out, accepted) := c in
  let m := convert content (map mk_entry tags) in
  list_eqb row_eqb (map out_row m) out &&
  Bool.eqb (add_accepts (length content) (map fst m)) accepted.
Definition c37_mismatches (cs : list c37case) : list N := bad_indexes c37_ok cs.
