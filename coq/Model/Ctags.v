(** Model of index/ctags.go: tagsToSections.Convert, overlaps, newLinesIndices, and of the
    symbol-section acceptance test of ShardBuilder.Add (index/shard_builder.go): sort, overlap test, past-the-end
    test, and newSearchableString's rune-boundary test (UTF-8 decoding: Lib/Utf8.v).
    Offsets are uint32 in Go; the model uses nat and the theorems assume |content| < 2^32
    (the builder never passes larger documents: SizeMax). *)
From ZV Require Import Lib.Base Lib.Utf8.

Record entry := { e_line : Z; e_name : list N; e_meta : N }.   (* e_meta: opaque tag of Kind/Parent/ParentKind *)
Record section := { s_start : nat; s_end : nat }.

(** newLinesIndices: offsets of every '\n' plus a final entry |content| when the last line is unterminated *)
Fixpoint nls_aux (l : list N) (off : nat) (pending : bool) : list nat :=
  match l with
  | [] => if pending then [off] else []
  | c :: r => if N.eqb c 10 then off :: nls_aux r (S off) false else nls_aux r (S off) true
  end.
Definition newlines_indices (content : list N) : list nat := nls_aux content 0 false.

(** overlaps: backward scan; Some i = insertion index, None = -1 (overlap) *)
Fixpoint overlaps_rev (rs : list section) (n : nat) (st en : nat) : option nat :=
  match rs with
  | [] => Some 0
  | s :: rs' =>
      if s_end s <=? st then Some n
      else if en <=? s_start s then overlaps_rev rs' (n - 1) st en
      else None
  end.
Definition overlaps (l : list section) (st en : nat) : option nat :=
  overlaps_rev (rev l) (length l) st en.

Definition line_bounds (nls : list nat) (line : Z) : option (nat * nat) :=
  if (line <=? 0)%Z then None else
  let idx := Z.to_nat (line - 1) in
  match nth_error nls idx with
  | None => None
  | Some e =>
      let lo := match idx with
                | 0 => 0
                | S k => match nth_error nls k with Some x => S x | None => 0 end
                end in
      Some (lo, e)
  end.

Definition conv_step (content : list N) (nls : list nat) (acc : list (section * entry)) (t : entry)
  : list (section * entry) :=
  match line_bounds nls (e_line t) with
  | None => acc
  | Some (lo, e) =>
      match index_sub (e_name t) (slice content lo e) with
      | None => acc
      | Some io =>
          let st := lo + io in
          let en := st + length (e_name t) in
          match overlaps (map fst acc) st en with
          | None => acc
          | Some i => insert_at i ({| s_start := st; s_end := en |}, t) acc
          end
      end
  end.

Definition convert (content : list N) (tags : list entry) : list (section * entry) :=
  fold_left (conv_step content (newlines_indices content)) tags [].

(** ShardBuilder.Add: sort.Sort(symbolSlice) by Start, then reject overlap / past-the-end.
    The sort is modelled as a stable insertion sort on Start. *)
Fixpoint ins_sorted (x : section) (l : list section) : list section :=
  match l with
  | [] => [x]
  | y :: r => if s_start x <? s_start y then x :: l else y :: ins_sorted x r
  end.
Definition sort_secs (l : list section) : list section := fold_right ins_sorted [] (rev l).

Fixpoint chain_ok (last_end : nat) (l : list section) : bool :=
  match l with
  | [] => true
  | s :: r => (last_end <=? s_start s) && chain_ok (s_end s) r
  end.
(** the overlap / past-the-end tests on the sorted sections *)
Definition add_accepts_ranges (content_len : nat) (sorted : list section) : bool :=
  match sorted with
  | [] => true
  | x :: r => chain_ok (s_end x) r && (s_end (last sorted x) <=? content_len)
  end.

(** postingsBuilder.newSearchableString(content, sections): the flattened list Start1,End1,Start2,End2,... is
    consumed from the front while the UTF-8 decoding loop (ASCII fast path = utf8.DecodeRune on ASCII) walks the
    content: at every rune start (byteCount before the increment) all leading boundaries EQUAL to byteCount are
    popped. After the loop a leading boundary < total length is the error "no rune for section boundary at byte N";
    boundaries = total length are accepted (popped), anything else left over is silently ignored. *)
Definition sec_boundaries (l : list section) : list nat := flat_map (fun s => [s_start s; s_end s]) l.
Fixpoint pop_eq (pos : nat) (bs : list nat) : list nat :=
  match bs with
  | x :: r => if x =? pos then pop_eq pos r else bs
  | [] => []
  end.
Definition nss_leftover (content : list N) (bs : list nat) : list nat :=
  fold_left (fun bs pos => pop_eq pos bs) (rune_starts content) bs.
(** verdict of newSearchableString on the section boundaries: 0 = accepted, 1 = the error above, 2 = run-time panic.
    The panic: the popped boundaries (in the loop and, for those equal to the total length, after it) are paired up
    into rune sections with runeSectionBoundaries[i], runeSectionBoundaries[i+1]; when a leftover boundary beyond
    the total length (possible only for malformed sections with Start > End, which Add does not test) leaves an
    odd number of popped ones, index i+1 is out of range. *)
Definition nss_verdict (content : list N) (sorted : list section) : N :=
  let bs := sec_boundaries sorted in
  let rest := nss_leftover content bs in
  if match rest with x :: _ => x <? length content | [] => false end then 1%N
  else if Nat.even (length bs - length (pop_eq (length content) rest)) then 0%N else 2%N.

(** ShardBuilder.Add's verdict on the symbol sections: 0 = no error, 1 = error returned, 2 = panic *)
Definition add_verdict (content : list N) (secs : list section) : N :=
  let s := sort_secs secs in
  if add_accepts_ranges (length content) s then nss_verdict content s else 1%N.
Definition add_accepts (content : list N) (secs : list section) : bool := N.eqb (add_verdict content secs) 0.

(** ---- correspondence runner. Case kinds:
    CConv: (content, tags, observed output of the Go Convert as (start, end, name, meta) list, observed verdict of
           ShardBuilder.Add on that output: 0 accepted / 1 error / 2 panic);
    CAdd : (content, arbitrary sections (start, end), observed verdict of ShardBuilder.Add) — exercises the sort,
           overlap, past-the-end and rune-boundary tests on inputs Convert never produces;
    CUtf8: (bytes, Go's (rune, width) sequence from the utf8.DecodeRune loop, utf8.Valid, utf8.RuneCount,
           []byte(string([]rune(string(bytes)))));
    CUtf8Row: (prefix, runs): Go's DecodeRune-loop result on prefix ++ [b] for EVERY last byte b = 0..255, run-length
           compressed: a run (lo, hi, items) says that for lo <= b <= hi the result is the (rune, width) sequence
           [(r + slope * (b - lo), w) | (r, slope, w) in items]; the runs must tile 0..255 (the Go side re-expands its
           runs and compares them with what it observed before emitting them);
    CEnc : (rune >= 0, utf8.AppendRune(nil, rune)). *)
Inductive c37case :=
| CConv (content : list N) (tags : list (Z * list N * N)) (out : list (N * N * list N * N)) (verdict : N)
| CAdd (content : list N) (secs : list (N * N)) (verdict : N)
| CUtf8 (s : list N) (decoded : list (N * N)) (valid : bool) (count : N) (reenc : list N)
| CUtf8Row (prefix : list N) (runs : list (N * N * list (N * N * N)))
| CEnc (r : N) (enc : list N).

Definition mk_entry (t : Z * list N * N) : entry :=
  let '(l, n, m) := t in {| e_line := l; e_name := n; e_meta := m |}.
Definition out_row (p : section * entry) : N * N * list N * N :=
  (N.of_nat (s_start (fst p)), N.of_nat (s_end (fst p)), e_name (snd p), e_meta (snd p)).
Definition row_eqb (a b : N * N * list N * N) : bool :=
  let '(a1, a2, a3, a4) := a in let '(b1, b2, b3, b4) := b in
  N.eqb a1 b1 && N.eqb a2 b2 && list_eqb N.eqb a3 b3 && N.eqb a4 b4.
Definition mk_sec (p : N * N) : section := {| s_start := N.to_nat (fst p); s_end := N.to_nat (snd p) |}.
Definition rw_eqb (a b : N * N) : bool := N.eqb (fst a) (fst b) && N.eqb (snd a) (snd b).
Definition rw_N (a : N * nat) : N * N := (fst a, N.of_nat (snd a)).
Definition N_range (lo hi : N) : list N := map N.of_nat (seq (N.to_nat lo) (N.to_nat hi + 1 - N.to_nat lo)).
Definition run_ok (prefix : list N) (run : N * N * list (N * N * N)) : bool :=
  let '(lo, hi, items) := run in
  forallb (fun b => list_eqb rw_eqb (map rw_N (decode_all (prefix ++ [b])))
                                    (map (fun it => let '(r, sl, w) := it in (r + sl * (b - lo), w)%N) items))
          (N_range lo hi).
Fixpoint runs_tile (next : N) (runs : list (N * N * list (N * N * N))) : bool :=
  match runs with
  | [] => N.eqb next 256
  | (lo, hi, _) :: r => N.eqb lo next && N.leb lo hi && runs_tile (hi + 1)%N r
  end.

Definition c37_ok (c : c37case) : bool :=
  match c with
  | CConv content tags out verdict =>
      let m := convert content (map mk_entry tags) in
      list_eqb row_eqb (map out_row m) out &&
      N.eqb (add_verdict content (map fst m)) verdict
  | CAdd content secs verdict => N.eqb (add_verdict content (map mk_sec secs)) verdict
  | CUtf8 s decoded valid count reenc =>
      list_eqb rw_eqb (map rw_N (decode_all s)) decoded && Bool.eqb (valid_utf8 s) valid &&
      N.eqb (N.of_nat (rune_count s)) count && list_eqb N.eqb (encode_all (runes s)) reenc
  | CUtf8Row prefix runs => runs_tile 0 runs && forallb (run_ok prefix) runs
  | CEnc r enc => list_eqb N.eqb (encode_rune r) enc
  end.
Definition c37_mismatches (cs : list c37case) : list N := bad_indexes c37_ok cs.
