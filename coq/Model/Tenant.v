(** C23 — model of tenant filtering in zoekt's per-shard Search/List and of the sharded aggregation.

    Anchors: internal/tenant/query.go (HasAccess), internal/tenant/enforcement.go (strict mode),
    internal/tenant/systemtenant (system context), index/eval.go (indexData.Search: per-document check,
    final addRepo loop; indexData.List: per-repository check; addRepo), search/aggregate.go (collectSender),
    search/shards.go (shardedSearcher.List aggregation), search/eval.go (typeRepoSearcher.eval).

    What is abstract: the QUERY.  A query enters the model only through
      - [scan]   : does indexData.Search reach its document loop (false = it returned early because
                   simplify folded the query to Const false, or the pruned match tree is nil),
      - [m r d]  : does document d of repository r satisfy the query (arbitrary predicate),
      - [lsimp]  : for List, the outcome of d.simplify(q): Some b = Const b, None = anything else.
    The theorems quantify over all of them, hence over all queries.  Strings (names, URL templates,
    file names) are opaque identifiers (N); 0 is "absent" for the optional sub-repository name. *)
From ZV Require Import Lib.Base.

(** -- contexts and HasAccess ------------------------------------------------------------------- *)
Inductive tctx := CtxSystem | CtxNone | CtxTenant (id : Z).

(** tenant.HasAccess: not strict => true; system context => true; no tenant => false; else id equality *)
Definition has_access (strict : bool) (c : tctx) (id : Z) : bool :=
  if strict then
    match c with
    | CtxSystem => true
    | CtxNone => false
    | CtxTenant t => Z.eqb t id
    end
  else true.

(** -- shards ----------------------------------------------------------------------------------- *)
Record subrepo := { sr_name : N; sr_url : N; sr_frag : N }.
Record repo := {
  r_name : N; r_id : N; r_tenant : Z; r_tomb : bool;
  r_url : N;            (* FileURLTemplate *)
  r_frag : N;           (* LineFragmentTemplate *)
  r_subs : list subrepo (* SubRepoMap without the root entry *)
}.
Record doc := {
  d_file : N;           (* file name *)
  d_ftomb : bool;       (* file name is in the repository's FileTombstones *)
  d_sub : nat           (* 0 = root, S k = k-th entry of r_subs (SubRepositoryPath) *)
}.
(** documents are stored contiguously per repository (indexData.calculateStats enforces it) *)
Definition shard := list (repo * list doc).

(** -- results ---------------------------------------------------------------------------------- *)
Record fmatch := { fm_repo : N; fm_repoid : N; fm_file : N; fm_subname : N }.
Record sresult := { sr_files : list fmatch; sr_urls : list (N * N); sr_frags : list (N * N) }.
Definition empty_sresult : sresult := {| sr_files := []; sr_urls := []; sr_frags := [] |}.

(** Go map[string]string as an association list sorted by key; assignment overrides *)
Fixpoint map_set (k v : N) (m : list (N * N)) : list (N * N) :=
  match m with
  | [] => [(k, v)]
  | (k', v') :: r =>
      if N.ltb k k' then (k, v) :: m
      else if N.eqb k k' then (k, v) :: r
      else (k', v') :: map_set k v r
  end.

Definition sub_name (r : repo) (i : nat) : N :=
  match i with
  | O => 0%N
  | S k => match nth_error (r_subs r) k with Some s => sr_name s | None => 0%N end
  end.

Definition mk_fm (r : repo) (d : doc) : fmatch :=
  {| fm_repo := r_name r; fm_repoid := r_id r; fm_file := d_file d; fm_subname := sub_name r (d_sub d) |}.

(** the document loop of indexData.Search restricted to one repository.
    lim1 = ShardRepoMaxMatchCount is 1 (as set by indexData.List): every file match carries at least one
    line/chunk match, so only the first matching document of each repository is returned. *)
Definition repo_files (strict : bool) (c : tctx) (lim1 : bool) (m : repo -> doc -> bool)
           (rd : repo * list doc) : list fmatch :=
  let '(r, ds) := rd in
  if r_tomb r then []
  else if negb (has_access strict c (r_tenant r)) then []
  else
    let hits := filter (fun d => negb (d_ftomb d) && m r d) ds in
    map (mk_fm r) (if lim1 then firstn 1 hits else hits).

(** addRepo(&res, repo) *)
Definition add_repo (acc : list (N * N) * list (N * N)) (name url frag : N) :=
  (map_set name url (fst acc), map_set name frag (snd acc)).

(** one iteration of the final loop of indexData.Search:
      for _, md := range d.repoMetaData { addRepo(&res,&md); for _, v := range md.SubRepoMap { addRepo(&res,v) } }
    [fixed] = the loop skips repositories the caller has no access to (the repaired code);
    [fixed = false] is the code before the repair: no check at all. *)
Definition repo_urls (fixed strict : bool) (c : tctx) (acc : list (N * N) * list (N * N)) (r : repo) :=
  if fixed && negb (has_access strict c (r_tenant r)) then acc
  else fold_left (fun a s => add_repo a (sr_name s) (sr_url s) (sr_frag s)) (r_subs r)
                 (add_repo acc (r_name r) (r_url r) (r_frag r)).

Definition search_gen (fixed strict : bool) (c : tctx) (s : shard) (scan lim1 : bool)
           (m : repo -> doc -> bool) : sresult :=
  if negb scan then empty_sresult
  else
    let uf := fold_left (repo_urls fixed strict c) (map fst s) ([], []) in
    {| sr_files := flat_map (repo_files strict c lim1 m) s; sr_urls := fst uf; sr_frags := snd uf |}.

(** the current code of /repo (after the fix commit recorded in props/C23/known-findings.json) *)
Definition search := search_gen true.
(** the code before that commit *)
Definition search_unfixed := search_gen false.

(** -- List ------------------------------------------------------------------------------------- *)
Inductive lfield := FRepos | FReposMap.
Record lresult := {
  lr_repos : list N;    (* RepoList.Repos: repository names, in order *)
  lr_map : list N;      (* keys of RepoList.ReposMap, sorted, distinct *)
  lr_docs : N;          (* RepoList.Stats.Documents *)
  lr_nrepos : N         (* RepoList.Stats.Repos *)
}.
Definition empty_lresult : lresult := {| lr_repos := []; lr_map := []; lr_docs := 0; lr_nrepos := 0 |}.

Fixpoint set_add (k : N) (m : list N) : list N :=
  match m with
  | [] => [k]
  | k' :: r => if N.ltb k k' then k :: m else if N.eqb k k' then m else k' :: set_add k r
  end.

Definition memN (k : N) (l : list N) : bool := existsb (N.eqb k) l.

(** include(rle) of indexData.List *)
Definition list_include (strict : bool) (c : tctx) (s : shard) (lsimp : option bool) (scan : bool)
           (m : repo -> doc -> bool) : repo -> bool :=
  match lsimp with
  | Some b => fun _ => b
  | None =>
      let found := map fm_repo (sr_files (search strict c s scan true m)) in
      fun r => memN (r_name r) found
  end.

Definition list_entries (strict : bool) (c : tctx) (s : shard) (inc : repo -> bool) : shard :=
  filter (fun rd => negb (r_tomb (fst rd)) && has_access strict c (r_tenant (fst rd)) && inc (fst rd)) s.

Definition rlist (strict : bool) (c : tctx) (s : shard) (lsimp : option bool) (scan : bool)
           (m : repo -> doc -> bool) (field : lfield) : lresult :=
  match lsimp with
  | Some false => empty_lresult
  | _ =>
      let es := list_entries strict c s (list_include strict c s lsimp scan m) in
      let in_repos (r : repo) := match field with FRepos => true | FReposMap => N.eqb (r_id r) 0 end in
      let repos := map (fun rd => r_name (fst rd)) (filter (fun rd => in_repos (fst rd)) es) in
      let rmap := fold_left (fun acc rd => if in_repos (fst rd) then acc else set_add (r_id (fst rd)) acc) es [] in
      {| lr_repos := repos; lr_map := rmap;
         lr_docs := fold_left (fun n rd => (n + N.of_nat (length (snd rd)))%N) es 0%N;
         lr_nrepos := N.of_nat (length repos + length rmap) |}
  end.

(** -- aggregation over shards (search/shards.go sendByRepository + search/aggregate.go collectSender) -- *)
Fixpoint lookup (k : N) (m : list (N * N)) : option N :=
  match m with
  | [] => None
  | (k', v) :: r => if N.eqb k k' then Some v else lookup k r
  end.
(** Go's m[k] on a missing key yields "", which the harness encodes as 0 *)
Definition lookup0 (k : N) (m : list (N * N)) : N := match lookup k m with Some v => v | None => 0%N end.
Definition has_key (k : N) (m : list (N * N)) : bool := match lookup k m with Some _ => true | None => false end.

(** consecutive file matches with the same RepositoryID form one event *)
Fixpoint group_by_id (fs : list fmatch) : list (list fmatch) :=
  match fs with
  | [] => []
  | f :: r =>
      match group_by_id r with
      | (f' :: g) :: gs => if N.eqb (fm_repoid f) (fm_repoid f') then (f :: f' :: g) :: gs else [f] :: (f' :: g) :: gs
      | other => [f] :: other
      end
  end.

(** the maps of one per-repository event: the repository's own entry plus the entries of the
    sub-repositories its files live in (when the shard result has them) *)
Definition event_map (full : list (N * N)) (name : N) (g : list fmatch) : list (N * N) :=
  fold_left (fun acc f =>
               let n := fm_subname f in
               if N.eqb n 0 then acc
               else if has_key n acc then acc
               else match lookup n full with Some u => map_set n u acc | None => acc end)
            g [(name, lookup0 name full)].

Definition send_by_repo (r : sresult) : list sresult :=
  match sr_files r with
  | [] => [r]
  | f0 :: _ =>
      if Nat.leb (length (sr_urls r)) 1 then [r]
      else map (fun g => match g with
                         | [] => empty_sresult
                         | f :: _ => {| sr_files := g; sr_urls := event_map (sr_urls r) (fm_repo f) g;
                                        sr_frags := event_map (sr_frags r) (fm_repo f) g |}
                         end) (group_by_id (sr_files r))
  end.

(** maps.Copy(aggregate.RepoURLs, r.RepoURLs): later events override *)
Definition merge_maps (a b : list (N * N)) : list (N * N) :=
  fold_left (fun acc kv => map_set (fst kv) (snd kv) acc) b a.

(** collectSender.Send: files are appended; the maps are copied only from events that carry files *)
Definition collect (acc r : sresult) : sresult :=
  match sr_files r with
  | [] => acc
  | _ => {| sr_files := sr_files acc ++ sr_files r;
            sr_urls := merge_maps (sr_urls acc) (sr_urls r);
            sr_frags := merge_maps (sr_frags acc) (sr_frags r) |}
  end.

Definition agg_search (rs : list sresult) : sresult :=
  fold_left collect (flat_map send_by_repo rs) empty_sresult.

(** a sharded search: the searcher picks any sub-list of shards and may hand each its own (rewritten)
    query; [ss] gives, per shard, the (scan, m) abstraction of the query that shard receives *)
Definition sharded_search (strict : bool) (c : tctx)
           (ss : list (shard * (bool * (repo -> doc -> bool)))) : sresult :=
  agg_search (map (fun sq => search strict c (fst sq) (fst (snd sq)) false (snd (snd sq))) ss).

(** shardedSearcher.List: per-shard listings under the caller's context; Repos are merged by name, ReposMap
    by id, Stats.Documents are added.  [ls] gives, per shard, the (lsimp, scan, m) abstraction of the query. *)
Record slresult := { sl_names : list N; sl_ids : list N; sl_docs : N }.
Definition sharded_rlist (strict : bool) (c : tctx) (field : lfield)
           (ls : list (shard * (option bool * bool * (repo -> doc -> bool)))) : slresult :=
  fold_left (fun acc sq =>
               let '(s, (lsimp, scan, m)) := sq in
               let r := rlist strict c s lsimp scan m field in
               {| sl_names := fold_left (fun a n => set_add n a) (lr_repos r) (sl_names acc);
                  sl_ids := fold_left (fun a n => set_add n a) (lr_map r) (sl_ids acc);
                  sl_docs := (sl_docs acc + lr_docs r)%N |})
            ls {| sl_names := []; sl_ids := []; sl_docs := 0 |}.

(** -- the owner's view: what a caller is entitled to see ---------------------------------------- *)
Definition visible_repos (strict : bool) (c : tctx) (s : shard) : list repo :=
  filter (fun r => has_access strict c (r_tenant r)) (map fst s).
Definition repo_names (r : repo) : list N := r_name r :: map sr_name (r_subs r).
Definition repo_url_pairs (r : repo) : list (N * N) := (r_name r, r_url r) :: map (fun s => (sr_name s, sr_url s)) (r_subs r).
Definition repo_frag_pairs (r : repo) : list (N * N) := (r_name r, r_frag r) :: map (fun s => (sr_name s, sr_frag s)) (r_subs r).

(** ---- correspondence runner ------------------------------------------------------------------ *)
(** a case: strict, ctx code (-2 = system, -1 = none, t >= 0 = tenant t), fixed-independent shard,
    query abstraction, and the implementation's observations *)
Definition c23repo := (N * N * Z * bool * N * N * list (N * N * N))%type. (* name id tenant tomb url frag subs *)
Definition c23doc := (N * bool * nat * bool)%type.                          (* file ftomb sub matches *)
Definition c23obs_search := (list (N * N * N * N) * list (N * N) * list (N * N))%type.
Definition c23obs_list := (list N * list N * N * N)%type.
Definition c23case :=
  (bool * Z * list (c23repo * list c23doc) * bool * option bool * bool * c23obs_search * c23obs_list)%type.
  (* strict ctx shard scan lsimp field_is_map search_obs list_obs *)

Definition mk_ctx (z : Z) : tctx :=
  if Z.eqb z (-2) then CtxSystem else if Z.eqb z (-1) then CtxNone else CtxTenant z.
Definition mk_repo (t : c23repo) : repo :=
  let '(n, i, te, tb, u, f, subs) := t in
  {| r_name := n; r_id := i; r_tenant := te; r_tomb := tb; r_url := u; r_frag := f;
     r_subs := map (fun s => let '(a, b, c) := s in {| sr_name := a; sr_url := b; sr_frag := c |}) subs |}.
Definition mk_doc (t : c23doc) : doc :=
  let '(f, ft, sb, _) := t in {| d_file := f; d_ftomb := ft; d_sub := sb |}.
Definition mk_shard (l : list (c23repo * list c23doc)) : shard :=
  map (fun rd => (mk_repo (fst rd), map mk_doc (snd rd))) l.
Definition matching_files (l : list (c23repo * list c23doc)) : list N :=
  flat_map (fun rd => flat_map (fun d : c23doc => let '(f, _, _, mt) := d in if mt then [f] else []) (snd rd)) l.

Definition pairN_eqb (a b : N * N) : bool := N.eqb (fst a) (fst b) && N.eqb (snd a) (snd b).
Definition fm_row (f : fmatch) : N * N * N * N := (fm_repo f, fm_repoid f, fm_file f, fm_subname f).
Definition row4_eqb (a b : N * N * N * N) : bool :=
  let '(a1, a2, a3, a4) := a in let '(b1, b2, b3, b4) := b in
  N.eqb a1 b1 && N.eqb a2 b2 && N.eqb a3 b3 && N.eqb a4 b4.

Definition c23_ok (cs : c23case) : bool :=
  let '(strict, cz, sh, scan, lsimp, fmap, (ofiles, ourls, ofrags), (orepos, omap, odocs, onrepos)) := cs in
  let c := mk_ctx cz in
  let s := mk_shard sh in
  let mf := matching_files sh in
  let m := fun (_ : repo) (d : doc) => memN (d_file d) mf in
  let sr := search strict c s scan false m in
  let lr := rlist strict c s lsimp scan m (if fmap then FReposMap else FRepos) in
  list_eqb row4_eqb (map fm_row (sr_files sr)) ofiles &&
  list_eqb pairN_eqb (sr_urls sr) ourls &&
  list_eqb pairN_eqb (sr_frags sr) ofrags &&
  list_eqb N.eqb (lr_repos lr) orepos &&
  list_eqb N.eqb (lr_map lr) omap &&
  N.eqb (lr_docs lr) odocs && N.eqb (lr_nrepos lr) onrepos.
Definition c23_mismatches (cs : list c23case) : list N := bad_indexes c23_ok cs.

(** sharded level: a case is (strict, ctx, [(shard, scan)] as selected by the searcher with the matching
    bits of the query each shard received, observed aggregate) ; files are compared as sorted sets by the
    harness (shards are searched concurrently), so the model's file rows are sorted here too *)
Fixpoint ins4 (x : N * N * N * N) (l : list (N * N * N * N)) : list (N * N * N * N) :=
  match l with
  | [] => [x]
  | y :: r => let '(_, _, xf, _) := x in let '(_, _, yf, _) := y in
              if N.leb xf yf then x :: l else y :: ins4 x r
  end.
Definition sort4 (l : list (N * N * N * N)) := fold_right ins4 [] l.

Definition c23scase := (bool * Z * list (list (c23repo * list c23doc) * bool) * c23obs_search *
                        (bool * list N * list N * N))%type.   (* ... field_is_map, listed names, ReposMap ids, Stats.Documents *)
Definition c23s_ok (cs : c23scase) : bool :=
  let '(strict, cz, shs, (ofiles, ourls, ofrags), (fmap, onames, oids, odocs)) := cs in
  let c := mk_ctx cz in
  let ss := map (fun p => let mf := matching_files (fst p) in
                          (mk_shard (fst p), (snd p, fun (_ : repo) (d : doc) => memN (d_file d) mf))) shs in
  let sr := sharded_search strict c ss in
  let ls := map (fun sq => (fst sq, (@None bool, fst (snd sq), snd (snd sq)))) ss in
  let lr := sharded_rlist strict c (if fmap then FReposMap else FRepos) ls in
  list_eqb row4_eqb (sort4 (map fm_row (sr_files sr))) ofiles &&
  list_eqb pairN_eqb (sr_urls sr) ourls &&
  list_eqb pairN_eqb (sr_frags sr) ofrags &&
  list_eqb N.eqb (sl_names lr) onames && list_eqb N.eqb (sl_ids lr) oids && N.eqb (sl_docs lr) odocs.
Definition c23s_mismatches (cs : list c23scase) : list N := bad_indexes c23s_ok cs.
