(** C11 — corrupt shards never crash or hang the searcher: the reader of Model/Format.v over ARBITRARY bytes.

    Outcome of the model reader:  Ok | Err (ordinary error return) | Panic why   where
      why = P_SLICE / P_INDEX / P_MAKESLICE   a Go run-time panic (recoverable: loadShard and searchOneShard/listOneShard recover)
      why = P_DIVERGE                          NOT a panic: the Go loop never terminates and appends on every round
                                               (hang + unbounded allocation; nothing can contain it)
    [i_alloc] accumulates the bytes requested from make() with sizes decoded from the file.

    This file holds (1) the decoders as they were BEFORE the repair (historical; witnesses of the defect, replayed on
    the implementation by the hunt harness), (2) the recover wrappers of search/shards.go as outcome transformers,
    (3) the search-time view of one document.  Proofs: Proofs/FormatRobust.v. *)
From Coq Require Import String.
From ZV Require Import Lib.Base Lib.Varint Generated.FormatConsts Model.Format Model.Btree.
Open Scope N_scope.

(* ------------------------------------------------------------------ (1) the decoders before the repair *)

(** bits.go before "fix: index: stop decoding delta lists at a malformed varint":
      for len(data) > 0 { delta, m := Uvarint(data); ...; data = data[m:]; ps = append(ps, off) }
    m = 0 (truncated varint) leaves data unchanged: the loop repeats forever, appending;  m < 0: slice panic. *)
Fixpoint deltas_dec_unfixed (fuel : nat) (W : N) (data : list N) (last : N) : outcome (list N) :=
  match data with
  | [] => Ok []
  | _ =>
    match fuel with
    | O => Panic P_DIVERGE
    | S f =>
      let '(delta, m) := uvarint data in
      if (m =? 0)%Z then Panic P_DIVERGE else
      do rest <- skip_z m data;
      let off := (last + delta mod W) mod W in
      do tl <- deltas_dec_unfixed f W rest off;
      Ok (off :: tl)
    end
  end.

(** make([]T, 0, sz) with the size prefix taken from the file; int(sz) < 0 takes the ps[:0] path *)
Definition make_request (sz : N) : N := if sz <? 9223372036854775808 then sz else 0.

Definition from_sized_deltas_unfixed (W elem : N) (data : list N) : outcome (list N) * N :=
  let '(sz, m) := uvarint data in
  match skip_z m data with
  | Ok rest =>
    let req := make_request sz in
    if MAXALLOC <? req * elem then (Panic P_MAKESLICE, 0)
    else (deltas_dec_unfixed (length rest) W rest 0, req * elem)
  | Err e => (Err e, 0)
  | Panic w => (Panic w, 0)
  end.

Fixpoint docsecs_dec_unfixed (fuel : nat) (data : list N) (last : N) : outcome (list (N * N)) :=
  match data with
  | [] => Ok []
  | _ =>
    match fuel with
    | O => Panic P_DIVERGE
    | S f =>
      let '(d1, m1) := uvarint data in
      do rest1 <- skip_z m1 data;
      let s := (last + d1 mod W32) mod W32 in
      let '(d2, m2) := uvarint rest1 in
      do rest2 <- skip_z m2 rest1;
      let e := (s + d2 mod W32) mod W32 in
      if (m1 =? 0)%Z && (m2 =? 0)%Z then Panic P_DIVERGE else
      do tl <- docsecs_dec_unfixed f rest2 e;
      Ok ((s, e) :: tl)
    end
  end.
Definition unmarshal_doc_sections_unfixed (data : list N) : outcome (list (N * N)) * N :=
  let '(sz, m) := uvarint data in
  match skip_z m data with
  | Ok rest =>
    let req := make_request sz / 2 in
    if MAXALLOC <? req * 8 then (Panic P_MAKESLICE, 0)
    else (docsecs_dec_unfixed (length rest) rest 0, req * 8)
  | Err e => (Err e, 0)
  | Panic w => (Panic w, 0)
  end.

Definition load_shard_unfixed (f : ifile) (next : bool) : outcome idata :=
  do t <- read_toc f []; read_index_with from_sized_deltas_unfixed unmarshal_doc_sections_unfixed f t next.

(** witness files: a shard with valid (opaque) JSON metadata whose subRepos / runeDocSections section is damaged *)
Definition wit_meta : list N := [123;34;73;110;100;101;120;70;111;114;109;97;116;86;101;114;115;105;111;110;34;58;49;54;44;34;73;110;100;101;120;70;101;97;116;117;114;101;86;101;114;115;105;111;110;34;58;49;50;44;34;73;110;100;101;120;77;105;110;82;101;97;100;101;114;86;101;114;115;105;111;110;34;58;49;48;44;34;73;110;100;101;120;84;105;109;101;34;58;34;50;48;50;51;45;49;49;45;49;52;84;50;50;58;49;51;58;50;48;90;34;44;34;80;108;97;105;110;65;83;67;73;73;34;58;102;97;108;115;101;44;34;76;97;110;103;117;97;103;101;77;97;112;34;58;123;34;34;58;48;125;44;34;90;111;101;107;116;86;101;114;115;105;111;110;34;58;34;34;44;34;73;68;34;58;34;118;102;99;48;57;115;104;97;114;100;105;100;48;48;48;48;48;48;48;48;34;125]%N.
Definition wit_repo : list N := [123;34;84;101;110;97;110;116;73;68;34;58;48;44;34;73;68;34;58;48;44;34;78;97;109;101;34;58;34;116;114;105;34;44;34;85;82;76;34;58;34;34;44;34;77;101;116;97;100;97;116;97;34;58;110;117;108;108;44;34;83;111;117;114;99;101;34;58;34;34;44;34;66;114;97;110;99;104;101;115;34;58;91;123;34;78;97;109;101;34;58;34;72;69;65;68;34;44;34;86;101;114;115;105;111;110;34;58;34;118;34;125;93;44;34;83;117;98;82;101;112;111;77;97;112;34;58;123;125;44;34;67;111;109;109;105;116;85;82;76;84;101;109;112;108;97;116;101;34;58;34;34;44;34;70;105;108;101;85;82;76;84;101;109;112;108;97;116;101;34;58;34;34;44;34;76;105;110;101;70;114;97;103;109;101;110;116;84;101;109;112;108;97;116;101;34;58;34;34;44;34;82;97;119;67;111;110;102;105;103;34;58;110;117;108;108;44;34;82;97;110;107;34;58;48;44;34;73;110;100;101;120;79;112;116;105;111;110;115;34;58;34;34;44;34;72;97;115;83;121;109;98;111;108;115;34;58;102;97;108;115;101;44;34;84;111;109;98;115;116;111;110;101;34;58;102;97;108;115;101;44;34;76;97;116;101;115;116;67;111;109;109;105;116;68;97;116;101;34;58;34;48;48;48;49;45;48;49;45;48;49;84;48;48;58;48;48;58;48;48;90;34;125]%N.
Definition witness_file (tagname : list N) (blob : list N) : list N :=
  write_file [ (str "metaData", SimpleB wit_meta); (str "repoMetaData", SimpleB wit_repo); (tagname, SimpleB blob) ].
(** count 1, then a varint whose continuation bit promises a byte that is not there *)
Definition witness_hang : list N := witness_file (str "subRepos") [1; 128].
(** count 2^41: 8 TiB requested from make() by a 9-byte section *)
Definition witness_alloc : list N := witness_file (str "subRepos") [128; 128; 128; 128; 128; 64; 5].
(** an 11-byte varint (overflow, Uvarint returns n < 0): data[n:] panics *)
Definition witness_panic : list N := witness_file (str "runeOffsets") [1; 255; 255; 255; 255; 255; 255; 255; 255; 255; 255; 1].
(** a 4096-byte file (exactly one page) whose TOC places a 4-byte ngramText section at the very end of the mapping:
    newBtreeIndex slices textContent[0:8] with capacity 4 *)
Definition witness_ngram : list N :=
  let tbl := [ (str "metaData", RSimple 0 (nlen wit_meta)); (str "repoMetaData", RSimple (nlen wit_meta) (nlen wit_repo));
               (str "ngramText", RSimple 4092 4) ] in
  let toc := toc_bytes tbl in
  let pad := 4096 - (nlen wit_meta + nlen wit_repo + nlen toc + 8) in
  wit_meta ++ wit_repo ++ repeat 0 (N.to_nat pad) ++ toc ++ be32 (nlen wit_meta + nlen wit_repo + pad) ++ be32 (nlen toc).
Definition witnesses : list (list N) := [witness_hang; witness_alloc; witness_panic; witness_ngram].

(* ------------------------------------------------------------------ (2) recover wrappers (search/shards.go) *)

Definition E_RECOVERED : N := 20.
(** loadShard after "fix: search: recover from panics while loading a shard": a Go panic becomes a load error;
    a non-terminating loop cannot be recovered. *)
Definition recovered {A} (x : outcome A) : outcome A :=
  match x with
  | Panic w => if w =? P_DIVERGE then Panic w else Err E_RECOVERED
  | _ => x
  end.
Definition load_shard_served (f : ifile) (next : bool) : outcome idata := recovered (load_shard f next).

(** outcome classes of the serving process for one file *)
Inductive served := SErr | SOk | SContained | SCrash | SHang.
Definition classify_load {A} (recover_in_loader : bool) (x : outcome A) : served :=
  match x with
  | Ok _ => SOk
  | Err _ => SErr
  | Panic w => if w =? P_DIVERGE then SHang else if recover_in_loader then SErr else SCrash
  end.
(** searchOneShard / listOneShard: a panic inside is contained (Stats.Crashes = 1) *)
Definition classify_search {A} (x : outcome A) : served :=
  match x with
  | Ok _ => SOk
  | Err _ => SErr
  | Panic w => if w =? P_DIVERGE then SHang else SContained
  end.

(* ------------------------------------------------------------------ (3) what a search reads of one document *)
Definition doc_read (d : idata) (i : N) : outcome (list N * list N * list (N * N) * list N) :=
  do name <- file_name d i;
  do content <- read_contents d i;
  do secs <- read_doc_sections d i;
  do nls <- read_newlines d i;
  Ok (name, content, secs, nls).

(* ------------------------------------------------------------------ correspondence runner (hunt outcomes vs model) *)

(** NewIndexFile: the file is mapped with its length rounded up to the page size (zero filled); Size() is the
    file size.  An empty file cannot be mapped (error). *)
Definition mmap_file (bytes : list N) : ifile :=
  let n := nlen bytes in
  let m := ((n + 4095) / 4096) * 4096 in
  mkFile (bytes ++ repeat 0 (N.to_nat (m - n))) n m.

Definition flip_bit (l : list N) (pos bit : N) : list N :=
  firstn (N.to_nat pos) l
  ++ (match nth_error l (N.to_nat pos) with Some b => [N.lxor b (2 ^ bit)] | None => [] end)
  ++ skipn (S (N.to_nat pos)) l.

(* ------------------------------------------------------------------ (4) sharded search and a loaded-but-corrupt shard *)

(** what a substring search reads first (indexData.iterateNgrams): the posting list of an ngram of the pattern,
    located through btreeIndex.Get and read with readSectionBlob — a read error is RETURNED by Search.
    (Errors of the per-document content reads are swallowed by contentProvider: p.err is never inspected.) *)
Definition shard_ngram_search (d : idata) (g : N) : outcome (list N) :=
  do text <- blob_of (i_file d) (i_ngramSec d);
  let bt := new_btree_index btreeBucketSize btreeV text (i_ngramSec d) (i_postingIndex d) in
  let s := btree_get (i_file d) bt g in
  file_read (i_file d) (fst s) (snd s).

(** shardedSearcher.streamSearch + searchOneShard.  A panic inside one shard is contained and counted
    (Stats.Crashes).  BEFORE the repair "fix: search: a shard whose Search/List returns an error is counted as a
    crashed shard" an ERROR returned by one shard aborted the whole search:
        if r.err != nil { stop(); err = r.err; continue }                                   *)
Fixpoint sharded_search_unfixed (shards : list idata) (g : N) : outcome (list (list N) * N) :=
  match shards with
  | [] => Ok ([], 0)
  | d :: rest =>
    do acc <- sharded_search_unfixed rest g;
    match shard_ngram_search d g with
    | Ok r => Ok (r :: fst acc, snd acc)
    | Err e => Err e
    | Panic w => if w =? P_DIVERGE then Panic w else Ok (fst acc, snd acc + 1)
    end
  end.

(** after the repair searchOneShard turns a shard's error into an empty result with Stats.Crashes = 1, exactly like
    a recovered panic; streamSearch's error branch is no longer reached by shard errors *)
Fixpoint sharded_search (shards : list idata) (g : N) : outcome (list (list N) * N) :=
  match shards with
  | [] => Ok ([], 0)
  | d :: rest =>
    do acc <- sharded_search rest g;
    match shard_ngram_search d g with
    | Ok r => Ok (r :: fst acc, snd acc)
    | Err e => Ok (fst acc, snd acc + 1)
    | Panic w => if w =? P_DIVERGE then Panic w else Ok (fst acc, snd acc + 1)
    end
  end.

(** the results of the shards that answer, in shard order, and the number of shards that do not *)
Definition shard_answers (shards : list idata) (g : N) : list (list N) :=
  flat_map (fun d => match shard_ngram_search d g with Ok r => [r] | _ => [] end) shards.
Definition shard_failures (shards : list idata) (g : N) : N :=
  nlen (filter (fun d => negb (is_ok (shard_ngram_search d g))) shards).

(** a healthy one-document shard written by the model, and the same file with the top bit of every entry of the
    postings index table set (every content posting list then starts beyond the end of the file) *)
Definition iso_doc : doc_in := mkDocIn (str "a.go") (str "package needle") 0 true [] [] [] 0.
Definition iso_state : bstate := add_repos [([], [iso_doc])] 0 b_empty.
Definition iso_opaque : opaque := mkOpaque (repeat 0 8) [0; 0] [1] None wit_meta wit_repo.
Definition iso_healthy : list N := write_shard false iso_state iso_opaque.
Definition iso_table : N * N :=
  match lookup_tag (str "postings") (snd (layout 0 (shard_sections false iso_state iso_opaque))) with
  | Some (RCompound _ _ ioff isz) => (ioff, isz)
  | _ => (0, 0)
  end.
Fixpoint set_top_bits (l : list N) (pos : N) (lo sz : N) : list N :=
  match l with
  | [] => []
  | x :: r => (if (lo <=? pos) && (pos <? lo + sz) && ((pos - lo) mod 4 =? 0) && (x <? 128) then x + 128 else x)
              :: set_top_bits r (pos + 1) lo sz
  end.
Definition witness_oob : list N := set_top_bits iso_healthy 0 (fst iso_table) (snd iso_table).
Definition iso_ngram : N := ngram_of 110 101 101.    (* "nee", a trigram of the pattern "needle" *)
Definition witnesses2 : list (list N) := witnesses ++ [witness_oob; iso_healthy].

(* ------------------------------------------------------------------ outcome-class runner *)
(** kind 0 truncation at pos | 1 flip of bit [bit] of byte [pos] | 2 intact;
    obs: 0 error (not loaded) | 1 served | 2 served, crash contained | 3 PROCESS CRASH | 4 HANG | 5 search returned an error *)
Inductive c11case :=
| C11V (base : nat) (kind pos bit obs : N)
| C11W (idx : nat) (obs : N).

Definition c11_bytes (bases : list (list N)) (c : c11case) : list N * N :=
  match c with
  | C11V base kind pos bit obs =>
    let b := nth base bases [] in
    ((if kind =? 0 then firstn (N.to_nat pos) b else if kind =? 1 then flip_bit b pos bit else b), obs)
  | C11W idx obs => (nth idx witnesses2 [], obs)
  end.

(** model says "load error" => the implementation must not have loaded the shard; model says "loads" => the
    implementation may still reject it (JSON metadata, statistics: not modelled) but must neither crash nor hang. *)
Definition c11_check (bases : list (list N)) (c : c11case) : bool :=
  let '(bytes, obs) := c11_bytes bases c in
  match bytes with
  | [] => obs =? 0
  | _ =>
    match load_shard_served (mmap_file bytes) false with
    | Err _ => obs =? 0
    | Panic _ => obs =? 4
    | Ok _ => negb (obs =? 3) && negb (obs =? 4)
    end
  end.
Definition c11_mismatches (bases : list (list N)) (cs : list c11case) : list N := bad_indexes (c11_check bases) cs.

