(** C01, regexp distillation: the singleLine decision of regexpToMatchTreeRecursive over the FULL regexp AST of
    Model/Regex.v (one constructor per regexp/syntax operator), driven by the table the translator reads from the
    `switch r.Op` of the function (Generated/DistillSwitch.v, regenerated from index/eval.go in every run):
    which operand operators of OpStar are taken as a same-line separator.

    [single_line tbl r] = the third result of regexpToMatchTreeRecursive on r (true: "a match of r lies within one line" -
    a concatenation all of whose parts are singleLine is searched with an andLineMatchTree, which drops every document
    in which the literals do not share a line BEFORE the regexp engine runs).
    [proj tbl r] = the lossy projection onto Model/SearchCore.rx that the rest of the C01 model works with (the harness
    serialises exactly this projection of *syntax.Regexp).  Proofs/SearchCoreSepLine.v ties the two and proves the
    decision sound for every table whose operand operators cannot match a newline. *)
From Coq Require Import List NArith Arith Bool String.
From ZV Require Import Lib.Base Model.SearchCore.
From ZV Require Model.Regex.
Import ListNotations.

Module RX := ZV.Model.Regex.
Local Open Scope string_scope.

(** regexp/syntax.Op.String() of the root of a regexp *)
Definition op_name (r : RX.re) : string :=
  match r with
  | RX.RNoMatch => "OpNoMatch" | RX.REmpty => "OpEmptyMatch" | RX.RLit _ _ => "OpLiteral" | RX.RClass _ => "OpCharClass"
  | RX.RAny => "OpAnyChar" | RX.RAnyNotNL => "OpAnyCharNotNL"
  | RX.RBeginLine => "OpBeginLine" | RX.REndLine => "OpEndLine" | RX.RBeginText => "OpBeginText" | RX.REndText => "OpEndText"
  | RX.RWordB => "OpWordBoundary" | RX.RNoWordB => "OpNoWordBoundary"
  | RX.RCapture _ => "OpCapture" | RX.RStar _ => "OpStar" | RX.RPlus _ => "OpPlus" | RX.RQuest _ => "OpQuest"
  | RX.RRepeat _ _ _ => "OpRepeat" | RX.RConcat _ => "OpConcat" | RX.RAlt _ => "OpAlternate"
  end.

Fixpoint mem_str (x : string) (l : list string) : bool :=
  match l with [] => false | y :: r => String.eqb x y || mem_str x r end.

(** the operators that consume exactly one rune and whose rune set is fixed by the operator alone: the predicate on
    the rune (Regex.m: step_m).  OpCharClass is not among them (its set is data of the node). *)
Definition op_step (op : string) : option (N -> bool) :=
  if String.eqb op "OpAnyCharNotNL" then Some RX.any_rune_not_nl
  else if String.eqb op "OpAnyChar" then Some RX.any_rune
  else None.

(** an operand operator of a star that is taken as same-line separator is SAFE when it is a one-rune operator that
    cannot consume a newline *)
Definition sep_op_excludes_nl (op : string) : bool :=
  match op_step op with Some p => negb (p 10%N) | None => false end.

(** the star operands that the code under check declares singleLine (rows of Generated.star_rules with singleLine = true) *)
Definition star_sl_ops (rules : list (list string * (bool * bool))) : list string :=
  flat_map (fun ru : list string * (bool * bool) => if snd (snd ru) then fst ru else []) rules.
Definition table_safe (tbl : list string) : bool := forallb sep_op_excludes_nl tbl.

(** what the hand-written part of the model (distill on rx, the harness projection) assumes about the switch *)
Definition model_handled_ops : list string :=
  ["OpAlternate"; "OpCapture"; "OpConcat"; "OpLiteral"; "OpPlus"; "OpRepeat"; "OpStar"].
Definition model_star_rules : list (list string * (bool * bool)) := [(["OpAnyCharNotNL"], (false, true))].
Definition model_default_flags : bool * bool := (false, false).
Definition model_lit_single_line : string := "no-newline".     (* distill: negb (memN 10 s) *)
Definition str_list_eqb := list_eqb String.eqb.
Definition rules_eqb (a b : list (list string * (bool * bool))) : bool :=
  list_eqb (fun x y : list string * (bool * bool) => str_list_eqb (fst x) (fst y) && Bool.eqb (fst (snd x)) (fst (snd y)) && Bool.eqb (snd (snd x)) (snd (snd y))) a b.
Definition switch_as_modelled (handled : list string) (rules : list (list string * (bool * bool))) (lit_sl : string) (dflt : bool * bool) : bool :=
  str_list_eqb handled model_handled_ops && rules_eqb rules model_star_rules && String.eqb lit_sl model_lit_single_line
  && Bool.eqb (fst dflt) (fst model_default_flags) && Bool.eqb (snd dflt) (snd model_default_flags).

(** the table of the code as modelled, and the table of a code that also takes the dot-all star for a same-line separator *)
Definition tbl_notnl : list string := ["OpAnyCharNotNL"].
Definition tbl_dotall : list string := ["OpAnyCharNotNL"; "OpAnyChar"].

(** singleLine of regexpToMatchTreeRecursive, over the full AST *)
Fixpoint single_line (tbl : list string) (r : RX.re) : bool :=
  match r with
  | RX.RLit _ s => (3 <=? byte_len s)%nat && negb (memN 10 s)
  | RX.RCapture x => single_line tbl x
  | RX.RPlus x => single_line tbl x
  | RX.RRepeat mn _ x => (1 <=? mn)%nat && single_line tbl x
  | RX.RConcat rs => forallb (single_line tbl) rs
  | RX.RStar x => mem_str (op_name x) tbl
  | _ => false
  end.

(** the projection onto SearchCore.rx (harness: vfC01Rx) *)
Fixpoint proj (tbl : list string) (r : RX.re) : rx :=
  match r with
  | RX.RLit f s => RLit s f
  | RX.RCapture x => RCapture (proj tbl x)
  | RX.RPlus x => RPlus (proj tbl x)
  | RX.RRepeat mn _ x => RRepeat mn (proj tbl x)
  | RX.RConcat rs => RConcat (map (proj tbl) rs)
  | RX.RAlt rs => RAlt (map (proj tbl) rs)
  | RX.RStar x => if mem_str (op_name x) tbl then RStarAnyNotNL else ROther
  | RX.RWordB => RWordB
  | _ => ROther
  end.

(** "no newline at the positions i <= k < j of t" *)
Definition no_nl (t : list N) (i j : nat) : Prop := forall k, i <= k -> k < j -> nth_error t k <> Some 10%N.
