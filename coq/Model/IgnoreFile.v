(** C14/C15 — model of ignore/ignore.go: ParseIgnoreFile's line syntax and Matcher.Match.
    The glob engine (github.com/gobwas/glob, compiled with separator '/') is a verdict function [glob pattern path].
    Not modelled: strings.TrimSpace's non-ASCII white space (U+0085, U+00A0, ...: only \t \n \v \f \r and ' ' here),
    bufio.Scanner's 64 KiB line limit, glob.Compile errors (ParseIgnoreFile then fails; generators emit valid patterns). *)
From ZV Require Import Lib.Base.

Definition ibytes := list N.

(** bufio.ScanLines: lines end at '\n'; one trailing '\r' is dropped; a final unterminated non-empty line counts *)
Definition drop_cr (l : ibytes) : ibytes :=
  match rev l with
  | 13%N :: r => rev r
  | _ => l
  end.

Fixpoint split_lines_aux (l : ibytes) (cur : ibytes) : list ibytes :=
  match l with
  | [] => match cur with [] => [] | _ => [drop_cr (rev cur)] end
  | c :: r => if N.eqb c 10 then drop_cr (rev cur) :: split_lines_aux r [] else split_lines_aux r (c :: cur)
  end.
Definition split_lines (l : ibytes) : list ibytes := split_lines_aux l [].

Definition is_space (c : N) : bool :=
  N.eqb c 9 || N.eqb c 10 || N.eqb c 11 || N.eqb c 12 || N.eqb c 13 || N.eqb c 32.

Fixpoint trim_left (l : ibytes) : ibytes :=
  match l with
  | c :: r => if is_space c then trim_left r else l
  | [] => []
  end.
Definition trim_space (l : ibytes) : ibytes := rev (trim_left (rev (trim_left l))).

Definition is_glob_char (c : N) : bool :=   (* strings.ContainsAny(line, ".][*?") *)
  N.eqb c 46 || N.eqb c 93 || N.eqb c 91 || N.eqb c 42 || N.eqb c 63.

(** one line of the ignore file: None = contributes no pattern *)
Definition normalise_line (line : ibytes) : option ibytes :=
  match trim_space line with
  | [] => None
  | c :: r =>
      if N.eqb c 35 then None else                               (* '#': comment *)
      let t' := if N.eqb c 47 then r else c :: r in              (* strings.TrimPrefix(line, "/") *)
      Some (if existsb is_glob_char t' then t' else t' ++ [42;42]%N)   (* implicit "**" *)
  end.

Fixpoint filter_map {A B} (f : A -> option B) (l : list A) : list B :=
  match l with
  | [] => []
  | x :: r => match f x with Some y => y :: filter_map f r | None => filter_map f r end
  end.

Definition ignore_patterns (content : ibytes) : list ibytes := filter_map normalise_line (split_lines content).

(** Matcher.Match *)
Definition ignore_match (glob : ibytes -> ibytes -> bool) (content : ibytes) (path : ibytes) : bool :=
  existsb (fun p => glob p path) (ignore_patterns content).

(** the glob verdicts observed on the real engine, as a table of the (pattern, path) pairs that match *)
Definition table_glob (tab : list (ibytes * ibytes)) (p path : ibytes) : bool :=
  existsb (fun e => list_eqb N.eqb (fst e) p && list_eqb N.eqb (snd e) path) tab.
