(** C28 — syntax of the source-level dispatch of internal/hybridre2 (Regexp.FindAllIndex) as read by
    translator/hybridre2 into Generated/HybridRe2.v.  Model only: no proofs here. *)

From Coq Require Import ZArith.

(** the two regexp engines behind the package *)
Inductive engine := Grafana | RE2.

(** what a call site passes to the engine for one of FindAllIndex's parameters (the input bytes / the match limit):
    the method's own parameter, not touched on the path to the call, or anything else (a slice of it, a reassigned
    variable, a literal, the result of a call, ...) *)
Inductive argsrc := ArgParam | ArgDerived.

(** conditions: [CCompiled] is `re.<go-re2 field> != nil`; [CUsed] is `useRE2(len(b))` with b the untouched input
    parameter; [COpaque k] is any condition the translator does not interpret (k indexes opaque_conds) *)
Inductive dcond :=
| CTrue | CFalse | CCompiled | CUsed
| CNot (c : dcond) | CAnd (c1 c2 : dcond) | COr (c1 c2 : dcond)
| COpaque (k : nat).

(** the function body path by path: a leaf is `return re.<engine field>.FindAllIndex(<input>, <limit>)`;
    [DOther] is any other way of leaving the function *)
Inductive dtree :=
| DRet (e : engine) (input limit : argsrc)
| DIf (c : dcond) (t f : dtree)
| DOther.

(** ---- how threshold() reads the environment variable, path by path.
    [TSet]: the variable is set (second result of os.LookupEnv on the variable's name); [TParsedOk]: `err == nil` for
    strconv.ParseInt(<the variable's text>, 10, 64); [VParsed]: the number that call returned. *)
Inductive tval := VParsed | VConst (z : Z).
Inductive tcond :=
| TTrue | TFalse | TSet | TParsedOk
| TNot (c : tcond) | TAnd (c1 c2 : tcond) | TOr (c1 c2 : tcond)
| TOpaque (k : nat).
Inductive ttree :=
| TRet (v : tval)
| TIf (c : tcond) (t f : ttree)
| TOther.
