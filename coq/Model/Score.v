(** Model of the default (non-BM25) scorer of index/score.go — scoreLine, scoreChunk, scoreFile —
    of sortMatchesByScore / sortChunkMatchesByScore and of SortFiles + boostNovelExtension
    (index/contentprovider.go), over exact rationals.  The scoring constants come from
    Generated/ScoreConsts.v, which the check regenerates from the Go source on every run.

    A candidate match is represented by the features scoreLine derives from it (word boundaries,
    filename/base position, overlapping symbol and its kind score, the boost weight).  The debug
    flag is threaded exactly as in the code: it only decides whether explanation tokens are
    accumulated.  Floats: the model is exact; binary64 rounding is discussed in NOTES.md and handled
    by the correspondence (order exact, scores within 2^-30 / 2^-12). *)
From Coq Require Import QArith Qabs Qround.
From ZV Require Import Lib.Base Generated.ScoreConsts.
Open Scope Q_scope.

Definition Qltb (a b : Q) : bool := negb (Qle_bool b a).

Inductive mkind :=
| KNone
| KFile (start_match end_match after_sep : bool)
| KSym (start_match end_match : bool) (kind : option Q).

Record cand := { c_sb : bool; c_eb : bool; c_kind : mkind; c_weight : Q }.

(** The weight of a candidate is the product of the query.Boost values above its atom
    (visitMatches: weight * s.boost, from 1).  Boost values are binary64 numbers copied unchecked from the
    wire (query.BoostFromProto), so the product can be any binary64 value: a rational, +-Inf or NaN. *)
Inductive xweight := XNaN | XPosInf | XNegInf | XFin (q : Q).

(** index/eval.go:setScoreWeight caps the product: `if scoreWeight > maxBoostWeight { scoreWeight =
    maxBoostWeight }` (/repo b74fc3f).  +Inf and every rational above the cap become the cap; NaN and -Inf
    pass the comparison unchanged.  Such a candidate can never win: scoreLine computes score * weight
    (NaN, -Inf, or NaN again for 0 * -Inf) and keeps a candidate only if that is > the best so far, which is
    >= 0; boostScore (BM25) takes the maximum of 1 and the weights with `>`.  Both comparisons are false —
    exactly as for the weight 0 (score * 0 = 0 is not > best >= 0; 0 is not > 1).  Over exact rationals
    the model therefore gives NaN and -Inf the effective weight 0; the correspondence runs feed NaN, +-Inf,
    huge and non-positive products through the real scorer and through [eff_weight]. *)
Definition eff_weight (w : xweight) : Q :=
  match w with
  | XNaN | XNegInf => 0
  | XPosInf => c_maxBoostWeight
  | XFin q => if Qltb c_maxBoostWeight q then c_maxBoostWeight else q
  end.

(** explanation tokens (the debug strings, abstracted): (tag, value) *)
Definition dtoken := (N * Q)%type.
Definition t_word : N := 1%N.   Definition t_partword : N := 2%N.
Definition t_base : N := 3%N.   Definition t_edgebase : N := 4%N.  Definition t_innerbase : N := 5%N.
Definition t_symbol : N := 6%N. Definition t_edgesymbol : N := 7%N. Definition t_overlapsymbol : N := 8%N.
Definition t_kind : N := 9%N.   Definition t_boost : N := 10%N.    Definition t_score : N := 11%N.
Definition t_atom : N := 12%N.  Definition t_fragment : N := 13%N.

(** the addScore closures: the score always accumulates, the explanation only under [dbg] *)
Definition add_score (dbg : bool) (tag : N) (s : Q) (acc : Q * list dtoken) : Q * list dtoken :=
  (fst acc + s, if negb (Qeq_bool s 0) && dbg then snd acc ++ [(tag, s)] else snd acc).

Definition eps_one (w : Q) : bool := Qeq_bool w 1 || Qltb (Qabs (w - 1)) c_epsilon.

Definition word_part (dbg : bool) (c : cand) (a : Q * list dtoken) : Q * list dtoken :=
  if c_sb c && c_eb c then add_score dbg t_word c_scoreWordMatch a
  else if c_sb c || c_eb c then add_score dbg t_partword c_scorePartialWordMatch a
  else a.
Definition kind_part (dbg : bool) (c : cand) (a : Q * list dtoken) : Q * list dtoken :=
  match c_kind c with
  | KNone => a
  | KFile s e inner =>
      if s && e then add_score dbg t_base c_scoreBase a
      else if s || e then add_score dbg t_edgebase ((c_scoreBase + c_scorePartialBase) / 2) a
      else if inner then add_score dbg t_innerbase c_scorePartialBase a
      else a
  | KSym s e k =>
      let a' := if s && e then add_score dbg t_symbol c_scoreSymbol a
                else if s || e then add_score dbg t_edgesymbol ((c_scoreSymbol + c_scorePartialSymbol) / 2) a
                else add_score dbg t_overlapsymbol c_scorePartialSymbol a in
      match k with Some q => add_score dbg t_kind q a' | None => a' end
  end.
Definition weight_part (dbg : bool) (c : cand) (a : Q * list dtoken) : Q * list dtoken :=
  if eps_one (c_weight c) then a
  else (fst a * c_weight c, if dbg then snd a ++ [(t_boost, c_weight c)] else snd a).
Definition score_cand (dbg : bool) (c : cand) : Q * list dtoken :=
  weight_part dbg c (kind_part dbg c (word_part dbg c (0, []))).

(** scoreLine: the best candidate (strictly greater than the running best, which starts at 0) *)
Definition better (best : Q * list dtoken) (x : Q * list dtoken) : Q * list dtoken :=
  if Qltb (fst best) (fst x) then x else best.
Definition score_line (dbg : bool) (cs : list cand) : Q * list dtoken :=
  let best := fold_left (fun b c => better b (score_cand dbg c)) cs (0, []) in
  (fst best, if dbg then (t_score, fst best) :: snd best else []).

(** scoreChunk: candidates grouped by line; best line (strictly greater, starting at score 0, line 0) *)
Definition score_chunk (dbg : bool) (lines : list (Z * list cand)) : Q * Z * list dtoken :=
  fold_left (fun (b : Q * Z * list dtoken) (l : Z * list cand) =>
               let s := score_line dbg (snd l) in
               if Qltb (fst (fst b)) (fst s) then (fst s, fst l, snd s) else b)
            lines (0, 0%Z, []).

(** a match of a file: line mode = one line group, chunk mode = the chunk's line groups *)
Definition match_score (dbg : bool) (lines : list (Z * list cand)) : Q * list dtoken :=
  let r := score_chunk dbg lines in (fst (fst r), snd r).

(** math.Trunc *)
Definition Qtrunc (q : Q) : Z := if Qle_bool 0 q then Qfloor q else (- Qfloor (- q))%Z.

Definition atom_score (atoms : nat) : Q :=
  match atoms with
  | O => 0
  | _ => (1 - 1 / inject_Z (Z.of_nat atoms)) * c_scoreFactorAtomMatch
  end.

Fixpoint order_adjust (scores : list Q) (i : nat) (len : nat) : list Q :=
  match scores with
  | [] => []
  | s :: r => (s + c_scoreLineOrderFactor * (1 - inject_Z (Z.of_nat i) / inject_Z (Z.of_nat len))) :: order_adjust r (S i) len
  end.

Definition max_score (scores : list Q) : Q := fold_left (fun m s => if Qltb m s then s else m) scores 0.

Record fin := { fi_atoms : nat; fi_rank : Z; fi_doc : Z; fi_ndocs : Z; fi_matches : list (list (Z * list cand)) }.

(** scoreFile: adjusted match scores (in file order), the file score, the explanation *)
Definition score_file (dbg : bool) (f : fin) : list Q * Q * list dtoken :=
  let ms := map (fun m => fst (match_score dbg m)) (fi_matches f) in
  let a := add_score dbg t_atom (atom_score (fi_atoms f)) (0, []) in
  let a' := add_score dbg t_fragment (max_score ms) a in
  let truncated := inject_Z (Qtrunc (fst a')) in
  let final := c_ScoreOffset * truncated + c_scoreRepoRankFactor * inject_Z (fi_rank f)
               + c_scoreFileOrderFactor * (1 - inject_Z (fi_doc f) / inject_Z (fi_ndocs f)) in
  (order_adjust ms 0 (length ms), final, if dbg then snd a' else []).

(** sort.Sort by decreasing score, modelled as a stable insertion sort (order "up to ties") *)
Section Sorting.
  Context {A : Type} (score : A -> Q).
  Fixpoint ins_desc (x : A) (l : list A) : list A :=
    match l with
    | [] => [x]
    | y :: r => if Qltb (score y) (score x) then x :: l else y :: ins_desc x r
    end.
  Definition sort_desc (l : list A) : list A := fold_right ins_desc [] l.
End Sorting.

(** the ranked matches of one file: (index in file order, adjusted score), sorted *)
Definition rank_matches (dbg : bool) (f : fin) : list (nat * Q) :=
  let adj := fst (fst (score_file dbg f)) in
  sort_desc snd (combine (seq 0 (length adj)) adj).

(** SortFiles on (id, score, extension) *)
Record sfile := { sf_id : N; sf_score : Q; sf_ext : N }.
Definition ext_in (e : N) (top : list sfile) : bool := existsb (fun t => N.eqb (sf_ext t) e) top.
Fixpoint find_novel (top : list sfile) (min_score : Q) (cands : list sfile) (i : nat) : option (nat * sfile) :=
  match cands with
  | [] => None
  | c :: r =>
      if Qltb (sf_score c) min_score then find_novel top min_score r (S i)
      else if ext_in (sf_ext c) top then find_novel top min_score r (S i)
      else Some (i, c)
  end.
Definition boost_novel (ms : list sfile) : list sfile :=
  if (length ms <=? c_boostOffset + 1)%nat then ms else
  let top := firstn c_boostOffset ms in
  let cands := skipn c_boostOffset ms in
  match cands with
  | [] => ms
  | c0 :: _ =>
      match find_novel top (sf_score c0 * c_minScoreRatio) cands 0 with
      | None => ms
      | Some (i, c) => top ++ c :: firstn i cands ++ skipn (S i) cands
      end
  end.
Definition sort_files (ms : list sfile) : list sfile := boost_novel (sort_desc sf_score ms).

(** the whole ranking of a result set: files with (id, ext, inputs) -> ranked ids with scores and
    ranked matches *)
Definition rank_all (dbg : bool) (fs : list (N * N * fin)) : list (N * Q * list (nat * Q)) :=
  let scored := map (fun x => let '(i, e, f) := x in
                              ({| sf_id := i; sf_score := snd (fst (score_file dbg f)); sf_ext := e |}, rank_matches dbg f)) fs in
  let order := sort_files (map fst scored) in
  map (fun s => (sf_id s, sf_score s,
                 match find (fun x => N.eqb (sf_id (fst x)) (sf_id s)) scored with
                 | Some x => snd x | None => [] end)) order.

(** ---- correspondence runner *)
Definition rq := (Z * positive)%type.
Definition q_of (x : rq) : Q := Qmake (fst x) (snd x).
(* kind code: 0 none | 1 file | 2 symbol ; three flags ; optional kind score *)
Definition rcand := (bool * bool * (N * bool * bool * bool * option rq) * xweight)%type.
Definition mk_cand (c : rcand) : cand :=
  let '(sb, eb, (k, b1, b2, b3, kq), w) := c in
  {| c_sb := sb; c_eb := eb;
     c_kind := match k with
               | 0%N => KNone
               | 1%N => KFile b1 b2 b3
               | _ => KSym b1 b2 (option_map q_of kq)
               end;
     c_weight := eff_weight w |}.
Definition rfin := (N * N * (N * Z * Z * Z) * list (list (Z * list rcand)))%type.
Definition mk_fin (f : rfin) : N * N * fin :=
  let '(i, e, (a, rk, d, nd), ms) := f in
  (i, e, {| fi_atoms := N.to_nat a; fi_rank := rk; fi_doc := d; fi_ndocs := nd;
            fi_matches := map (map (fun l => (fst l, map mk_cand (snd l)))) ms |}).
(* observed: ranked files (id, score, ranked matches (index in file order, score)) *)
Definition robs := list (N * rq * list (N * rq)).
Definition c29case := (list rfin * robs * robs)%type.   (* inputs, observed with debug off, with debug on *)

(** binary64 vs exact: an absolute tolerance (the `i/len`, `doc/ndocs`, `1/atoms` terms) plus a relative one
    of 2^-48 for the few roundings of scores that a large boost weight has scaled up (at ordinary magnitudes
    the relative part is below the absolute one: file scores < 2^37, match scores < 2^14) *)
Definition tol_rel : Q := 1 # 281474976710656.   (* 2^-48 *)
Definition close (tol : Q) (a b : Q) : bool := Qle_bool (Qabs (a - b)) (tol + tol_rel * Qabs a).
Definition tol_match : Q := 1 # 1073741824.   (* 2^-30 *)
Definition tol_file : Q := 1 # 4096.          (* 2^-12 *)

Fixpoint list_eqb2 {A B} (eqb : A -> B -> bool) (a : list A) (b : list B) : bool :=
  match a, b with
  | [], [] => true
  | x :: a', y :: b' => eqb x y && list_eqb2 eqb a' b'
  | _, _ => false
  end.

Fixpoint nodupN (l : list N) : bool :=
  match l with
  | [] => true
  | x :: r => negb (existsb (N.eqb x) r) && nodupN r
  end.

(** Order "up to ties".  The model ranks by exact scores; the implementation by binary64 scores with an
    unstable sort, and a large boost weight absorbs the tie-breaking terms (in-file order term, repository
    rank, document order), so that scores which differ exactly are equal in binary64 and their order is
    unspecified.  An observed ranking [o] agrees with the model's ranking [m] when (1) both have the same length
    and the scores at every RANK agree within the tolerance, (2) every observed entry is an entry of the model
    (by identity) whose model score agrees with the observed score, (3) no identity is observed twice.  For
    entries whose scores are further apart than twice the tolerance this forces the same position. *)
Definition matches_eqv (am : list (nat * Q)) (bm : list (N * rq)) : bool :=
  list_eqb2 (fun (x : nat * Q) (y : N * rq) => close tol_match (snd x) (q_of (snd y))) am bm &&
  forallb (fun y : N * rq =>
             match find (fun x : nat * Q => N.eqb (N.of_nat (fst x)) (fst y)) am with
             | Some x => close tol_match (snd x) (q_of (snd y))
             | None => false
             end) bm &&
  nodupN (map fst bm).

Definition obs_eqb (m : list (N * Q * list (nat * Q))) (o : robs) : bool :=
  list_eqb2 (fun (a : N * Q * list (nat * Q)) (b : N * rq * list (N * rq)) =>
               close tol_file (snd (fst a)) (q_of (snd (fst b)))) m o &&
  forallb (fun b : N * rq * list (N * rq) =>
             let '(bi, bsc, bm) := b in
             match find (fun a : N * Q * list (nat * Q) => N.eqb (fst (fst a)) bi) m with
             | Some (_, asc, am) => close tol_file asc (q_of bsc) && matches_eqv am bm
             | None => false
             end) o &&
  nodupN (map (fun b : N * rq * list (N * rq) => fst (fst b)) o).

Definition c29_ok (c : c29case) : bool :=
  let '(fs, o_off, o_on) := c in
  let fins := map mk_fin fs in
  obs_eqb (rank_all false fins) o_off && obs_eqb (rank_all true fins) o_on.
Definition c29_mismatches (cs : list c29case) : list N := bad_indexes c29_ok cs.
