(** Model of the line / chunk / column arithmetic of index/contentprovider.go (property C03) and of
    breakMatchesOnNewlines (index/matchtree.go) which fillMatches applies first:

      write.go:newLinesIndices                     locs_of
      newlines.atOffset (sort.Search)              at_offset      (binary search as in Go: Lib.GoSearch)
      newlines.lineStart                           line_start
      newlines.offsetRangeToLineRange              range_lines
      newlines.getLines                            get_lines      (checked slice: Panic instead of default)
      breakOnNewlines / breakMatchesOnNewlines     break_matches
      fillMatches / fillContentMatches             fill_matches / fill_content_matches
      chunkCandidates                              chunk_candidates
      columnHelper.get                             col_get
      fillChunkMatches / fillContentChunkMatches   fill_chunk_matches / fill_content_chunk_matches
      sortByOffsetSlice.Less                       cand_less

    Byte offsets (uint32 in Go) are nat — the statements assume sizes < 2^32; line numbers are Go
    `int`s that can be <= 0 (num - numContextLines), so they are Z.  Scores, symbol info and
    BestLineMatch are not part of this model (C22/C29).  No proofs in this file. *)
From ZV Require Import Lib.Base Lib.GoSearch Lib.RuneCount.

(** ---- newline index *)
Fixpoint nl_aux (l : list N) (off : nat) : list nat :=
  match l with
  | [] => []
  | c :: r => if N.eqb c 10 then off :: nl_aux r (S off) else nl_aux r (S off)
  end.
Definition locs_of (content : list N) : list nat := nl_aux content 0.

Record newlines := { nl_locs : list nat; nl_fsz : nat }.
Definition newlines_of (content : list N) : newlines :=
  {| nl_locs := locs_of content; nl_fsz := length content |}.

(** the predicate handed to sort.Search: locs[n] >= offset (indexes >= len are never probed by
    sort.Search; they count as "true", i.e. the answer len) *)
Definition at_pred (locs : list nat) (off : nat) (n : nat) : bool :=
  match nth_error locs n with Some x => off <=? x | None => true end.

Definition at_offset (nls : newlines) (off : nat) : Z :=
  Z.of_nat (go_search (length (nl_locs nls)) (at_pred (nl_locs nls) off)) + 1.

Definition line_start (nls : newlines) (ln : Z) : nat :=
  let si := (ln - 2)%Z in
  if (si <? 0)%Z then 0
  else match nth_error (nl_locs nls) (Z.to_nat si) with
       | None => nl_fsz nls
       | Some x => S x
       end.

Definition range_lines (nls : newlines) (s e : nat) : Z * Z :=
  (at_offset nls s, at_offset nls (Nat.max s (Nat.max e 1 - 1))).

(** data[lo:hi] — panics when lo > hi or hi > len *)
Definition go_slice {A} (l : list A) (lo hi : nat) : outcome (list A) :=
  if (lo <=? hi) && (hi <=? length l) then Ok (slice l lo hi) else Panic 1%N.

Definition get_lines (nls : newlines) (data : list N) (low high : Z) : outcome (list N) :=
  if (high <=? low)%Z then Ok [] else go_slice data (line_start nls low) (line_start nls high).

(** ---- candidates *)
Record cand := { c_fn : bool; c_off : nat; c_sz : nat }.
Definition c_end (m : cand) : nat := c_off m + c_sz m.

(** sortByOffsetSlice.Less *)
Definition cand_less (a b : cand) : bool :=
  if negb (Bool.eqb (c_fn a) (c_fn b)) then c_fn a
  else if c_off a =? c_off b then c_sz b <? c_sz a
  else c_off a <? c_off b.

(** ---- breakOnNewlines: [seg] = text[off : off+sz], [start] = addMe.byteOffset, [cur] = i *)
Fixpoint brk (fn : bool) (seg : list N) (start cur : nat) : list cand :=
  match seg with
  | [] => if cur - start =? 0 then [] else [{| c_fn := fn; c_off := start; c_sz := cur - start |}]
  | c :: r =>
      if N.eqb c 10
      then (if cur - start =? 0 then [] else [{| c_fn := fn; c_off := start; c_sz := cur - start |}])
             ++ brk fn r (S cur) (S cur)
      else brk fn r start (S cur)
  end.
Definition break_on_newlines (text : list N) (m : cand) : outcome (list cand) :=
  if c_sz m =? 0 then Ok []
  else do seg <- go_slice text (c_off m) (c_end m); Ok (brk (c_fn m) seg (c_off m) (c_off m)).
Fixpoint break_matches (text : list N) (ms : list cand) : outcome (list cand) :=
  match ms with
  | [] => Ok []
  | m :: r => do a <- break_on_newlines text m; do b <- break_matches text r; Ok (a ++ b)
  end.

(** ---- LineMatch *)
Record frag := { f_lineoff : Z; f_off : nat; f_len : nat }.
Record linematch := {
  lm_line : list N; lm_start : nat; lm_end : nat; lm_num : Z;
  lm_before : list N; lm_after : list N; lm_fn : bool; lm_frags : list frag }.

(** the inner `for len(ms) > 0 { if int(m.byteOffset) < nextLineStart {...} else break }` *)
Fixpoint span_line (next : nat) (ms : list cand) : list cand * list cand :=
  match ms with
  | [] => ([], [])
  | m :: r => if c_off m <? next
              then let (a, b) := span_line next r in (m :: a, b)
              else ([], ms)
  end.

Fixpoint index_byte (l : list N) (c : N) : option nat :=
  match l with
  | [] => None
  | x :: r => if N.eqb x c then Some 0 else option_map S (index_byte r c)
  end.

(** `for nextLineStart < len(data) && endMatch > nextLineStart { ... }` *)
Fixpoint extend_line (fuel : nat) (data : list N) (next endm : nat) : nat :=
  match fuel with
  | 0 => next
  | S k =>
      if (next <? length data) && (next <? endm)
      then match index_byte (skipn next data) 10 with
           | None => extend_line k data (length data) endm
           | Some i => extend_line k data (next + i + 1) endm
           end
      else next
  end.

Definition mk_frag (ls : nat) (m : cand) : frag :=
  {| f_lineoff := Z.of_nat (c_off m) - Z.of_nat ls; f_off := c_off m; f_len := c_sz m |}.

Fixpoint fill_lines (fuel : nat) (nls : newlines) (data : list N) (ctx : Z) (ms : list cand)
  : outcome (list linematch) :=
  match ms with
  | [] => Ok []
  | m :: _ =>
      match fuel with
      | 0 => Panic 9%N                                   (* unreachable with fuel = length ms *)
      | S k =>
          let num := at_offset nls (c_off m) in
          let ls := line_start nls num in
          let nx := line_start nls (num + 1) in
          let (lc, rest) := span_line nx ms in
          match lc with
          | [] => Panic 2%N                              (* log.Panicf("... infinite loop ...") *)
          | _ :: _ =>
              let lastc := last lc m in
              let nx' := extend_line (S (length data)) data nx (c_end lastc) in
              do line <- go_slice data ls nx';
              do before <- (if (0 <? ctx)%Z then get_lines nls data (num - ctx) num else Ok []);
              do after <- (if (0 <? ctx)%Z then get_lines nls data (num + 1) (num + 1 + ctx) else Ok []);
              do tl <- fill_lines k nls data ctx rest;
              Ok ({| lm_line := line; lm_start := ls; lm_end := nx'; lm_num := num;
                     lm_before := before; lm_after := after; lm_fn := false;
                     lm_frags := map (mk_frag ls) lc |} :: tl)
          end
      end
  end.

Definition fill_content_matches (nls : newlines) (data : list N) (ctx : Z) (ms : list cand) :=
  fill_lines (length ms) nls data ctx ms.

Definition is_content (m : cand) : bool := negb (c_fn m).

(** fillMatches: content matches win; otherwise one LineMatch carrying the file name *)
Definition fill_matches (nls : newlines) (data name : list N) (ctx : Z) (ms : list cand)
  : outcome (list linematch) :=
  match filter is_content ms with
  | (_ :: _) as cms => do b <- break_matches data cms; fill_content_matches nls data ctx b
  | [] => Ok [ {| lm_line := name; lm_start := 0; lm_end := 0; lm_num := 0%Z;
                  lm_before := []; lm_after := []; lm_fn := true;
                  lm_frags := map (fun m => {| f_lineoff := Z.of_nat (c_off m); f_off := c_off m;
                                               f_len := c_sz m |}) ms |} ]
  end.

(** ---- chunkCandidates (the accumulator is kept reversed: head = chunks[len-1]) *)
Record chunk := { ch_cands : list cand; ch_first : Z; ch_last : Z; ch_min : nat; ch_max : nat }.

Definition chunk_step (nls : newlines) (ctx : Z) (acc : list chunk) (m : cand) : list chunk :=
  let s := c_off m in
  let e := c_end m in
  let '(fl, ll) := range_lines nls s e in
  match acc with
  | lastc :: rest =>
      if (fl - ctx <=? ch_last lastc + ctx)%Z
      then (if ch_max lastc <? e
            then {| ch_cands := ch_cands lastc ++ [m]; ch_first := ch_first lastc; ch_last := ll;
                    ch_min := ch_min lastc; ch_max := e |}
            else {| ch_cands := ch_cands lastc ++ [m]; ch_first := ch_first lastc; ch_last := ch_last lastc;
                    ch_min := ch_min lastc; ch_max := ch_max lastc |}) :: rest
      else {| ch_cands := [m]; ch_first := fl; ch_last := ll; ch_min := s; ch_max := e |} :: acc
  | [] => [{| ch_cands := [m]; ch_first := fl; ch_last := ll; ch_min := s; ch_max := e |}]
  end.
Definition chunk_candidates (nls : newlines) (ctx : Z) (ms : list cand) : list chunk :=
  rev (fold_left (chunk_step nls ctx) ms []).

(** ---- columnHelper *)
Record colstate := { cs_line : nat; cs_off : nat; cs_cnt : nat }.
Definition col_init : colstate := {| cs_line := 0; cs_off := 0; cs_cnt := 0 |}.

Definition col_get (data : list N) (st : colstate) (lineoff off : nat) : outcome (colstate * nat) :=
  do cnt <- (if (lineoff =? cs_line st) && (cs_off st <=? off)
             then do seg <- go_slice data (cs_off st) off; Ok (cs_cnt st + rune_count seg)
             else do seg <- go_slice data lineoff off; Ok (rune_count seg));
  Ok ({| cs_line := lineoff; cs_off := off; cs_cnt := cnt |}, S cnt).

(** ---- ChunkMatch *)
Record loc := { l_off : nat; l_line : Z; l_col : nat }.
Record chunkmatch := { cm_content : list N; cm_start : loc; cm_ranges : list (loc * loc); cm_fn : bool }.

Fixpoint ranges_of (nls : newlines) (data : list N) (st : colstate) (ms : list cand)
  : outcome (colstate * list (loc * loc)) :=
  match ms with
  | [] => Ok (st, [])
  | m :: r =>
      let s := c_off m in
      let e := c_end m in
      let '(sl, el) := range_lines nls s e in
      do r1 <- col_get data st (line_start nls sl) s;
      do r2 <- col_get data (fst r1) (line_start nls el) e;
      do tl <- ranges_of nls data (fst r2) r;
      Ok (fst tl, ({| l_off := s; l_line := sl; l_col := snd r1 |},
                   {| l_off := e; l_line := el; l_col := snd r2 |}) :: snd tl)
  end.

Fixpoint chunks_out (nls : newlines) (data : list N) (ctx : Z) (st : colstate) (cs : list chunk)
  : outcome (list chunkmatch) :=
  match cs with
  | [] => Ok []
  | c :: r =>
      do rg <- ranges_of nls data st (ch_cands c);
      let fln := Z.max (ch_first c - ctx) 1 in
      do content <- get_lines nls data fln (ch_last c + ctx + 1);
      do tl <- chunks_out nls data ctx (fst rg) r;
      Ok ({| cm_content := content;
             cm_start := {| l_off := line_start nls fln; l_line := fln; l_col := 1 |};
             cm_ranges := snd rg; cm_fn := false |} :: tl)
  end.

(** sort.IsSorted / sort.Sort(sortByOffsetSlice): only the key sequence is observable, and the sorted
    key sequence is unique (two candidates are unordered iff they have equal keys) *)
Fixpoint is_sorted_by (less : cand -> cand -> bool) (l : list cand) : bool :=
  match l with
  | a :: (b :: _) as r => negb (less b a) && is_sorted_by less r
  | _ => true
  end.
Fixpoint ins_cand (x : cand) (l : list cand) : list cand :=
  match l with
  | [] => [x]
  | y :: r => if cand_less x y then x :: l else y :: ins_cand x r
  end.
Definition sort_cands (l : list cand) : list cand := fold_right ins_cand [] (rev l).

Definition fill_content_chunk_matches (nls : newlines) (data : list N) (ctx : Z) (ms : list cand) :=
  let ms' := if is_sorted_by cand_less ms then ms else sort_cands ms in
  chunks_out nls data ctx col_init (chunk_candidates nls ctx ms').

Fixpoint name_ranges (name : list N) (ms : list cand) : outcome (list (loc * loc)) :=
  match ms with
  | [] => Ok []
  | m :: r =>
      do p1 <- go_slice name 0 (c_off m);
      do p2 <- go_slice name 0 (c_end m);
      do tl <- name_ranges name r;
      Ok (({| l_off := c_off m; l_line := 1; l_col := S (rune_count p1) |},
           {| l_off := c_end m; l_line := 1; l_col := S (rune_count p2) |}) :: tl)
  end.

Definition fill_chunk_matches (nls : newlines) (data name : list N) (ctx : Z) (ms : list cand)
  : outcome (list chunkmatch) :=
  match filter is_content ms with
  | (_ :: _) as cms => fill_content_chunk_matches nls data ctx cms
  | [] => do rg <- name_ranges name ms;
          Ok [ {| cm_content := name; cm_start := {| l_off := 0; l_line := 1; l_col := 1 |};
                  cm_ranges := rg; cm_fn := true |} ]
  end.

(** ================= correspondence runner ================= *)
Definition nlist_eqb := list_eqb N.eqb.
Definition mk_nls (locs : list N) (fsz : N) : newlines :=
  {| nl_locs := map N.to_nat locs; nl_fsz := N.to_nat fsz |}.
Definition mk_cand (t : bool * N * N) : cand :=
  let '(f, o, s) := t in {| c_fn := f; c_off := N.to_nat o; c_sz := N.to_nat s |}.

(** observed LineMatch: (Line, LineStart, LineEnd, LineNumber, Before, After, FileName, [(LineOffset, Offset, Len)]) *)
Definition lm_row := (list N * N * N * Z * list N * list N * bool * list (Z * N * N))%type.
Definition lm_out (m : linematch) : lm_row :=
  (lm_line m, N.of_nat (lm_start m), N.of_nat (lm_end m), lm_num m, lm_before m, lm_after m, lm_fn m,
   map (fun f => (f_lineoff f, N.of_nat (f_off f), N.of_nat (f_len f))) (lm_frags m)).
Definition frag_eqb (a b : Z * N * N) : bool :=
  let '(a1, a2, a3) := a in let '(b1, b2, b3) := b in Z.eqb a1 b1 && N.eqb a2 b2 && N.eqb a3 b3.
Definition lm_row_eqb (a b : lm_row) : bool :=
  let '(a1, a2, a3, a4, a5, a6, a7, a8) := a in
  let '(b1, b2, b3, b4, b5, b6, b7, b8) := b in
  nlist_eqb a1 b1 && N.eqb a2 b2 && N.eqb a3 b3 && Z.eqb a4 b4 && nlist_eqb a5 b5 && nlist_eqb a6 b6
  && Bool.eqb a7 b7 && list_eqb frag_eqb a8 b8.

(** observed Location (ByteOffset, LineNumber, Column); ChunkMatch: (Content, start, ranges, FileName) *)
Definition loc_row := (N * Z * N)%type.
Definition loc_out (l : loc) : loc_row := (N.of_nat (l_off l), l_line l, N.of_nat (l_col l)).
Definition loc_eqb (a b : loc_row) : bool :=
  let '(a1, a2, a3) := a in let '(b1, b2, b3) := b in N.eqb a1 b1 && Z.eqb a2 b2 && N.eqb a3 b3.
Definition cm_row := (list N * loc_row * list (loc_row * loc_row) * bool)%type.
Definition cm_out (c : chunkmatch) : cm_row :=
  (cm_content c, loc_out (cm_start c), map (fun p => (loc_out (fst p), loc_out (snd p))) (cm_ranges c), cm_fn c).
Definition cm_row_eqb (a b : cm_row) : bool :=
  let '(a1, a2, a3, a4) := a in let '(b1, b2, b3, b4) := b in
  nlist_eqb a1 b1 && loc_eqb a2 b2
  && list_eqb (fun x y => loc_eqb (fst x) (fst y) && loc_eqb (snd x) (snd y)) a3 b3 && Bool.eqb a4 b4.

Definition opt_eqb {A} (eqb : A -> A -> bool) (a : outcome A) (b : option A) : bool :=
  match a, b with
  | Ok x, Some y => eqb x y
  | Panic _, None => true
  | _, _ => false
  end.

(** observed chunk of chunkCandidates: (firstLine, lastLine, minOffset, maxOffset, #candidates) *)
Definition ch_row := (Z * Z * N * N * N)%type.
Definition ch_out (c : chunk) : ch_row :=
  (ch_first c, ch_last c, N.of_nat (ch_min c), N.of_nat (ch_max c), N.of_nat (length (ch_cands c))).
Definition ch_row_eqb (a b : ch_row) : bool :=
  let '(a1, a2, a3, a4, a5) := a in let '(b1, b2, b3, b4, b5) := b in
  Z.eqb a1 b1 && Z.eqb a2 b2 && N.eqb a3 b3 && N.eqb a4 b4 && N.eqb a5 b5.

Fixpoint col_run (data : list N) (st : colstate) (calls : list (N * N)) : list (option N) :=
  match calls with
  | [] => []
  | (lo, off) :: r =>
      match col_get data st (N.to_nat lo) (N.to_nat off) with
      | Ok (st', c) => Some (N.of_nat c) :: col_run data st' r
      | _ => [None]                                          (* the Go side stops at the first panic *)
      end
  end.
Definition optN_eqb (a b : option N) : bool :=
  match a, b with Some x, Some y => N.eqb x y | None, None => true | _, _ => false end.

Inductive c03case :=
| K_nl (content : list N) (locs : list N)                       (* write.go newLinesIndices *)
| K_at (locs : list N) (fsz off : N) (line : Z)                 (* atOffset *)
| K_ls (locs : list N) (fsz : N) (ln : Z) (res : N)             (* lineStart *)
| K_rng (locs : list N) (fsz s e : N) (l1 l2 : Z)               (* offsetRangeToLineRange *)
| K_gl (content : list N) (low high : Z) (res : option (list N)) (* getLines on the content's own newlines; None = panic *)
| K_rc (data : list N) (n : N)                                  (* utf8.RuneCount *)
| K_col (data : list N) (calls : list (N * N)) (res : list (option N))   (* columnHelper.get sequence *)
| K_brk (text : list N) (ms : list (bool * N * N)) (res : option (list (bool * N * N)))
| K_chunk (content : list N) (ctx : Z) (ms : list (bool * N * N)) (res : list ch_row)
| K_lm (content name : list N) (ctx : Z) (direct : bool) (ms : list (bool * N * N)) (res : option (list lm_row))
      (* direct = fillContentMatches called without breakMatchesOnNewlines *)
| K_cm (content name : list N) (ctx : Z) (ms : list (bool * N * N)) (res : option (list cm_row)).

Definition cand_row_eqb (a b : bool * N * N) : bool :=
  let '(a1, a2, a3) := a in let '(b1, b2, b3) := b in Bool.eqb a1 b1 && N.eqb a2 b2 && N.eqb a3 b3.
Definition cand_out (m : cand) : bool * N * N := (c_fn m, N.of_nat (c_off m), N.of_nat (c_sz m)).

Definition c03_ok (c : c03case) : bool :=
  match c with
  | K_nl content locs => nlist_eqb (map N.of_nat (locs_of content)) locs
  | K_at locs fsz off line => Z.eqb (at_offset (mk_nls locs fsz) (N.to_nat off)) line
  | K_ls locs fsz ln res => N.eqb (N.of_nat (line_start (mk_nls locs fsz) ln)) res
  | K_rng locs fsz s e l1 l2 =>
      let '(a, b) := range_lines (mk_nls locs fsz) (N.to_nat s) (N.to_nat e) in Z.eqb a l1 && Z.eqb b l2
  | K_gl content low high res => opt_eqb nlist_eqb (get_lines (newlines_of content) content low high) res
  | K_rc data n => N.eqb (N.of_nat (rune_count data)) n
  | K_col data calls res => list_eqb optN_eqb (col_run data col_init calls) res
  | K_brk text ms res =>
      opt_eqb (list_eqb cand_row_eqb) (do r <- break_matches text (map mk_cand ms); Ok (map cand_out r)) res
  | K_chunk content ctx ms res =>
      list_eqb ch_row_eqb (map ch_out (chunk_candidates (newlines_of content) ctx (map mk_cand ms))) res
  | K_lm content name ctx direct ms res =>
      opt_eqb (list_eqb lm_row_eqb)
              (do r <- (if direct then fill_content_matches (newlines_of content) content ctx (map mk_cand ms)
                        else fill_matches (newlines_of content) content name ctx (map mk_cand ms));
               Ok (map lm_out r)) res
  | K_cm content name ctx ms res =>
      opt_eqb (list_eqb cm_row_eqb)
              (do r <- fill_chunk_matches (newlines_of content) content name ctx (map mk_cand ms); Ok (map cm_out r)) res
  end.
Definition c03_mismatches (cs : list c03case) : list N := bad_indexes c03_ok cs.
