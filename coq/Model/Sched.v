(** Model of search/sched.go: multiScheduler (two counting semaphores), process.Yield, process.Release.

    The model is a transition system over any number of processes.  It follows the code's own
    variables rather than an abstract phase diagram:

      p_sem    the closure variable `sem` of multiScheduler.Acquire  (nil | semInteractive | semBatch)
      p_tnil   p.yieldTimer == nil   (set by a successful Yield)
      p_fired  the deadline of yieldTimer has passed (Exceeded() would return true)
      p_ctx    the process' context is done
      p_pc     where the calling goroutine is: before Acquire, blocked inside sem.Acquire of Acquire,
               running (between API calls), blocked inside semBatch.Acquire of yieldFunc,
               Acquire returned an error, Release was called.

    golang.org/x/sync/semaphore.Weighted is external and modelled by its contract: a counter `cur`
    with capacity `size`; Acquire(ctx,1) either increments cur when cur < size (grant) or returns
    ctx.Err() when ctx is done (fail); Release(1) decrements and PANICS when cur would become
    negative ("semaphore: released more than held").  FIFO order of waiters is not modelled: a grant may
    go to any waiter, which is a superset of the real behaviours (all theorems are safety properties).

    Ghost fields (p_acqI ... p_errs) count, per process, the successful semaphore acquisitions, the
    semaphore releases and the errors returned; they do not influence the transitions. *)
From ZV Require Import Lib.Base Generated.SchedConsts.

Inductive semid := SI | SB.
Inductive pc := PIdle | PAcq | PRun | PYield | PAcqErr | PEnd.

Record proc := mkProc {
  p_pc : pc;
  p_sem : option semid;
  p_tnil : bool;
  p_fired : bool;
  p_ctx : bool;
  p_acqI : nat; p_relI : nat; p_acqB : nat; p_relB : nat;
  p_errs : nat
}.

Record state := mkSt {
  capI : nat; capB : nat;     (* semInteractive.size, semBatch.size *)
  curI : nat; curB : nat;     (* semInteractive.cur,  semBatch.cur  *)
  procs : list proc;
  panicked : bool             (* a semaphore Release underflowed *)
}.

Definition idle_proc : proc := mkProc PIdle None false false false 0 0 0 0 0.
Definition init (ci cb : nat) : state := mkSt ci cb 0 0 [] false.

(** newMultiScheduler's batch capacity.
    SPEC (what the property calls "the batch capacity"; the code's log line: "Batch queue size 1/batchdiv of capacity",
    default "1/4 of interactive capacity", at least one slot): *)
Definition batch_cap_spec (capacity batchdiv : N) : N :=
  let d := if N.eqb batchdiv 0 then 4%N else batchdiv in
  let b := N.div capacity d in
  if N.eqb b 0 then 1%N else b.
(** MODEL of the code: the computation of the batch semaphore's size as translator/schedconsts reads it from
    search/sched.go on every run (coq/Generated/SchedConsts.v: [default_batchdiv], [batch_cap_src]); batchdiv 0 =
    tunable not set.  Theorem C20_batch_capacity_formula: model = spec for all capacities and divisors. *)
Definition batch_cap (capacity batchdiv : N) : N :=
  Z.to_N (batch_cap_src (Z.of_N capacity) (if N.eqb batchdiv 0 then default_batchdiv else Z.of_N batchdiv)).

Inductive event :=
| ENew                (* a search request (with its own context) comes into existence *)
| ECancel (p : nat)   (* its context becomes done *)
| EFire (p : nat)     (* the interactive time slice of p elapses *)
| EAcquire (p : nat)  (* p calls multiScheduler.Acquire and enters semInteractive.Acquire *)
| EGrant (p : nat)    (* the semaphore p is blocked on admits p; the enclosing call returns nil *)
| EFail (p : nat)     (* the semaphore Acquire p is blocked in returns ctx.Err() *)
| EYield (p : nat)    (* p calls process.Yield *)
| ERelease (p : nat). (* p calls process.Release *)

Fixpoint upd {A} (n : nat) (x : A) (l : list A) {struct l} : list A :=
  match l, n with
  | [], _ => []
  | _ :: r, 0 => x :: r
  | y :: r, S k => y :: upd k x r
  end.

Definition set_procs (s : state) (ps : list proc) : state :=
  mkSt (capI s) (capB s) (curI s) (curB s) ps (panicked s).
Definition cur (s : state) (i : semid) : nat := match i with SI => curI s | SB => curB s end.
Definition cap (s : state) (i : semid) : nat := match i with SI => capI s | SB => capB s end.

(** semaphore.Weighted.Release(1): checked operation *)
Definition sem_release (s : state) (i : semid) : state :=
  match i with
  | SI => match curI s with
          | 0 => mkSt (capI s) (capB s) 0 (curB s) (procs s) true
          | S k => mkSt (capI s) (capB s) k (curB s) (procs s) (panicked s)
          end
  | SB => match curB s with
          | 0 => mkSt (capI s) (capB s) (curI s) 0 (procs s) true
          | S k => mkSt (capI s) (capB s) (curI s) k (procs s) (panicked s)
          end
  end.
(** the successful branch of semaphore.Weighted.Acquire(ctx,1); the caller checks cur < cap *)
Definition sem_take (s : state) (i : semid) : state :=
  match i with
  | SI => mkSt (capI s) (capB s) (S (curI s)) (curB s) (procs s) (panicked s)
  | SB => mkSt (capI s) (capB s) (curI s) (S (curB s)) (procs s) (panicked s)
  end.

(** `if sem != nil { sem.Release(); sem = nil }` — shared by releaseFunc and yieldFunc.
    Returns the new state and the process with sem = nil and its ghost release counter bumped. *)
Definition drop_sem (s : state) (q : proc) : state * proc :=
  match p_sem q with
  | None => (s, q)
  | Some SI => (sem_release s SI,
                mkProc (p_pc q) None (p_tnil q) (p_fired q) (p_ctx q) (p_acqI q) (S (p_relI q)) (p_acqB q) (p_relB q) (p_errs q))
  | Some SB => (sem_release s SB,
                mkProc (p_pc q) None (p_tnil q) (p_fired q) (p_ctx q) (p_acqI q) (p_relI q) (p_acqB q) (S (p_relB q)) (p_errs q))
  end.

Definition with_pc (q : proc) (c : pc) : proc :=
  mkProc c (p_sem q) (p_tnil q) (p_fired q) (p_ctx q) (p_acqI q) (p_relI q) (p_acqB q) (p_relB q) (p_errs q).

Definition step (s : state) (e : event) : option state :=
  if panicked s then None else
  match e with
  | ENew => Some (set_procs s (procs s ++ [idle_proc]))
  | ECancel p =>
      match nth_error (procs s) p with
      | None => None
      | Some q => Some (set_procs s (upd p (mkProc (p_pc q) (p_sem q) (p_tnil q) (p_fired q) true
                                              (p_acqI q) (p_relI q) (p_acqB q) (p_relB q) (p_errs q)) (procs s)))
      end
  | EFire p =>
      match nth_error (procs s) p with
      | None => None
      | Some q =>
          match p_pc q with
          | PRun | PYield =>   (* the timer exists only once Acquire has returned a process *)
              Some (set_procs s (upd p (mkProc (p_pc q) (p_sem q) (p_tnil q) true (p_ctx q)
                                          (p_acqI q) (p_relI q) (p_acqB q) (p_relB q) (p_errs q)) (procs s)))
          | _ => None
          end
      end
  | EAcquire p =>
      match nth_error (procs s) p with
      | None => None
      | Some q => match p_pc q with
                  | PIdle => Some (set_procs s (upd p (with_pc q PAcq) (procs s)))
                  | _ => None
                  end
      end
  | EGrant p =>
      match nth_error (procs s) p with
      | None => None
      | Some q =>
          match p_pc q with
          | PAcq =>    (* semInteractive.Acquire succeeds; Acquire builds the process: sem = semInteractive, fresh timer *)
              if curI s <? capI s then
                Some (set_procs (sem_take s SI)
                        (upd p (mkProc PRun (Some SI) false false (p_ctx q)
                                  (S (p_acqI q)) (p_relI q) (p_acqB q) (p_relB q) (p_errs q)) (procs s)))
              else None
          | PYield =>  (* semBatch.Acquire succeeds; yieldFunc: sem = semBatch; Yield: yieldTimer.Stop(); yieldTimer = nil *)
              if curB s <? capB s then
                Some (set_procs (sem_take s SB)
                        (upd p (mkProc PRun (Some SB) true (p_fired q) (p_ctx q)
                                  (p_acqI q) (p_relI q) (S (p_acqB q)) (p_relB q) (p_errs q)) (procs s)))
              else None
          | _ => None
          end
      end
  | EFail p =>
      match nth_error (procs s) p with
      | None => None
      | Some q =>
          if p_ctx q then
            match p_pc q with
            | PAcq =>   (* Acquire returns (nil, err): no process object exists *)
                Some (set_procs s (upd p (mkProc PAcqErr (p_sem q) (p_tnil q) (p_fired q) (p_ctx q)
                                            (p_acqI q) (p_relI q) (p_acqB q) (p_relB q) (S (p_errs q))) (procs s)))
            | PYield => (* yieldFunc returns err with sem = nil; Yield returns err, the timer stays *)
                Some (set_procs s (upd p (mkProc PRun (p_sem q) (p_tnil q) (p_fired q) (p_ctx q)
                                            (p_acqI q) (p_relI q) (p_acqB q) (p_relB q) (S (p_errs q))) (procs s)))
            | _ => None
            end
          else None
      end
  | EYield p =>
      match nth_error (procs s) p with
      | None => None
      | Some q =>
          match p_pc q with
          | PRun =>
              if p_tnil q || negb (p_fired q) then Some s     (* yieldTimer == nil || !Exceeded(): return nil *)
              else (* yieldFunc: release what is held, then block in semBatch.Acquire *)
                let '(s1, q1) := drop_sem s q in
                Some (set_procs s1 (upd p (with_pc q1 PYield) (procs s1)))
          | _ => None
          end
      end
  | ERelease p =>
      match nth_error (procs s) p with
      | None => None
      | Some q =>
          match p_pc q with
          | PRun =>   (* Release: yieldTimer.Stop(); releaseFunc *)
              let '(s1, q1) := drop_sem s q in
              Some (set_procs s1 (upd p (with_pc q1 PEnd) (procs s1)))
          | _ => None
          end
      end
  end.

Fixpoint run (s : state) (es : list event) : option state :=
  match es with
  | [] => Some s
  | e :: r => match step s e with Some s' => run s' r | None => None end
  end.

(** ---- observables used by the theorems *)
Fixpoint count {A} (f : A -> bool) (l : list A) : nat :=
  match l with [] => 0 | x :: r => (if f x then 1 else 0) + count f r end.
Definition holds (i : semid) (q : proc) : bool :=
  match p_sem q, i with Some SI, SI => true | Some SB, SB => true | _, _ => false end.
Definition holders (i : semid) (s : state) : nat := count (holds i) (procs s).
Definition quiet (q : proc) : bool :=   (* the process is not inside the scheduler any more / yet *)
  match p_pc q with PIdle | PAcqErr | PEnd => true | _ => false end.
Definition waiting (q : proc) : bool :=
  match p_pc q with PAcq | PYield => true | _ => false end.

(** ---- trace validation.  Trace events are what the harness can observe at the API boundary of the
    real scheduler (see harness/overlay/search/zz_verif_c20_test.go for the recording discipline:
    releases are logged before the call, grants after the return, a Yield's entry is logged at call time
    and classified at return time). *)
Inductive tev :=
| TNew | TCancel (p : nat) | TAcqCall (p : nat) | TAcqOk (p : nat) | TAcqErr (p : nat)
| TYieldNoop (p : nat)     (* Yield returned nil without touching the semaphores *)
| TYieldStart (p : nat)    (* Yield found the time slice used up: released its slot, waits for batch *)
| TYieldOk (p : nat) | TYieldErr (p : nat)
| TRelease (p : nat)
| TObs (oI oB : nat).      (* occupancy of the two real semaphores, probed while no call is in flight *)

Definition pc_is (s : state) (p : nat) (f : proc -> bool) : bool :=
  match nth_error (procs s) p with Some q => f q | None => false end.
Definition is_pc (c : pc) (q : proc) : bool :=
  match p_pc q, c with
  | PIdle, PIdle | PAcq, PAcq | PRun, PRun | PYield, PYield | PAcqErr, PAcqErr | PEnd, PEnd => true
  | _, _ => false
  end.

Definition expand (s : state) (t : tev) : option (list event) :=
  match t with
  | TNew => Some [ENew]
  | TCancel p => Some [ECancel p]
  | TAcqCall p => Some [EAcquire p]
  | TAcqOk p => if pc_is s p (is_pc PAcq) then Some [EGrant p] else None
  | TAcqErr p => if pc_is s p (is_pc PAcq) then Some [EFail p] else None
  | TYieldNoop p => if pc_is s p (fun q => is_pc PRun q && (p_tnil q || negb (p_fired q))) then Some [EYield p] else None
  | TYieldStart p => if pc_is s p (fun q => is_pc PRun q && negb (p_tnil q)) then Some [EFire p; EYield p] else None
  | TYieldOk p => if pc_is s p (is_pc PYield) then Some [EGrant p] else None
  | TYieldErr p => if pc_is s p (is_pc PYield) then Some [EFail p] else None
  | TRelease p => Some [ERelease p]
  | TObs oI oB =>
      if Nat.eqb (curI s) oI && Nat.eqb (curB s) oB && (count waiting (procs s) =? 0) then Some [] else None
  end.

Fixpoint trun (s : state) (ts : list tev) : option state :=
  match ts with
  | [] => Some s
  | t :: r => match expand s t with
              | None => None
              | Some es => match run s es with Some s' => trun s' r | None => None end
              end
  end.
Definition accepts (ci cb : nat) (ts : list tev) : bool :=
  match trun (init ci cb) ts with Some s => negb (panicked s) | None => false end.

(** ---- correspondence runner.  A case = (capacity, batchdiv, probed interactive capacity, probed batch
    capacity, trace as (code, a, b) triples). *)
Definition c20case := (N * N * N * N * list (N * N * N))%type.
Definition dec_tev (t : N * N * N) : option tev :=
  let '(c, a, b) := t in
  let p := N.to_nat a in
  match c with
  | 0 => Some TNew | 1 => Some (TCancel p) | 2 => Some (TAcqCall p) | 3 => Some (TAcqOk p) | 4 => Some (TAcqErr p)
  | 5 => Some (TYieldNoop p) | 6 => Some (TYieldStart p) | 7 => Some (TYieldOk p) | 8 => Some (TYieldErr p)
  | 9 => Some (TRelease p) | 10 => Some (TObs (N.to_nat a) (N.to_nat b))
  | _ => None
  end%N.
Fixpoint dec_all (l : list (N * N * N)) : option (list tev) :=
  match l with
  | [] => Some []
  | t :: r => match dec_tev t, dec_all r with Some x, Some y => Some (x :: y) | _, _ => None end
  end.
Definition c20_ok (c : c20case) : bool :=
  let '(capacity, batchdiv, oI, oB, tr) := c in
  N.eqb oI capacity && N.eqb oB (batch_cap capacity batchdiv) &&
  match dec_all tr with
  | Some ts => accepts (N.to_nat oI) (N.to_nat oB) ts
  | None => false
  end.
Definition c20_mismatches (cs : list c20case) : list N := bad_indexes c20_ok cs.
