(** C11 — indexData.calculateStats / calculateStatsForFileRange / calculateNewLinesStats (index/indexdata.go), the last
    step of NewSearcher (readIndexData) after the modelled section reads, run on an ARBITRARY loaded idata in the
    outcome monad: every slice index is a checked operation.  Executable definitions only (proofs: Proofs/FormatStats.v).
    Opaque: the JSON repository metadata; only their number [nrepos] matters here (1 for a simple shard). *)
From Coq Require Import String.
From ZV Require Import Lib.Base Lib.Varint Generated.FormatConsts Model.Format Model.FormatRobust.
Open Scope N_scope.

Definition E_ORDER : N := 12.     (* "shard documents out of order with respect to repositories" *)

(** calculateNewLinesStats: for i in [start, end): fileBranchMasks[i], newlinesIndex[i], newlinesIndex[i+1] (uint32
    arithmetic), at most MaxVarintLen64 bytes of the newline section are read; a read error is logged and skipped;
    binary.Uvarint never panics.  Result: (count, defaultCount, otherCount) in uint64 wrap-around arithmetic. *)
Definition popcount (n : N) : N :=
  match n with 0 => 0 | N.pos p => (fix pc (q : positive) : N := match q with xH => 1 | xO r => pc r | xI r => 1 + pc r end) p end.

Fixpoint newlines_stats (d : idata) (k : nat) (i : N) : outcome (N * N * N) :=
  match k with
  | O => Ok (0, 0, 0)
  | S k' =>
    do m <- nth_chk (i_masks d) i;
    do a <- nth_chk (i_newlinesIndex d) i;
    do b <- nth_chk (i_newlinesIndex d) (i + 1);
    let sz := N.min ((b + W32 - a) mod W32) 10 in
    do rest <- newlines_stats d k' (i + 1);
    match file_read (i_file d) ((i_newlinesStart d + a) mod W32) sz with
    | Ok blob =>
      let n := fst (uvarint blob) in
      let '(c, dc, oc) := rest in
      Ok ((c + n) mod W64, (if N.odd m then (dc + n) mod W64 else dc), (oc + popcount (m / 2) * n) mod W64)
    | _ => Ok rest
    end
  end.

(** calculateStatsForFileRange(start, end): (ContentBytes as the two uint32 differences, Documents, newline stats) *)
Definition stats_range (d : idata) (start end_ : N) : outcome (N * N * N * (N * N * N)) :=
  if end_ <=? start then Ok (0, 0, 0, (0, 0, 0)) else
  do b1 <- nth_chk (i_boundaries d) end_;
  do b0 <- nth_chk (i_boundaries d) start;
  do f1 <- nth_chk (i_fileNameIndex d) end_;
  do f0 <- nth_chk (i_fileNameIndex d) start;
  do nl <- newlines_stats d (N.to_nat (end_ - start)) start;
  Ok ((b1 + W32 - b0) mod W32, (f1 + W32 - f0) mod W32, end_ - start, nl).

(** for end < len(d.repos) && d.repos[end] == repoID { end++ } — bounded by len(d.repos) *)
Fixpoint run_end (repos : list N) (repoID : N) (end_ : N) : N :=
  match repos with
  | [] => end_
  | r :: rest => if r =? repoID then run_end rest repoID (end_ + 1) else end_
  end.

(** the loop of calculateStats over repoID = 0 .. nrepos-1 *)
Fixpoint calc_stats_from (d : idata) (nrepos : nat) (repoID start : N) : outcome (list (N * N * N * (N * N * N))) :=
  match nrepos with
  | O => Ok []
  | S k =>
    let end_ := run_end (skipn (N.to_nat start) (i_repos d)) (repoID mod W16) start in
    (* d.repos[start] is read only when start < end, hence inside the slice *)
    if (start <? end_) && negb (nth (N.to_nat start) (i_repos d) 0 =? repoID mod W16) then Err E_ORDER else
    do st <- stats_range d start end_;
    do rest <- calc_stats_from d k (repoID + 1) end_;
    Ok (st :: rest)
  end.
Definition calc_stats (d : idata) (nrepos : nat) := calc_stats_from d nrepos 0 0.

(** NewSearcher = readIndexData: the modelled section reads, then calculateStats; loadShard's recover on top *)
Definition load_shard_stats (f : ifile) (next : bool) (nrepos : nat) : outcome idata :=
  do d <- load_shard f next; do _ <- calc_stats d nrepos; Ok d.
Definition load_shard_stats_served (f : ifile) (next : bool) (nrepos : nat) : outcome idata :=
  recovered (load_shard_stats f next nrepos).

(** a 3-document shard whose fileNames section is emptied in the TOC: verify() passes (it only checks the other
    tables when there are file names) while the branch masks still announce 3 documents: calculateStatsForFileRange
    indexes d.boundaries[3] of a 0-element table *)
Definition stats_doc (n : list N) : doc_in := mkDocIn n (str "package needle") 0 true [] [] [] 0.
Definition stats_state : bstate := add_repos [([], [stats_doc (str "a.go"); stats_doc (str "b.go"); stats_doc (str "c.go")])] 0 b_empty.
Definition stats_opaque : opaque := mkOpaque (repeat 0 24) [0; 0; 0; 0; 0; 0] [1; 1; 1] None wit_meta wit_repo.
Definition witness_stats : list N :=
  write_file (filter (fun tb => negb (bytes_eqb (fst tb) (str "fileNames"))) (shard_sections false stats_state stats_opaque)).
Definition witnesses3 : list (list N) := witnesses2 ++ [witness_stats].

(** correspondence runner with calculateStats inside the model (the two base shards are simple shards: 1 repository) *)
Definition c11_check_stats (bases : list (list N)) (c : c11case) : bool :=
  let '(bytes, obs) := match c with C11W idx obs => (nth idx witnesses3 [], obs) | _ => c11_bytes bases c end in
  match bytes with
  | [] => obs =? 0
  | _ =>
    match load_shard_stats_served (mmap_file bytes) false 1 with
    | Err _ => obs =? 0
    | Panic _ => obs =? 4
    | Ok _ => negb (obs =? 3) && negb (obs =? 4)
    end
  end.
Definition c11_mismatches_stats (bases : list (list N)) (cs : list c11case) : list N := bad_indexes (c11_check_stats bases) cs.
