(** C33 only: correspondence case with THREE observations of one state: preview, -f, preview again.
    Wraps the shared [lscase] of Model/LocalSync.v (which stays as it is for C34). *)
From ZV Require Import Lib.Base Model.LocalSync.

Record lscase3 := mkCase3 {
  c3_base : lscase;               (* state, command, first preview, forced run, inventory read back *)
  c3_dry2_out : list line;        (* the SAME command without -f, run again right after the forced run *)
  c3_dry2_status : N
}.

(** the second preview is recomputed twice: on the inventory as read back from disk (file-name order: exact
    output), and on the model's own post-state [apply_ops inv (r_ops f)] — the object the idempotence theorem
    speaks about — whose shards are the same up to order, so the output is compared as a multiset *)
Definition ls3_ok (c : lscase3) : bool :=
  let b := c3_base c in
  let f := run Force (c_tree b) (c_fp b) (c_cmd b) (c_inv b) in
  let d2 := run Dry (c_tree b) (c_fp b) (c_cmd b) (c_inv_after b) in
  let d2m := run Dry (c_tree b) (c_fp b) (c_cmd b) (apply_ops (c_inv b) (r_ops f)) in
  ls_ok b
  && list_eqb line_eqb (r_out d2) (c3_dry2_out c) && N.eqb (r_status d2) (c3_dry2_status c)
  && perm_eqb line_eqb (r_out d2m) (c3_dry2_out c) && N.eqb (r_status d2m) (c3_dry2_status c).
Definition ls3_mismatches (cs : list lscase3) : list N := bad_indexes ls3_ok cs.
