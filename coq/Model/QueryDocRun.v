(** Correspondence runner for C06: ties Model/QueryDoc.v (documented grammar, printer, meaning) and
    Model/Parser.v to the implementation's observed behaviour.  No proofs. *)
From ZV Require Import Lib.Base Model.Query Generated.ParserTables Model.Parser Model.QueryDoc.
Open Scope N_scope.

Definition rq_d (rq : str -> rqres) (t : str) : rqres_d :=
  match rq t with RQErr => DErr | RQLit p => DLit p | RQRx re => DRx re end.

(** does the abstract query use the regex: field?  For it the implementation is known to deviate from the
    document (C06_regex_field_refuted, known finding), so the meaning check is not applied to such cases. *)
Fixpoint has_regex_field (e : dexpr) : bool :=
  match e with
  | DField FRegex _ _ => true
  | DNeg e => has_regex_field e
  | DGroup q => existsb (existsb has_regex_field) q
  | _ => false
  end.

(** case = (abstract query, the harness' printed string, engine answers, Regexp.setCase(auto) answers,
            query.Parse's outcome on that string) *)
Definition c06case := (dquery * str * oracle_table * list (str * bool) * outcome Q)%type.

Definition c06_ok (c : c06case) : bool :=
  let '(dq, s, tab, autos, gres) := c in
  str_eqb (render dq) s &&                                                              (* same printer *)
  outcome_q_eqb (parse (t_rq tab) (t_auto autos) (t_compile tab) (t_lang tab) s) gres && (* model parser = Parse *)
  (existsb (existsb has_regex_field) dq ||
   outcome_q_eqb (Ok (Simplify (den (rq_d (t_rq tab)) (t_auto autos) (t_lang tab) dq))) gres). (* documented meaning = Parse *)

Definition c06_mismatches (cs : list c06case) : list N := bad_indexes c06_ok cs.
