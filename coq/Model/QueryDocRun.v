(** Correspondence runner for C06: ties Model/QueryDoc.v (documented grammar, printer, meaning) and
    Model/Parser.v to the implementation's observed behaviour.  No proofs. *)
From ZV Require Import Lib.Base Model.Query Generated.ParserTables Model.Parser Model.QueryDoc.
From ZV Require Model.Regex Model.RegexCase Model.RegexLit.
Open Scope N_scope.

Definition rq_d (rq : str -> rqres) (t : str) : rqres_d :=
  match rq t with RQErr => DErr | RQLit p => DLit p | RQRx re => DRx re end.

(** does the abstract query use the regex: field?  For it the implementation is known to deviate from the
    document (C06_regex_field_refuted, known finding), so the meaning check is not applied to such cases. *)
Fixpoint has_regex_field (e : dexpr) : bool :=
  match e with
  | DField FRegex _ _ => true
  | DNeg e => has_regex_field e
  | DGroup q => existsb (existsb has_regex_field) q
  | _ => false
  end.

(** case = (abstract query, the harness' printed string, engine answers, syntax trees of the proper regexps,
            query.Parse's outcome on that string).  The parser model decides case:auto with the model of
    LowerRegexp on the tree ([t_auto] = re_auto), the documented meaning with the documented rule
    ([t_upper] = has_upper_re: an upper-case letter at any position of the tree). *)
Definition c06case := (dquery * str * oracle_table * list (str * Regex.re) * list (str * Regex.re) * outcome Q)%type.

(** literal detection (round 3): [lits] maps every pattern text of the query that regexp/syntax accepts to its
    optimized syntax tree (query.Regexp's own tree when RegexpQuery returned a Regexp, otherwise
    OptimizeRegexp(syntax.Parse(text))); RegexpQuery's answer must be the model's decision on that tree -
    a Substring with the UTF-8 bytes of the runes iff the tree is a literal without FoldCase *)
Definition lit_ok (tab : oracle_table) (e : str * Regex.re) : bool :=
  match t_rq tab (fst e), RegexLit.shape_pattern (RegexLit.rq_shape_of (snd e)) with
  | RQLit p, Some p' => str_eqb p p'
  | RQRx _, None => true
  | _, _ => false
  end.

Definition t_upper (t : list (str * Regex.re)) (k : str) : bool :=
  match lookup k t with Some a => RegexCase.has_upper_re a | None => false end.

Definition c06_ok (c : c06case) : bool :=
  let '(dq, s, tab, autos, lits, gres) := c in
  forallb (lit_ok tab) lits &&                                                          (* literal detection *)
  str_eqb (render dq) s &&                                                              (* same printer *)
  outcome_q_eqb (parse (t_rq tab) (t_auto autos) (t_compile tab) (t_lang tab) s) gres && (* model parser = Parse *)
  (existsb (existsb has_regex_field) dq ||
   outcome_q_eqb (Ok (Simplify (den (rq_d (t_rq tab)) (t_upper autos) (t_lang tab) dq))) gres). (* documented meaning = Parse *)

Definition c06_mismatches (cs : list c06case) : list N := bad_indexes c06_ok cs.
