(** C27 runner: the translation validator.  A case carries the three ASTs exported by the harness
    (a0 = Parse p, a1 = Parse (RegexpString a0), a2 = OptimizeRegexp a0) and a few
    (subject, leftmost-longest match reported by Go's engine for p) samples that tie [ends] to the engine.
    [norm] is instantiated with the simple-fold orbits of the generated Unicode table. *)
From Coq Require Import List NArith Arith Bool.
From ZV Require Import Lib.Base Model.Regex Model.CaseFold.
Import ListNotations.

Definition c27case := (re * re * re * list (list N * option (nat * nat)))%type.

Definition nrm (a : re) : re := norm orbit a.

Definition opt_pair_eqb (a b : option (nat * nat)) : bool :=
  match a, b with
  | None, None => true
  | Some (x, y), Some (u, v) => Nat.eqb x u && Nat.eqb y v
  | _, _ => false
  end.

(** certified: print/parse round trip preserves the language *)
Definition c27_print_ok (c : c27case) : bool := let '(a0, a1, _, _) := c in re_eqb (nrm a0) (nrm a1).
(** certified: OptimizeRegexp preserves the language *)
Definition c27_opt_ok (c : c27case) : bool := let '(a0, _, a2, _) := c in re_eqb (nrm a0) (nrm a2).
(** model semantics = Go engine on the samples *)
Definition c27_sem_ok (c : c27case) : bool :=
  let '(a0, _, _, ss) := c in
  forallb (fun s => opt_pair_eqb (leftmost_longest orbit a0 (fst s)) (snd s)) ss.

(** 8*index + (1 if print uncertified) + (2 if optimise uncertified) + (4 if model <> engine) *)
Fixpoint c27_codes (l : list c27case) (i : N) : list N :=
  match l with
  | [] => []
  | c :: l' =>
      let code := ((if c27_print_ok c then 0 else 1) + (if c27_opt_ok c then 0 else 2) + (if c27_sem_ok c then 0 else 4))%N in
      if (code =? 0)%N then c27_codes l' (N.succ i) else (8 * i + code)%N :: c27_codes l' (N.succ i)
  end.
Definition c27_mismatches (l : list c27case) : list N := c27_codes l 0%N.
