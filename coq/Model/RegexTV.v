(** C27 runner: the translation validator.  A case carries the three ASTs exported by the harness
    (a0 = Parse p, a1 = Parse (RegexpString a0), a2 = OptimizeRegexp a0, a3 = Parse (RegexpString a2)) and a few
    (subject, leftmost-longest match reported by Go's engine for p) samples that tie [ends] to the engine.
    [norm] is instantiated with the simple-fold orbits of the generated Unicode table. *)
From Coq Require Import List NArith Arith Bool.
From ZV Require Import Lib.Base Model.Regex Model.CaseFold.
Import ListNotations.

Definition c27case := (re * re * re * re * list (list N * option (nat * nat)))%type.

Definition nrm (a : re) : re := norm orbit a.

Definition opt_pair_eqb (a b : option (nat * nat)) : bool :=
  match a, b with
  | None, None => true
  | Some (x, y), Some (u, v) => Nat.eqb x u && Nat.eqb y v
  | _, _ => false
  end.

(** certified: print/parse round trip preserves the language *)
Definition c27_print_ok (c : c27case) : bool := let '(a0, a1, _, _, _) := c in re_eqb (nrm a0) (nrm a1).
(** certified: OptimizeRegexp preserves the language *)
Definition c27_opt_ok (c : c27case) : bool := let '(a0, _, a2, _, _) := c in re_eqb (nrm a0) (nrm a2).
(** certified: printing the OPTIMISED regexp (what query.Regexp holds and matchtree / proto print) and parsing it again preserves the language *)
Definition c27_optprint_ok (c : c27case) : bool := let '(_, _, a2, a3, _) := c in re_eqb (nrm a2) (nrm a3).
(** model semantics = Go engine on the samples *)
Definition c27_sem_ok (c : c27case) : bool :=
  let '(a0, _, _, _, ss) := c in
  forallb (fun s => opt_pair_eqb (leftmost_longest orbit a0 (fst s)) (snd s)) ss.

(** 16*index + (1 if print uncertified) + (2 if optimise uncertified) + (4 if model <> engine) + (8 if print of the optimised form uncertified) *)
Fixpoint c27_codes (l : list c27case) (i : N) : list N :=
  match l with
  | [] => []
  | c :: l' =>
      let code := ((if c27_print_ok c then 0 else 1) + (if c27_opt_ok c then 0 else 2) + (if c27_sem_ok c then 0 else 4) + (if c27_optprint_ok c then 0 else 8))%N in
      if (code =? 0)%N then c27_codes l' (N.succ i) else (16 * i + code)%N :: c27_codes l' (N.succ i)
  end.
Definition c27_mismatches (l : list c27case) : list N := c27_codes l 0%N.
