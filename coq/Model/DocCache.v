(** C04 — model of the per-shard cache of metadata match trees (index/docmatchtreecache.go,
    index/matchtree.go newMatchTree case *query.Meta, docMatchTree) inside the document loop of
    indexData.Search, over a HISTORY of searches on one loaded shard.

    A shard is [ndocs] documents (ids 0..ndocs-1) with, per metadata key k (= the checksum of field:value),
    the predicate [meta k] "the document's repository has matching metadata".  Everything that is not a
    Meta atom is a [QAtom p]: a node with a private cursor, created fresh by every search (RepoSet, RepoIDs,
    Repo, content atoms ...; their own iterators are C01's subject).  docMatchTree nodes live in a heap of
    cursors (firstDone, docID) because the cache and the match tree share the node BY REFERENCE.
    math.MaxUint32 ("no further document") is represented by [ndocs] (assumes ndocs < 2^32): the loop only
    compares it with docCount.  The xxhash checksum used as cache key is assumed collision free. *)
From ZV Require Import Lib.Base.

Inductive Q :=
| QConst (b : bool)
| QMeta (k : N)
| QAtom (p : nat -> bool)
| QAnd (a b : Q) | QOr (a b : Q) | QNot (a : Q).

Record shard := { ndocs : nat; meta : N -> nat -> bool }.

(** -- d.simplify + query.Simplify, as far as Meta atoms and constants go ------------------------- *)
Fixpoint allb (p : nat -> bool) (n : nat) : bool := match n with O => true | S m => p m && allb p m end.
Fixpoint anyb (p : nat -> bool) (n : nat) : bool := match n with O => false | S m => p m || anyb p m end.

Fixpoint simp (s : shard) (q : Q) : Q :=
  match q with
  | QMeta k => if allb (meta s k) (ndocs s) then QConst true
               else if anyb (meta s k) (ndocs s) then q else QConst false
  | QAnd a b =>
      match simp s a, simp s b with
      | QConst false, _ => QConst false
      | _, QConst false => QConst false
      | QConst true, b' => b'
      | a', QConst true => a'
      | a', b' => QAnd a' b'
      end
  | QOr a b =>
      match simp s a, simp s b with
      | QConst true, _ => QConst true
      | _, QConst true => QConst true
      | QConst false, b' => b'
      | a', QConst false => a'
      | a', b' => QOr a' b'
      end
  | QNot a => match simp s a with QConst b => QConst (negb b) | a' => QNot a' end
  | _ => q
  end.

(** -- match trees over a heap of cursors --------------------------------------------------------- *)
Definition cursor := (bool * nat)%type.          (* firstDone, docID *)
Definition heap := list cursor.
Inductive mt :=
| MDoc (addr : nat) (p : nat -> bool)            (* docMatchTree *)
| MBrute (addr : nat)                            (* bruteForceMatchTree (Const true) *)
| MNone                                          (* noMatchTree (Const false) *)
| MAnd (a b : mt) | MOr (a b : mt) | MNot (a : mt).

Definition cache := list (N * (nat * (nat -> bool))).   (* key -> (address of the cached node, its predicate) *)

Fixpoint cache_get (k : N) (c : cache) : option (nat * (nat -> bool)) :=
  match c with
  | [] => None
  | (k', v) :: r => if N.eqb k k' then Some v else cache_get k r
  end.
Fixpoint cache_remove (k : N) (c : cache) : cache :=
  match c with
  | [] => []
  | (k', v) :: r => if N.eqb k k' then cache_remove k r else (k', v) :: cache_remove k r
  end.

(** configuration: cache size (ZOEKT_DOCMATCHTREE_CACHE; 0 = disabled) and the eviction choice
    ("random": any function of a step counter and the current keys) *)
Record config := { max_entries : nat; choose : nat -> list N -> nat }.

Definition cache_add (cf : config) (step : nat) (k : N) (v : nat * (nat -> bool)) (c : cache) : cache :=
  if Nat.eqb (max_entries cf) 0 then c
  else
    let c' := (k, v) :: cache_remove k c in
    if Nat.ltb (max_entries cf) (length c')
    then match nth_error (map fst c') (choose cf step (map fst c')) with
         | Some victim => cache_remove victim c'
         | None => match c' with (k0, _) :: _ => cache_remove k0 c' | [] => c' end   (* some entry is evicted *)
         end
    else c'.

Record state := { st_heap : heap; st_cache : cache; st_step : nat }.

(** [fixed] = the repaired newMatchTree: a cache hit hands out a NEW node (fresh cursor) that shares only the
    immutable predicate; [fixed = false] is the code before the repair: the hit returns the cached node itself. *)
Fixpoint build (fixed : bool) (cf : config) (s : shard) (q : Q) (st : state) : mt * state :=
  match q with
  | QConst true => (MBrute (length (st_heap st)),
                    {| st_heap := st_heap st ++ [(false, 0)]; st_cache := st_cache st; st_step := st_step st |})
  | QConst false => (MNone, st)
  | QAtom p => (MDoc (length (st_heap st)) p,
                {| st_heap := st_heap st ++ [(false, 0)]; st_cache := st_cache st; st_step := st_step st |})
  | QMeta k =>
      match cache_get k (st_cache st) with
      | Some (addr, p) =>
          if fixed
          then (MDoc (length (st_heap st)) p,
                {| st_heap := st_heap st ++ [(false, 0)]; st_cache := st_cache st; st_step := st_step st |})
          else (MDoc addr p, st)
      | None =>
          let addr := length (st_heap st) in
          (MDoc addr (meta s k),
           {| st_heap := st_heap st ++ [(false, 0)];
              st_cache := cache_add cf (st_step st) k (addr, meta s k) (st_cache st);
              st_step := S (st_step st) |})
      end
  | QAnd a b => let '(ta, st1) := build fixed cf s a st in
                let '(tb, st2) := build fixed cf s b st1 in (MAnd ta tb, st2)
  | QOr a b => let '(ta, st1) := build fixed cf s a st in
               let '(tb, st2) := build fixed cf s b st1 in (MOr ta tb, st2)
  | QNot a => let '(ta, st1) := build fixed cf s a st in (MNot ta, st1)
  end.

Definition get_cursor (h : heap) (a : nat) : cursor := nth a h (false, 0).
Fixpoint set_cursor (h : heap) (a : nat) (c : cursor) : heap :=
  match h, a with
  | [], _ => []
  | _ :: r, O => c :: r
  | x :: r, S a' => x :: set_cursor r a' c
  end.

(** first i in [start, start+fuel) with p i, else [dflt] *)
Fixpoint first_from (p : nat -> bool) (start fuel dflt : nat) : nat :=
  match fuel with
  | O => dflt
  | S f => if p start then start else first_from p (S start) f dflt
  end.

Fixpoint next_doc (n : nat) (h : heap) (t : mt) : nat :=
  match t with
  | MDoc a p => let '(fd, id) := get_cursor h a in
                let start := if fd then S id else 0 in
                first_from p start (n - start) n
  | MBrute a => let '(fd, id) := get_cursor h a in if fd then S id else 0
  | MNone => n
  | MAnd a b => Nat.max (next_doc n h a) (next_doc n h b)
  | MOr a b => Nat.min (next_doc n h a) (next_doc n h b)
  | MNot _ => 0
  end.

Fixpoint prepare (h : heap) (t : mt) (doc : nat) : heap :=
  match t with
  | MDoc a _ => set_cursor h a (true, doc)
  | MBrute a => set_cursor h a (true, doc)
  | MNone => h
  | MAnd a b => prepare (prepare h a doc) b doc
  | MOr a b => prepare (prepare h a doc) b doc
  | MNot a => prepare h a doc
  end.

Fixpoint matches (t : mt) (doc : nat) : bool :=
  match t with
  | MDoc _ p => p doc
  | MBrute _ => true
  | MNone => false
  | MAnd a b => matches a doc && matches b doc
  | MOr a b => matches a doc || matches b doc
  | MNot a => negb (matches a doc)
  end.

(** the document loop of indexData.Search; [lo] = lastDoc + 1 *)
Fixpoint doc_loop (fuel n : nat) (t : mt) (lo : nat) (h : heap) (acc : list nat) : list nat * heap :=
  match fuel with
  | O => (acc, h)
  | S f =>
      let nd0 := next_doc n h t in
      let nd := if Nat.ltb nd0 lo then lo else nd0 in
      if Nat.leb n nd then (acc, h)
      else
        let h' := prepare h t nd in
        doc_loop f n t (S nd) h' (if matches t nd then acc ++ [nd] else acc)
  end.

Definition is_const_false (q : Q) : bool := match q with QConst false => true | _ => false end.

Definition search (fixed : bool) (cf : config) (s : shard) (q : Q) (st : state) : list nat * state :=
  let q' := simp s q in
  if is_const_false q' then ([], st)      (* Search returns before building a match tree *)
  else
    let '(t, st1) := build fixed cf s q' st in
    let '(res, h) := doc_loop (S (ndocs s)) (ndocs s) t 0 (st_heap st1) [] in
    (res, {| st_heap := h; st_cache := st_cache st1; st_step := st_step st1 |}).

Definition fresh : state := {| st_heap := []; st_cache := []; st_step := 0 |}.

Fixpoint run_history (fixed : bool) (cf : config) (s : shard) (qs : list Q) (st : state) : list (list nat) :=
  match qs with
  | [] => []
  | q :: r => let '(res, st') := search fixed cf s q st in res :: run_history fixed cf s r st'
  end.

(** reference meaning of a query on a document *)
Fixpoint qeval (s : shard) (q : Q) (d : nat) : bool :=
  match q with
  | QConst b => b
  | QMeta k => meta s k d
  | QAtom p => p d
  | QAnd a b => qeval s a d && qeval s b d
  | QOr a b => qeval s a d || qeval s b d
  | QNot a => negb (qeval s a d)
  end.

(** ---- correspondence runner ------------------------------------------------------------------ *)
Definition memNat (k : nat) (l : list nat) : bool := existsb (Nat.eqb k) l.
Inductive cq :=
| CConst (b : bool) | CMeta (k : N) | CDocs (l : list nat)
| CAnd (a b : cq) | COr (a b : cq) | CNot (a : cq).
Fixpoint of_cq (c : cq) : Q :=
  match c with
  | CConst b => QConst b
  | CMeta k => QMeta k
  | CDocs l => QAtom (fun d => memNat d l)
  | CAnd a b => QAnd (of_cq a) (of_cq b)
  | COr a b => QOr (of_cq a) (of_cq b)
  | CNot a => QNot (of_cq a)
  end.

Fixpoint assoc_docs (k : N) (m : list (N * list nat)) : list nat :=
  match m with [] => [] | (k', l) :: r => if N.eqb k k' then l else assoc_docs k r end.

(** a case: number of documents, per key the documents whose repository matches, cache size, history,
    observed result (document indexes, in order) of every search of the history *)
Definition c04case := (nat * list (N * list nat) * nat * list cq * list (list nat))%type.
Definition c04_ok (c : c04case) : bool :=
  let '(n, metas, size, hist, obs) := c in
  let s := {| ndocs := n; meta := fun k d => memNat d (assoc_docs k metas) |} in
  let cf := {| max_entries := size; choose := fun _ _ => 0 |} in
  list_eqb (list_eqb Nat.eqb) (run_history true cf s (map of_cq hist) fresh) obs.
Definition c04_mismatches (cs : list c04case) : list N := bad_indexes c04_ok cs.

(** the same against the code before the repair (used to replay the refutation witness) *)
Definition c04_ok_unfixed (c : c04case) : bool :=
  let '(n, metas, size, hist, obs) := c in
  let s := {| ndocs := n; meta := fun k d => memNat d (assoc_docs k metas) |} in
  let cf := {| max_entries := size; choose := fun _ _ => 0 |} in
  list_eqb (list_eqb Nat.eqb) (run_history false cf s (map of_cq hist) fresh) obs.
Definition c04_mismatches_unfixed (cs : list c04case) : list N := bad_indexes c04_ok_unfixed cs.

(** ---- concurrency at loop-iteration granularity ------------------------------------------------ *)
(** The document loop of one search while OTHER searches run on the same loaded shard: before each of its
    iterations the environment transforms the shared heap ([env i h]: any number of steps of any number of
    other searches — tree builds, which allocate nodes, and prepare calls on their own trees). *)
Fixpoint doc_loop_env (env : nat -> heap -> heap) (fuel n : nat) (t : mt) (lo : nat) (h : heap) (acc : list nat)
  : list nat * heap :=
  match fuel with
  | O => (acc, h)
  | S f =>
      let h0 := env f h in
      let nd0 := next_doc n h0 t in
      let nd := if Nat.ltb nd0 lo then lo else nd0 in
      if Nat.leb n nd then (acc, h0)
      else
        let h' := prepare h0 t nd in
        doc_loop_env env f n t (S nd) h' (if matches t nd then acc ++ [nd] else acc)
  end.

(** two searches on one shard, interleaved by a schedule (true = the first search makes its next loop
    iteration, false = the second); both trees are built first (cache accesses are serialised by the cache's
    mutex; a build is atomic here), a search whose loop has ended ignores its turns; after the schedule both
    loops run to completion. *)
Record thread := { th_tree : mt; th_lo : nat; th_acc : list nat; th_done : bool }.

Definition th_step (n : nat) (th : thread) (h : heap) : thread * heap :=
  if th_done th then (th, h)
  else
    let nd0 := next_doc n h (th_tree th) in
    let nd := if Nat.ltb nd0 (th_lo th) then th_lo th else nd0 in
    if Nat.leb n nd then ({| th_tree := th_tree th; th_lo := th_lo th; th_acc := th_acc th; th_done := true |}, h)
    else
      ({| th_tree := th_tree th; th_lo := S nd;
          th_acc := if matches (th_tree th) nd then th_acc th ++ [nd] else th_acc th; th_done := false |},
       prepare h (th_tree th) nd).

Fixpoint th_run (fuel n : nat) (th : thread) (h : heap) : thread * heap :=
  match fuel with
  | O => (th, h)
  | S f => let '(th', h') := th_step n th h in th_run f n th' h'
  end.

Fixpoint par_run (n : nat) (sched : list bool) (a b : thread) (h : heap) : thread * thread * heap :=
  match sched with
  | [] => (a, b, h)
  | true :: r => let '(a', h') := th_step n a h in par_run n r a' b h'
  | false :: r => let '(b', h') := th_step n b h in par_run n r a b' h'
  end.

Definition mk_thread (t : mt) : thread := {| th_tree := t; th_lo := 0; th_acc := []; th_done := false |}.

Definition par_search (cf : config) (s : shard) (qa qb : Q) (sched : list bool) (st : state) : list nat * list nat :=
  let '(ta, st1) := build true cf s (simp s qa) st in
  let '(tb, st2) := build true cf s (simp s qb) st1 in
  let '(a, b, h) := par_run (ndocs s) sched (mk_thread ta) (mk_thread tb) (st_heap st2) in
  let '(a', h1) := th_run (S (ndocs s)) (ndocs s) a h in
  let '(b', _) := th_run (S (ndocs s)) (ndocs s) b h1 in
  (th_acc a', th_acc b').

(** building a match tree while other searches run: before every atom the environment may change the shared
    state (allocate nodes, move other searches' cursors, add / evict cache entries) *)
Fixpoint build_env (env : nat -> state -> state) (cf : config) (s : shard) (q : Q) (st : state) (k : nat)
  : mt * state * nat :=
  match q with
  | QAnd a b => let '(ta, st1, k1) := build_env env cf s a st k in
                let '(tb, st2, k2) := build_env env cf s b st1 k1 in (MAnd ta tb, st2, k2)
  | QOr a b => let '(ta, st1, k1) := build_env env cf s a st k in
               let '(tb, st2, k2) := build_env env cf s b st1 k1 in (MOr ta tb, st2, k2)
  | QNot a => let '(ta, st1, k1) := build_env env cf s a st k in (MNot ta, st1, k1)
  | atom => let '(t, st1) := build true cf s atom (env k st) in (t, st1, S k)
  end.

(** ---- what a cached node SHARES between searches: predicate objects, possibly with mutable memo state ---- *)
(** The node handed out for a Meta atom = a private cursor (the heap above) + the predicate closure, which the
    cache shares between ALL searches of the shard.  The closure captures immutable shard data ([repo_of] =
    d.repos, [want] = the verdict of the regexp on a repository's metadata; /repo precomputes the table
    reposWant before the closure is published) and — in a variant that computes the verdict lazily, once per
    run of documents of one repository — a MUTABLE memo cell (lastRepo, lastWant).  Memo cells live in a heap of
    their own; [cell = None] is the immutable closure of /repo.  One evaluation of the closure is a small
    program; its steps (one access to the shared cell each; sequentially consistent, which is already more than
    Go guarantees for racy accesses) interleave with the steps of the other searches:

      r := repos[d]
      EStart: if lastRepo == r goto ERet else (lastRepo, lastWant) = (r, false)
      EWrote: lastWant = want(r)
      ERet:   return lastWant                                                                         *)
Record pshard := { p_ndocs : nat; repo_of : nat -> nat; want : nat -> bool }.
Definition memo := (option nat * bool)%type.          (* lastRepo (None = -1), lastWant *)
Definition mheap := list memo.
Definition get_memo (mh : mheap) (a : nat) : memo := nth a mh (None, false).
Fixpoint set_memo (mh : mheap) (a : nat) (m : memo) : mheap :=
  match mh, a with
  | [], _ => []
  | _ :: r, O => m :: r
  | x :: r, S a' => x :: set_memo r a' m
  end.
Definition is_repo (lr : option nat) (r : nat) : bool := match lr with Some x => Nat.eqb x r | None => false end.

Inductive epc := EStart | EWrote | ERet.

(** one atomic step of evaluating the closure on document [d]: the next program point, or the returned value *)
Definition eval_step (ps : pshard) (cell : option nat) (d : nat) (pc : epc) (mh : mheap) : (epc + bool) * mheap :=
  let r := repo_of ps d in
  match cell with
  | None => (inr (want ps r), mh)                       (* reposWant[repos[d]]: reads immutable data only *)
  | Some a =>
      let '(lr, lw) := get_memo mh a in
      match pc with
      | EStart => if is_repo lr r then (inl ERet, mh) else (inl EWrote, set_memo mh a (Some r, false))
      | EWrote => (inl ERet, set_memo mh a (lr, want ps r))
      | ERet => (inr lw, mh)
      end
  end.

(** a search for the single atom: docMatchTree.nextDoc scans the predicate from the cursor on; the candidate is
    confirmed by docMatchTree.matches (second evaluation on the same document) and then collected *)
Record mthread := { mt_cell : option nat; mt_doc : nat; mt_confirm : bool; mt_pc : epc; mt_acc : list nat }.

Definition mt_step (ps : pshard) (th : mthread) (mh : mheap) : mthread * mheap :=
  if Nat.leb (p_ndocs ps) (mt_doc th) then (th, mh)
  else
    match eval_step ps (mt_cell th) (mt_doc th) (mt_pc th) mh with
    | (inl pc', mh') =>
        ({| mt_cell := mt_cell th; mt_doc := mt_doc th; mt_confirm := mt_confirm th; mt_pc := pc'; mt_acc := mt_acc th |}, mh')
    | (inr v, mh') =>
        if mt_confirm th
        then ({| mt_cell := mt_cell th; mt_doc := S (mt_doc th); mt_confirm := false; mt_pc := EStart;
                 mt_acc := if v then mt_acc th ++ [mt_doc th] else mt_acc th |}, mh')
        else if v
        then ({| mt_cell := mt_cell th; mt_doc := mt_doc th; mt_confirm := true; mt_pc := EStart; mt_acc := mt_acc th |}, mh')
        else ({| mt_cell := mt_cell th; mt_doc := S (mt_doc th); mt_confirm := false; mt_pc := EStart; mt_acc := mt_acc th |}, mh')
    end.

Definition mk_mthread (cell : option nat) : mthread :=
  {| mt_cell := cell; mt_doc := 0; mt_confirm := false; mt_pc := EStart; mt_acc := [] |}.

Fixpoint mt_run (fuel : nat) (ps : pshard) (th : mthread) (mh : mheap) : mthread * mheap :=
  match fuel with
  | O => (th, mh)
  | S f => let '(th', mh') := mt_step ps th mh in mt_run f ps th' mh'
  end.

(** one search while ANY other activity [env] acts on the memo heap before each of its steps *)
Fixpoint mt_run_env (env : nat -> mheap -> mheap) (fuel : nat) (ps : pshard) (th : mthread) (mh : mheap) : mthread * mheap :=
  match fuel with
  | O => (th, mh)
  | S f => let '(th', mh') := mt_step ps th (env f mh) in mt_run_env env f ps th' mh'
  end.

Fixpoint mpar_run (ps : pshard) (sched : list bool) (a b : mthread) (mh : mheap) : mthread * mthread * mheap :=
  match sched with
  | [] => (a, b, mh)
  | true :: r => let '(a', mh') := mt_step ps a mh in mpar_run ps r a' b mh'
  | false :: r => let '(b', mh') := mt_step ps b mh in mpar_run ps r a b' mh'
  end.

(** the sharing discipline of the cache: what the nodes handed out to two searches of the same atom share *)
Inductive sharing :=
| ShareImmutable        (* /repo: the closure reads a table computed before it was published; no memo *)
| SharePrivateMemo      (* every node handed out gets a memo cell of its own *)
| ShareMutableMemo.     (* the closure with its memo cell is what the cache hands to every search *)

Definition hand_out (sh : sharing) : option nat * option nat * mheap :=
  match sh with
  | ShareImmutable => (None, None, [])
  | SharePrivateMemo => (Some 0, Some 1, [(None, false); (None, false)])
  | ShareMutableMemo => (Some 0, Some 0, [(None, false)])
  end.

Definition mfuel (ps : pshard) : nat := S (6 * p_ndocs ps).

(** two concurrent searches of the same Meta atom under a schedule of their atomic steps; afterwards both run
    to completion *)
Definition mpar_search (sh : sharing) (ps : pshard) (sched : list bool) : list nat * list nat :=
  let '(ca, cb, mh0) := hand_out sh in
  let '(a, b, mh) := mpar_run ps sched (mk_mthread ca) (mk_mthread cb) mh0 in
  let '(a', mh1) := mt_run (mfuel ps) ps a mh in
  let '(b', _) := mt_run (mfuel ps) ps b mh1 in
  (mt_acc a', mt_acc b').

(** the documents of the atom = what a search returns alone *)
Definition mref (ps : pshard) : list nat := filter (fun d => want ps (repo_of ps d)) (seq 0 (p_ndocs ps)).
