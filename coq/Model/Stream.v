(** Model of the gRPC result streaming path as event-list transformers:
      samplingSender.Send / Flush        (cmd/zoekt-webserver/grpc/server/sampling.go)
      gRPCChunkSender                    (cmd/zoekt-webserver/grpc/server/server.go)
      chunk.SendAll / Chunker            (grpc/chunk/chunker.go)
      Stats.Add / Stats.Zero             (api.go)
    A file is (id, proto.Size of its FileMatch message); a priority is [option Z] with None = -Inf
    (the harness only generates integral priorities and -Inf). The counter vector holds every
    numeric field of zoekt.Stats that Stats.Add sums, in struct order; Duration (not summed) and
    FlushReason (first non-zero wins) are separate. All sends succeed (the property is about
    delivered results). *)
From ZV Require Import Lib.Base.
Open Scope Z_scope.

Definition pri := option Z.
Definition pmax (a b : pri) : pri :=            (* math.Max on {-Inf} + integers *)
  match a, b with
  | None, x => x
  | x, None => x
  | Some x, Some y => Some (Z.max x y)
  end.

Record stats := mkstats { st_cnt : list Z; st_dur : Z; st_fr : N }.
Definition file := (N * N)%type.
Record event := mkev { ev_files : list file; ev_stats : stats; ev_prio : pri; ev_maxp : pri }.
Record msg := mkmsg { m_files : list file; m_stats : option stats; m_prio : pri; m_maxp : pri }.

(** pointwise sum; a missing tail counts as zeros (SearchResult{} is the empty vector) *)
Fixpoint vadd (a b : list Z) : list Z :=
  match a, b with
  | [], _ => b
  | _, [] => a
  | x :: a', y :: b' => (x + y) :: vadd a' b'
  end.

(** Stats.Add: counters summed, Duration untouched, first non-zero FlushReason sticky *)
Definition stats_add (s o : stats) : stats :=
  mkstats (vadd (st_cnt s) (st_cnt o)) (st_dur s) (if N.eqb (st_fr s) 0 then st_fr o else st_fr s).
(** Stats.Zero: no counter is > 0 (Duration and FlushReason are not looked at) *)
Definition stats_zero (s : stats) : bool := forallb (fun x => x <=? 0) (st_cnt s).
Definition stats0 : stats := mkstats [] 0 0%N.

(** ---- samplingSender *)
Record sampler := mksampler { agg : stats; agg_prio : pri; agg_maxp : pri; agg_count : N }.
Definition sampler0 : sampler := mksampler stats0 (Some 0) (Some 0) 0%N.

Definition sampler_send (s : sampler) (e : event) : sampler * list event :=
  match ev_files e with
  | [] =>
      let c := N.succ (agg_count s) in
      let a := stats_add (agg s) (ev_stats e) in
      if N.eqb (c mod 100)%N 0 && negb (stats_zero a)
      then (mksampler stats0 (Some 0) (Some 0) c, [mkev [] a (ev_prio e) (ev_maxp e)])
      else (mksampler a (ev_prio e) (ev_maxp e) c, [])
  | _ =>
      if negb (stats_zero (agg s))
      then (mksampler stats0 (Some 0) (Some 0) (agg_count s),
            [mkev (ev_files e) (stats_add (ev_stats e) (agg s)) (ev_prio e) (ev_maxp e)])
      else (s, [e])
  end.

Definition sampler_flush (s : sampler) : list event :=
  if negb (stats_zero (agg s)) then [mkev [] (agg s) None None] else [].

Fixpoint sampler_run (s : sampler) (evs : list event) : sampler * list event :=
  match evs with
  | [] => (s, [])
  | e :: r => let '(s1, o1) := sampler_send s e in
              let '(s2, o2) := sampler_run s1 r in (s2, o1 ++ o2)
  end.

(** ---- chunk.Chunker: Send for every item, then Flush *)
Fixpoint chunk_go (maxsz : N) (items : list file) (buf : list file) (sz : N) : list (list file) :=
  match items with
  | [] => match buf with [] => [] | _ => [buf] end                      (* Flush *)
  | it :: r =>
      if (maxsz <=? snd it + sz)%N                                     (* itemSize + c.sizeBytes >= maxMessageSize *)
      then buf :: chunk_go maxsz r [it] (snd it)                        (* sendResponseMsg (even when the buffer is empty) *)
      else chunk_go maxsz r (buf ++ [it]) (sz + snd it)%N
  end.
Definition chunks (maxsz : N) (items : list file) : list (list file) := chunk_go maxsz items [] 0%N.

(** ---- gRPCChunkSender *)
Fixpoint mk_msgs (e : event) (total : nat) (first : bool) (sent : nat) (cs : list (list file)) : list msg :=
  match cs with
  | [] => []
  | c :: r =>
      let sent' := (sent + length c)%nat in
      let st := if first then Some (ev_stats e) else None in
      let maxp := if (sent' <? total)%nat then pmax (ev_prio e) (ev_maxp e) else ev_maxp e in
      mkmsg c st (ev_prio e) maxp :: mk_msgs e total false sent' r
  end.
Definition grpc_send (maxsz : N) (e : event) : list msg :=
  match ev_files e with
  | [] => [mkmsg [] (Some (ev_stats e)) (ev_prio e) (ev_maxp e)]
  | fs => mk_msgs e (length fs) true 0 (chunks maxsz fs)
  end.

(** ---- the whole path: StreamSearch pushes [evs] into the sampler, then Flush *)
Definition sampled (evs : list event) : list event :=
  let '(s, out) := sampler_run sampler0 evs in out ++ sampler_flush s.
Definition deliver (maxsz : N) (evs : list event) : list msg := flat_map (grpc_send maxsz) (sampled evs).

(** ---- correspondence runner: (maxMessageSize, produced events, messages recorded on the stream) *)
Definition c25case := (N * list event * list msg)%type.

Definition pri_eqb (a b : pri) : bool :=
  match a, b with None, None => true | Some x, Some y => Z.eqb x y | _, _ => false end.
Definition file_eqb (a b : file) : bool := N.eqb (fst a) (fst b) && N.eqb (snd a) (snd b).
(** counter vectors are compared up to trailing zeros *)
Fixpoint vec_eqb (a b : list Z) : bool :=
  match a, b with
  | [], _ => forallb (Z.eqb 0) b
  | _, [] => forallb (Z.eqb 0) a
  | x :: a', y :: b' => Z.eqb x y && vec_eqb a' b'
  end.
Definition stats_eqb (a b : stats) : bool :=
  vec_eqb (st_cnt a) (st_cnt b) && Z.eqb (st_dur a) (st_dur b) && N.eqb (st_fr a) (st_fr b).
Definition ostats_eqb (a b : option stats) : bool :=
  match a, b with None, None => true | Some x, Some y => stats_eqb x y | _, _ => false end.
Definition msg_eqb (a b : msg) : bool :=
  list_eqb file_eqb (m_files a) (m_files b) && ostats_eqb (m_stats a) (m_stats b)
  && pri_eqb (m_prio a) (m_prio b) && pri_eqb (m_maxp a) (m_maxp b).
Definition c25_ok (c : c25case) : bool :=
  let '(maxsz, evs, out) := c in list_eqb msg_eqb (deliver maxsz evs) out.
Definition c25_mismatches (cs : list c25case) : list N := bad_indexes c25_ok cs.
