(** C14 — model of gitindex/tree.go (RepoWalker.CollectFiles / handleEntry, submodules not configured)
    and of the document creation of gitindex/index.go (indexGitRepo's key ordering is irrelevant for the
    document multiset; createDocument = go-git path; indexCatfileBlobs = cat-file path, on top of
    Model/Catfile.v's reader).

    Boundary (trusted): go-git's object access and TreeWalker (a branch is given as the list of tree
    entries the recursive walker yields, with full paths), the `git cat-file --batch` output format, the
    glob matchers (ignore file: verdict function per branch; LargeFiles: verdict function), index.Builder's
    round trip (skip rewriting modelled by [builder_view] as in C15). *)
From ZV Require Import Lib.Base Model.IgnoreFile Model.DirWalk Model.Catfile.

Inductive gmode := GRegular | GExec | GSymlink | GDir | GSubmodule | GOtherMode.

Record gentry := { ge_path : bytes; ge_mode : gmode; ge_id : N }.

Record gbranch := {
  gb_name : bytes;
  gb_entries : list gentry;          (* what object.NewTreeWalker(t, true, _) yields, in order *)
  gb_ignored : bytes -> bool         (* verdict of the matcher parsed from this tree's .sourcegraph/ignore *)
}.

Definition is_file_mode (m : gmode) : bool :=
  match m with GRegular | GExec | GSymlink => true | _ => false end.

(** ---------- the tree walk of CollectFiles.  A tree object = the forest of its entries (name, mode, hash, and for a
    directory the forest of the tree object [object.GetTree(storer, entry.Hash)] returns).  Hashes are plain annotations:
    nothing forces them to differ, so "the same tree object at several paths" (equal hashes, equal forests) is one of the
    quantified cases.

    Current code (after the repairs 8664339 and 39be1f9): RepoWalker.walkTree, an own recursion over tree.Entries
    ([walk_forest]: entry handed to handleEntry, then — for a directory — the depth test and the recursion); no seen set, no
    judgement of names.
    Code before the repairs: go-git's object.TreeWalker in recursive mode with the [seen] map the caller hands over
    ([tw_step]/[tw_run]/[tree_entries_before_fix], kept for the _refuted_before_fix theorems).  TreeWalker.Next's loop is run
    one iteration per unit of fuel; the walker state is go-git's: the stack of entry iterators (remaining entries of each open
    tree), [base] (a string, restored with path.Split + TrimSuffix when a tree is finished) and [seen].  CollectFiles passed
    make(map[plumbing.Hash]bool) and neither it nor the walker ever wrote to it: [tw_seen] is constant along a run;
    [tw_step] reads it exactly where Next does (`if w.seen[entry.Hash] { continue }` — for EVERY entry, blob or tree). *)
Inductive gnode := GNode (m : gmode) (h : N) (ch : gforest)
with gforest := GNil | GCons (name : bytes) (n : gnode) (r : gforest).

Definition max_tree_depth : nat := 1024.

(** pathutil.ValidTreePath on an entry name: no control character; at least one field when split at '\' and '/';
    no field ".", "..", ".git"/"git~1" (ASCII case folding; the HFS/NTFS-ignorable variants are not modelled). *)
Definition is_ctrl (b : N) : bool := (b <? 32)%N || (b =? 127)%N.
Definition is_sep (b : N) : bool := (b =? 92)%N || (b =? 47)%N.
Fixpoint name_fields (cur : bytes) (l : bytes) : list bytes :=     (* strings.FieldsFunc(name, is_sep); cur reversed *)
  match l with
  | [] => match cur with [] => [] | _ => [rev cur] end
  | b :: r => if is_sep b then match cur with [] => name_fields [] r | _ => rev cur :: name_fields [] r end
              else name_fields (b :: cur) r
  end.
Definition ascii_lower (b : N) : N := if (65 <=? b)%N && (b <=? 90)%N then (b + 32)%N else b.
Definition bad_field (p : bytes) : bool :=
  bytes_eqb p [46]%N || bytes_eqb p [46;46]%N ||
  bytes_eqb (map ascii_lower p) [46;103;105;116]%N || bytes_eqb (map ascii_lower p) [103;105;116;126;49]%N.
Definition valid_name (n : bytes) : bool :=
  negb (existsb is_ctrl n) &&
  match name_fields [] n with [] => false | ps => negb (existsb bad_field ps) end.

Definition simple_join (parent child : bytes) : bytes :=
  match parent with [] => child | _ => parent ++ 47%N :: child end.
(** w.base, _ = path.Split(w.base); w.base = strings.TrimSuffix(w.base, "/") *)
Fixpoint from_first_slash (l : bytes) : bytes :=
  match l with [] => [] | b :: r => if (b =? 47)%N then l else from_first_slash r end.
Definition path_split_dir (p : bytes) : bytes := rev (from_first_slash (rev p)).
Definition trim_slash_suffix (p : bytes) : bytes := match rev p with 47%N :: r => rev r | _ => p end.
Definition parent_base (p : bytes) : bytes := trim_slash_suffix (path_split_dir p).

Definition memN (x : N) (l : list N) : bool := existsb (N.eqb x) l.

Record twalker := { tw_stack : list gforest; tw_base : bytes; tw_seen : list N }.

Definition tw_init (root : gforest) (seen : list N) : twalker := {| tw_stack := [root]; tw_base := []; tw_seen := seen |}.

Inductive tw_out :=
| TwEOF                                   (* stack empty: io.EOF *)
| TwErrDepth                              (* ErrMaxTreeDepth, state unchanged: every later Next reports it again *)
| TwContinue                              (* `continue`: tree finished, or entry skipped because its hash is in seen *)
| TwYield (e : gentry)                    (* Next returns (name, entry, nil) *)
| TwInvalid (e : gentry).                 (* Next returns ("", entry, ErrInvalidPath): CollectFiles only tests for io.EOF
                                             and hands ("", entry) to handleEntry; the tree is not descended into *)

Definition tw_step (w : twalker) : tw_out * twalker :=
  match tw_stack w with
  | [] => (TwEOF, w)
  | it :: rest =>
      if max_tree_depth <? length rest then (TwErrDepth, w)         (* current = len(stack)-1 > maxTreeDepth *)
      else match it with
      | GNil => (TwContinue, {| tw_stack := rest; tw_base := parent_base (tw_base w); tw_seen := tw_seen w |})
      | GCons name (GNode m h ch) it' =>
          let stay := {| tw_stack := it' :: rest; tw_base := tw_base w; tw_seen := tw_seen w |} in
          if memN h (tw_seen w) then (TwContinue, stay)
          else if negb (valid_name name) then (TwInvalid {| ge_path := []; ge_mode := m; ge_id := h |}, stay)
          else let full := simple_join (tw_base w) name in
               let e := {| ge_path := full; ge_mode := m; ge_id := h |} in
               match m with
               | GDir => (TwYield e, {| tw_stack := ch :: it' :: rest; tw_base := full; tw_seen := tw_seen w |})
               | _ => (TwYield e, stay)
               end
      end
  end.

(** the entries the `for { name, entry, err := tw.Next(); if err == io.EOF { break }; handleEntry(name, &entry) }` loop
    hands to handleEntry.  Err 1: the walker is stuck on ErrMaxTreeDepth (CollectFiles does not test for it: it loops
    forever handing zero entries to handleEntry); Err 2: out of fuel (never with [walk_fuel], see Proofs/GitTreeWalk.v). *)
Fixpoint tw_run (fuel : nat) (w : twalker) : outcome (list gentry) :=
  match fuel with
  | 0 => Err 2
  | S f =>
      match tw_step w with
      | (TwEOF, _) => Ok []
      | (TwErrDepth, _) => Err 1
      | (TwContinue, w') => tw_run f w'
      | (TwYield e, w') => do r <- tw_run f w'; Ok (e :: r)
      | (TwInvalid e, w') => do r <- tw_run f w'; Ok (e :: r)
      end
  end.

Fixpoint node_size (n : gnode) : nat := match n with GNode _ _ ch => 2 + forest_size ch end
with forest_size (f : gforest) : nat := match f with GNil => 0 | GCons _ n r => node_size n + forest_size r end.

Definition walk_fuel (root : gforest) : nat := forest_size root + 2.

(** what CollectFiles saw of a branch tree before the repairs: the walk with the empty, never written [seen] map *)
Definition tree_entries_before_fix (root : gforest) : outcome (list gentry) := tw_run (walk_fuel root) (tw_init root []).

(** RepoWalker.walkTree(t, base, depth, fn) of the current code: `if depth > maxTreeDepth` is tested on entry of every call
    (never true for the root call, depth 0); Err 1 = the "more than 1024 nested directories" error, which CollectFiles returns *)
Fixpoint walk_forest (depth : nat) (base : bytes) (f : gforest) : outcome (list gentry) :=
  match f with
  | GNil => Ok []
  | GCons name (GNode m h ch) r =>
      let full := simple_join base name in
      do below <- match m with
                  | GDir => if max_tree_depth <? S depth then Err 1 else walk_forest (S depth) full ch
                  | _ => Ok []
                  end;
      do rest <- walk_forest depth base r;
      Ok ({| ge_path := full; ge_mode := m; ge_id := h |} :: below ++ rest)
  end.

Definition tree_entries (root : gforest) : outcome (list gentry) := walk_forest 0 [] root.

(** reference: every path of the tree, a directory before its content, in tree order (= `git ls-tree -r -t`) *)
Fixpoint node_paths (base name : bytes) (n : gnode) : list gentry :=
  match n with
  | GNode m h ch =>
      let full := simple_join base name in
      {| ge_path := full; ge_mode := m; ge_id := h |} :: match m with GDir => forest_paths full ch | _ => [] end
  end
with forest_paths (base : bytes) (f : gforest) : list gentry :=
  match f with GNil => [] | GCons name n r => node_paths base name n ++ forest_paths base r end.

Definition gkey := (bytes * N)%type.     (* fileKey{Path, ID} (SubRepoPath is "" without submodules) *)
Definition gkey_eqb (a b : gkey) : bool := bytes_eqb (fst a) (fst b) && N.eqb (snd a) (snd b).

(** rw.Files as an association list in insertion order; value = BlobLocation.Branches *)
Definition gfiles := list (gkey * list bytes).

Fixpoint upsert (k : gkey) (branch : bytes) (fs : gfiles) : gfiles :=
  match fs with
  | [] => [(k, [branch])]
  | (k', brs) :: r => if gkey_eqb k' k then (k', brs ++ [branch]) :: r else (k', brs) :: upsert k branch r
  end.

(** handleEntry without a repo cache: gitlinks only record a version, trees are recursed into by the
    walker itself, anything that is not a regular / executable / symlink entry yields nothing *)
Definition handle_entry (ig : bytes -> bool) (branch : bytes) (fs : gfiles) (e : gentry) : gfiles :=
  if is_file_mode (ge_mode e) then
    if ig (ge_path e) then fs else upsert (ge_path e, ge_id e) branch fs
  else fs.

Definition collect_branch (fs : gfiles) (b : gbranch) : gfiles :=
  fold_left (handle_entry (gb_ignored b) (gb_name b)) (gb_entries b) fs.

Definition collect (bs : list gbranch) : gfiles := fold_left collect_branch bs [].

(** ---------- documents *)

Fixpoint lookup_blob (id : N) (blobs : list (N * bytes)) : option bytes :=
  match blobs with
  | [] => None
  | (k, c) :: r => if N.eqb k id then Some c else lookup_blob id r
  end.

(** newIgnoreMatcher(tree): tree.File(".sourcegraph/ignore") finds the entry and reads it as a blob — any blob-typed
    entry counts (also a symlink: its target text is then parsed as patterns); a tree or a gitlink there is "not found" *)
Definition ignore_path : bytes :=   (* ".sourcegraph/ignore" *)
  [46;115;111;117;114;99;101;103;114;97;112;104;47;105;103;110;111;114;101]%N.

Fixpoint tree_ignore_content (blobs : list (N * bytes)) (es : list gentry) : option bytes :=
  match es with
  | [] => None
  | e :: r => if bytes_eqb (ge_path e) ignore_path
              then (if is_file_mode (ge_mode e) then lookup_blob (ge_id e) blobs else None)
              else tree_ignore_content blobs r
  end.

Definition gbranch_of (glob : bytes -> bytes -> bool) (blobs : list (N * bytes)) (name : bytes) (es : list gentry) : gbranch :=
  {| gb_name := name; gb_entries := es;
     gb_ignored := match tree_ignore_content blobs es with
                   | Some c => ignore_match glob c
                   | None => fun _ => false
                   end |}.


Definition marker_missing : bytes :=   (* "NOT-INDEXED: object missing from repository" *)
  [78;79;84;45;73;78;68;69;88;69;68;58;32;111;98;106;101;99;116;32;109;105;115;115;105;110;103;32;102;114;111;109;32;114;101;112;111;115;105;116;111;114;121]%N.

Record gdoc := { gd_name : bytes; gd_branches : list bytes; gd_content : bytes }.

(** Builder.Add on a document with content: a LargeFiles match lifts the size limit *)
Definition add_view (size_max : nat) (allow_large : bool) (c : bytes) : bytes :=
  if allow_large then builder_view (length c) c else builder_view size_max c.

(** createDocument (go-git): an unknown object counts as "too large" (filtered clone) *)
Definition doc_gogit (size_max : nat) (large_ok : bytes -> bool) (blobs : list (N * bytes)) (f : gkey * list bytes) : gdoc :=
  let '((path, id), brs) := f in
  {| gd_name := path; gd_branches := brs;
     gd_content := match lookup_blob id blobs with
                   | None => marker_too_large
                   | Some c => if (size_max <? length c) && negb (large_ok path) then marker_too_large
                               else add_view size_max (large_ok path) c
                   end |}.

Definition docs_gogit size_max large_ok blobs (bs : list gbranch) : list gdoc :=
  map (doc_gogit size_max large_ok blobs) (collect bs).

(** indexCatfileBlobs: one Next per key, then io.ReadFull into a slab slice unless missing / excluded /
    too large.  [avail] is the schedule of the buffered layer (how much each Read call hands over). *)
Fixpoint read_full (st : creader) (n : nat) (avail : nat -> nat) (fuel : nat) (acc : cbytes) : creader * option cbytes :=
  match n with
  | 0 => (st, Some acc)                          (* io.ReadFull with nothing left to read *)
  | _ => match fuel with
         | 0 => (st, None)
         | S fuel' =>
             let '(st', (d, code)) := cf_read st n (avail fuel) in
             match code with
             | RNil => read_full st' (n - length d) avail fuel' (acc ++ d)
             | _ => (st', None)                  (* ErrUnexpectedEOF / error *)
             end
         end
  end.

Fixpoint docs_catfile_loop (size_max : nat) (large_ok : bytes -> bool) (avail : nat -> nat)
         (st : creader) (fs : gfiles) : outcome (list gdoc) :=
  match fs with
  | [] => Ok []
  | ((path, id), brs) :: r =>
      let '(st1, res) := cf_next st in
      let continue_with (st' : creader) (content : bytes) :=
        do rest <- docs_catfile_loop size_max large_ok avail st' r;
        Ok ({| gd_name := path; gd_branches := brs; gd_content := content |} :: rest) in
      match res with
      | NEOF | NErr => Err 1
      | NMissing => continue_with st1 marker_missing
      | NExcluded => continue_with st1 marker_too_large
      | NEntry size =>
          if (Z.of_nat size_max <? size)%Z && negb (large_ok path) then continue_with st1 marker_too_large
          else if (size <? 0)%Z then Panic 1      (* slab.alloc of a negative length *)
          else match read_full st1 (Z.to_nat size) avail (S (Z.to_nat size)) [] with
               | (st2, Some c) => continue_with st2 (add_view size_max (large_ok path) c)
               | (_, None) => Err 2
               end
      end
  end.

(** the response `git cat-file --batch` gives for the requested ids (trusted format) *)
Fixpoint dec_digits_aux (fuel : nat) (n : N) (acc : cbytes) : cbytes :=
  match fuel with
  | 0 => acc
  | S f => let acc' := (48 + N.modulo n 10)%N :: acc in
           if (n <? 10)%N then acc' else dec_digits_aux f (N.div n 10) acc'
  end.
Definition dec_digits (n : nat) : cbytes := dec_digits_aux (S n) (N.of_nat n) [].

Definition oid_of (id : N) : cbytes := dec_digits (N.to_nat id).   (* any newline- and space-free rendering *)
Definition s_blob : cbytes := [98;108;111;98]%N.

Definition response_for (blobs : list (N * bytes)) (id : N) : resp :=
  match lookup_blob id blobs with
  | None => RMissing (oid_of id)
  | Some c => RPresent (oid_of id) s_blob (dec_digits (length c)) c
  end.

Definition docs_catfile size_max large_ok blobs avail (bs : list gbranch) : outcome (list gdoc) :=
  let fs := collect bs in
  docs_catfile_loop size_max large_ok avail
    (cf_init (encode (map (fun f => response_for blobs (snd (fst f))) fs))) fs.

(** ---------- correspondence runner (end-to-end: generated repositories indexed through both paths) *)

Definition gdoc_eqb (a b : gdoc) : bool :=
  bytes_eqb (gd_name a) (gd_name b) && list_eqb bytes_eqb (gd_branches a) (gd_branches b)
  && bytes_eqb (gd_content a) (gd_content b).

Fixpoint remove_first_g (x : gdoc) (l : list gdoc) : option (list gdoc) :=
  match l with
  | [] => None
  | y :: r => if gdoc_eqb x y then Some r
              else match remove_first_g x r with Some r' => Some (y :: r') | None => None end
  end.
Fixpoint gms_eqb (a b : list gdoc) : bool :=
  match a with
  | [] => match b with [] => true | _ => false end
  | x :: a' => match remove_first_g x b with Some b' => gms_eqb a' b' | None => false end
  end.

(** case: SizeMax, paths with a LargeFiles match, blobs (id, content), branches (name, root tree as a forest with the
    object ids of `git ls-tree -t`: the MODEL walks it with [tree_entries]), the (pattern, path) pairs the real glob engine
    matches (patterns: the harness' own reading of each branch's ignore blob; the MODEL finds the ignore entry in the tree
    and derives the patterns itself), documents read back after the go-git run, after the cat-file run. *)
Definition c14gcase :=
  (N * list bytes * list (N * bytes) * list (bytes * gforest) * list (bytes * bytes)
   * list (bytes * list bytes * bytes) * list (bytes * list bytes * bytes))%type.

Definition mk_gdoc (t : bytes * list bytes * bytes) : gdoc :=
  let '(n, brs, c) := t in {| gd_name := n; gd_branches := brs; gd_content := c |}.

Fixpoint branches_of_trees (glob : bytes -> bytes -> bool) (blobs : list (N * bytes)) (brs : list (bytes * gforest))
  : outcome (list gbranch) :=
  match brs with
  | [] => Ok []
  | (name, root) :: r =>
      do es <- tree_entries root;
      do rest <- branches_of_trees glob blobs r;
      Ok (gbranch_of glob blobs name es :: rest)
  end.

(** a shard stores the branches of a document as a bit mask: a branch recorded twice in BlobLocation.Branches (only possible
    when two entries of one tree are handed over with the same path, i.e. for names the walker rejects) reads back once *)
Fixpoint dedup_names (l : list bytes) : list bytes :=
  match l with [] => [] | x :: r => x :: filter (fun y => negb (bytes_eqb x y)) (dedup_names r) end.
Definition as_stored (d : gdoc) : gdoc :=
  {| gd_name := gd_name d; gd_branches := dedup_names (gd_branches d); gd_content := gd_content d |}.

Definition c14g_ok (c : c14gcase) : bool :=
  let '(size_max, large, blobs, brs, tab, docs_a, docs_b) := c in
  match branches_of_trees (table_glob tab) blobs brs with
  | Ok bs =>
      let large_ok := fun p => mem_name p large in
      let sm := N.to_nat size_max in
      gms_eqb (map as_stored (docs_gogit sm large_ok blobs bs)) (map mk_gdoc docs_a) &&
      match docs_catfile sm large_ok blobs (fun _ => 7) bs with
      | Ok d => gms_eqb (map as_stored d) (map mk_gdoc docs_b)
      | _ => false
      end
  | _ => false          (* more than 1024 nested directories: IndexGitRepo returns an error, no documents to compare *)
  end.
Definition c14g_mismatches (cs : list c14gcase) : list N := bad_indexes c14g_ok cs.
